module fpcheck

go 1.26.0

require golang.org/x/tools v0.50.0

require (
	golang.org/x/mod v0.41.0 // indirect
	golang.org/x/sync v0.23.0 // indirect
)
