#!/usr/bin/env python3
"""confirm_seed.py <Cxx> <a|b|c..>: independently confirm a seeded change from $SEED_ROOT (default /tmp/seed)/<Cxx>/<letter>:
 - demo passes on the clean tree, fails with the patch;
 - patched tree builds and the pinned baseline tests still pass;
then run /verif's check(s) for the property on the patched tree and store everything under /verif/seeded/<Cxx><ab>/."""
import sys, os, re, json, shutil, subprocess, tempfile, glob
prop, ab = sys.argv[1], sys.argv[2]
extra_props = sys.argv[3:]  # additional properties to run
src = os.path.join(os.environ.get("SEED_ROOT", "/tmp/seed"), prop, ab)
patch = os.path.join(src, "patch.diff")
demos = glob.glob(os.path.join(src, "demo*.go"))
assert os.path.exists(patch) and demos, "missing deliverables in " + src
env = dict(os.environ, GOFLAGS="-mod=mod", GOPROXY="off", GOSUMDB="off", GOTOOLCHAIN="local")
env.pop("GOWORK", None)
wt = tempfile.mkdtemp(prefix="fpseed.")
os.rmdir(wt)
def sh(cmd, cwd=None, timeout=600):
    try:
        r = subprocess.run(cmd, shell=True, cwd=cwd, env=env, capture_output=True, text=True, timeout=timeout)
        return r.returncode, r.stdout + r.stderr
    except subprocess.TimeoutExpired as e:
        return 124, "TIMEOUT " + str(e)
meta = {"property": prop, "variant": ab}
try:
    rc, out = sh(f"git -C /repo worktree add -q --detach {wt} HEAD")
    assert rc == 0, out
    demo = demos[0]
    text = open(demo).read()
    pkg = re.search(r'^package (\w+)', text, re.M).group(1)
    tests = re.findall(r'^func (Test\w+)\(', text, re.M)
    if pkg == "main":
        ddir = os.path.join(wt, "zz_seed_demo"); os.makedirs(ddir); shutil.copy(demo, os.path.join(ddir, "main.go"))
        run = f"go run ./zz_seed_demo"
    else:
        sub = {"fpgo": ".", "network": "network", "worker": "worker"}.get(pkg.replace("_test", ""), ".")
        shutil.copy(demo, os.path.join(wt, sub, "zz_seed_demo_test.go"))
        run = f"go test -vet=off -count=1 -timeout 120s -run '^({'|'.join(tests)})$' ./{sub}"
    meta["demo_cmd"] = run
    rc_clean, out_clean = sh(run, cwd=wt, timeout=300)
    meta["demo_on_clean_tree"] = "pass" if rc_clean == 0 else "FAIL rc=%d" % rc_clean
    rc, out = sh(f"git apply {patch}", cwd=wt)
    assert rc == 0, "patch does not apply: " + out
    rc_build, out_build = sh("go build ./...", cwd=wt)
    meta["builds_with_patch"] = rc_build == 0
    rc_demo, out_demo = sh(run, cwd=wt, timeout=300)
    meta["demo_with_patch"] = "fails (rc=%d)" % rc_demo if rc_demo != 0 else "PASSES"
    meta["demo_failure_excerpt"] = "\n".join([l for l in out_demo.splitlines() if re.search(r'(--- FAIL|panic|Error:|expected|actual|want|got|deadlock|TIMEOUT)', l)][:8])
    # existing suite without the demo file
    for f in glob.glob(os.path.join(wt, "**", "zz_seed_demo*"), recursive=True):
        if os.path.isdir(f): shutil.rmtree(f)
        else: os.remove(f)
    rc_base, out_base = sh(f"/verif/tools/baseline.py {wt}", timeout=900)
    meta["existing_suite_with_patch"] = out_base.strip().splitlines()[-1] if out_base.strip() else "?"
    ok = rc_clean == 0 and rc_build == 0 and rc_demo != 0 and rc_base == 0
    meta["confirmed"] = ok
    # our checks on the patched tree
    res = {}
    for p in [prop] + extra_props:
        rc, out = sh(f"/verif/tools/trymut.sh {patch} {p}")
        lines=[l for l in out.strip().splitlines() if l.startswith(("DETECTED","missed","PATCH-FAILED","BUILD-FAILED"))]
        res[p] = lines[-1][:500] if lines else "?"
    meta["checks_on_patched_tree"] = res
    meta["detected_by"] = [p for p, v in res.items() if v.startswith("DETECTED")]
    notes = os.path.join(src, "notes.md")
    dst = f"/verif/seeded/{prop}{ab}"
    os.makedirs(dst, exist_ok=True)
    shutil.copy(patch, os.path.join(dst, "patch.diff"))
    shutil.copy(demo, os.path.join(dst, os.path.basename(demo)))
    if os.path.exists(notes):
        shutil.copy(notes, os.path.join(dst, "agent_notes.md"))
        n = open(notes).read()
        meta["needs_to_manifest"] = " ".join(n.split())[:600]
    meta["what_was_run"] = ["git worktree add (scratch)", run + " (clean tree)", "git apply patch.diff", "go build ./...", run + " (patched)", "/verif/tools/baseline.py <worktree> (pinned 37 tests, patched)", "/verif/tools/trymut.sh patch.diff " + prop]
    json.dump(meta, open(os.path.join(dst, "meta.json"), "w"), indent=1)
    print(json.dumps({k: meta[k] for k in ("property", "variant", "confirmed", "demo_on_clean_tree", "demo_with_patch", "existing_suite_with_patch", "detected_by")}))
finally:
    sh(f"git -C /repo worktree remove --force {wt}")
    shutil.rmtree(wt, ignore_errors=True)
