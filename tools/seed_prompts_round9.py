#!/usr/bin/env python3
# Generates the round-9 seeding prompts (one per property) under /tmp/seed9/<id>/prompt.txt. The agents get only the
# property text and a private worktree /tmp/sw9/<id>; nothing from /verif.
import json,os
T='''You work ONLY inside the git worktree {wt} (a checkout of the Go library TeaEntityLab/fpGo v2, module github.com/TeaEntityLab/fpGo/v2). Do not touch /repo or /verif and do not read anything under /verif.

Below is a semantic property of this library that holds on the current tree. Your task: write TWO independent code changes to the LIBRARY (not the tests), each a CLEAN-UP COMMIT IN ONE OF THE STYLES BELOW THAT GOES SUBTLY WRONG: almost all of the diff is a faithful, behaviour-preserving rewrite, but one small slip inside it breaks the property for some input, schedule or history. Styles (use a different one for each change, and pick styles that fit the code the property is anchored in):
 - seams for testing: calls of `time.Now` / `time.Sleep` / `time.After` / `reflect` / `sort` helpers routed through unexported function variables or per-object function fields, a collaborator put behind a small unexported interface, a collaborator injected through an unexported constructor - where one call site binds the wrong function (`time.Sleep` for `time.After`, a stub left in place), the interface is satisfied by a COPY (value receiver) or by a second implementation that differs, a nil interface holding a nil pointer changes a nil check, or the injected collaborator is shared between instances;
 - construction options: functional options / an options struct as new API with the old constructors delegating - where a default differs from today's value for one field, options are applied after the goroutines have started, a zero value is taken for "unset", or two instances share state through a default object;
 - flags to states: boolean flags replaced by a small state type with named constants and helper predicates - where one helper has the wrong polarity or constant, a transition is no longer monotonic (closed can go back to open), two flags merged into one state lose a combination, atomicity or the order relative to a channel operation changes;
 - generics housekeeping: an `interface{{}}`-based helper made generic (or the reverse), constraints loosened / tightened, explicit instantiations, named function types - where a type switch or comparison now sees a different dynamic type, a conversion truncates, the instantiation picks a different element type, or a generic helper shared by two call sites fits only one of them;
 - maintenance sweep: a broad shallow commit (renames, regrouped declarations, comments, wrapped lines, small lint fixes across many functions) that hides ONE behavioural slip among dozens of harmless edits - a swapped pair of same-typed arguments, a renamed local that now shadows or captures another variable, a dropped statement, an off-by-one introduced while "simplifying";
 - sentinel errors housekeeping: `errors.Is`, private `isXErr` helpers, wrapped errors (`%w`) or typed errors introduced - where a sentinel reaching callers is no longer identical (`==` fails), a helper tests the wrong sentinel, an error that used to be passed through is swallowed or replaced, or nil is returned on a failing path.
Each change must (1) still compile (`go build ./...`) and (2) leave the existing test suite passing. Make the slip hard to spot in review: it should look like part of the clean-up. Do not simply delete or negate the obvious line.

PROPERTY {id}: {title}
Statement: {statement}
Quantified over: {quant}
Code anchors: {anchors}

For each change k in (r, s):
 - make the edit in the worktree; build; run the existing tests: `go test -vet=off -count=1 ./...` (TestLinkedListQueue, TestWorkerJamDuration, TestNewBufferedChannelQueue and occasionally TestWorkerPool, TestScheduleWithTimeout, TestChannelQueue are timing-flaky on the unchanged tree, and TestLinkedListQueue can crash the test binary - ignore those; use -skip if needed). All other existing tests must still pass.
 - write a small demonstration test file demo_test.go (package fpgo for the root package, package worker for ./worker, package network for ./network; it will be copied next to the library sources as zz_seed_demo_test.go; test function names must start with TestSeed{id}<k>) that PASSES on the unchanged tree and FAILS (or panics / deadlocks within 60 s) with your change - a concrete input, schedule or history showing the property broken. The demo may only use API that exists on the unchanged tree (so that it compiles there); for concurrency changes make it as deterministic as you can.
 - save: `mkdir -p /tmp/seed9/{id}/<k>`; `git add -A -N . && git diff > /tmp/seed9/{id}/<k>/patch.diff` (library change only - do not include the demo file in the diff; new library files must be included); copy the demo to /tmp/seed9/{id}/<k>/demo_test.go; write /tmp/seed9/{id}/<k>/notes.md: what the commit claims to do, where the flaw is, which clause of the property it breaks, the failing input/schedule, and why the existing tests do not notice.
 - then `git reset -q && git checkout -- . && git clean -fdq` so the next change starts from the clean tree (each patch must apply to the clean tree on its own).

Environment (no network): run go as
  cd {wt} && GOFLAGS=-mod=mod GOPROXY=off GOSUMDB=off GOTOOLCHAIN=local go ...
Do NOT use `git stash` (it is shared between worktrees). Leave the worktree clean at the end and finish with a two-line summary (one line per change).'''
here=os.path.dirname(os.path.abspath(__file__))
for l in open(os.path.join(here,'..','properties.jsonl')):
    o=json.loads(l)
    d=f"/tmp/seed9/{o['id']}"
    os.makedirs(d,exist_ok=True)
    q=o['quantifier']; quant=q.get('text','') if isinstance(q,dict) else str(q)
    open(d+'/prompt.txt','w').write(T.format(wt=f"/tmp/sw9/{o['id']}",id=o['id'],title=o['title'],statement=o['statement'],quant=quant,anchors=json.dumps(o.get('anchors'))))
