#!/bin/bash
# confirm_round.sh <seed-root> <Cxx> [letters...]: confirm each seeded change of a round and store it under /verif/seeded
root=$1; prop=$2; shift 2
letters=${@:-c d e}
for l in $letters; do
  if [ -f "$root/$prop/$l/patch.diff" ]; then
    SEED_ROOT=$root /verif/tools/confirm_seed.py $prop $l 2>&1 | tail -1
  else
    echo "$prop $l: no deliverable"
  fi
done
