#!/usr/bin/env python3
# Generates the round-14 seeding prompts (one per property) under /tmp/seed14/<id>/prompt.txt. The agents get only the
# property text and a private worktree /tmp/sw14/<id>; nothing from /verif.
import json,os
T='''You work ONLY inside the git worktree {wt} (a checkout of the Go library TeaEntityLab/fpGo v2, module github.com/TeaEntityLab/fpGo/v2). Do not touch /repo or /verif and do not read anything under /verif.

Below is a semantic property of this library that holds on the current tree. Your task: write ONE code change to the LIBRARY (not the tests), a REALISTIC MAINTAINER COMMIT of your own choosing that goes subtly wrong. You decide what the commit is - read the code the property is anchored in and do what a maintainer plausibly would: a bug-fix attempt for a real wart you notice, a performance optimisation (fewer allocations, fewer lock acquisitions, a fast path), a small new feature or option with the old entry points delegating to it, a robustness change (nil guards, panics turned into errors, timeouts), a modernisation, a refactoring that merges or splits functions or types. Most of the diff must be correct and well motivated; ONE subtle flaw in it breaks the property for some input, schedule or history. The flaw must be spread over TWO COOPERATING SITES that each look fine alone: the commit touches two different functions (ideally in two different files or types) - for example a producer changes what it stores, publishes, locks or leaves behind, and a consumer elsewhere still assumes the old convention; a constructor or setter changes a default, and a method relying on it is adjusted only for the common case; a helper is given a new contract and one of its several callers is not brought along. A reviewer reading either hunk alone must see nothing wrong. In addition the flaw should need a multi-step history or a particular interleaving to manifest (three or more calls in a particular order, state left behind by a failed, timed-out or aborted call and seen by the next one, a second goroutine arriving at a particular moment). Ordinary use must not expose it. Aim at the LESS CENTRAL code: when the property names several functions, types or clauses, leave the most obvious one alone and pick the secondary entry points, the rarely used variants (the ...WithTimeout / ...ByOptions / ...ForInterface forms, setters, constructors with options), the clause that is stated last or in a subordinate sentence. Prefer flaws that a reviewer - or a tool that only looks at the shape of the code - would find hard to see: a boundary value (empty, nil, zero, one element, exactly-full, maximum), an interaction between two methods that are each fine on their own, an ordering between two operations that look independent, state that survives from one call to the next, an aliasing of memory that used to be copied, a fast path that skips a step the slow path performs, an error or edge case handled in one sibling but not in the other.
The change must (1) still compile (`go build ./...`) and (2) leave the existing test suite passing. Make the slip hard to spot in review: it should look like part of the clean-up. Do not simply delete or negate the obvious line.

PROPERTY {id}: {title}
Statement: {statement}
Quantified over: {quant}
Code anchors: {anchors}

For the change k = aa:
 - make the edit in the worktree; build; run the existing tests: `go test -vet=off -count=1 ./...` (TestLinkedListQueue, TestWorkerJamDuration, TestNewBufferedChannelQueue and occasionally TestWorkerPool, TestScheduleWithTimeout, TestChannelQueue are timing-flaky on the unchanged tree, and TestLinkedListQueue can crash the test binary - ignore those; use -skip if needed). All other existing tests must still pass.
 - write a small demonstration test file demo_test.go (package fpgo for the root package, package worker for ./worker, package network for ./network; it will be copied next to the library sources as zz_seed_demo_test.go; test function names must start with TestSeed{id}aa) that PASSES on the unchanged tree and FAILS (or panics / deadlocks within 60 s) with your change - a concrete input, schedule or history showing the property broken. The demo may only use API that exists on the unchanged tree (so that it compiles there); for concurrency changes make it as deterministic as you can.
 - save: `mkdir -p /tmp/seed14/{id}/<k>`; `git add -A -N . && git diff > /tmp/seed14/{id}/<k>/patch.diff` (library change only - do not include the demo file in the diff; new library files must be included); copy the demo to /tmp/seed14/{id}/<k>/demo_test.go; write /tmp/seed14/{id}/<k>/notes.md: what the commit claims to do, where the flaw is, which clause of the property it breaks, the failing input/schedule, and why the existing tests do not notice.
 - then `git reset -q && git checkout -- . && git clean -fdq` so the worktree is clean (the patch must apply to the clean tree on its own).

Environment (no network): run go as
  cd {wt} && GOFLAGS=-mod=mod GOPROXY=off GOSUMDB=off GOTOOLCHAIN=local go ...
Do NOT use `git stash` (it is shared between worktrees). Leave the worktree clean at the end and finish with a one-line summary.'''
here=os.path.dirname(os.path.abspath(__file__))
for l in open(os.path.join(here,'..','properties.jsonl')):
    o=json.loads(l)
    d=f"/tmp/seed14/{o['id']}"
    os.makedirs(d,exist_ok=True)
    q=o['quantifier']; quant=q.get('text','') if isinstance(q,dict) else str(q)
    open(d+'/prompt.txt','w').write(T.replace('<k>','aa').format(wt=f"/tmp/sw14/{o['id']}",id=o['id'],title=o['title'],statement=o['statement'],quant=quant,anchors=json.dumps(o.get('anchors'))))
