module automut

go 1.21
