// automut: systematic single-point mutants of selected functions of a Go file.
// usage: automut <file.go> <outdir> [func-name-regex]
// Writes outdir/<base>.<n>.go (the mutated file) and outdir/<base>.<n>.txt (description: func, line, operator).
package main

import (
	"bytes"
	"fmt"
	"go/ast"
	"go/parser"
	"go/printer"
	"go/token"
	"os"
	"path/filepath"
	"regexp"
	"strings"
)

type mutation struct {
	apply func()
	undo  func()
	desc  string
	pos   token.Pos
	fn    string
}

func main() {
	file, outdir := os.Args[1], os.Args[2]
	re := regexp.MustCompile(".*")
	if len(os.Args) > 3 {
		re = regexp.MustCompile(os.Args[3])
	}
	fset := token.NewFileSet()
	f, err := parser.ParseFile(fset, file, nil, parser.ParseComments)
	if err != nil {
		panic(err)
	}
	var muts []mutation
	swap := map[token.Token][]token.Token{
		token.EQL: {token.NEQ}, token.NEQ: {token.EQL},
		token.LSS: {token.LEQ, token.GTR}, token.LEQ: {token.LSS}, token.GTR: {token.GEQ, token.LSS}, token.GEQ: {token.GTR},
		token.LAND: {token.LOR}, token.LOR: {token.LAND},
		token.ADD: {token.SUB}, token.SUB: {token.ADD},
	}
	lockSwap := map[string]string{"Lock": "RLock", "RLock": "Lock", "Unlock": "RUnlock", "RUnlock": "Unlock"}
	for _, d := range f.Decls {
		fd, ok := d.(*ast.FuncDecl)
		if !ok || fd.Body == nil {
			continue
		}
		name := fd.Name.Name
		if fd.Recv != nil && len(fd.Recv.List) > 0 {
			var b bytes.Buffer
			printer.Fprint(&b, fset, fd.Recv.List[0].Type)
			name = strings.TrimLeft(b.String(), "*") + "." + name
			if i := strings.Index(name, "["); i >= 0 {
				name = name[:i] + name[strings.Index(name, "]")+1:]
			}
		}
		if !re.MatchString(name) {
			continue
		}
		fn := name
		// statement lists for deletion
		var visitBlock func(list *[]ast.Stmt)
		visitBlock = func(list *[]ast.Stmt) {
			for i := range *list {
				i := i
				st := (*list)[i]
				switch x := st.(type) {
				case *ast.ExprStmt:
					if _, isCall := x.X.(*ast.CallExpr); isCall {
						muts = append(muts, mutation{func() { (*list)[i] = &ast.EmptyStmt{Semicolon: st.Pos()} }, func() { (*list)[i] = st }, "delete call statement", st.Pos(), fn})
					}
				case *ast.IncDecStmt:
					old := x.Tok
					nt := token.DEC
					if old == token.DEC {
						nt = token.INC
					}
					muts = append(muts, mutation{func() { x.Tok = nt }, func() { x.Tok = old }, "++ <-> --", st.Pos(), fn})
					muts = append(muts, mutation{func() { (*list)[i] = &ast.EmptyStmt{Semicolon: st.Pos()} }, func() { (*list)[i] = st }, "delete inc/dec", st.Pos(), fn})
				case *ast.AssignStmt:
					if x.Tok == token.ASSIGN && len(x.Lhs) == 1 {
						if _, isSel := x.Lhs[0].(*ast.SelectorExpr); isSel {
							muts = append(muts, mutation{func() { (*list)[i] = &ast.EmptyStmt{Semicolon: st.Pos()} }, func() { (*list)[i] = st }, "delete field assignment", st.Pos(), fn})
						}
					}
				case *ast.DeferStmt:
					muts = append(muts, mutation{func() { (*list)[i] = &ast.ExprStmt{X: x.Call} }, func() { (*list)[i] = st }, "defer -> immediate call", st.Pos(), fn})
					muts = append(muts, mutation{func() { (*list)[i] = &ast.EmptyStmt{Semicolon: st.Pos()} }, func() { (*list)[i] = st }, "delete defer", st.Pos(), fn})
				case *ast.BranchStmt:
					if x.Label == nil && (x.Tok == token.BREAK || x.Tok == token.CONTINUE) {
						old := x.Tok
						nt := token.CONTINUE
						if old == token.CONTINUE {
							nt = token.BREAK
						}
						muts = append(muts, mutation{func() { x.Tok = nt }, func() { x.Tok = old }, "break <-> continue", st.Pos(), fn})
					}
				case *ast.GoStmt:
					muts = append(muts, mutation{func() { (*list)[i] = &ast.ExprStmt{X: x.Call} }, func() { (*list)[i] = st }, "go -> synchronous call", st.Pos(), fn})
				}
			}
		}
		ast.Inspect(fd.Body, func(n ast.Node) bool {
			switch x := n.(type) {
			case *ast.BlockStmt:
				visitBlock(&x.List)
			case *ast.CaseClause:
				visitBlock(&x.Body)
			case *ast.CommClause:
				visitBlock(&x.Body)
			case *ast.BinaryExpr:
				for _, nt := range swap[x.Op] {
					old, nt := x.Op, nt
					muts = append(muts, mutation{func() { x.Op = nt }, func() { x.Op = old }, fmt.Sprintf("%s -> %s", old, nt), x.OpPos, fn})
				}
			case *ast.IfStmt:
				oldc := x.Cond
				muts = append(muts, mutation{func() { x.Cond = &ast.UnaryExpr{Op: token.NOT, X: &ast.ParenExpr{X: oldc}} }, func() { x.Cond = oldc }, "negate if condition", x.Cond.Pos(), fn})
			case *ast.SelectorExpr:
				if to, ok := lockSwap[x.Sel.Name]; ok {
					old := x.Sel.Name
					muts = append(muts, mutation{func() { x.Sel.Name = to }, func() { x.Sel.Name = old }, old + " -> " + to, x.Sel.Pos(), fn})
				}
			case *ast.BasicLit:
				if x.Kind == token.INT && (x.Value == "0" || x.Value == "1") {
					old := x.Value
					nv := "1"
					if old == "1" {
						nv = "0"
					}
					muts = append(muts, mutation{func() { x.Value = nv }, func() { x.Value = old }, old + " -> " + nv, x.Pos(), fn})
				}
			case *ast.Ident:
				if x.Name == "true" || x.Name == "false" {
					old := x.Name
					nv := "false"
					if old == "false" {
						nv = "true"
					}
					muts = append(muts, mutation{func() { x.Name = nv }, func() { x.Name = old }, old + " -> " + nv, x.Pos(), fn})
				}
			case *ast.ReturnStmt:
				if len(x.Results) == 2 {
					// swap-insensitive; skip
				}
			}
			return true
		})
	}
	base := strings.TrimSuffix(filepath.Base(file), ".go")
	for i, m := range muts {
		m.apply()
		var b bytes.Buffer
		cfg := printer.Config{Mode: printer.UseSpaces | printer.TabIndent, Tabwidth: 8}
		if err := cfg.Fprint(&b, fset, f); err != nil {
			m.undo()
			continue
		}
		m.undo()
		os.WriteFile(filepath.Join(outdir, fmt.Sprintf("%s.%04d.go", base, i)), b.Bytes(), 0o644)
		os.WriteFile(filepath.Join(outdir, fmt.Sprintf("%s.%04d.txt", base, i)), []byte(fmt.Sprintf("%s:%d %s: %s\n", filepath.Base(file), fset.Position(m.pos).Line, m.fn, m.desc)), 0o644)
	}
	fmt.Println(len(muts), "mutants of", file)
}
