#!/usr/bin/env python3
"""automut_tests.py <list.json>: stage 2 for the given mutant files (those no check fired on): run the pinned baseline
tests; record tests_pass in tools/automut_last.json and print the survivors."""
import sys, os, json, subprocess, tempfile, shutil
from concurrent.futures import ThreadPoolExecutor
todo = json.load(open(sys.argv[1]))
d = json.load(open("/verif/tools/automut_last.json"))
def target(m):
    rel = os.path.basename(os.path.dirname(m))
    return rel.replace("worker_", "worker/").replace("network_", "network/")
def stage2(m):
    T = tempfile.mkdtemp(prefix="fpam2.")
    try:
        subprocess.run(["rsync", "-a", "--exclude", ".git", "/repo/", T + "/"], check=True)
        shutil.copy(m, os.path.join(T, target(m)))
        r = subprocess.run(["/verif/tools/baseline.py", T], capture_output=True, text=True, timeout=1800)
        return m, r.returncode == 0, (r.stdout.strip().splitlines() or ["?"])[-1]
    except subprocess.TimeoutExpired:
        return m, False, "timeout"
    finally:
        shutil.rmtree(T, ignore_errors=True)
n = 0
with ThreadPoolExecutor(max_workers=5) as ex:
    for m, passed, last in ex.map(stage2, todo):
        d["mutants"][m]["tests_pass"] = passed
        d["mutants"][m]["tests"] = last
        n += 1
        if n % 25 == 0:
            json.dump(d, open("/verif/tools/automut_last.json", "w"), indent=1)
            print(n, "done", flush=True)
json.dump(d, open("/verif/tools/automut_last.json", "w"), indent=1)
surv = sorted(v["desc"] for m, v in d["mutants"].items() if v.get("tests_pass"))
print("tested:", len(todo), "survive tests:", len(surv))
for s in surv:
    print("  SURVIVES", s)
