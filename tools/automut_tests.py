#!/usr/bin/env python3
"""automut_tests.py <list.json>: stage 2 for the given mutant files (those no check fired on): run the pinned baseline
tests; record tests_pass in tools/automut_last.json and print the survivors."""
import sys, os, json, subprocess, tempfile, shutil
subprocess.run(["/verif/tools/trimcache.sh"])  # keep the Go build cache bounded: every scratch copy adds entries
from concurrent.futures import ThreadPoolExecutor
todo = json.load(open(sys.argv[1]))
WANT = set(json.load(open("/root/.vp/BASELINE.json"))["stable_pass"])
ENV = dict(os.environ, GOFLAGS="-mod=mod", GOPROXY="off", GOSUMDB="off", GOTOOLCHAIN="local")
ENV.pop("GOWORK", None)
d = json.load(open("/verif/tools/automut_last.json"))
def target(m):
    rel = os.path.basename(os.path.dirname(m))
    return rel.replace("worker_", "worker/").replace("network_", "network/")
def stage2(m):
    T = tempfile.mkdtemp(prefix="fpam2.")
    try:
        subprocess.run(["rsync", "-a", "--exclude", ".git", "/repo/", T + "/"], check=True)
        shutil.copy(m, os.path.join(T, target(m)))
        passed = set()
        for attempt in range(3):
            cmd = ["go", "test", "-json", "-vet=off", "-count=1", "-timeout", "4m"]
            if attempt >= 1:
                names = sorted({k.split("::")[1] for k in WANT - passed})
                cmd += ["-run", "^(" + "|".join(names) + ")$"]
            try:
                out = subprocess.run(cmd + ["./..."], cwd=T, env=ENV, capture_output=True, text=True, timeout=400).stdout
            except subprocess.TimeoutExpired:
                out = ""
            for line in out.splitlines():
                try:
                    ev = json.loads(line)
                except Exception:
                    continue
                if ev.get("Test") and "/" not in ev["Test"] and ev.get("Action") == "pass":
                    passed.add(ev["Package"] + "::" + ev["Test"])
            if WANT <= passed:
                break
        missing = sorted(WANT - passed)
        return m, not missing, "missing: " + ",".join(x.split("::")[1] for x in missing[:4])
    except subprocess.TimeoutExpired:
        return m, False, "timeout"
    finally:
        shutil.rmtree(T, ignore_errors=True)
n = 0
with ThreadPoolExecutor(max_workers=8) as ex:
    for m, passed, last in ex.map(stage2, todo):
        d["mutants"][m]["tests_pass"] = passed
        d["mutants"][m]["tests"] = last
        n += 1
        if n % 25 == 0:
            json.dump(d, open("/verif/tools/automut_last.json", "w"), indent=1)
            print(n, "done", flush=True)
json.dump(d, open("/verif/tools/automut_last.json", "w"), indent=1)
surv = sorted(v["desc"] for m, v in d["mutants"].items() if v.get("tests_pass"))
print("tested:", len(todo), "survive tests:", len(surv))
for s in surv:
    print("  SURVIVES", s)
