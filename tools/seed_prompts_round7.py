#!/usr/bin/env python3
# Generates the round-7 seeding prompts (one per property) under /tmp/seed7/<id>/prompt.txt. The agents get only the
# property text and a private worktree /tmp/sw7/<id>; nothing from /verif.
import json,os
T='''You work ONLY inside the git worktree {wt} (a checkout of the Go library TeaEntityLab/fpGo v2, module github.com/TeaEntityLab/fpGo/v2). Do not touch /repo or /verif and do not read anything under /verif.

Below is a semantic property of this library that holds on the current tree. Your task: write TWO independent code changes to the LIBRARY (not the tests), each a CLEAN-UP COMMIT IN ONE OF THE STYLES BELOW THAT GOES SUBTLY WRONG: almost all of the diff is a faithful, behaviour-preserving rewrite, but one small slip inside it breaks the property for some input, schedule or history. Styles (use a different one for each change, and pick styles that fit the code the property is anchored in):
 - "modernisation" commits: `errors.Is`/`errors.As` or `%w` wrapping introduced on one side only, `interface{{}}` -> `any`, flags and counters moved onto `sync/atomic` typed values (or off them), `time.Since`/`time.NewTimer`/`context`, the standard `slices`/`maps`/`sort` helpers (`slices.Sort`, `slices.Reverse`, `slices.Delete`, `maps.Copy`, `sort.Slice`) in place of hand-written loops - where the modern form is subtly not the same (unstable sort, in-place operation on the caller's slice, a wrapped sentinel no longer compared equal, a non-atomic read-modify-write, a timer that is never drained);
 - embedding and promotion: a mutex / flag / helper struct embedded instead of named (or the reverse), related fields moved into an embedded or nested struct with its own small methods and constructor - where a struct holding a lock or counter is now copied by value, a method is called on a copy, a promoted method shadows or is shadowed, a constructor forgets one field or shares a map/slice between instances;
 - error and result plumbing: named results, `defer` that adjusts a result, `if err := ...; err != nil` scoping, reuse of one `err` variable, early returns with explicit zero values, `return x` collapsing - where a shadowed variable, an overwritten error, a result returned before a deferred update, or a wrong zero value slips in for one path;
 - moving code: helpers moved into a new file, a long function split into sequential steps, a closure turned into a named function (captured variables become parameters) - where one statement is lost, duplicated, or lands on the other side of a lock / check / send, or a parameter is evaluated at a different time than the captured variable was;
 - representation changes meant to be invisible: `map[K]bool` <-> `map[K]struct{{}}`, `chan int` wake-ups <-> `chan struct{{}}`, a WaitGroup <-> a done channel, `int` <-> sized or unsigned counters, slice-as-stack <-> index, ranging over a copy <-> indexing the live slice - where presence vs value, buffer size, close-vs-send, overflow/underflow or aliasing differs for some input or schedule;
 - dispatch restructuring: a type switch / if-chain split into per-case helpers or a lookup table, cases merged or reordered, a `default` added or removed, assertion chains for type switches - where one case is lost, two non-disjoint cases swap priority, or the missing-case behaviour changes.
Each change must (1) still compile (`go build ./...`) and (2) leave the existing test suite passing. Make the slip hard to spot in review: it should look like part of the clean-up. Do not simply delete or negate the obvious line.

PROPERTY {id}: {title}
Statement: {statement}
Quantified over: {quant}
Code anchors: {anchors}

For each change k in (n, o):
 - make the edit in the worktree; build; run the existing tests: `go test -vet=off -count=1 ./...` (TestLinkedListQueue, TestWorkerJamDuration, TestNewBufferedChannelQueue and occasionally TestWorkerPool, TestScheduleWithTimeout, TestChannelQueue are timing-flaky on the unchanged tree, and TestLinkedListQueue can crash the test binary - ignore those; use -skip if needed). All other existing tests must still pass.
 - write a small demonstration test file demo_test.go (package fpgo for the root package, package worker for ./worker, package network for ./network; it will be copied next to the library sources as zz_seed_demo_test.go; test function names must start with TestSeed{id}<k>) that PASSES on the unchanged tree and FAILS (or panics / deadlocks within 60 s) with your change - a concrete input, schedule or history showing the property broken. The demo may only use API that exists on the unchanged tree (so that it compiles there); for concurrency changes make it as deterministic as you can.
 - save: `mkdir -p /tmp/seed7/{id}/<k>`; `git add -A -N . && git diff > /tmp/seed7/{id}/<k>/patch.diff` (library change only - do not include the demo file in the diff; new library files must be included); copy the demo to /tmp/seed7/{id}/<k>/demo_test.go; write /tmp/seed7/{id}/<k>/notes.md: what the commit claims to do, where the flaw is, which clause of the property it breaks, the failing input/schedule, and why the existing tests do not notice.
 - then `git reset -q && git checkout -- . && git clean -fdq` so the next change starts from the clean tree (each patch must apply to the clean tree on its own).

Environment (no network): run go as
  cd {wt} && GOFLAGS=-mod=mod GOPROXY=off GOSUMDB=off GOTOOLCHAIN=local go ...
Do NOT use `git stash` (it is shared between worktrees). Leave the worktree clean at the end and finish with a two-line summary (one line per change).'''
here=os.path.dirname(os.path.abspath(__file__))
for l in open(os.path.join(here,'..','properties.jsonl')):
    o=json.loads(l)
    d=f"/tmp/seed7/{o['id']}"
    os.makedirs(d,exist_ok=True)
    q=o['quantifier']; quant=q.get('text','') if isinstance(q,dict) else str(q)
    open(d+'/prompt.txt','w').write(T.format(wt=f"/tmp/sw7/{o['id']}",id=o['id'],title=o['title'],statement=o['statement'],quant=quant,anchors=json.dumps(o.get('anchors'))))
