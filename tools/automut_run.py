#!/usr/bin/env python3
"""automut_run.py <mutant-root> [--tests]: run ALL checks on every systematic mutant produced by bin/automut
(<root>/<file_with_underscores>/<base>.<n>.go). Stage 1 records which mutants build and which checks fire.
With --tests, stage 2 runs the pinned baseline tests on the mutants no check fired on, to separate
'killed by the existing tests' from 'survives tests and checks' (the list to triage: equivalent mutant or blind spot).
Results: tools/automut_last.json"""
import sys, os, re, glob, json, subprocess, tempfile, shutil
subprocess.run(["/verif/tools/trimcache.sh"])  # keep the Go build cache bounded: every scratch copy adds entries
from concurrent.futures import ThreadPoolExecutor
root = sys.argv[1]
do_tests = "--tests" in sys.argv
env = dict(os.environ, GOFLAGS="-mod=mod", GOPROXY="off", GOSUMDB="off", GOTOOLCHAIN="local")
env.pop("GOWORK", None)
items = []
for d in sorted(glob.glob(os.path.join(root, "*"))):
    rel = os.path.basename(d)
    # directory name encodes the path with '_' for '/': only worker_ and network_ prefixes exist
    target = rel.replace("worker_", "worker/").replace("network_", "network/")
    for m in sorted(glob.glob(os.path.join(d, "*.go"))):
        items.append((m, target))
def stage1(it):
    m, target = it
    T = tempfile.mkdtemp(prefix="fpam.")
    try:
        os.makedirs(T + "/verif/evidence")
        subprocess.run(["rsync", "-a", "--exclude", ".git", "/repo/", T + "/repo/"], check=True)
        shutil.copy("/verif/known_findings.json", T + "/verif/")
        shutil.copy(m, os.path.join(T, "repo", target))
        r = subprocess.run(["go", "build", "./..."], cwd=T + "/repo", env=env, capture_output=True, text=True)
        if r.returncode != 0:
            return m, "nobuild", []
        r = subprocess.run(["go", "vet", "./..."], cwd=T + "/repo", env=env, capture_output=True, text=True)
        e2 = dict(os.environ, FPCHECK_REPO=T + "/repo", FPCHECK_VERIF=T + "/verif")
        r = subprocess.run(["/verif/run.sh", "all", "quick"], env=e2, capture_output=True, text=True)
        props = sorted(set(re.findall(r'^VIOLATION property=(C\d+)', r.stdout, re.M)))
        return m, "detected" if props else "silent", props
    finally:
        shutil.rmtree(T, ignore_errors=True)
def stage2(it):
    m, target = it
    T = tempfile.mkdtemp(prefix="fpam2.")
    try:
        subprocess.run(["rsync", "-a", "--exclude", ".git", "/repo/", T + "/"], check=True)
        shutil.copy(m, os.path.join(T, target))
        r = subprocess.run(["/verif/tools/baseline.py", T], capture_output=True, text=True, timeout=1500)
        return m, r.returncode == 0, (r.stdout.strip().splitlines() or ["?"])[-1]
    except subprocess.TimeoutExpired:
        return m, False, "timeout"
    finally:
        shutil.rmtree(T, ignore_errors=True)
res = {}
prev = {}
if os.path.exists("/verif/tools/automut_last.json"):
    prev = json.load(open("/verif/tools/automut_last.json")).get("mutants", {})
with ThreadPoolExecutor(max_workers=10) as ex:
    for m, st, props in ex.map(stage1, items):
        desc = open(m[:-3] + ".txt").read().strip()
        res[m] = {"desc": desc, "stage1": st, "props": props}
summary = {}
for v in res.values():
    summary[v["stage1"]] = summary.get(v["stage1"], 0) + 1
print("stage1:", summary)
if do_tests:
    todo = [(m, t) for (m, t) in items if res[m]["stage1"] == "silent"]
    with ThreadPoolExecutor(max_workers=4) as ex:
        for m, passed, last in ex.map(stage2, todo):
            res[m]["tests_pass"] = passed
            res[m]["tests"] = last
    surv = [v["desc"] for v in res.values() if v.get("tests_pass")]
    print("silent mutants:", len(todo), " surviving the tests too:", len(surv))
    for s in sorted(surv):
        print("  SURVIVES", s)
json.dump({"summary": summary, "mutants": res}, open("/verif/tools/automut_last.json", "w"), indent=1)
