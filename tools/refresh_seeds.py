#!/usr/bin/env python3
"""refresh_seeds.py: re-run ALL property checks on every seeded change (tools/matrix.py) and record the current
outcome in seeded/<id>/meta.json (detected_by, checks_on_patched_tree); prints the misses."""
import json, glob, os, subprocess
patches = sorted(glob.glob("/verif/seeded/*/patch.diff"))
subprocess.run(["/verif/tools/matrix.py"] + patches, check=True, stdout=subprocess.DEVNULL)
res = json.load(open("/verif/tools/matrix_last.json"))
miss = []
for p in patches:
    d = os.path.dirname(p)
    r = res.get(os.path.relpath(p, "/verif"), {})
    mp = os.path.join(d, "meta.json")
    m = json.load(open(mp)) if os.path.exists(mp) else {}
    m["detected_by"] = r.get("detected_by", [])
    m["checks_on_patched_tree"] = {"all_properties_run": True, "violations_reported": r.get("details", [])}
    if m["detected_by"]:
        m.pop("not_detected_reason", None)
    else:
        miss.append(os.path.basename(d))
    json.dump(m, open(mp, "w"), indent=1)
print("seeds:", len(patches), "missed:", miss)
