#!/bin/bash
# rename_probe.sh <kinds>: rename all unexported identifiers of the given kinds in a scratch copy of /repo and run every
# check on it; prints the alarms (there must be none beyond the recorded known findings).
kinds=${1:-field,func,local,pkgvar}
T=$(mktemp -d /tmp/fprename.XXXXXX); trap 'rm -rf "$T"' EXIT
mkdir -p "$T/repo" "$T/verif/evidence"
rsync -a --exclude .git /repo/ "$T/repo/"
cp /verif/known_findings.json "$T/verif/"
find "$T/repo" -name '*_test.go' -delete
/verif/bin/renameall -repo /repo -out "$T/repo" -kinds "$kinds" || exit 2
(cd "$T/repo" && GOFLAGS=-mod=mod GOPROXY=off GOSUMDB=off GOTOOLCHAIN=local go build ./... ) || { echo "BUILD-FAILED"; exit 2; }
FPCHECK_REPO="$T/repo" FPCHECK_VERIF="$T/verif" /verif/run.sh all quick | grep -E "^\s+(VIOLATED|UNDECIDED)|ERROR|quick:" | cut -c1-200 | grep -v " 0 violations"
echo "probe $kinds done"
