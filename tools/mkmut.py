#!/usr/bin/env python3
"""mkmut.py <prop> <name> <file> <old> <new> [<old2> <new2> ...]  - write mutants/<prop>/<name>.patch (unified diff vs /repo/<file>);
each old string must occur exactly once (append @N to the file arg to allow N occurrences and replace all)."""
import sys, difflib, os
prop, name, path = sys.argv[1:4]
pairs = sys.argv[4:]
src = open('/repo/' + path).read()
new = src
for i in range(0, len(pairs), 2):
    old, rep = pairs[i].replace('\\n', '\n').replace('\\t', '\t'), pairs[i + 1].replace('\\n', '\n').replace('\\t', '\t')
    if new.count(old) != 1:
        sys.exit("pattern %r occurs %d times in %s" % (old, new.count(old), path))
    new = new.replace(old, rep)
d = ''.join(difflib.unified_diff(src.splitlines(True), new.splitlines(True), 'a/' + path, 'b/' + path))
os.makedirs('/verif/mutants/' + prop, exist_ok=True)
open('/verif/mutants/%s/%s.patch' % (prop, name), 'w').write(d)
print("wrote mutants/%s/%s.patch (%d lines)" % (prop, name, d.count('\n')))
