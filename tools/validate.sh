#!/bin/bash
# Runs every claimed check (quick) on /repo and validates MANIFEST + evidence against the schemas.
cd /verif
rc=0
for p in $(python3 -c "import json;print(' '.join(c['property_id'] for c in json.load(open('MANIFEST.json'))['checks']))"); do
  rm -f evidence/$p.json
  out=$(./run.sh $p quick 2>&1); code=$?
  echo "$out" | tail -1
  if [ $code -ne 0 ] || echo "$out" | grep -q '^VIOLATION'; then echo "  !! $p exit=$code"; rc=1; fi
done
python3-vt - <<'PY' || rc=1
import json,jsonschema,glob,sys
m=json.load(open('/verif/MANIFEST.json'))
jsonschema.validate(m,json.load(open('/root/.vp/MANIFEST.schema.json')))
es=json.load(open('/root/.vp/EVIDENCE.schema.json'))
bad=0
for c in m['checks']:
    try:
        jsonschema.validate(json.load(open(c['evidence_file'])),es)
    except Exception as e:
        print("EVIDENCE INVALID",c['property_id'],str(e)[:200]); bad=1
print("manifest+evidence", "INVALID" if bad else "valid", len(m['checks']), "checks,", len(m.get('not_applicable',[])), "not_applicable")
sys.exit(bad)
PY
exit $rc
