#!/usr/bin/env python3
# Generates the round-15 seeding prompts (one per property) under /tmp/seed15/<id>/prompt.txt. The agents get only the
# property text and a private worktree /tmp/sw15/<id>; nothing from /verif.
import json,os
T='''You work ONLY inside the git worktree {wt} (a checkout of the Go library TeaEntityLab/fpGo v2, module github.com/TeaEntityLab/fpGo/v2). Do not touch /repo or /verif and do not read anything under /verif.

Below is a semantic property of this library that holds on the current tree. Your task: write ONE code change to the LIBRARY (not the tests): a MINIMAL edit - at most five changed lines in one or two places, no refactoring, no renaming, no new functions - of the kind that slips into a larger commit unnoticed: a comparison operator or boundary off by one, a condition dropped from or added to a conjunction, two statements swapped, a value read before instead of after an update (or the other way round), the wrong one of two similar variables or fields, a lock released one statement early or taken one statement late, a copy replaced by a reference, a default changed, an early return added for a case that looks degenerate but is not. The edit must break the property for SOME input, schedule or history, but only for a specific one (a boundary value, a particular interleaving, a sequence of three or more calls, a fault at a particular point); ordinary use and the existing tests must not expose it. Aim at the LESS CENTRAL code: when the property names several functions, types or clauses, leave the most obvious one alone and pick a secondary entry point, a rarely used variant (the ...WithTimeout / ...ByOptions / ...ForInterface forms, setters, constructors with options) or the clause stated last.
The change must (1) still compile (`go build ./...`) and (2) leave the existing test suite passing. Make the slip hard to spot in review: it should look like part of the clean-up. Do not simply delete or negate the obvious line.

PROPERTY {id}: {title}
Statement: {statement}
Quantified over: {quant}
Code anchors: {anchors}

For the change k = ab:
 - make the edit in the worktree; build; run the existing tests: `go test -vet=off -count=1 ./...` (TestLinkedListQueue, TestWorkerJamDuration, TestNewBufferedChannelQueue and occasionally TestWorkerPool, TestScheduleWithTimeout, TestChannelQueue are timing-flaky on the unchanged tree, and TestLinkedListQueue can crash the test binary - ignore those; use -skip if needed). All other existing tests must still pass.
 - write a small demonstration test file demo_test.go (package fpgo for the root package, package worker for ./worker, package network for ./network; it will be copied next to the library sources as zz_seed_demo_test.go; test function names must start with TestSeed{id}ab) that PASSES on the unchanged tree and FAILS (or panics / deadlocks within 60 s) with your change - a concrete input, schedule or history showing the property broken. The demo may only use API that exists on the unchanged tree (so that it compiles there); for concurrency changes make it as deterministic as you can.
 - save: `mkdir -p /tmp/seed15/{id}/ab`; `git add -A -N . && git diff > /tmp/seed15/{id}/ab/patch.diff` (library change only - do not include the demo file in the diff; new library files must be included); copy the demo to /tmp/seed15/{id}/ab/demo_test.go; write /tmp/seed15/{id}/ab/notes.md: what the commit claims to do, where the flaw is, which clause of the property it breaks, the failing input/schedule, and why the existing tests do not notice.
 - then `git reset -q && git checkout -- . && git clean -fdq` so the worktree is clean (the patch must apply to the clean tree on its own).

Environment (no network): run go as
  cd {wt} && GOFLAGS=-mod=mod GOPROXY=off GOSUMDB=off GOTOOLCHAIN=local go ...
Do NOT use `git stash` (it is shared between worktrees). Leave the worktree clean at the end and finish with a one-line summary.'''
here=os.path.dirname(os.path.abspath(__file__))
for l in open(os.path.join(here,'..','properties.jsonl')):
    o=json.loads(l)
    d=f"/tmp/seed15/{o['id']}"
    os.makedirs(d,exist_ok=True)
    q=o['quantifier']; quant=q.get('text','') if isinstance(q,dict) else str(q)
    open(d+'/prompt.txt','w').write(T.format(wt=f"/tmp/sw15/{o['id']}",id=o['id'],title=o['title'],statement=o['statement'],quant=quant,anchors=json.dumps(o.get('anchors'))))
