#!/usr/bin/env python3
"""Run the repository's pinned test suite (guard off) in DIR (default /repo) and
check that every test in BASELINE.json's stable_pass passes. Exit 0 iff all pass."""
import json, subprocess, sys, os
d = sys.argv[1] if len(sys.argv) > 1 else "/repo"
base = json.load(open("/root/.vp/BASELINE.json"))
want = set(base["stable_pass"])
env = dict(os.environ, GOFLAGS="-mod=mod", GOPROXY="off", GOSUMDB="off", GOTOOLCHAIN="local")
env.pop("GOWORK", None)
passed = set()
failed_last = set()
for attempt in range(6):
    cmd = ["go", "test", "-json", "-vet=off", "-count=1", "-timeout", "25m"]
    if attempt >= 2:
        # the flaky TestLinkedListQueue (listed as flaky in BASELINE.json) leaves goroutines that fail
        # after the test ended and take the whole test binary down; re-run only what is still missing
        names = sorted({k.split("::")[1] for k in want - passed})
        cmd += ["-run", "^(" + "|".join(names) + ")$"]
    out = subprocess.run(cmd + ["./..."], cwd=d, env=env, capture_output=True, text=True).stdout
    failed_last = set()
    for line in out.splitlines():
        try:
            ev = json.loads(line)
        except Exception:
            continue
        if ev.get("Test") and "/" not in ev["Test"]:
            k = ev["Package"] + "::" + ev["Test"]
            if ev.get("Action") == "pass":
                passed.add(k)
            elif ev.get("Action") == "fail":
                failed_last.add(k)
    if want <= passed:
        break
missing = sorted(want - passed)
print(f"baseline: {len(want & passed)}/{len(want)} stable tests pass" + (f"; MISSING {missing}" if missing else ""))
sys.exit(1 if missing else 0)
