#!/usr/bin/env python3
"""matrix.py [--expect-silent] <patch>... : apply each patch to a scratch copy of /repo (removed afterwards), build it,
run ALL property checks on it (one load) and print which properties report a violation.
Writes /verif/tools/matrix_last.json. Used for the seeded changes, the mutants and the silent variants."""
import sys, os, subprocess, tempfile, shutil, json, re
subprocess.run(["/verif/tools/trimcache.sh"])  # keep the Go build cache bounded: every scratch copy adds entries
from concurrent.futures import ThreadPoolExecutor
args = sys.argv[1:]
silent = False
if args and args[0] == "--expect-silent":
    silent = True; args = args[1:]
env = dict(os.environ, GOFLAGS="-mod=mod", GOPROXY="off", GOSUMDB="off", GOTOOLCHAIN="local")
env.pop("GOWORK", None)
def run(patch):
    patch = os.path.abspath(patch)
    T = tempfile.mkdtemp(prefix="fpmx.")
    try:
        os.makedirs(T + "/verif/evidence")
        subprocess.run(["rsync", "-a", "--exclude", ".git", "/repo/", T + "/repo/"], check=True)
        shutil.copy("/verif/known_findings.json", T + "/verif/")
        r = subprocess.run(["patch", "-p1", "-s", "-i", patch], cwd=T + "/repo", capture_output=True, text=True)
        if r.returncode != 0:
            return patch, None, "PATCH-FAILED " + (r.stdout + r.stderr)[:200]
        r = subprocess.run(["go", "build", "./..."], cwd=T + "/repo", env=env, capture_output=True, text=True)
        if r.returncode != 0:
            return patch, None, "BUILD-FAILED " + r.stderr[:200]
        e2 = dict(os.environ, FPCHECK_REPO=T + "/repo", FPCHECK_VERIF=T + "/verif")
        r = subprocess.run(["/verif/run.sh", "all", "quick"], env=e2, capture_output=True, text=True)
        if r.returncode not in (0, 1) or "ERROR" in r.stdout:
            return patch, None, "CHECKER-ERROR rc=%d %s" % (r.returncode, (r.stdout + r.stderr)[-300:].replace("\n", " | "))
        props = sorted(set(re.findall(r'^VIOLATION property=(C\d+)', r.stdout, re.M)))
        details = [l.strip()[:300] for l in r.stdout.splitlines() if re.match(r'\s+(VIOLATED|UNDECIDED)', l)]
        return patch, props, details
    finally:
        shutil.rmtree(T, ignore_errors=True)
out = {}
with ThreadPoolExecutor(max_workers=8) as ex:
    for patch, props, details in ex.map(run, args):
        name = os.path.relpath(patch, "/verif")
        if props is None:
            print(f"{name}: {details}")
            out[name] = {"error": details}
            continue
        out[name] = {"detected_by": props, "details": details[:6]}
        tag = "SILENT" if not props else "DETECTED by " + ",".join(props)
        if silent and props:
            tag = "FALSE-ALARM " + ",".join(props) + " :: " + " | ".join(details[:2])
        print(f"{name}: {tag}")
json.dump(out, open("/verif/tools/matrix_last.json", "w"), indent=1)
