#!/usr/bin/env python3
"""varpairs.py [--n N] [--seed S]: robustness of silence under composition. Picks N random pairs of behaviour-preserving
variants (variants/*.patch, declared limits excluded) that touch the same file, applies both to a scratch copy of /repo
(second with -F0 so that overlapping hunks are rejected), and where both apply and the tree builds runs every check: the
result must be silent. Prints the alarms; writes tools/varpairs_last.json."""
import sys, os, re, glob, json, subprocess, tempfile, shutil, random
from concurrent.futures import ThreadPoolExecutor
subprocess.run(["/verif/tools/trimcache.sh"])
n = 300
if "--n" in sys.argv:
    n = int(sys.argv[sys.argv.index("--n") + 1])
seed = 1
if "--seed" in sys.argv:
    seed = int(sys.argv[sys.argv.index("--seed") + 1])
LIMITS = {"v3-r1", "v4-r1", "v8-r2", "x8-r5", "n7-r5", "n8-r1", "n8-r5", "k4-r4", "k5-r4", "k7-r2", "j4-r6", "j6-r5", "h01-r2", "h01-r3", "h02-r2", "h02-r3", "h05-r3", "h05-r4", "h07-r2", "h08-r3", "h10-r2", "h12-r4", "g3-r3", "g3-r4", "g4-r2", "g6-r2", "f1-r3", "f2-r2", "f2-r3", "f3-r3", "f3-r4"}
env = dict(os.environ, GOFLAGS="-mod=mod", GOPROXY="off", GOSUMDB="off", GOTOOLCHAIN="local")
env.pop("GOWORK", None)
def files(patch):
    return set(re.findall(r'^\+\+\+ b/(\S+)', open(patch).read(), re.M))
variants = [v for v in sorted(glob.glob("/verif/variants/*.patch")) if os.path.basename(v)[:-6] not in LIMITS]
vf = {v: files(v) for v in variants}
random.seed(seed)
pairs = set()
tries = 0
while len(pairs) < n and tries < n * 50:
    tries += 1
    a, b = random.sample(variants, 2)
    if vf[a] & vf[b]:
        pairs.add((a, b))
def run(pair):
    a, b = pair
    T = tempfile.mkdtemp(prefix="fpvp.")
    try:
        os.makedirs(T + "/verif/evidence")
        subprocess.run(["rsync", "-a", "--exclude", ".git", "/repo/", T + "/repo/"], check=True)
        shutil.copy("/verif/known_findings.json", T + "/verif/")
        for i, pt in enumerate(pair):
            r = subprocess.run(["patch", "-p1", "-s", "-F0", "-i", pt], cwd=T + "/repo", capture_output=True, text=True)
            if r.returncode != 0:
                return pair, "conflict", []
        r = subprocess.run(["go", "build", "./..."], cwd=T + "/repo", env=env, capture_output=True, text=True)
        if r.returncode != 0:
            return pair, "nobuild", []
        e2 = dict(os.environ, FPCHECK_REPO=T + "/repo", FPCHECK_VERIF=T + "/verif")
        r = subprocess.run(["/verif/run.sh", "all", "quick"], env=e2, capture_output=True, text=True)
        if r.returncode not in (0, 1) or "ERROR" in r.stdout:
            return pair, "checker-error", [(r.stdout + r.stderr)[-300:]]
        lines = [l.strip()[:260] for l in r.stdout.splitlines() if re.match(r'\s+(VIOLATED|UNDECIDED)', l)]
        return pair, "alarm" if lines else "silent", lines
    finally:
        shutil.rmtree(T, ignore_errors=True)
out = {}
cnt = {}
with ThreadPoolExecutor(max_workers=8) as ex:
    for pair, status, lines in ex.map(run, sorted(pairs)):
        cnt[status] = cnt.get(status, 0) + 1
        key = os.path.basename(pair[0])[:-6] + "+" + os.path.basename(pair[1])[:-6]
        out[key] = {"status": status, "lines": lines[:4]}
        if status in ("alarm", "checker-error"):
            print(key, status.upper(), " | ".join(lines[:2]))
print(cnt)
json.dump(out, open("/verif/tools/varpairs_last.json", "w"), indent=1)
