#!/bin/bash
# confirm_variants.sh <patch>...: each behaviour-preserving variant applies to a scratch copy of /repo, builds, and the
# pinned test suite still passes (tools/baseline.py). Prints one line per patch.
for pf in "$@"; do
  pf=$(readlink -f "$pf")
  T=$(mktemp -d /tmp/fpvar.XXXXXX)
  rsync -a --exclude .git /repo/ "$T/"
  if ! (cd "$T" && patch -p1 -s < "$pf" >/dev/null 2>&1); then echo "$(basename $pf): PATCH-FAILED"; rm -rf "$T"; continue; fi
  if ! (cd "$T" && GOFLAGS=-mod=mod GOPROXY=off GOSUMDB=off GOTOOLCHAIN=local go build ./... >/dev/null 2>&1); then echo "$(basename $pf): BUILD-FAILED"; rm -rf "$T"; continue; fi
  if /verif/tools/baseline.py "$T" >/dev/null 2>&1; then echo "$(basename $pf): tests pass"; else echo "$(basename $pf): TESTS-FAIL"; fi
  rm -rf "$T"
done
