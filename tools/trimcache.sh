#!/bin/bash
# trimcache.sh [limit-GB]: the scratch copies built by the sweep tools each leave their own entries in the Go build cache
# (paths differ); empty the cache when it exceeds the limit (default 30 GB) so that long sweeps cannot fill the disk.
limit=${1:-30}
dir=$(GOFLAGS= go env GOCACHE 2>/dev/null)
[ -d "$dir" ] || exit 0
used=$(du -s --block-size=1G "$dir" 2>/dev/null | cut -f1)
if [ "${used:-0}" -ge "$limit" ]; then GOFLAGS= go clean -cache; echo "build cache emptied (${used} GB)"; fi
