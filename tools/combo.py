#!/usr/bin/env python3
"""combo.py [--per N]: robustness of detection under refactoring. For every breaking patch (mutants/, seeded/) pick up
to N behaviour-preserving variants (variants/) that touch the same file, apply variant THEN breaking patch to a scratch
copy of /repo; where both apply and the tree builds, all checks are run: the breakage must still be DETECTED.
Writes tools/combo_last.json and prints the misses."""
import sys, os, re, glob, json, subprocess, tempfile, shutil, random
subprocess.run(["/verif/tools/trimcache.sh"])  # keep the Go build cache bounded: every scratch copy adds entries
from concurrent.futures import ThreadPoolExecutor
per = 2
if "--per" in sys.argv:
    per = int(sys.argv[sys.argv.index("--per") + 1])
env = dict(os.environ, GOFLAGS="-mod=mod", GOPROXY="off", GOSUMDB="off", GOTOOLCHAIN="local")
env.pop("GOWORK", None)
def files(patch):
    return set(re.findall(r'^\+\+\+ b/(\S+)', open(patch).read(), re.M))
breaking = sorted(glob.glob("/verif/mutants/*/*.patch") + glob.glob("/verif/seeded/*/patch.diff"))
variants = sorted(glob.glob("/verif/variants/*.patch"))
vfiles = {v: files(v) for v in variants}
random.seed(int(os.environ.get("VERIF_SEED", "1")))
pairs = []
for b in breaking:
    bf = files(b)
    cands = [v for v in variants if vfiles[v] & bf]
    random.shuffle(cands)
    for v in cands[:per * 3]:
        pairs.append((v, b))
def run(pair):
    v, b = pair
    T = tempfile.mkdtemp(prefix="fpcombo.")
    try:
        os.makedirs(T + "/verif/evidence")
        subprocess.run(["rsync", "-a", "--exclude", ".git", "/repo/", T + "/repo/"], check=True)
        shutil.copy("/verif/known_findings.json", T + "/verif/")
        for pt in (v, b):
            r = subprocess.run(["patch", "-p1", "-s", "-F0", "-i", pt], cwd=T + "/repo", capture_output=True, text=True)
            if r.returncode != 0:
                return pair, "conflict", []
        r = subprocess.run(["go", "build", "./..."], cwd=T + "/repo", env=env, capture_output=True, text=True)
        if r.returncode != 0:
            return pair, "nobuild", []
        e2 = dict(os.environ, FPCHECK_REPO=T + "/repo", FPCHECK_VERIF=T + "/verif")
        r = subprocess.run(["/verif/run.sh", "all", "quick"], env=e2, capture_output=True, text=True)
        props = sorted(set(re.findall(r'^VIOLATION property=(C\d+)', r.stdout, re.M)))
        return pair, "detected" if props else "MISSED", props
    finally:
        shutil.rmtree(T, ignore_errors=True)
done = {}
res = {"detected": 0, "MISSED": 0, "conflict": 0, "nobuild": 0}
misses = []
count = {}
with ThreadPoolExecutor(max_workers=10) as ex:
    for (v, b), st, props in ex.map(run, pairs):
        if st in ("detected", "MISSED"):
            if count.get(b, 0) >= per:
                continue
            count[b] = count.get(b, 0) + 1
        res[st] += 1
        if st == "MISSED":
            misses.append((os.path.relpath(v, "/verif"), os.path.relpath(b, "/verif")))
json.dump({"summary": res, "misses": misses}, open("/verif/tools/combo_last.json", "w"), indent=1)
print(res)
for m in misses:
    print("MISSED", m[0], "+", m[1])
