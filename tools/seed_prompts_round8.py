#!/usr/bin/env python3
# Generates the round-8 seeding prompts (one per property) under /tmp/seed8/<id>/prompt.txt. The agents get only the
# property text and a private worktree /tmp/sw8/<id>; nothing from /verif.
import json,os
T='''You work ONLY inside the git worktree {wt} (a checkout of the Go library TeaEntityLab/fpGo v2, module github.com/TeaEntityLab/fpGo/v2). Do not touch /repo or /verif and do not read anything under /verif.

Below is a semantic property of this library that holds on the current tree. Your task: write TWO independent code changes to the LIBRARY (not the tests), each a CLEAN-UP COMMIT IN ONE OF THE STYLES BELOW THAT GOES SUBTLY WRONG: almost all of the diff is a faithful, behaviour-preserving rewrite, but one small slip inside it breaks the property for some input, schedule or history. Styles (use a different one for each change, and pick styles that fit the code the property is anchored in):
 - performance tuning: hoisting a `len(x)` / field read / method call out of a loop or critical section where it CAN change in between, caching a value across a mutation, pre-sizing with the wrong length-vs-capacity, reusing a buffer / slice / map across calls or iterations (aliasing), a fast path for the empty / single-element / already-sorted case that returns something subtly different (nil vs empty, the input itself instead of a copy, a skipped side effect);
 - linter-style simplifications: removing a "redundant" nil / length / bounds check that is not redundant for one input, merging two conditions, `if x {{ return true }}; return false` collapsed with the wrong polarity, removing a "dead" store that a closure or deferred function still reads, dropping an "unused" parameter or result and shifting the remaining arguments, removing an `else` so that a statement now also runs on the other path;
 - exported thin wrapper over an unexported implementation (or folding one back): the wrapper passes the wrong fixed value for an extra parameter, the general form treats the zero value of the new parameter differently from the old code, the fold loses a `defer`, a lock, a closed-check or an early return that lived in the wrapper;
 - additive API growth by generalising existing code: a new `...WithOptions` / `Try...` / `...N` function is added and the existing function is re-expressed through it, but for one corner (nil option, zero timeout, empty input, negative count, an error that used to be ignored) the old entry point now behaves differently;
 - standard-library generics adopted where they are NOT exactly equivalent: `slices.Clone` / `maps.Clone` (nil-ness, spare capacity), `slices.Delete` / `slices.Insert` / `slices.Compact` (work in place on the caller's backing array, zero the tail), `slices.Sort` / `slices.SortFunc` (not stable), `slices.Equal` on nil vs empty, `maps.Keys`-style iteration order, `slices.Index` (first occurrence only) where all occurrences were handled;
 - locking and blocking idioms: `defer Unlock()` that now holds the lock across a blocking call or a callback, `RLock` for a section that writes, a critical section narrowed so that a check and the action it guards are no longer atomic, `sync.Once` / atomics replacing a mutex-guarded flag with a different ordering, a `select` with `default` turned into a blocking operation (or the reverse), a timer or channel that is no longer drained or closed.
Each change must (1) still compile (`go build ./...`) and (2) leave the existing test suite passing. Make the slip hard to spot in review: it should look like part of the clean-up. Do not simply delete or negate the obvious line.

PROPERTY {id}: {title}
Statement: {statement}
Quantified over: {quant}
Code anchors: {anchors}

For each change k in (p, q):
 - make the edit in the worktree; build; run the existing tests: `go test -vet=off -count=1 ./...` (TestLinkedListQueue, TestWorkerJamDuration, TestNewBufferedChannelQueue and occasionally TestWorkerPool, TestScheduleWithTimeout, TestChannelQueue are timing-flaky on the unchanged tree, and TestLinkedListQueue can crash the test binary - ignore those; use -skip if needed). All other existing tests must still pass.
 - write a small demonstration test file demo_test.go (package fpgo for the root package, package worker for ./worker, package network for ./network; it will be copied next to the library sources as zz_seed_demo_test.go; test function names must start with TestSeed{id}<k>) that PASSES on the unchanged tree and FAILS (or panics / deadlocks within 60 s) with your change - a concrete input, schedule or history showing the property broken. The demo may only use API that exists on the unchanged tree (so that it compiles there); for concurrency changes make it as deterministic as you can.
 - save: `mkdir -p /tmp/seed8/{id}/<k>`; `git add -A -N . && git diff > /tmp/seed8/{id}/<k>/patch.diff` (library change only - do not include the demo file in the diff; new library files must be included); copy the demo to /tmp/seed8/{id}/<k>/demo_test.go; write /tmp/seed8/{id}/<k>/notes.md: what the commit claims to do, where the flaw is, which clause of the property it breaks, the failing input/schedule, and why the existing tests do not notice.
 - then `git reset -q && git checkout -- . && git clean -fdq` so the next change starts from the clean tree (each patch must apply to the clean tree on its own).

Environment (no network): run go as
  cd {wt} && GOFLAGS=-mod=mod GOPROXY=off GOSUMDB=off GOTOOLCHAIN=local go ...
Do NOT use `git stash` (it is shared between worktrees). Leave the worktree clean at the end and finish with a two-line summary (one line per change).'''
here=os.path.dirname(os.path.abspath(__file__))
for l in open(os.path.join(here,'..','properties.jsonl')):
    o=json.loads(l)
    d=f"/tmp/seed8/{o['id']}"
    os.makedirs(d,exist_ok=True)
    q=o['quantifier']; quant=q.get('text','') if isinstance(q,dict) else str(q)
    open(d+'/prompt.txt','w').write(T.format(wt=f"/tmp/sw8/{o['id']}",id=o['id'],title=o['title'],statement=o['statement'],quant=quant,anchors=json.dumps(o.get('anchors'))))
