#!/usr/bin/env python3
# Generates the round-4 seeding prompts (one per property) under /tmp/seed4/<id>/prompt.txt. The agents get only the
# property text and a private worktree /tmp/sw4/<id>; nothing from /verif.
import json,os
T='''You work ONLY inside the git worktree {wt} (a checkout of the Go library TeaEntityLab/fpGo v2, module github.com/TeaEntityLab/fpGo/v2). Do not touch /repo or /verif and do not read anything under /verif.

Below is a semantic property of this library that holds on the current tree. Your task: write TWO independent code changes to the LIBRARY (not the tests), each a genuine-looking MAINTENANCE COMMIT that a reviewer could plausibly approve, but which breaks the property for some input, schedule or history:

 change h - a PERFORMANCE commit: a fast path, an early exit, a cached or precomputed value, a lock narrowed / replaced by an atomic / moved out of a loop, an allocation avoided by re-using or aliasing a buffer, a goroutine or channel saved, a buffered instead of unbuffered hand-off (or the reverse), batching, a cheaper comparison. The optimisation is right for the common case and wrong in a corner the property covers.
 change i - a FEATURE or BUG-FIX-ATTEMPT commit: a new option / setter / method / constructor / callback / error check / timeout / retry / metric, or a "fix" for an imagined problem, that breaks the property as a SIDE EFFECT. Prefer to break it from OUTSIDE the functions named in the anchors: through a shared helper or callee they rely on, a constructor or default value, a type's zero value, a new exported or unexported method that touches the same state without following the discipline of the existing ones (locking, ownership, ordering, once-only), a new call site, or an existing sibling method.

Each change must (1) still compile (`go build ./...`) and (2) leave the existing test suite passing. Make the two changes different in kind and location. Do not simply delete or negate the obvious line in the anchored function - earlier rounds covered that; look for the less obvious places the property depends on.

PROPERTY {id}: {title}
Statement: {statement}
Quantified over: {quant}
Code anchors: {anchors}

For each change k in (h, i):
 - make the edit in the worktree; build; run the existing tests: `go test -vet=off -count=1 ./...` (TestLinkedListQueue, TestWorkerJamDuration, TestNewBufferedChannelQueue and occasionally TestWorkerPool, TestScheduleWithTimeout, TestChannelQueue are timing-flaky on the unchanged tree, and TestLinkedListQueue can crash the test binary - ignore those; use -skip if needed). All other existing tests must still pass.
 - write a small demonstration test file demo_test.go (package fpgo for the root package, package worker for ./worker, package network for ./network; it will be copied next to the library sources as zz_seed_demo_test.go; test function names must start with TestSeed{id}<k>) that PASSES on the unchanged tree and FAILS (or panics / deadlocks within 60 s) with your change - a concrete input, schedule or history showing the property broken. The demo may only use API that exists on the unchanged tree (so that it compiles there); for concurrency changes make it as deterministic as you can.
 - save: `mkdir -p /tmp/seed4/{id}/<k>`; `git add -A -N . && git diff > /tmp/seed4/{id}/<k>/patch.diff` (library change only - do not include the demo file in the diff; new library files must be included); copy the demo to /tmp/seed4/{id}/<k>/demo_test.go; write /tmp/seed4/{id}/<k>/notes.md: what the commit claims to do, where the flaw is, which clause of the property it breaks, the failing input/schedule, and why the existing tests do not notice.
 - then `git reset -q && git checkout -- . && git clean -fdq` so the next change starts from the clean tree (each patch must apply to the clean tree on its own).

Environment (no network): run go as
  cd {wt} && GOFLAGS=-mod=mod GOPROXY=off GOSUMDB=off GOTOOLCHAIN=local go ...
Do NOT use `git stash` (it is shared between worktrees). Leave the worktree clean at the end and finish with a two-line summary (one line per change).'''
here=os.path.dirname(os.path.abspath(__file__))
for l in open(os.path.join(here,'..','properties.jsonl')):
    o=json.loads(l)
    d=f"/tmp/seed4/{o['id']}"
    os.makedirs(d,exist_ok=True)
    q=o['quantifier']; quant=q.get('text','') if isinstance(q,dict) else str(q)
    open(d+'/prompt.txt','w').write(T.format(wt=f"/tmp/sw4/{o['id']}",id=o['id'],title=o['title'],statement=o['statement'],quant=quant,anchors=json.dumps(o.get('anchors'))))
