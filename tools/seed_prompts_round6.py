#!/usr/bin/env python3
# Generates the round-6 seeding prompts (one per property) under /tmp/seed6/<id>/prompt.txt. The agents get only the
# property text and a private worktree /tmp/sw6/<id>; nothing from /verif.
import json,os
T='''You work ONLY inside the git worktree {wt} (a checkout of the Go library TeaEntityLab/fpGo v2, module github.com/TeaEntityLab/fpGo/v2). Do not touch /repo or /verif and do not read anything under /verif.

Below is a semantic property of this library that holds on the current tree. Your task: write TWO independent code changes to the LIBRARY (not the tests), each a CLEAN-UP COMMIT IN ONE OF THE STYLES BELOW THAT GOES SUBTLY WRONG: almost all of the diff is a faithful, behaviour-preserving rewrite, but one small slip inside it breaks the property for some input, schedule or history. Styles (use a different one for each change, and pick styles that fit the code the property is anchored in):
 - extracting a small GENERIC helper (`func helper[E any](...)`) shared by two or more functions, or replacing a hand-written loop by one of the package's own helpers (Filter, Map, Some, Exists, Concat, Minus, Keys, DuplicateSlice, ...), where the helper's behaviour differs slightly from one of the places it replaces (nil vs empty, duplicates, order, short-circuit, aliasing of the input's backing array, an off-by-one in a bound);
 - turning unexported methods into plain functions that take the former receiver as first argument (or the reverse), using method values / method expressions, or passing state to goroutines and helpers as PARAMETERS instead of reading struct fields (or the reverse), where one call site passes the wrong object, a stale copy (value instead of pointer, a flag read too early), or a different channel / lock than the field holds at that time;
 - re-routing construction through an existing constructor or `new(T)` + field-by-field assignment, named constants for magic numbers, zero values instead of explicit initialisers, where one field ends up unset/shared, a constant has a slightly different value or type, or the object becomes visible (go statement, stored in a shared structure) before it is fully initialised;
 - neutral-looking goroutine / synchronisation plumbing: one `wg.Add(n)` before the loop instead of `Add(1)` per iteration, a named function instead of an anonymous goroutine body, `time.NewTimer` for `time.After`, `sync.Once`, buffered vs unbuffered hand-over channels, `defer` moved, a `select` arm added or reordered - where a count, an ordering (flag set / channel closed / wake-up sent) or a buffer size is subtly off for some schedule;
 - control-flow normalisation: `switch` for if/else chains, guard clauses with `continue`/early `return`, merging two guards into one, hoisting a common statement out of both branches, splitting `a && b` into nested ifs - where one path now skips a statement, evaluates something in a different order with a visible effect, or the merged guard is not equivalent for a boundary value;
 - delegating one exported function to a sibling (`DoX(a)` = `DoXWithOptions(a, nil, "")`, interface{{}} twin calls the generic one through a conversion, `Take` = `TakeWithTimeout(forever)`) where the sibling differs for one corner (nil option, zero timeout, empty input, error wrapping).
Each change must (1) still compile (`go build ./...`) and (2) leave the existing test suite passing. Make the slip hard to spot in review: it should look like part of the clean-up. Do not simply delete or negate the obvious line.

PROPERTY {id}: {title}
Statement: {statement}
Quantified over: {quant}
Code anchors: {anchors}

For each change k in (l, m):
 - make the edit in the worktree; build; run the existing tests: `go test -vet=off -count=1 ./...` (TestLinkedListQueue, TestWorkerJamDuration, TestNewBufferedChannelQueue and occasionally TestWorkerPool, TestScheduleWithTimeout, TestChannelQueue are timing-flaky on the unchanged tree, and TestLinkedListQueue can crash the test binary - ignore those; use -skip if needed). All other existing tests must still pass.
 - write a small demonstration test file demo_test.go (package fpgo for the root package, package worker for ./worker, package network for ./network; it will be copied next to the library sources as zz_seed_demo_test.go; test function names must start with TestSeed{id}<k>) that PASSES on the unchanged tree and FAILS (or panics / deadlocks within 60 s) with your change - a concrete input, schedule or history showing the property broken. The demo may only use API that exists on the unchanged tree (so that it compiles there); for concurrency changes make it as deterministic as you can.
 - save: `mkdir -p /tmp/seed6/{id}/<k>`; `git add -A -N . && git diff > /tmp/seed6/{id}/<k>/patch.diff` (library change only - do not include the demo file in the diff; new library files must be included); copy the demo to /tmp/seed6/{id}/<k>/demo_test.go; write /tmp/seed6/{id}/<k>/notes.md: what the commit claims to do, where the flaw is, which clause of the property it breaks, the failing input/schedule, and why the existing tests do not notice.
 - then `git reset -q && git checkout -- . && git clean -fdq` so the next change starts from the clean tree (each patch must apply to the clean tree on its own).

Environment (no network): run go as
  cd {wt} && GOFLAGS=-mod=mod GOPROXY=off GOSUMDB=off GOTOOLCHAIN=local go ...
Do NOT use `git stash` (it is shared between worktrees). Leave the worktree clean at the end and finish with a two-line summary (one line per change).'''
here=os.path.dirname(os.path.abspath(__file__))
for l in open(os.path.join(here,'..','properties.jsonl')):
    o=json.loads(l)
    d=f"/tmp/seed6/{o['id']}"
    os.makedirs(d,exist_ok=True)
    q=o['quantifier']; quant=q.get('text','') if isinstance(q,dict) else str(q)
    open(d+'/prompt.txt','w').write(T.format(wt=f"/tmp/sw6/{o['id']}",id=o['id'],title=o['title'],statement=o['statement'],quant=quant,anchors=json.dumps(o.get('anchors'))))
