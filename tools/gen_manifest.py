#!/usr/bin/env python3
"""Regenerates /verif/MANIFEST.json from tools/claims.json (per property: level text, note, technique)
and the list of properties implemented by the checker (fpcheck -list)."""
import json, subprocess, os
V = os.path.dirname(os.path.dirname(os.path.abspath(__file__)))
props = [json.loads(l) for l in open(os.path.join(V, 'properties.jsonl'))]
claims = json.load(open(os.path.join(V, 'tools', 'claims.json')))
m = {
 "version": 1,
 "setup_cmd": "cd /verif/checker && GOFLAGS=-mod=vendor GOPROXY=off GOSUMDB=off GOTOOLCHAIN=local go build -o /verif/bin/fpcheck ./cmd/fpcheck",
 "hooks": {"guard": "verif", "enable": "none needed: the checks read the plain source; no hook commits exist in /repo", "baseline_off_cmd": "cd /repo && GOFLAGS=-mod=mod go test -vet=off -count=1 -timeout 25m ./...", "source_commits": [], "add_only": True},
 "engines": [{"name": "fpcheck", "path": "/verif/checker", "serves_properties": sorted(claims.keys()), "kind_free_text": "repository-specific static analyser on go/packages + go/types + go/ssa (x/tools v0.29.0, vendored): lockset with call-site entry locks, dominance/edge facts, path counting, value flow, write effects, interval/zone/ordering abstract domains, twin AST normaliser"}],
 "checks": [],
 "notes": "Every check is static: it type-checks /repo's working tree (non-test files of the three packages) and decides rule instances on the AST/SSA; nothing compiles-and-runs fpGo. Each property is claimed at level 'other': named structural clauses (necessary or sufficient conditions) are decided, the behavioural remainder is listed in level_note and DESIGN.md section 4.",
 "not_applicable": [],
}
for p in props:
    c = claims.get(p['id'])
    if c is None:
        m['not_applicable'].append({"property_id": p['id'], "reason": "check under construction in this round; planned structural clauses are in DESIGN.md section 3"})
        continue
    m['checks'].append({
        "property_id": p['id'],
        "quick_cmd": "./run.sh %s quick" % p['id'],
        "thorough_cmd": "./run.sh %s thorough" % p['id'],
        "evidence_file": "/verif/evidence/%s.json" % p['id'],
        "replay_cmd_template": "./run.sh %s --explain {path}" % p['id'],
        "engine": "fpcheck",
        "level_claimed": {"category": "other", "text": c['text'], "design_ref": "DESIGN.md section 3, " + p['id']},
        "level_note": c['note'],
        "technique": c['technique'],
    })
json.dump(m, open(os.path.join(V, 'MANIFEST.json'), 'w'), indent=1)
print("claimed:", [c['property_id'] for c in m['checks']])
