#!/usr/bin/env python3
# Generates the round-5 seeding prompts (one per property) under /tmp/seed5/<id>/prompt.txt. The agents get only the
# property text and a private worktree /tmp/sw5/<id>; nothing from /verif.
import json,os
T='''You work ONLY inside the git worktree {wt} (a checkout of the Go library TeaEntityLab/fpGo v2, module github.com/TeaEntityLab/fpGo/v2). Do not touch /repo or /verif and do not read anything under /verif.

Below is a semantic property of this library that holds on the current tree. Your task: write TWO independent code changes to the LIBRARY (not the tests), each a CLEAN-UP COMMIT IN ONE OF THE STYLES BELOW THAT GOES SUBTLY WRONG: almost all of the diff is a faithful, behaviour-preserving rewrite, but one small slip inside it breaks the property for some input, schedule or history. Styles (use a different one for each change, and pick styles that fit the code the property is anchored in):
 - inverting conditions / swapping if-else branches / De Morgan / early returns, where one rewritten condition is not the exact negation (`<` vs `<=`, `&&` vs `||`, a dropped sub-condition, a nil test that flips);
 - introducing accessors, small shared helpers or predicate functions (`isClosed()`, `hasItems(x)`, `withLock(mu, fn)`, `wakeUp()`), where one call site ends up with the wrong receiver/argument, outside the lock, or the helper's condition differs slightly from one of the places it replaces;
 - INLINING helpers or lock wrappers (writing `doSafe(func(){{…}})` out as Lock/Unlock), where one copy loses the closed-check, the unlock on an early exit, or the order of two steps;
 - regrouping struct fields into nested structs, renaming fields, bundling parameters into a struct or reordering the parameters of unexported functions, where one use ends up reading the wrong field / passing two same-typed arguments in the wrong order / copying a struct that must be shared (mutex, counters) or sharing one that must be copied;
 - adding "defensive" guards, clamps and fast paths that are supposed never to fire but do fire for a legal input (zero, empty, exactly-equal bounds, nil-but-typed values), or debug/metrics code that has a side effect on the real state;
 - loop restructuring (`range` <-> index/receive loops, recursion <-> iteration, flags instead of labeled breaks), where the rewritten loop stops one step early/late, skips the last element, re-evaluates something that changes, or no longer breaks out of the outer loop;
 - changing variable lifetimes (captured <-> passed, declarations moved into/out of loops or closures, named results, shadowing with `:=`), where a value is captured too early/late, shared between iterations, or a result is assigned to a shadow.
Each change must (1) still compile (`go build ./...`) and (2) leave the existing test suite passing. Make the slip hard to spot in review: it should look like part of the clean-up. Do not simply delete or negate the obvious line.

PROPERTY {id}: {title}
Statement: {statement}
Quantified over: {quant}
Code anchors: {anchors}

For each change k in (j, k):
 - make the edit in the worktree; build; run the existing tests: `go test -vet=off -count=1 ./...` (TestLinkedListQueue, TestWorkerJamDuration, TestNewBufferedChannelQueue and occasionally TestWorkerPool, TestScheduleWithTimeout, TestChannelQueue are timing-flaky on the unchanged tree, and TestLinkedListQueue can crash the test binary - ignore those; use -skip if needed). All other existing tests must still pass.
 - write a small demonstration test file demo_test.go (package fpgo for the root package, package worker for ./worker, package network for ./network; it will be copied next to the library sources as zz_seed_demo_test.go; test function names must start with TestSeed{id}<k>) that PASSES on the unchanged tree and FAILS (or panics / deadlocks within 60 s) with your change - a concrete input, schedule or history showing the property broken. The demo may only use API that exists on the unchanged tree (so that it compiles there); for concurrency changes make it as deterministic as you can.
 - save: `mkdir -p /tmp/seed5/{id}/<k>`; `git add -A -N . && git diff > /tmp/seed5/{id}/<k>/patch.diff` (library change only - do not include the demo file in the diff; new library files must be included); copy the demo to /tmp/seed5/{id}/<k>/demo_test.go; write /tmp/seed5/{id}/<k>/notes.md: what the commit claims to do, where the flaw is, which clause of the property it breaks, the failing input/schedule, and why the existing tests do not notice.
 - then `git reset -q && git checkout -- . && git clean -fdq` so the next change starts from the clean tree (each patch must apply to the clean tree on its own).

Environment (no network): run go as
  cd {wt} && GOFLAGS=-mod=mod GOPROXY=off GOSUMDB=off GOTOOLCHAIN=local go ...
Do NOT use `git stash` (it is shared between worktrees). Leave the worktree clean at the end and finish with a two-line summary (one line per change).'''
here=os.path.dirname(os.path.abspath(__file__))
for l in open(os.path.join(here,'..','properties.jsonl')):
    o=json.loads(l)
    d=f"/tmp/seed5/{o['id']}"
    os.makedirs(d,exist_ok=True)
    q=o['quantifier']; quant=q.get('text','') if isinstance(q,dict) else str(q)
    open(d+'/prompt.txt','w').write(T.format(wt=f"/tmp/sw5/{o['id']}",id=o['id'],title=o['title'],statement=o['statement'],quant=quant,anchors=json.dumps(o.get('anchors'))))
