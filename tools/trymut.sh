#!/bin/bash
# trymut.sh <patch> <prop> [<prop>...] : apply patch to a scratch copy of /repo, check it builds, run the given checks on it.
# Prints one line per property: DETECTED / missed. Scratch copy is removed afterwards.
set -u
patch="$(readlink -f "$1")"; shift
T=$(mktemp -d /tmp/fpmut.XXXXXX)
trap 'rm -rf "$T"' EXIT
mkdir -p "$T/repo" "$T/verif/evidence"
rsync -a --exclude .git /repo/ "$T/repo/"
cp /verif/known_findings.json "$T/verif/"
if ! (cd "$T/repo" && patch -p1 -s < "$patch"); then echo "PATCH-FAILED $patch"; exit 3; fi
bo=$(cd "$T/repo" && GOFLAGS=-mod=mod GOPROXY=off GOSUMDB=off GOTOOLCHAIN=local go build ./... 2>&1) || { echo "BUILD-FAILED $(basename "$patch"): $(echo "$bo" | head -3 | tr '\n' '|')"; exit 3; }
rc=0
for p in "$@"; do
  out=$(FPCHECK_REPO="$T/repo" FPCHECK_VERIF="$T/verif" /verif/run.sh "$p" quick 2>&1)
  if echo "$out" | grep -q '^VIOLATION'; then
    echo "DETECTED $p $(basename "$patch"): $(echo "$out" | grep -E '^\s+(VIOLATED|UNDECIDED)' | head -2 | cut -c1-220 | tr '\n' '|')"
  else
    echo "missed   $p $(basename "$patch")"; rc=1
  fi
done
exit $rc
