#!/bin/bash
# run.sh <property-id> quick|thorough   |   run.sh <property-id> --explain <replay.json>
# Static check of one fpGo property against /repo's current working tree.
#  quick    : type-check /repo, build SSA, decide every rule instance of the property (one process, a few seconds).
#  thorough : the same decision, plus (a) the identical rule set rebuilt with the second toolchain (go1.26.8 +
#             x/tools v0.50.0) and compared obligation by obligation, (b) a sensitivity sweep: every patch under
#             mutants/<id>/ and seeded/<id>*/ is applied to a scratch copy of the CURRENT tree and the property's
#             rules are run on it; (c) a silence sweep: every behaviour-preserving refactoring under variants/ that
#             touches the property's anchor files is applied the same way and must stay silent. The sweeps only
#             feed the evidence file, the exit code depends on /repo alone.
set -u
cd "$(dirname "$0")"
VERIF="$(pwd)"
export GOPROXY=off GOSUMDB=off GOTOOLCHAIN=local GOFLAGS=-mod=vendor
unset GOWORK
REPO="${FPCHECK_REPO:-/repo}"
OUT="${FPCHECK_VERIF:-$VERIF}"
id="${1:?property id}"; tier="${2:-quick}"
if [ "$tier" = "--explain" ]; then cat "${3:?replay file}"; echo; exit 0; fi
# the checker binary is rebuilt whenever its sources changed (content hash, not timestamps: a restored tree has arbitrary mtimes)
srchash=$(cd "$VERIF/checker" && find . -name '*.go' -not -path './vendor/*' -print0 | sort -z | xargs -0 sha256sum | sha256sum | cut -d' ' -f1)
if [ ! -x "$VERIF/bin/fpcheck" ] || [ "$(cat "$VERIF/bin/fpcheck.srchash" 2>/dev/null)" != "$srchash" ]; then
  mkdir -p "$VERIF/bin"
  (cd "$VERIF/checker" && go build -o "$VERIF/bin/fpcheck.$$" ./cmd/fpcheck && mv "$VERIF/bin/fpcheck.$$" "$VERIF/bin/fpcheck" && echo "$srchash" > "$VERIF/bin/fpcheck.srchash") || { rm -f "$VERIF/bin/fpcheck.$$"; echo "ERROR: cannot build fpcheck"; exit 2; }
fi
mkdir -p "$OUT/evidence"
if [ "$tier" != "thorough" ]; then
  exec "$VERIF/bin/fpcheck" -prop "$id" -tier "$tier" -repo "$REPO" -verif "$OUT"
fi
# ---------------------------------------------------------------- thorough
T=$(mktemp -d "${TMPDIR:-/tmp}/fpcheck-thorough.XXXXXX")
trap 'rm -rf "$T"' EXIT
mkdir -p "$T/a" "$T/b/evidence"
FPCHECK_FULL="$T/a" "$VERIF/bin/fpcheck" -prop "$id" -tier thorough -repo "$REPO" -verif "$OUT"
rc=$?
# (a) second toolchain
cross="unavailable"
if command -v go1.26.8 >/dev/null 2>&1; then
  if [ ! -x "$VERIF/bin/fpcheck126" ] || [ "$(cat "$VERIF/bin/fpcheck126.srchash" 2>/dev/null)" != "$srchash" ]; then
    (cd "$VERIF/checker" && GOFLAGS=-mod=mod go1.26.8 build -modfile="$VERIF/checker126/go.mod" -o "$VERIF/bin/fpcheck126" ./cmd/fpcheck && echo "$srchash" > "$VERIF/bin/fpcheck126.srchash") >/dev/null 2>&1
  fi
  if [ -x "$VERIF/bin/fpcheck126" ]; then
    cp "$VERIF/known_findings.json" "$T/b/" 2>/dev/null
    FPCHECK_FULL="$T/b" "$VERIF/bin/fpcheck126" -prop "$id" -tier thorough -repo "$REPO" -verif "$T/b" >/dev/null 2>&1
    cross=$(python3 - "$T/a/$id.obligations.json" "$T/b/$id.obligations.json" <<'PY'
import json,sys
try:
    a=json.load(open(sys.argv[1])); b=json.load(open(sys.argv[2]))
except Exception as e:
    print("unavailable"); sys.exit()
ka={(o['rule'],o['key']):o['status'] for o in a}; kb={(o['rule'],o['key']):o['status'] for o in b}
diff=[k for k in set(ka)|set(kb) if ka.get(k)!=kb.get(k)]
print("agree:%d"%len(ka) if not diff else "DISAGREE:"+";".join("%s/%s %s vs %s"%(k[0],k[1],ka.get(k),kb.get(k)) for k in sorted(diff)[:5]))
PY
)
  fi
fi
case "$cross" in DISAGREE*) echo "  UNDECIDED $id cross-toolchain: $cross"; echo "VIOLATION property=$id replay=$OUT/evidence/$id.json"; rc=1;; esac
# (b) sensitivity sweep (evidence only)
applied=0; detected=0; missed=""
for pf in "$VERIF"/mutants/"$id"/*.patch "$VERIF"/seeded/"$id"[a-z]*/patch.diff; do
  [ -f "$pf" ] || continue
  S="$T/sweep"; rm -rf "$S"; mkdir -p "$S/repo" "$S/verif/evidence"
  rsync -a --exclude .git "$REPO/" "$S/repo/"
  cp "$VERIF/known_findings.json" "$S/verif/" 2>/dev/null
  (cd "$S/repo" && patch -p1 -s < "$pf" >/dev/null 2>&1) || continue
  (cd "$S/repo" && GOFLAGS=-mod=mod go build ./... >/dev/null 2>&1) || continue
  applied=$((applied+1))
  if "$VERIF/bin/fpcheck" -prop "$id" -tier quick -repo "$S/repo" -verif "$S/verif" 2>/dev/null | grep -q '^VIOLATION'; then
    detected=$((detected+1))
  else
    missed="$missed $(basename "$(dirname "$pf")")/$(basename "$pf")"
  fi
done
# (c) silence sweep (evidence only): behaviour-preserving variants that touch the property's anchor files
anchors=$(python3 - "$VERIF/properties.jsonl" "$id" <<'PY'
import json,sys
for l in open(sys.argv[1]):
    o=json.loads(l)
    if o['id']==sys.argv[2]:
        print(" ".join((o.get('anchors') or {}).get('files') or []))
PY
)
vapplied=0; vsilent=0; valarm=""
for pf in "$VERIF"/variants/*.patch; do
  [ -f "$pf" ] || continue
  hit=0; for af in $anchors; do grep -q "^+++ b/$af\b" "$pf" && hit=1; done
  [ $hit = 1 ] || continue
  S="$T/sweep"; rm -rf "$S"; mkdir -p "$S/repo" "$S/verif/evidence"
  rsync -a --exclude .git "$REPO/" "$S/repo/"
  cp "$VERIF/known_findings.json" "$S/verif/" 2>/dev/null
  (cd "$S/repo" && patch -p1 -s < "$pf" >/dev/null 2>&1) || continue
  (cd "$S/repo" && GOFLAGS=-mod=mod go build ./... >/dev/null 2>&1) || continue
  vapplied=$((vapplied+1))
  if "$VERIF/bin/fpcheck" -prop "$id" -tier quick -repo "$S/repo" -verif "$S/verif" 2>/dev/null | grep -q '^VIOLATION'; then
    valarm="$valarm $(basename "$pf")"
  else
    vsilent=$((vsilent+1))
  fi
done
python3 - "$OUT/evidence/$id.json" "$cross" "$applied" "$detected" "$missed" "$vapplied" "$vsilent" "$valarm" <<'PY'
import json,sys
p,cross,applied,detected,missed,vapplied,vsilent,valarm=sys.argv[1:9]
ev=json.load(open(p))
ev['coverage']['silence_sweep']={'variants_applied':int(vapplied),'variants_silent':int(vsilent),'variants_alarmed':valarm.split(),'note':'behaviour-preserving refactorings under variants/ that touch the anchor files, applied to a scratch copy of the current tree; alarms listed here are the declared limits of DESIGN 9.7/9.9; evidence only'}
ev['coverage']['cross_toolchain_go1.26.8_xtools_v0.50.0']=cross
ev['coverage']['sensitivity_sweep']={'variants_applied':int(applied),'variants_detected':int(detected),'variants_missed':missed.split(),'note':'each patch under mutants/<id>/ and seeded/<id>*/ applied to a scratch copy of the current tree; evidence only, never affects the verdict'}
json.dump(ev,open(p,'w'),indent=1)
PY
echo "$id thorough: cross-toolchain $cross; sensitivity sweep $detected/$applied breaking changes detected${missed:+; missed:$missed}; silence sweep $vsilent/$vapplied refactorings silent${valarm:+; alarmed:$valarm}"
exit $rc
