#!/bin/bash
# run.sh <property-id> quick|thorough   |   run.sh <property-id> --explain <replay.json>
# Static check of one fpGo property against /repo's current working tree.
set -u
cd "$(dirname "$0")"
VERIF="$(pwd)"
export GOPROXY=off GOSUMDB=off GOTOOLCHAIN=local GOFLAGS=-mod=vendor
unset GOWORK
REPO="${FPCHECK_REPO:-/repo}"
id="${1:?property id}"; tier="${2:-quick}"
if [ "$tier" = "--explain" ]; then cat "${3:?replay file}"; echo; exit 0; fi
if [ ! -x "$VERIF/bin/fpcheck" ] || [ -n "$(find "$VERIF/checker" -name '*.go' -newer "$VERIF/bin/fpcheck" -not -path '*/vendor/*' -print -quit)" ]; then
  (cd "$VERIF/checker" && go build -o "$VERIF/bin/fpcheck" ./cmd/fpcheck) || { echo "ERROR: cannot build fpcheck"; exit 2; }
fi
mkdir -p "$VERIF/evidence"
exec "$VERIF/bin/fpcheck" -prop "$id" -tier "$tier" -repo "$REPO" -verif "${FPCHECK_VERIF:-$VERIF}"
