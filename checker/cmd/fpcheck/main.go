// fpcheck decides structural clauses of the fpGo properties C01..C20 by static
// analysis of /repo's current source (go/packages + go/types + go/ssa).
package main

import (
	"flag"
	"fmt"
	"os"
	"runtime/debug"
	"strconv"

	"fpcheck/internal/core"
	"fpcheck/internal/rules"
)

func main() {
	prop := flag.String("prop", "", "property id (C01..C20)")
	tier := flag.String("tier", "quick", "quick|thorough")
	repo := flag.String("repo", "/repo", "repository root")
	verif := flag.String("verif", "/verif", "verif root (evidence, known findings)")
	list := flag.Bool("list", false, "list implemented properties")
	dump := flag.String("dump", "", "debug: chanops|locks|entry")
	flag.Parse()
	if *dump != "" {
		p, err := core.Load(*repo)
		if err != nil {
			fmt.Println("ERROR", err)
			os.Exit(2)
		}
		core.Dump(p, *dump)
		return
	}
	if *list {
		for _, id := range rules.IDs() {
			fmt.Println(id)
		}
		return
	}
	if *prop == "all" {
		// one load, every property: used by the mutation/variant sweeps (evidence goes to -verif)
		p, err := core.Load(*repo)
		if err != nil {
			fmt.Printf("ERROR %v\n", err)
			for _, id := range rules.IDs() {
				fmt.Printf("VIOLATION property=%s replay=%s/evidence/replay/%s-load.json\n", id, *verif, id)
			}
			os.Exit(1)
		}
		seed, _ := strconv.Atoi(os.Getenv("VERIF_SEED"))
		worst := 0
		for _, id := range rules.IDs() {
			r := rules.Get(id)
			func() {
				defer func() {
					if e := recover(); e != nil {
						fmt.Printf("ERROR analyser panic in %s: %v\n%s\n", id, e, debug.Stack())
						fmt.Printf("VIOLATION property=%s replay=%s/evidence/replay/%s-panic.json\n", id, *verif, id)
						worst = 1
					}
				}()
				c := core.NewCtx(id, *tier, p)
				rules.RunAll(r, c, *verif)
				if code := c.Finish(*verif, seed, r.Explanation, r.Trusted); code > worst {
					worst = code
				}
			}()
		}
		os.Exit(worst)
	}
	r := rules.Get(*prop)
	if r == nil {
		fmt.Printf("ERROR unknown property %q\n", *prop)
		os.Exit(2)
	}
	seed, _ := strconv.Atoi(os.Getenv("VERIF_SEED"))
	code := 2
	func() {
		defer func() {
			if e := recover(); e != nil {
				// an analyser panic is a failed check, never a pass
				fmt.Printf("ERROR analyser panic in %s: %v\n%s\n", *prop, e, debug.Stack())
				fmt.Printf("VIOLATION property=%s replay=%s/evidence/replay/%s-panic.json\n", *prop, *verif, *prop)
				code = 1
			}
		}()
		p, err := core.Load(*repo)
		if err != nil {
			fmt.Printf("ERROR %v\n", err)
			fmt.Printf("VIOLATION property=%s replay=%s/evidence/replay/%s-load.json\n", *prop, *verif, *prop)
			code = 1
			return
		}
		c := core.NewCtx(*prop, *tier, p)
		rules.RunAll(r, c, *verif)
		code = c.Finish(*verif, seed, r.Explanation, r.Trusted)
	}()
	os.Exit(code)
}
