// renameall: a mechanical robustness probe for the rules. It copies the repository to a scratch directory and renames,
// consistently, every unexported identifier of the selected kinds (fields, funcs/methods, params/locals, package-level
// vars/consts, types) by appending a suffix. The result is behaviour-identical; every check must stay silent on it.
//
//	renameall -repo /repo -out /tmp/x -kinds field,func,local,pkgvar,type [-suffix Q9]
package main

import (
	"bytes"
	"flag"
	"fmt"
	"go/ast"
	"go/printer"
	"go/token"
	"go/types"
	"os"
	"path/filepath"
	"strings"

	"golang.org/x/tools/go/packages"
)

func main() {
	repo := flag.String("repo", "/repo", "repository")
	out := flag.String("out", "", "output directory (an existing copy of the repository)")
	kinds := flag.String("kinds", "field,func,local,pkgvar", "kinds to rename")
	suffix := flag.String("suffix", "Q9", "suffix")
	flag.Parse()
	want := map[string]bool{}
	for _, k := range strings.Split(*kinds, ",") {
		want[k] = true
	}
	cfg := &packages.Config{Mode: packages.LoadAllSyntax, Dir: *repo, Tests: false, Env: append(os.Environ(), "GOFLAGS=-mod=mod", "GOWORK=off", "GOPROXY=off")}
	pkgs, err := packages.Load(cfg, "./...")
	if err != nil {
		fmt.Println(err)
		os.Exit(2)
	}
	const mod = "github.com/TeaEntityLab/fpGo/v2"
	n := 0
	for _, pk := range pkgs {
		if !strings.HasPrefix(pk.PkgPath, mod) {
			continue
		}
		rename := func(obj types.Object) bool {
			if obj == nil || obj.Pkg() == nil || !strings.HasPrefix(obj.Pkg().Path(), mod) || obj.Exported() {
				return false
			}
			nm := obj.Name()
			if nm == "_" || nm == "init" || nm == "main" || nm == "" {
				return false
			}
			switch o := obj.(type) {
			case *types.Var:
				if o.IsField() {
					if o.Embedded() {
						// an embedded field is named after its type: it follows the type's rename
						t := o.Type()
						if pt, ok := t.(*types.Pointer); ok {
							t = pt.Elem()
						}
						if nt, ok := t.(*types.Named); ok {
							tn := nt.Origin().Obj()
							return want["type"] && tn.Pkg() != nil && strings.HasPrefix(tn.Pkg().Path(), mod) && !tn.Exported()
						}
						return false
					}
					return want["field"]
				}
				if o.Parent() == o.Pkg().Scope() {
					return want["pkgvar"]
				}
				return want["local"]
			case *types.Const:
				if o.Parent() == o.Pkg().Scope() {
					return want["pkgvar"]
				}
				return want["local"]
			case *types.Func:
				return want["func"]
			case *types.TypeName:
				if _, isTP := o.Type().(*types.TypeParam); isTP {
					return false
				}
				return want["type"]
			}
			return false
		}
		for _, f := range pk.Syntax {
			ast.Inspect(f, func(nd ast.Node) bool {
				id, ok := nd.(*ast.Ident)
				if !ok {
					return true
				}
				obj := pk.TypesInfo.Defs[id]
				if obj == nil {
					obj = pk.TypesInfo.Uses[id]
				}
				if v, isV := obj.(*types.Var); isV {
					obj = v.Origin()
				}
				if fn, isF := obj.(*types.Func); isF {
					obj = fn.Origin()
				}
				if rename(obj) {
					id.Name += *suffix
					n++
				}
				return true
			})
			if want["swapcmp"] {
				swapComparisons(f)
			}
			if want["namedres"] {
				nameResults(f)
			}
			if want["capture"] {
				captureParams(f)
			}
			if want["invertif"] {
				invertIfs(f)
			}
			if want["tmpret"] {
				tmpReturns(f, pk.TypesInfo)
			}
			if want["reorder"] {
				reorderDecls(f)
			}
			var buf bytes.Buffer
			if err := printer.Fprint(&buf, pk.Fset, f); err != nil {
				fmt.Println(err)
				os.Exit(2)
			}
			rel, _ := filepath.Rel(*repo, pk.Fset.Position(f.Pos()).Filename)
			if err := os.WriteFile(filepath.Join(*out, rel), buf.Bytes(), 0o644); err != nil {
				fmt.Println(err)
				os.Exit(2)
			}
		}
	}
	fmt.Printf("renamed %d identifier occurrences\n", n)
	_ = token.NoPos
}


// invertIfs rewrites every `if c { A } else { B }` (B a plain block) into `if !(c) { B } else { A }`.
func invertIfs(f *ast.File) {
	ast.Inspect(f, func(n ast.Node) bool {
		ifs, ok := n.(*ast.IfStmt)
		if !ok || ifs.Else == nil {
			return true
		}
		els, isBlock := ifs.Else.(*ast.BlockStmt)
		if !isBlock {
			return true
		}
		ifs.Cond = &ast.UnaryExpr{Op: token.NOT, X: &ast.ParenExpr{X: ifs.Cond}}
		ifs.Body, ifs.Else = els, ifs.Body
		return true
	})
}

// tmpReturns rewrites `return e1, e2` into `var r1 T1 = e1; var r2 T2 = e2; return r1, r2` (single-exit style value
// plumbing) in every function with unnamed results, unless the return forwards a call's tuple.
func tmpReturns(f *ast.File, info *types.Info) {
	counter := 0
	var doBody func(ft *ast.FuncType, body *ast.BlockStmt)
	var fixList func(ft *ast.FuncType, list []ast.Stmt) []ast.Stmt
	fixStmt := func(ft *ast.FuncType, s ast.Stmt) {}
	_ = fixStmt
	var walk func(ft *ast.FuncType, n ast.Node)
	walk = func(ft *ast.FuncType, n ast.Node) {
		ast.Inspect(n, func(m ast.Node) bool {
			switch x := m.(type) {
			case *ast.FuncLit:
				doBody(x.Type, x.Body)
				return false
			case *ast.BlockStmt:
				x.List = fixList(ft, x.List)
			case *ast.CaseClause:
				x.Body = fixList(ft, x.Body)
			case *ast.CommClause:
				x.Body = fixList(ft, x.Body)
			}
			return true
		})
	}
	fixList = func(ft *ast.FuncType, list []ast.Stmt) []ast.Stmt {
		var out []ast.Stmt
		for _, s := range list {
			ret, ok := s.(*ast.ReturnStmt)
			if !ok || ft.Results == nil || len(ret.Results) == 0 {
				out = append(out, s)
				continue
			}
			var rtypes []ast.Expr
			named := false
			for _, fld := range ft.Results.List {
				if len(fld.Names) > 0 {
					named = true
				}
				k := len(fld.Names)
				if k == 0 {
					k = 1
				}
				for i := 0; i < k; i++ {
					rtypes = append(rtypes, fld.Type)
				}
			}
			if named || len(rtypes) != len(ret.Results) {
				out = append(out, s)
				continue
			}
			var names []ast.Expr
			for i, e := range ret.Results {
				counter++
				nm := ast.NewIdent(fmt.Sprintf("retTmp%d", counter))
				out = append(out, &ast.DeclStmt{Decl: &ast.GenDecl{Tok: token.VAR, Specs: []ast.Spec{&ast.ValueSpec{Names: []*ast.Ident{nm}, Type: rtypes[i], Values: []ast.Expr{e}}}}})
				names = append(names, ast.NewIdent(nm.Name))
			}
			out = append(out, &ast.ReturnStmt{Results: names})
		}
		return out
	}
	doBody = func(ft *ast.FuncType, body *ast.BlockStmt) {
		if body == nil {
			return
		}
		walk(ft, body)
	}
	for _, d := range f.Decls {
		if fd, ok := d.(*ast.FuncDecl); ok {
			doBody(fd.Type, fd.Body)
		}
	}
}

// reorderDecls reverses the order of the function declarations of the file (other declarations stay in front).
func reorderDecls(f *ast.File) {
	var funcs, others []ast.Decl
	for _, d := range f.Decls {
		if _, ok := d.(*ast.FuncDecl); ok {
			funcs = append(funcs, d)
		} else {
			others = append(others, d)
		}
	}
	for i, j := 0, len(funcs)-1; i < j; i, j = i+1, j-1 {
		funcs[i], funcs[j] = funcs[j], funcs[i]
	}
	f.Decls = append(others, funcs...)
	f.Comments = nil
}


// captureParams inserts, at the top of every function body, a never-called closure that mentions every named
// parameter and the receiver: `_ = func() { _ = a; _ = b }`. It changes nothing at run time but makes go/ssa keep
// those parameters in memory cells (captured variables are not lifted to registers).
func captureParams(f *ast.File) {
	for _, d := range f.Decls {
		fd, ok := d.(*ast.FuncDecl)
		if !ok || fd.Body == nil {
			continue
		}
		var names []string
		// parameters that the body assigns, and func-typed parameters (lock wrappers are recognised by "the parameter is
		// only ever called"), are left alone: capturing those is not a neutral edit for the analyses' idioms
		assigned := map[string]bool{}
		ast.Inspect(fd.Body, func(n ast.Node) bool {
			switch x := n.(type) {
			case *ast.AssignStmt:
				for _, l := range x.Lhs {
					if id, ok := l.(*ast.Ident); ok {
						assigned[id.Name] = true
					}
				}
			case *ast.IncDecStmt:
				if id, ok := x.X.(*ast.Ident); ok {
					assigned[id.Name] = true
				}
			case *ast.RangeStmt:
				for _, l := range []ast.Expr{x.Key, x.Value} {
					if id, ok := l.(*ast.Ident); ok {
						assigned[id.Name] = true
					}
				}
			}
			return true
		})
		add := func(fl *ast.FieldList) {
			if fl == nil {
				return
			}
			for _, fld := range fl.List {
				if _, isFunc := fld.Type.(*ast.FuncType); isFunc {
					continue
				}
				for _, nm := range fld.Names {
					if nm.Name != "_" && !assigned[nm.Name] {
						names = append(names, nm.Name)
					}
				}
			}
		}
		add(fd.Recv)
		add(fd.Type.Params)
		if len(names) == 0 {
			continue
		}
		var stmts []ast.Stmt
		for _, nm := range names {
			stmts = append(stmts, &ast.AssignStmt{Lhs: []ast.Expr{ast.NewIdent("_")}, Tok: token.ASSIGN, Rhs: []ast.Expr{ast.NewIdent(nm)}})
		}
		lit := &ast.FuncLit{Type: &ast.FuncType{Params: &ast.FieldList{}}, Body: &ast.BlockStmt{List: stmts}}
		first := &ast.AssignStmt{Lhs: []ast.Expr{ast.NewIdent("_")}, Tok: token.ASSIGN, Rhs: []ast.Expr{lit}}
		fd.Body.List = append([]ast.Stmt{first}, fd.Body.List...)
	}
}


// nameResults gives every unnamed result list names (`func f() (T, error)` → `func f() (zzRes0 T, zzRes1 error)`); the
// returns stay explicit, so nothing changes at run time, but go/ssa now treats the results as variables.
func nameResults(f *ast.File) {
	n := 0
	fix := func(ft *ast.FuncType) {
		if ft == nil || ft.Results == nil {
			return
		}
		for _, fld := range ft.Results.List {
			if len(fld.Names) > 0 {
				return
			}
		}
		for _, fld := range ft.Results.List {
			fld.Names = []*ast.Ident{ast.NewIdent(fmt.Sprintf("zzRes%d", n))}
			n++
		}
	}
	ast.Inspect(f, func(nd ast.Node) bool {
		switch x := nd.(type) {
		case *ast.FuncDecl:
			if x.Body != nil {
				fix(x.Type)
			}
		case *ast.FuncLit:
			fix(x.Type)
		}
		return true
	})
}


// swapComparisons writes every comparison the other way round (`a < b` → `b > a`, `x == nil` → `nil == x`) where one
// side is a plain identifier, selector or literal (so that no evaluation order that could matter changes).
func swapComparisons(f *ast.File) {
	pure := func(e ast.Expr) bool {
		for {
			switch x := e.(type) {
			case *ast.ParenExpr:
				e = x.X
				continue
			case *ast.Ident, *ast.BasicLit:
				return true
			case *ast.SelectorExpr:
				e = x.X
				continue
			}
			return false
		}
	}
	mirror := map[token.Token]token.Token{token.EQL: token.EQL, token.NEQ: token.NEQ, token.LSS: token.GTR, token.GTR: token.LSS, token.LEQ: token.GEQ, token.GEQ: token.LEQ}
	ast.Inspect(f, func(nd ast.Node) bool {
		b, ok := nd.(*ast.BinaryExpr)
		if !ok {
			return true
		}
		if m, isCmp := mirror[b.Op]; isCmp && (pure(b.X) || pure(b.Y)) {
			b.X, b.Y, b.Op = b.Y, b.X, m
		}
		return true
	})
}
