// renameall: a mechanical robustness probe for the rules. It copies the repository to a scratch directory and renames,
// consistently, every unexported identifier of the selected kinds (fields, funcs/methods, params/locals, package-level
// vars/consts, types) by appending a suffix. The result is behaviour-identical; every check must stay silent on it.
//
//	renameall -repo /repo -out /tmp/x -kinds field,func,local,pkgvar,type [-suffix Q9]
package main

import (
	"bytes"
	"flag"
	"fmt"
	"go/ast"
	"go/printer"
	"go/token"
	"go/types"
	"os"
	"path/filepath"
	"strings"

	"golang.org/x/tools/go/packages"
)

func main() {
	repo := flag.String("repo", "/repo", "repository")
	out := flag.String("out", "", "output directory (an existing copy of the repository)")
	kinds := flag.String("kinds", "field,func,local,pkgvar", "kinds to rename")
	suffix := flag.String("suffix", "Q9", "suffix")
	flag.Parse()
	want := map[string]bool{}
	for _, k := range strings.Split(*kinds, ",") {
		want[k] = true
	}
	cfg := &packages.Config{Mode: packages.LoadAllSyntax, Dir: *repo, Tests: false, Env: append(os.Environ(), "GOFLAGS=-mod=mod", "GOWORK=off", "GOPROXY=off")}
	pkgs, err := packages.Load(cfg, "./...")
	if err != nil {
		fmt.Println(err)
		os.Exit(2)
	}
	const mod = "github.com/TeaEntityLab/fpGo/v2"
	n := 0
	for _, pk := range pkgs {
		if !strings.HasPrefix(pk.PkgPath, mod) {
			continue
		}
		rename := func(obj types.Object) bool {
			if obj == nil || obj.Pkg() == nil || !strings.HasPrefix(obj.Pkg().Path(), mod) || obj.Exported() {
				return false
			}
			nm := obj.Name()
			if nm == "_" || nm == "init" || nm == "main" || nm == "" {
				return false
			}
			switch o := obj.(type) {
			case *types.Var:
				if o.IsField() {
					if o.Embedded() {
						// an embedded field is named after its type: it follows the type's rename
						t := o.Type()
						if pt, ok := t.(*types.Pointer); ok {
							t = pt.Elem()
						}
						if nt, ok := t.(*types.Named); ok {
							tn := nt.Origin().Obj()
							return want["type"] && tn.Pkg() != nil && strings.HasPrefix(tn.Pkg().Path(), mod) && !tn.Exported()
						}
						return false
					}
					return want["field"]
				}
				if o.Parent() == o.Pkg().Scope() {
					return want["pkgvar"]
				}
				return want["local"]
			case *types.Const:
				if o.Parent() == o.Pkg().Scope() {
					return want["pkgvar"]
				}
				return want["local"]
			case *types.Func:
				return want["func"]
			case *types.TypeName:
				if _, isTP := o.Type().(*types.TypeParam); isTP {
					return false
				}
				return want["type"]
			}
			return false
		}
		for _, f := range pk.Syntax {
			ast.Inspect(f, func(nd ast.Node) bool {
				id, ok := nd.(*ast.Ident)
				if !ok {
					return true
				}
				obj := pk.TypesInfo.Defs[id]
				if obj == nil {
					obj = pk.TypesInfo.Uses[id]
				}
				if v, isV := obj.(*types.Var); isV {
					obj = v.Origin()
				}
				if fn, isF := obj.(*types.Func); isF {
					obj = fn.Origin()
				}
				if rename(obj) {
					id.Name += *suffix
					n++
				}
				return true
			})
			// embedded fields of renamed types are named after the type: handled by the type's identifier itself
			var buf bytes.Buffer
			if err := printer.Fprint(&buf, pk.Fset, f); err != nil {
				fmt.Println(err)
				os.Exit(2)
			}
			rel, _ := filepath.Rel(*repo, pk.Fset.Position(f.Pos()).Filename)
			if err := os.WriteFile(filepath.Join(*out, rel), buf.Bytes(), 0o644); err != nil {
				fmt.Println(err)
				os.Exit(2)
			}
		}
	}
	fmt.Printf("renamed %d identifier occurrences\n", n)
	_ = token.NoPos
}
