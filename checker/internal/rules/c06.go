package rules

import (
	"fmt"
	"go/token"
	"go/types"

	"fpcheck/internal/core"

	"golang.org/x/tools/go/ssa"
)

func init() {
	register(&Prop{
		ID: "C06",
		Explanation: "Structural invariants of the doubly linked deque decided on SSA store paths: (R1) a head/tail removal resets the new end's back link (new first's Prev / new last's Next ← nil) or, when the list became empty, clears the other end; (R2) insertion links both directions (a.Next ← b together with b.Prev ← a) and maintains both ends, the empty-list test reading the end pointer before it is overwritten; (R3) every insertion path adds exactly 1 to count and every successful removal path subtracts exactly 1, Clear zeroes it with both ends, nobody else writes it; " +
			"(R4) Shift/Peek report ErrQueueIsEmpty exactly on first == nil and Pop ErrStackIsEmpty exactly on last == nil, returning the node's value otherwise; Poll/Take/Put/Push delegate; (R5) free-list hygiene - a node handed to the GC pool has Val/Prev/Next cleared first, a node taken from the free list has Next/Prev reset, recycling clears Val/Prev and relinks Next to the free list, so a node obtained for insertion never carries stale links. " +
			"These are the invariants whose violation breaks histories mixing head and tail operations; that every history returns what the ideal deque returns needs the inductive shape invariant and is not decided. (R6) chain-clearing helpers are only handed chains of the free list, never a node of the live list.",
		Trusted: append([]string{"sync.Pool.Get returns either a node previously Put (cleared, by R5) or a fresh zero node from New"}, commonTrusted...),
		Run:     runC06,
	})
}

const (
	c06Q    = "LinkedListQueue"
	c06Node = "DoublyListItem"
)

// c06store matches a store to field `field` of the struct reached by path `base` (FieldBase) with value predicate.
type c06st struct {
	st    *ssa.Store
	field string
	base  ssa.Value // the struct pointer the field is selected from (resolved)
}

func c06stores(f *ssa.Function) []c06st {
	var out []c06st
	core.Instrs(f, func(ins ssa.Instruction) {
		st, ok := ins.(*ssa.Store)
		if !ok {
			return
		}
		fa, ok := st.Addr.(*ssa.FieldAddr)
		if !ok {
			return
		}
		out = append(out, c06st{st, core.FieldKey(fa), core.Resolve(core.FieldOwner(fa))})
	})
	return out
}

// loadOf: v is a load of field key (Type.field) from base b (resolved value), returns true.
func c06isLoad(v ssa.Value, key string, base ssa.Value) bool {
	u, ok := core.Resolve(v).(*ssa.UnOp)
	if !ok || u.Op != token.MUL {
		return false
	}
	fa, ok := u.X.(*ssa.FieldAddr)
	return ok && core.FieldKey(fa) == key && (base == nil || core.Resolve(core.FieldOwner(fa)) == base)
}

func runC06(c *core.Ctx) {
	p := c.P
	c.Rule("R1", "unlink resets the neighbour: after first ← node.Next either the list is empty and last ← nil, or newFirst.Prev ← nil (symmetric for Pop)", 2)
	c.Rule("R2", "insert links both directions and maintains both ends (empty test reads the end pointer before it is overwritten)", 2)
	c.Rule("R3", "count changes by exactly +1 per insertion path and -1 per successful removal path; only Clear resets it (with both ends)", 5)
	c.Rule("R4", "empty reports exactly on the nil end; value of the removed/peeked node returned; delegating methods delegate", 7)
	c.Rule("R5", "free-list hygiene: nodes are cleared before being pooled, reset when reused, and recycling never leaves a stale Prev/Val", 3)
	// an exported operation that only hands its parameters on to an unexported method doing the work is read there
	q := func(n string) *ssa.Function {
		f := p.Method(p.Fpgo, c06Q, n)
		if f == nil {
			return nil
		}
		return core.SameParamsImpl(p, f)
	}
	// ---------------- R1
	for _, spec := range []struct{ name, end, other, fwd, back string }{
		{"Shift", "first", "last", "Next", "Prev"},
		{"Pop", "last", "first", "Prev", "Next"},
	} {
		f := q(spec.name)
		if f == nil {
			c.Unknown("R1", c06Q+"."+spec.name, "-", "method not found")
			continue
		}
		c.Analysed(core.FuncName(f))
		ok, detail := func() (bool, string) {
			recv := ssa.Value(f.Params[0])
			var adv *ssa.Store // q.end ← node.fwd
			for _, s := range c06stores(f) {
				if s.field == c06Q+"."+spec.end && s.base == recv && c06isLoad(s.st.Val, c06Node+"."+spec.fwd, nil) {
					adv = s.st
				}
			}
			if adv == nil {
				// the removal may be written once, for a node at any position (`unlink(node)`), and be handed the end node
				if okG, dG, isG := c06generalUnlink(p, f, spec.end); isG {
					return okG, dG
				}
				return false, fmt.Sprintf("%s does not advance %s to node.%s", spec.name, spec.end, spec.fwd)
			}
			// the removed node is the old end
			node := core.Resolve(core.Resolve(adv.Val).(*ssa.UnOp).X.(*ssa.FieldAddr).X)
			if !c06isLoad(node, c06Q+"."+spec.end, recv) {
				return false, "the removed node is not the current " + spec.end
			}
			// the NEW end: the value adv stored, or a read of q.end made after adv (a read made before adv is
			// the removed node itself)
			isNewEnd := func(v ssa.Value) bool {
				rv := core.Resolve(v)
				if rv == core.Resolve(adv.Val) {
					return true
				}
				if c06isLoad(rv, c06Q+"."+spec.end, recv) {
					if ld, isI := rv.(ssa.Instruction); isI {
						return core.InstrDominates(adv, ld)
					}
				}
				return false
			}
			// on every path after adv: either (other ← nil on the new-end == nil edge) or (newEnd.back ← nil)
			okPaths := true
			why := ""
			var walk func(b *ssa.BasicBlock, start int, seen map[*ssa.BasicBlock]bool, done bool)
			walk = func(b *ssa.BasicBlock, start int, seen map[*ssa.BasicBlock]bool, done bool) {
				if seen[b] {
					return
				}
				seen[b] = true
				defer func() { seen[b] = false }()
				for _, ins := range b.Instrs[start:] {
					if st, isS := ins.(*ssa.Store); isS {
						if fa, isFA := st.Addr.(*ssa.FieldAddr); isFA && core.IsNilConst(st.Val) {
							key := core.FieldKey(fa)
							if key == c06Q+"."+spec.other && core.Resolve(core.FieldOwner(fa)) == recv {
								// must be on the new-end == nil edge
								for _, m := range core.EdgeCmps(b) {
									if m.Op == token.EQL && core.IsNilConst(m.Y) && isNewEnd(m.X) {
										done = true
									}
								}
							}
							if key == c06Node+"."+spec.back && isNewEnd(core.FieldOwner(fa)) {
								done = true
							}
						}
					}
					if _, isR := ins.(*ssa.Return); isR && !done {
						okPaths = false
						why = "a path from the removal to the return at " + p.InstrPos(ins) + " neither clears " + spec.other + " (list became empty) nor resets the new " + spec.end + "'s " + spec.back + " link: it keeps pointing at the recycled node, and a later removal from the other end walks into the free list"
					}
				}
				for _, s := range b.Succs {
					walk(s, 0, seen, done)
				}
			}
			idx := 0
			for i, ins := range adv.Block().Instrs {
				if ins == ssa.Instruction(adv) {
					idx = i + 1
				}
			}
			walk(adv.Block(), idx, map[*ssa.BasicBlock]bool{}, false)
			if !okPaths {
				return false, why
			}
			return true, fmt.Sprintf("%s ← node.%s; then %s ← nil when empty, else new%s.%s ← nil on every path", spec.end, spec.fwd, spec.other, spec.end, spec.back)
		}()
		c.Check(ok, "R1", c06Q+"."+spec.name, p.Pos(f.Pos()), detail, detail)
	}
	// ---------------- R2
	gen := q("generateNode")
	for _, spec := range []struct{ name, end, other, fwd, back string }{
		{"Offer", "last", "first", "Next", "Prev"},   // append at tail: last.Next ← node, node.Prev ← last, last ← node; first ← node if first == nil
		{"Unshift", "first", "last", "Prev", "Next"}, // insert at head: first.Prev ← node, node.Next ← first, first ← node; last ← node if last == nil
	} {
		f := q(spec.name)
		if f == nil {
			c.Unknown("R2", c06Q+"."+spec.name, "-", "method not found")
			continue
		}
		c.Analysed(core.FuncName(f))
		ok, detail := func() (bool, string) {
			recv := ssa.Value(f.Params[0])
			// node = result of the fresh-node producer
			var node ssa.Value
			core.Instrs(f, func(ins ssa.Instruction) {
				if call, isC := ins.(*ssa.Call); isC && gen != nil && c06produces(p, core.Callee(&call.Call), gen, 0) {
					node = call
				}
			})
			if node == nil {
				return false, "the inserted node does not come from the free-list aware producer"
			}
			stores := c06stores(f)
			var setEnd, setOther, linkOld, linkNew *ssa.Store
			for _, s := range stores {
				v := core.Resolve(s.st.Val)
				switch {
				case s.field == c06Q+"."+spec.end && s.base == recv && v == node:
					setEnd = s.st
				case s.field == c06Q+"."+spec.other && s.base == recv && v == node:
					setOther = s.st
				case s.field == c06Node+"."+spec.fwd && v == node && c06isLoad(s.base, c06Q+"."+spec.end, recv):
					linkOld = s.st // oldEnd.fwd ← node
				case s.field == c06Node+"."+spec.back && s.base == node && c06isLoad(v, c06Q+"."+spec.end, recv):
					linkNew = s.st // node.back ← oldEnd
				}
			}
			if setEnd == nil {
				return false, spec.end + " is not set to the new node"
			}
			one := func(st *ssa.Store) bool {
				min, max := core.PathCount(f, func(ins ssa.Instruction) int {
					if ins == ssa.Instruction(st) {
						return 1
					}
					return 0
				}, nil)
				return min == 1 && max == 1
			}
			if !one(setEnd) {
				return false, spec.end + " is not set to the new node on every path"
			}
			if linkOld == nil || linkNew == nil {
				return false, fmt.Sprintf("links are not set in both directions (old%s.%s ← node: %v, node.%s ← old%s: %v): traversal from one end no longer reaches the other", spec.end, spec.fwd, linkOld != nil, spec.back, spec.end, linkNew != nil)
			}
			// the old end used for linking must be read before `end` is overwritten, and linkOld guarded by old != nil
			for _, st := range []*ssa.Store{linkOld, linkNew} {
				var ld ssa.Instruction
				if st == linkOld {
					ld = core.Resolve(st.Addr.(*ssa.FieldAddr).X).(ssa.Instruction)
				} else {
					ld = core.Resolve(st.Val).(ssa.Instruction)
				}
				if core.InstrDominates(setEnd, ld) {
					return false, "the old " + spec.end + " is read after it was overwritten with the new node: the node gets linked to itself"
				}
			}
			guard := false
			for _, m := range core.EdgeCmps(linkOld.Block()) {
				if m.Op == token.NEQ && core.IsNilConst(m.Y) && c06isLoad(m.X, c06Q+"."+spec.end, recv) {
					guard = true
				}
			}
			if !guard {
				return false, "linking through the old " + spec.end + " is not guarded by it being non-nil"
			}
			// both link stores on the same paths (same block or one dominating the other within the guard)
			if linkOld.Block() != linkNew.Block() && !linkNew.Block().Dominates(linkOld.Block()) {
				return false, "the two link directions are not set on the same path"
			}
			// other end when the list was empty: test must read `other` before any store to it
			if setOther == nil {
				return false, spec.other + " is never set: inserting into an empty list leaves " + spec.other + " nil (the next removal from that end reports empty / later inserts lose the chain)"
			}
			okEmpty := false
			for _, m := range core.EdgeCmps(setOther.Block()) {
				if m.Op == token.EQL && core.IsNilConst(m.Y) && c06isLoad(m.X, c06Q+"."+spec.other, recv) {
					ld := core.Resolve(m.X).(ssa.Instruction)
					stale := false
					for _, s := range stores {
						if s.field == c06Q+"."+spec.other && s.base == recv && core.InstrDominates(s.st, ld) {
							stale = true
						}
					}
					if !stale {
						okEmpty = true
					}
				}
			}
			if !okEmpty {
				return false, fmt.Sprintf("%s ← node is not guarded by a test of %s == nil read before any overwrite: inserting into an empty list does not set %s", spec.other, spec.other, spec.other)
			}
			return true, fmt.Sprintf("old%s.%s ↔ node.%s linked together under old%s != nil; %s ← node always; %s ← node when it was nil", spec.end, spec.fwd, spec.back, spec.end, spec.end, spec.other)
		}()
		c.Check(ok, "R2", c06Q+"."+spec.name, p.Pos(f.Pos()), detail, detail)
	}
	// ---------------- R3 count
	countWriters := map[string]bool{}
	for _, f := range p.Funcs {
		for _, s := range c06stores(f) {
			if s.field == c06Q+".count" {
				countWriters[core.FuncName(f)] = true
			}
		}
	}
	for _, spec := range []struct {
		name string
		op   token.Token
	}{{"Offer", token.ADD}, {"Unshift", token.ADD}, {"Shift", token.SUB}, {"Pop", token.SUB}} {
		f := q(spec.name)
		if f == nil {
			c.Unknown("R3", c06Q+"."+spec.name+"/count", "-", "method not found")
			continue
		}
		delete(countWriters, core.FuncName(f))
		isDelta := func(ins ssa.Instruction) bool {
			st, ok := ins.(*ssa.Store)
			if !ok || core.FieldKey(st.Addr) != c06Q+".count" {
				return false
			}
			b, ok := st.Val.(*ssa.BinOp)
			return ok && b.Op == spec.op && core.IsIntConst(b.Y, 1) && c06isLoad(b.X, c06Q+".count", nil)
		}
		anyOther := false
		core.Instrs(f, func(ins ssa.Instruction) {
			if st, ok := ins.(*ssa.Store); ok && core.FieldKey(st.Addr) == c06Q+".count" && !isDelta(ins) {
				anyOther = true
			}
		})
		// skip the empty-report edge for removals
		emptyEdge := func(b *ssa.BasicBlock) bool {
			if spec.op != token.SUB {
				return false
			}
			for _, m := range core.EdgeCmps(b) {
				isEnd := c06isLoad(m.X, c06Q+".first", nil) || c06isLoad(m.X, c06Q+".last", nil)
				if prm, isP := core.Resolve(m.X).(*ssa.Parameter); isP && prm.Parent() != f && c06isNodePtr(prm.Type()) {
					isEnd = true // the end node handed to a removal helper
				}
				if m.Op == token.EQL && core.IsNilConst(m.Y) && isEnd {
					// only the initial emptiness test (its block is the entry successor)
					if len(b.Preds) == 1 && b.Preds[0] == b.Parent().Blocks[0] {
						return true
					}
				}
			}
			return false
		}
		// (the adjustment may sit in an unexported helper doing the removal / insertion)
		min, max := core.DeepCount(p, f, isDelta, emptyEdge)
		for _, fd := range core.DeepFind(p, f, func(ins ssa.Instruction) bool {
			st, ok := ins.(*ssa.Store)
			return ok && core.FieldKey(st.Addr) == c06Q+".count"
		}) {
			if len(fd.Stack) > 0 {
				delete(countWriters, core.FuncName(fd.Ins.Parent()))
				if !isDelta(fd.Ins) {
					anyOther = true
				}
			}
		}
		c.Check(min == 1 && max == 1 && !anyOther, "R3", c06Q+"."+spec.name+"/count", p.Pos(f.Pos()), "count changes by exactly one on every (non-empty) path", fmt.Sprintf("count is adjusted %d..%d times on a path (must be exactly 1)%s: Count() no longer equals the number of stored items", min, max, map[bool]string{true: " or overwritten otherwise", false: ""}[anyOther]))
	}
	if f := q("Clear"); f != nil {
		delete(countWriters, core.FuncName(f))
		zero, firstNil, lastNil := false, false, false
		for _, s := range c06stores(f) {
			switch s.field {
			case c06Q + ".count":
				zero = core.IsIntConst(s.st.Val, 0)
			case c06Q + ".first":
				firstNil = core.IsNilConst(s.st.Val)
			case c06Q + ".last":
				lastNil = core.IsNilConst(s.st.Val)
			}
		}
		var others []string
		for w := range countWriters {
			others = append(others, w)
		}
		c.Check(zero && firstNil && lastNil && len(others) == 0, "R3", c06Q+".Clear/count", p.Pos(f.Pos()), "Clear sets count 0 together with first/last nil; no other writer of count", fmt.Sprintf("Clear does not reset count, first and last together, or count has other writers %v", others))
	} else {
		c.Unknown("R3", c06Q+".Clear/count", "-", "method not found")
	}
	// ---------------- R4
	for _, spec := range []struct{ name, end, sentinel string }{{"Shift", "first", "ErrQueueIsEmpty"}, {"Peek", "first", "ErrQueueIsEmpty"}, {"Pop", "last", "ErrStackIsEmpty"}} {
		f := q(spec.name)
		if f == nil {
			c.Unknown("R4", c06Q+"."+spec.name, "-", "method not found")
			continue
		}
		c.Analysed(core.FuncName(f))
		okAll := true
		detail := "reports " + spec.sentinel + " exactly when " + spec.end + " == nil; otherwise the node's value with a nil error"
		nRet := 0
		// one return: decided by the emptiness test of the end node, sentinel when empty, else the node's value and nil
		judge := func(rv []ssa.Value, cmps []core.Cmp, isEnd func(ssa.Value) bool, up func(ssa.Value) ssa.Value) {
			nRet++
			empty, known := false, false
			for _, m := range cmps {
				if core.IsNilConst(m.Y) && isEnd(m.X) && (m.Op == token.EQL || m.Op == token.NEQ) {
					// the first emptiness test only
					if !known {
						empty, known = m.Op == token.EQL, true
					}
				}
			}
			if !known {
				okAll, detail = false, "a return is not decided by the test "+spec.end+" == nil"
				return
			}
			if empty {
				if core.GlobalName(up(rv[1])) != spec.sentinel {
					okAll, detail = false, "the empty case does not report "+spec.sentinel
				}
				return
			}
			if !core.IsNilConst(rv[1]) {
				okAll, detail = false, "a non-empty "+spec.name+" returns an error"
				return
			}
			// value = *node.Val with node = the end
			v := core.Resolve(rv[0])
			okV := false
			if u, isU := v.(*ssa.UnOp); isU && u.Op == token.MUL {
				if c06isLoad(u.X, c06Node+".Val", nil) {
					fa := core.Resolve(u.X).(*ssa.UnOp).X.(*ssa.FieldAddr)
					if isEnd(core.FieldOwner(fa)) {
						okV = true
					}
				}
			}
			if !okV {
				okAll, detail = false, "the value returned is not the value stored in the "+spec.end+" node"
			}
		}
		recvF := ssa.Value(f.Params[0])
		isEndF := func(v ssa.Value) bool { return c06isLoad(v, c06Q+"."+spec.end, recvF) }
		core.Instrs(f, func(ins ssa.Instruction) {
			r, isR := ins.(*ssa.Return)
			if !isR || r.Block() == f.Recover {
				return
			}
			rv := core.RetVals(r)
			// `return q.removeNode(q.end, …)`: the returns of the removal helper, its node parameter being the end node
			var hc *ssa.Call
			if ex, isE := core.Resolve(rv[0]).(*ssa.Extract); isE && ex.Index == 0 {
				hc, _ = ex.Tuple.(*ssa.Call)
			}
			if len(rv) == 2 && hc != nil {
				if ex1, isE1 := core.Resolve(rv[1]).(*ssa.Extract); !isE1 || ex1.Tuple != ssa.Value(hc) || ex1.Index != 1 {
					hc = nil
				}
			}
			// `return q.unlink(node), nil`: a helper returning the value only
			single := false
			if hc == nil {
				if cc, isC := core.Resolve(rv[0]).(*ssa.Call); isC && cc.Call.Signature().Results().Len() == 1 && len(rv) == 2 {
					hc, single = cc, true
				}
			}
			if hc != nil {
				h := core.Callee(&hc.Call)
				idx := -1
				if h != nil && p.InRepo(h) && len(h.Blocks) > 0 && h.Object() != nil && !h.Object().Exported() {
					for i, a := range hc.Call.Args {
						if i < len(h.Params) && isEndF(a) {
							idx = i
						}
					}
				}
				if idx >= 0 {
					prm := ssa.Value(h.Params[idx])
					up := func(v ssa.Value) ssa.Value {
						if q2, isP := core.Resolve(v).(*ssa.Parameter); isP && q2.Parent() == h {
							for i, hp := range h.Params {
								if hp == q2 && i < len(hc.Call.Args) {
									return hc.Call.Args[i]
								}
							}
						}
						return v
					}
					for _, rc := range core.ReturnCases(h) {
						cmps := append(append([]core.Cmp{}, core.EdgeCmps(r.Block())...), rc.Cmps()...)
						vals := rc.Vals
						if single {
							vals = []ssa.Value{rc.Vals[0], rv[1]}
						}
						judge(vals, cmps, func(v ssa.Value) bool { return core.Resolve(v) == prm || isEndF(v) }, up)
					}
					return
				}
			}
			judge(rv, core.EdgeCmps(r.Block()), isEndF, func(v ssa.Value) ssa.Value { return v })
		})
		c.Check(okAll && nRet >= 2, "R4", c06Q+"."+spec.name, p.Pos(f.Pos()), detail, detail)
	}
	for _, d := range []struct{ name, to string }{{"Poll", "Shift"}, {"Take", "Poll"}, {"Put", "Offer"}, {"Push", "Offer"}} {
		f, g := p.Method(p.Fpgo, c06Q, d.name), q(d.to)
		if f == nil || g == nil {
			c.Unknown("R4", c06Q+"."+d.name, "-", "method not found")
			continue
		}
		// both may hand on to the same unexported implementation (Poll → removeFirst ← Shift)
		ok := core.SameParamsImpl(p, f) == g
		core.Instrs(f, func(ins ssa.Instruction) {
			if r, isR := ins.(*ssa.Return); isR {
				rv := core.RetVals(r)
				var call *ssa.Call
				if cc, isC := rv[0].(*ssa.Call); isC {
					call = cc
				} else if ex, isE := rv[0].(*ssa.Extract); isE {
					call, _ = ex.Tuple.(*ssa.Call)
				}
				// the delegate, or the operation the delegate itself is a pure delegation to (Take → Shift instead of Take → Poll)
				sameOp := func(h *ssa.Function) bool {
					if h == g {
						return true
					}
					if d.to == "Poll" {
						return h == q("Shift")
					}
					return false
				}
				if call != nil && sameOp(core.Callee(&call.Call)) && call.Call.Args[0] == ssa.Value(f.Params[0]) {
					ok = true
					for i := 1; i < len(f.Params); i++ {
						if call.Call.Args[i] != ssa.Value(f.Params[i]) {
							ok = false
						}
					}
				}
			}
		})
		c.Check(ok, "R4", c06Q+"."+d.name, p.Pos(f.Pos()), "pure delegation to "+d.to, d.name+" is no longer a pure delegation to "+d.to+" (e.g. Push at the head would turn the stack into a queue)")
	}
	// ---------------- R5
	// (a) every Put into the GC pool is preceded, in the same block, by clearing Val, Prev, Next of that node
	nPut := 0
	okPut, dPut := true, "every node handed to the GC pool has Val/Prev/Next cleared first"
	// a put site is a call of sync.Pool.Put with a node, or of a wrapper that only forwards its own parameter to Put (a
	// typed pool); inside such a wrapper the forwarded parameter is the caller's responsibility
	forwards := map[*ssa.Function]int{} // wrapper → index of the forwarded parameter
	for _, f := range p.Funcs {
		if f.Pkg != p.Fpgo {
			continue
		}
		core.Instrs(f, func(ins ssa.Instruction) {
			call, ok := ins.(*ssa.Call)
			if !ok || core.StdCallee(&call.Call) != "sync.(Pool).Put" {
				return
			}
			if prm, isP := core.Resolve(core.Unwrap(call.Call.Args[1])).(*ssa.Parameter); isP && len(f.Blocks) == 1 {
				if cl := c06clearedBefore(call, prm); cl["Val"] && cl["Prev"] && cl["Next"] {
					return // a helper that blanks the node itself: it is the put site
				}
				for i, q2 := range f.Params {
					if q2 == prm {
						forwards[f] = i
					}
				}
			}
		})
	}
	for _, f := range p.Funcs {
		if f.Pkg != p.Fpgo {
			continue
		}
		core.Instrs(f, func(ins ssa.Instruction) {
			call, ok := ins.(*ssa.Call)
			if !ok {
				return
			}
			var arg ssa.Value
			if core.StdCallee(&call.Call) == "sync.(Pool).Put" {
				if _, isFwd := forwards[f]; isFwd {
					return
				}
				arg = call.Call.Args[1]
			} else if idx, isFwd := forwards[core.Callee(&call.Call)]; isFwd && idx < len(call.Call.Args) {
				arg = call.Call.Args[idx]
			} else {
				return
			}
			node := core.Resolve(core.Unwrap(arg))
			if !c06isNodePtr(node.Type()) {
				return
			}
			nPut++
			c.Analysed(core.FuncName(f))
			cleared := c06clearedBefore(call, node)
			if !(cleared["Val"] && cleared["Prev"] && cleared["Next"]) {
				okPut, dPut = false, fmt.Sprintf("%s puts a node into the GC pool at %s without clearing Val/Prev/Next (cleared: %v): a later Get hands out a node that still points into the list, and inserting it resurrects stale nodes", core.FuncName(f), p.InstrPos(ins), cleared)
			}
		})
	}
	c.Check(okPut && nPut > 0, "R5", "gc-pool/put-cleared", "queue.go", dPut, dPut)
	// (b) generateNode: pool-hit path resets Next and Prev of the node it hands out
	if gen == nil {
		c.Unknown("R5", c06Q+".generateNode", "-", "producer not found")
	} else {
		c.Analysed(core.FuncName(gen))
		ok, detail := func() (bool, string) {
			recv := ssa.Value(gen.Params[0])
			// the free-list head
			var pop *ssa.Store // q.nodePoolFirst ← node.Next
			for _, s := range c06stores(gen) {
				if s.field == c06Q+".nodePoolFirst" && s.base == recv && c06isLoad(s.st.Val, c06Node+".Next", nil) {
					pop = s.st
				}
			}
			if pop == nil {
				return false, "the free-list hit path does not advance nodePoolFirst"
			}
			node := core.Resolve(core.Resolve(pop.Val).(*ssa.UnOp).X.(*ssa.FieldAddr).X)
			next, prev := false, false
			for _, s := range c06stores(gen) {
				if s.base == node && core.IsNilConst(s.st.Val) && core.InstrDominates(pop, s.st) {
					if s.field == c06Node+".Next" {
						next = true
					}
					if s.field == c06Node+".Prev" {
						prev = true
					}
				}
			}
			if !next || !prev {
				return false, fmt.Sprintf("a node reused from the free list keeps its old links (Next reset: %v, Prev reset: %v): it still points at the rest of the free list", next, prev)
			}
			return true, "free-list hit: nodePoolFirst ← node.Next, node.Next ← nil, node.Prev ← nil"
		}()
		c.Check(ok, "R5", c06Q+".generateNode", p.Pos(gen.Pos()), detail, detail)
	}
	// (c) recycling: wherever a node that comes from the live list becomes the head of the free list - in a recycleNode
	// helper or written out in Shift/Pop - the node is cleaned (Val ← nil, Prev ← nil) and linked in front of the old free
	// list (Next ← nodePoolFirst). (Clear moves the whole chain instead and resets every node in a loop.)
	{
		origin := c06nodeOrigin(p)
		nPush := 0
		for _, f := range p.Methods(p.Fpgo, c06Q) {
			for _, hs := range c06stores(f) {
				if hs.field != c06Q+".nodePoolFirst" {
					continue
				}
				node := core.Resolve(hs.st.Val)
				if o := origin(node, 0, map[ssa.Value]bool{}); o&oLive == 0 {
					continue // advance of the free list, a fresh node, nil
				}
				val, prev, next, anyNext := false, false, false, false
				inLoop := false
				for _, s := range c06stores(f) {
					if s.field == c06Node+".Val" && core.IsNilConst(s.st.Val) && core.InLoop(s.st.Block()) {
						inLoop = true
					}
					if s.base != node {
						continue
					}
					switch {
					case s.field == c06Node+".Val" && core.IsNilConst(s.st.Val):
						val = true
					case s.field == c06Node+".Prev" && core.IsNilConst(s.st.Val):
						prev = true
					case s.field == c06Node+".Next":
						anyNext = true
						if c06isLoad(s.st.Val, c06Q+".nodePoolFirst", nil) {
							next = true
						}
					}
				}
				if !anyNext && inLoop {
					continue // whole-chain move (Clear): every node is reset in its loop; its ends/count are R3's business
				}
				nPush++
				c.Analysed(core.FuncName(f))
				c.Check(val && prev && next, "R5", fmt.Sprintf("%s/recycle#%d", core.FuncName(f), nPush), p.InstrPos(hs.st), "Val/Prev cleared, Next relinked to the free list, node becomes the free-list head", fmt.Sprintf("recycling leaves stale state (Val cleared %v, Prev cleared %v, Next → free list %v)", val, prev, next))
			}
		}
		if nPush == 0 {
			c.Unknown("R5", c06Q+"/recycle", "-", "no place where a removed node is pushed onto the free list was found")
		}
	}
	c06ownership(c)
}

// c06ownership (R6): a function that clears a whole chain of nodes (walks `n = n.Next` from a parameter and resets the
// visited nodes) may only be handed a chain of the free list - the free-list head, a successor of a free-list node, a fresh
// node or nil. A node taken from the live list (first/last or a neighbour of those) still has live successors: clearing
// from it wipes stored values.
func c06ownership(c *core.Ctx) {
	p := c.P
	c.Rule("R6", "chain-clearing helpers (walk n = n.Next from a parameter, resetting every visited node) are only handed chains of the free list, never a node of the live list", 2)
	// chain clearers: (function, parameter index) - methods of the queue or plain functions of the package
	type clearer struct {
		f   *ssa.Function
		idx int
	}
	var clearers []clearer
	for _, f := range p.Funcs {
		if f.Pkg != p.Fpgo || f.Parent() != nil {
			continue
		}
		for i, prm := range f.Params {
			if i == 0 && f.Signature.Recv() != nil || !c06isNodePtr(prm.Type()) {
				continue
			}
			walks, clears := false, false
			core.Instrs(f, func(ins ssa.Instruction) {
				if phi, ok := ins.(*ssa.Phi); ok {
					fromPrm, fromNext := false, false
					for _, e := range phi.Edges {
						if e == ssa.Value(prm) {
							fromPrm = true
						}
						if c06isLoad(e, c06Node+".Next", nil) {
							fromNext = true
						}
					}
					if fromPrm && fromNext {
						walks = true
					}
				}
				if st, ok := ins.(*ssa.Store); ok && core.IsNilConst(st.Val) && core.InLoop(st.Block()) {
					if fa, isFA := st.Addr.(*ssa.FieldAddr); isFA && c06isNodePtr(fa.X.Type()) {
						clears = true
					}
				}
				// ... or hands each visited node to a helper that resets it
				if call, ok := ins.(*ssa.Call); ok && core.InLoop(call.Block()) {
					if h := core.Callee(&call.Call); h != nil && h.Pkg == p.Fpgo && len(h.Blocks) > 0 {
						core.Instrs(h, func(i2 ssa.Instruction) {
							if st, isS := i2.(*ssa.Store); isS && core.IsNilConst(st.Val) {
								if fa, isFA := st.Addr.(*ssa.FieldAddr); isFA && c06isNodePtr(fa.X.Type()) {
									if _, fromPrm := core.Resolve(core.FieldOwner(fa)).(*ssa.Parameter); fromPrm {
										clears = true
									}
								}
							}
						})
					}
				}
			})
			if walks && clears {
				clearers = append(clearers, clearer{f, i})
			}
		}
	}
	if len(clearers) == 0 {
		c.Unknown("R6", "chain-clearers", "-", "no chain-clearing helper found (putAllIntoPool expected)")
		return
	}
	recvOf := func(f *ssa.Function) ssa.Value {
		for f.Parent() != nil {
			f = f.Parent()
		}
		if len(f.Params) > 0 {
			return f.Params[0]
		}
		return nil
	}
	origin := c06nodeOrigin(p)
	n := 0
	for _, f := range p.Funcs {
		if f.Pkg != p.Fpgo {
			continue
		}
		core.Instrs(f, func(ins ssa.Instruction) {
			ci, ok := ins.(ssa.CallInstruction)
			if !ok {
				return
			}
			g := core.Callee(ci.Common())
			for _, cl := range clearers {
				if g != cl.f || cl.idx >= len(ci.Common().Args) {
					continue
				}
				n++
				_ = recvOf
				key := fmt.Sprintf("%s→%s#%d", core.FuncName(f), cl.f.Name(), n)
				o := origin(ci.Common().Args[cl.idx], 0, map[ssa.Value]bool{})
				switch {
				case o&oLive != 0:
					c.Fail("R6", key, p.InstrPos(ins), cl.f.Name()+" clears the whole chain behind the node it is given, and here it may be given a node of the live list ("+core.Path(ci.Common().Args[cl.idx])+"): the elements stored behind it are wiped (later Peek/Poll panic or return nothing)")
				case o&oUnknown != 0:
					c.Unknown("R6", key, p.InstrPos(ins), "cannot establish that "+core.Path(ci.Common().Args[cl.idx])+" is a chain of the free list")
				default:
					c.Pass("R6", key, p.InstrPos(ins), "argument is a free-list chain / fresh / nil")
				}
			}
		})
	}
}

func c06isNodePtr(t types.Type) bool {
	pt, ok := t.Underlying().(*types.Pointer)
	if !ok {
		return false
	}
	n, ok := pt.Elem().(*types.Named)
	return ok && n.Origin().Obj().Name() == c06Node
}

// c06produces: g is the fresh-node producer gen, or a wrapper every return of which yields the result
// of a call to such a producer (e.g. a helper that also fills in the value).
func c06produces(p *core.Prog, g, gen *ssa.Function, depth int) bool {
	if g == nil || depth > 3 {
		return false
	}
	if g == gen {
		return true
	}
	if !p.InRepo(g) || len(g.Blocks) == 0 || g.Signature.Results().Len() != 1 {
		return false
	}
	n, ok := 0, true
	core.Instrs(g, func(ins ssa.Instruction) {
		r, isR := ins.(*ssa.Return)
		if !isR || r.Block() == g.Recover {
			return
		}
		n++
		call, isC := core.Resolve(core.RetVals(r)[0]).(*ssa.Call)
		if !isC || !c06produces(p, core.Callee(&call.Call), gen, depth+1) {
			ok = false
		}
	})
	return ok && n > 0
}

// origin classes of a node value
const (
	oPool = 1 << iota
	oLive
	oFresh
	oNil
	oUnknown
)

// c06nodeOrigin returns the origin classifier of node values: the free list (its head, a successor of a free-list node),
// the live list (first/last or a neighbour of those), a fresh node from the GC pool, nil - traced through phis,
// parameters (all call sites) and node-returning helpers.
func c06nodeOrigin(p *core.Prog) func(v ssa.Value, depth int, seen map[ssa.Value]bool) int {
	var origin func(v ssa.Value, depth int, seen map[ssa.Value]bool) int
	origin = func(v ssa.Value, depth int, seen map[ssa.Value]bool) int {
		v = core.Resolve(v)
		if depth > 12 {
			return oUnknown
		}
		if seen[v] {
			return 0
		}
		seen[v] = true
		switch x := v.(type) {
		case *ssa.Const:
			if x.IsNil() {
				return oNil
			}
		case *ssa.Phi:
			r := 0
			for _, e := range x.Edges {
				r |= origin(e, depth+1, seen)
			}
			return r
		case *ssa.UnOp:
			if fa, ok := x.X.(*ssa.FieldAddr); ok && x.Op == token.MUL {
				switch core.FieldKey(fa) {
				case c06Q + ".nodePoolFirst":
					return oPool
				case c06Q + ".first", c06Q + ".last":
					return oLive
				case c06Node + ".Next", c06Node + ".Prev":
					return origin(core.FieldOwner(fa), depth+1, seen)
				}
			}
		case *ssa.TypeAssert:
			if call, ok := core.Resolve(x.X).(*ssa.Call); ok && core.StdCallee(&call.Call) == "sync.(Pool).Get" {
				return oFresh
			}
		case *ssa.Extract:
			return origin(x.Tuple, depth+1, seen)
		case *ssa.Call:
			if g := core.Callee(&x.Call); g != nil && p.InRepo(g) && len(g.Blocks) > 0 && g.Signature.Results().Len() == 1 {
				r := 0
				for _, rcase := range core.ReturnCases(g) {
					r |= origin(rcase.Vals[0], depth+1, seen)
				}
				return r
			}
		case *ssa.Parameter:
			acts := core.ParamActuals(p, x)
			if len(acts) == 0 {
				return oUnknown
			}
			r := 0
			for _, a := range acts {
				r |= origin(a.Arg, depth+1, seen)
			}
			return r
		}
		return oUnknown
	}
	return origin
}

// c06clearedBefore: the fields of node that are set to nil in the block of call, before it.
func c06clearedBefore(call *ssa.Call, node ssa.Value) map[string]bool {
	cleared := map[string]bool{}
	for _, i2 := range call.Block().Instrs {
		if i2 == ssa.Instruction(call) {
			break
		}
		if st, isS := i2.(*ssa.Store); isS && core.IsNilConst(st.Val) {
			if fa, isFA := st.Addr.(*ssa.FieldAddr); isFA && core.Resolve(core.FieldOwner(fa)) == node {
				cleared[core.FieldName(fa.X.Type(), fa.Field)] = true
			}
		}
	}
	return cleared
}

// c06generalUnlink: f removes its end node through a helper written for a node at any position:
//
//	prev, next := node.Prev, node.Next
//	if prev == nil { q.first = next } else { prev.Next = next }
//	if next == nil { q.last = prev } else { next.Prev = prev }
//
// handed the current end (q.first for Shift, q.last for Pop). For the end node this is the end-specific removal
// provided first.Prev == nil and last.Next == nil - an invariant that insertion (R2), node reuse (R5) and this very
// removal preserve (the new first gets the removed node's nil Prev). isG reports whether f has this form at all.
func c06generalUnlink(p *core.Prog, f *ssa.Function, end string) (ok bool, detail string, isG bool) {
	recv := ssa.Value(f.Params[0])
	var u *ssa.Function
	nodeIdx := -1
	core.Instrs(f, func(ins ssa.Instruction) {
		call, isC := ins.(*ssa.Call)
		if !isC {
			return
		}
		g := core.Callee(&call.Call)
		if g == nil || !p.InRepo(g) || len(g.Blocks) == 0 || g.Object() == nil || g.Object().Exported() || len(call.Call.Args) < 2 || core.Resolve(call.Call.Args[0]) != recv {
			return
		}
		for i, a := range call.Call.Args {
			if i > 0 && i < len(g.Params) && c06isNodePtr(a.Type()) && c06isLoad(a, c06Q+"."+end, recv) {
				u, nodeIdx = g, i
			}
		}
	})
	if u == nil {
		return false, "", false
	}
	qv, node := ssa.Value(u.Params[0]), ssa.Value(u.Params[nodeIdx])
	isPrev := func(v ssa.Value) bool { return c06isLoad(v, c06Node+".Prev", node) }
	isNext := func(v ssa.Value) bool { return c06isLoad(v, c06Node+".Next", node) }
	// no store to the node's own links before they are read is needed: the loads are recognised by their address
	noNode := func(b *ssa.BasicBlock) bool {
		// "there is no such node" (the list is empty): nothing to unlink
		for _, m := range core.EdgeCmps(b) {
			if m.Op == token.EQL && core.IsNilConst(m.Y) && core.Resolve(m.X) == node {
				return true
			}
		}
		return false
	}
	pair := func(endField, linkField string, isThis, isOther func(ssa.Value) bool) (int, int) {
		return core.PathCount(u, func(ins ssa.Instruction) int {
			st, isS := ins.(*ssa.Store)
			if !isS {
				return 0
			}
			fa, isFA := st.Addr.(*ssa.FieldAddr)
			if !isFA || !isOther(st.Val) {
				return 0
			}
			key, owner := core.FieldKey(fa), core.Resolve(core.FieldOwner(fa))
			for _, m := range core.EdgeCmps(st.Block()) {
				if !core.IsNilConst(m.Y) || !isThis(m.X) {
					continue
				}
				if m.Op == token.EQL && key == c06Q+"."+endField && owner == qv {
					return 1
				}
				if m.Op == token.NEQ && key == c06Node+"."+linkField && isThis(owner) {
					return 1
				}
			}
			return 0
		}, noNode)
	}
	a1, b1 := pair("first", "Next", isPrev, isNext)
	a2, b2 := pair("last", "Prev", isNext, isPrev)
	if a1 != 1 || b1 != 1 || a2 != 1 || b2 != 1 {
		return false, fmt.Sprintf("the general removal %s does not, on every path, relink exactly once on each side (prev side %d..%d: first ← next when prev == nil, else prev.Next ← next; next side %d..%d: last ← prev when next == nil, else next.Prev ← prev): a neighbour keeps pointing at the recycled node", core.FuncName(u), a1, b1, a2, b2), true
	}
	// nothing else writes the ends or the links of other nodes in the helper
	extra := ""
	for _, s := range c06stores(u) {
		if (s.field == c06Q+".first" || s.field == c06Q+".last") && s.base == qv {
			if !(isNext(s.st.Val) || isPrev(s.st.Val)) {
				extra = p.InstrPos(s.st)
			}
		}
	}
	if extra != "" {
		return false, "the general removal writes an end pointer with something other than the removed node's neighbour at " + extra, true
	}
	return true, fmt.Sprintf("%s handed to the general removal %s: prev side and next side each relinked exactly once on every path", end, core.FuncName(u)), true
}
