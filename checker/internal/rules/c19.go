package rules

import (
	"fmt"
	"go/token"
	"go/types"
	"strings"

	"fpcheck/internal/core"

	"golang.org/x/tools/go/ssa"
)

func init() {
	register(&Prop{
		ID: "C19",
		Explanation: "Sorting decided structurally: (R1) every sort goes through sort.SliceStable (never sort.Slice/sort.Sort) applied to the slice being sorted, and the less function built by the library indexes that same slice in parameter order - sort.SliceStable's contract then yields an ordered, stable permutation for any strict weak order; all other sort entry points delegate to that one with their own slice. " +
			"(R2) the comparators the library itself builds are strict and correctly oriented, decided by evaluating them in a three-point ordering domain (a<b, a=b, a>b): ascending must be (true,false,false), descending (false,false,true). (R3) results of CompareTo are used; (R4) all Comparable implementations share one sign convention (evaluated in the same domain) and the descriptor comparator's test matches it: ascending compares key1 to key2, descending key2 to key1, and the final test is strict with the sign meaning 'item1 first'. " +
			"(R5) the next descriptor is consulted exactly on the result == 0 && hasNext edge and its verdict returned. (R6) the non-in-place variants sort a fresh copy and the builder starts without spare capacity. Not decided: user-supplied comparators; sort.SliceStable itself.",
		Trusted: append([]string{"sort.SliceStable sorts stably given a strict weak order", "strings.Compare returns the sign of the lexical comparison"}, commonTrusted...),
		Run:     runC19,
	})
}

func runC19(c *core.Ctx) {
	p := c.P
	c.Rule("R1", "stable sort on the right slice: sort.SliceStable only; library-built less indexes the sorted slice in parameter order; entry points delegate with their own slice", 8)
	c.Rule("R2", "library-built comparators are strict and oriented: ascending = (a<b:true, a=b:false, a>b:false), descending = (false,false,true)", 2)
	c.Rule("R3", "no result of a CompareTo/CompareToOrdered call is discarded", 3)
	c.Rule("R4", "one sign convention for all Comparable implementations, and the descriptor comparator uses it consistently (ascending: key1 vs key2, descending: swapped; strict final test)", 3)
	c.Rule("R5", "lexicographic recursion: next descriptor exactly on result == 0 && hasNext, its verdict returned", 1)
	c.Rule("R6", "ToSortedList/SortedListBySortDescriptors sort a fresh copy; the descriptor builder starts with no spare capacity", 2)
	c.Rule("R7", "descriptor constructors record the requested direction: the descriptor a constructor returns answers IsAscending() with the constructor's bool argument (the field IsAscending reads is assigned that argument in the returned object)", 2)
	c19constructors(c)
	// ---- R1: all calls into package sort
	nSites := 0
	for _, f := range p.Funcs {
		core.Instrs(f, func(ins ssa.Instruction) {
			call, ok := ins.(*ssa.Call)
			if !ok {
				return
			}
			name := core.StdCallee(&call.Call)
			if name == "slices.Sort" || name == "slices.SortFunc" {
				// the generic sorts of package slices are not stable either
				nSites++
				c.Fail("R1", core.FuncName(f)+"/"+name, p.InstrPos(ins), name+" is not a stable sort: records the comparator does not distinguish may change their relative order (only visible beyond 12 elements)")
				return
			}
			if !strings.HasPrefix(name, "sort.") || strings.HasSuffix(name, ".init") {
				return
			}
			nSites++
			c.Analysed(core.FuncName(f))
			key := core.FuncName(f) + "/" + name
			if name != "sort.SliceStable" {
				c.Fail("R1", key, p.InstrPos(ins), name+" is not a stable sort: records the comparator does not distinguish may change their relative order (only visible beyond 12 elements)")
				return
			}
			sorted := call.Call.Args[0]
			less := core.Resolve(call.Call.Args[1])
			// the user's own index comparator passed through (SortByIndex)
			if _, isParam := less.(*ssa.Parameter); isParam {
				c.Pass("R1", key, p.InstrPos(ins), "stable sort with the caller's index comparator")
				return
			}
			ok2, detail := c19less(p, f, less, core.Unwrap(sorted))
			c.Check(ok2, "R1", key, p.InstrPos(ins), detail, detail)
		})
	}
	if nSites == 0 {
		c.Unknown("R1", "anchor", "-", "no call into package sort found")
	}
	sortFn := p.Func(p.Fpgo, "Sort")
	// the single sort routine reorders only through sort.SliceStable: exactly one call on every path that has
	// at least two elements to order, and no element of the slice is written by the routine itself
	if sortFn == nil {
		c.Unknown("R1", "Sort/only-stable", "-", "function not found")
	} else {
		sortFn := core.SameParamsImpl(p, sortFn) // `Sort(fn, xs)` may be `sortWith(fn, xs, true)`
		okS, min, max, writes := c19onlyStable(p, sortFn)
		c.Check(okS, "R1", "Sort/only-stable", p.Pos(sortFn.Pos()), "every path orders the slice by exactly one sort.SliceStable call; no hand-written element moves",
			fmt.Sprintf("fpgo.Sort calls sort.SliceStable %d..%d times on a path with two or more elements, hand-written element store at %q: an ordering path that bypasses the stable sort can change the relative order of equal records", min, max, writes))
	}
	// delegating entry points
	type deleg struct {
		fn   *ssa.Function
		name string
	}
	var ds []deleg
	for _, n := range []string{"SortSlice", "SortOrdered", "SortOrderedAscending", "SortOrderedDescending", "SortBySortDescriptors", "SortedListBySortDescriptors"} {
		ds = append(ds, deleg{p.Func(p.Fpgo, n), n})
	}
	ds = append(ds, deleg{p.Method(p.Fpgo, "StreamDef", "Sort"), "StreamDef.Sort"}, deleg{p.Method(p.Fpgo, "StreamForInterfaceDef", "Sort"), "StreamForInterfaceDef.Sort"}, deleg{p.Method(p.Fpgo, "SortDescriptorsBuilder", "Sort"), "SortDescriptorsBuilder.Sort"})
	for _, d := range ds {
		if d.fn == nil || sortFn == nil {
			c.Unknown("R1", d.name+"/delegates", "-", "function not found")
			continue
		}
		c.Analysed(core.FuncName(d.fn))
		// every path performs (at least) one call that leads to the single stable sort
		reachSort := map[*ssa.Function]bool{}
		leads := func(g *ssa.Function) bool {
			if g == nil {
				return false
			}
			if v, ok := reachSort[g]; ok {
				return v
			}
			reachSort[g] = g == sortFn || core.Reachable(p, g)[sortFn]
			if !reachSort[g] && p.InRepo(g) && len(g.Blocks) > 0 {
				// another routine of the library that is itself nothing but one stable sort (a private copy of Sort)
				if okS, _, _, _ := c19onlyStable(p, g); okS {
					reachSort[g] = true
				}
			}
			return reachSort[g]
		}
		min, _ := core.PathCount(d.fn, func(ins ssa.Instruction) int {
			if call, ok := ins.(*ssa.Call); ok && leads(core.Callee(&call.Call)) {
				return 1
			}
			return 0
		}, nil)
		c.Check(min >= 1, "R1", d.name+"/delegates", p.Pos(d.fn.Pos()), "every path reaches fpgo.Sort (the single stable sort)", d.name+" has a path that does not sort through fpgo.Sort")
	}
	// the direction wrappers pass the direction they are named after
	for _, w := range []struct {
		name string
		asc  bool
	}{{"SortOrderedAscending", true}, {"SortOrderedDescending", false}} {
		f := p.Func(p.Fpgo, w.name)
		so := p.Func(p.Fpgo, "SortOrdered")
		if f == nil || so == nil {
			continue
		}
		okDir := false
		core.Instrs(f, func(ins ssa.Instruction) {
			if call, ok := ins.(*ssa.Call); ok && core.Callee(&call.Call) == so && len(call.Call.Args) >= 1 {
				if k, isK := core.Resolve(call.Call.Args[0]).(*ssa.Const); isK && isTrueConst(k) == w.asc {
					okDir = true
				}
			}
		})
		c.Check(okDir, "R2", w.name+"/direction", p.Pos(f.Pos()), fmt.Sprintf("calls SortOrdered(%v, …)", w.asc), w.name+" does not ask SortOrdered for the direction it is named after")
	}
	// ---- R2: SortOrdered closures
	if so := p.Func(p.Fpgo, "SortOrdered"); so == nil || sortFn == nil {
		c.Unknown("R2", "SortOrdered", "-", "function not found")
	} else {
		// the comparators: the function values SortOrdered hands to Sort (closures, named functions, ...)
		type cmpUse struct {
			cl   *ssa.Function
			at   ssa.Instruction
			edge []core.Cond // facts of the edge over which the comparator was selected (a phi of function values)
		}
		var uses []cmpUse
		core.InstrsGroup(p, so, func(_ *ssa.Function, ins ssa.Instruction) {
			if call, ok := ins.(*ssa.Call); ok && len(call.Call.Args) == 2 && (core.Callee(&call.Call) == sortFn || c19forwardsToSort(core.Callee(&call.Call), sortFn)) {
				arg := call.Call.Args[0]
				var cands []ssa.Value
				if phi, isPhi := core.Resolve(arg).(*ssa.Phi); isPhi {
					// `comparator := asc ? f : g` then one call of Sort
					for i, e := range phi.Edges {
						if fv := core.ResolveFuncValue(p, e); fv != nil {
							pred := phi.Block().Preds[i]
							last := pred.Instrs[len(pred.Instrs)-1]
							var edge []core.Cond
							if iff, isIf := last.(*ssa.If); isIf && len(pred.Succs) == 2 && pred.Succs[0] != pred.Succs[1] {
								edge = core.ExpandCond(core.Cond{V: iff.Cond, True: pred.Succs[0] == phi.Block(), If: iff})
							}
							uses = append(uses, cmpUse{fv.Fn, last, edge})
						}
					}
					return
				}
				cands = append(cands, arg)
				for _, a := range cands {
					if fv := core.ResolveFuncValue(p, a); fv != nil {
						uses = append(uses, cmpUse{fv.Fn, ins, nil})
					}
				}
			}
		})
		if len(uses) == 1 && len(uses[0].edge) == 0 && len(uses[0].cl.FreeVars) > 0 {
			// one comparator parameterised by a captured constant that the direction flag selects
			// (`wanted := -1; if ascending { wanted = 1 }; … CompareToOrdered(a, b) == wanted`): its truth table under each value
			cl := uses[0].cl
			for _, asc := range []bool{true, false} {
				free := map[string]core.OrdVal{}
				okFree := true
				for _, fv := range cl.FreeVars {
					cell, isCell := capturedCell(so, cl, fv.Name()).(*ssa.Alloc)
					if !isCell {
						okFree = false
						continue
					}
					// the store that decides under this direction: the innermost one whose block is not on the other edge
					var pick *ssa.Store
					for _, st := range core.Stores(cell) {
						other := false
						for _, cnd := range core.EdgeFacts(st.Block()) {
							n := core.Normalize(cnd)
							if core.Resolve(n.V) == ssa.Value(so.Params[0]) && n.True != asc {
								other = true
							}
						}
						if other {
							continue
						}
						if pick == nil || core.InstrDominates(pick, st) {
							pick = st
						}
					}
					k, isK := (*ssa.Const)(nil), false
					if pick != nil {
						k, isK = core.Resolve(pick.Val).(*ssa.Const)
					}
					if !isK || k.Value == nil {
						okFree = false
						continue
					}
					free[fv.Name()] = core.OrdVal{Kind: "int", I: k.Int64()}
				}
				dir := "ascending"
				want := [3]bool{true, false, false}
				if !asc {
					want, dir = [3]bool{false, false, true}, "descending"
				}
				if !okFree {
					c.Unknown("R2", "SortOrdered/"+dir, p.Pos(cl.Pos()), "cannot tell which value the comparator's captured variable has in this direction")
					continue
				}
				var tbl [3]core.OrdVal
				okT := true
				for i, rel := range []int{-1, 0, 1} {
					tbl[i] = core.EvalOrderWith(p, cl, []core.OrdVal{{Kind: "A"}, {Kind: "B"}}, rel, free)
					if tbl[i].Kind != "bool" || tbl[i].B != want[i] {
						okT = false
					}
				}
				c.Check(okT, "R2", "SortOrdered/"+dir, p.Pos(cl.Pos()), fmt.Sprintf("truth table (a<b,a=b,a>b) = (%v,%v,%v)", tbl[0], tbl[1], tbl[2]),
					fmt.Sprintf("%s comparator has truth table (a<b,a=b,a>b) = (%v,%v,%v), expected (%v,%v,%v): not a strict order in the documented direction", dir, tbl[0], tbl[1], tbl[2], want[0], want[1], want[2]))
			}
			uses = nil
		} else if len(uses) != 2 {
			c.Unknown("R2", "SortOrdered", p.Pos(so.Pos()), fmt.Sprintf("expected two comparators handed to Sort (ascending / descending), found %d", len(uses)))
		}
		for _, u := range uses {
			cl := u.cl
			mc := u.at
			asc, known := false, false
			if mc != nil {
				for _, cnd := range append(core.EdgeFacts(mc.Block()), u.edge...) {
					n := core.Normalize(cnd)
					if core.Resolve(n.V) == ssa.Value(so.Params[0]) {
						asc, known = n.True, true
					}
				}
			}
			if !known {
				c.Unknown("R2", core.FuncName(cl), p.Pos(cl.Pos()), "cannot tell on which edge of `ascending` this comparator is used")
				continue
			}
			var tbl [3]core.OrdVal
			for i, rel := range []int{-1, 0, 1} {
				tbl[i] = core.EvalOrder(p, cl, []core.OrdVal{{Kind: "A"}, {Kind: "B"}}, rel)
			}
			want := [3]bool{true, false, false}
			dir := "ascending"
			if !asc {
				want, dir = [3]bool{false, false, true}, "descending"
			}
			okT := true
			for i := range tbl {
				if tbl[i].Kind != "bool" || tbl[i].B != want[i] {
					okT = false
				}
			}
			c.Check(okT, "R2", "SortOrdered/"+dir, p.Pos(cl.Pos()), fmt.Sprintf("truth table (a<b,a=b,a>b) = (%v,%v,%v)", tbl[0], tbl[1], tbl[2]),
				fmt.Sprintf("%s comparator has truth table (a<b,a=b,a>b) = (%v,%v,%v), expected (%v,%v,%v): not a strict order in the documented direction", dir, tbl[0], tbl[1], tbl[2], want[0], want[1], want[2]))
		}
	}
	// ---- R3: results of CompareTo used
	n3 := 0
	for _, f := range p.Funcs {
		core.Instrs(f, func(ins ssa.Instruction) {
			call, ok := ins.(*ssa.Call)
			if !ok {
				return
			}
			isCmp := call.Call.IsInvoke() && call.Call.Method.Name() == "CompareTo"
			if g := core.Callee(&call.Call); g != nil && (g.Name() == "CompareTo" || g.Name() == "CompareToOrdered") {
				isCmp = true
			}
			if !isCmp {
				return
			}
			n3++
			used := false
			for _, r := range *call.Referrers() {
				if _, isDbg := r.(*ssa.DebugRef); !isDbg {
					used = true
				}
			}
			c.Check(used, "R3", fmt.Sprintf("%s/compare#%d", core.FuncName(f), n3), p.InstrPos(ins), "result used", "the result of the comparison is discarded: every pair compares equal")
		})
	}
	// ---- R4 sign convention
	type impl struct {
		fn  *ssa.Function
		tbl [3]core.OrdVal
	}
	var impls []impl
	for _, f := range p.Funcs {
		if f.Parent() == nil && f.Signature.Recv() != nil && f.Name() == "CompareTo" && f.Pkg == p.Fpgo {
			var t [3]core.OrdVal
			for i, rel := range []int{-1, 0, 1} {
				t[i] = core.EvalOrder(p, f, []core.OrdVal{{Kind: "A"}, {Kind: "B"}}, rel)
			}
			impls = append(impls, impl{f, t})
		}
	}
	sign := int64(0)
	okConv := len(impls) >= 2
	var descr []string
	for _, im := range impls {
		c.Analysed(core.FuncName(im.fn))
		descr = append(descr, fmt.Sprintf("%s:(%v,%v,%v)", core.FuncName(im.fn), im.tbl[0], im.tbl[1], im.tbl[2]))
		if im.tbl[0].Kind != "int" || im.tbl[1].Kind != "int" || im.tbl[2].Kind != "int" || im.tbl[1].I != 0 || im.tbl[0].I == 0 || im.tbl[0].I != -im.tbl[2].I {
			okConv = false
			continue
		}
		if sign == 0 {
			sign = im.tbl[0].I
		} else if sign != im.tbl[0].I {
			okConv = false
		}
	}
	c.Check(okConv, "R4", "Comparable/sign-convention", "sortDescriptor.go", "all implementations map (recv<arg, =, >) to "+strings.Join(descr, " "), "Comparable implementations disagree on the sign of CompareTo (or it is not antisymmetric): "+strings.Join(descr, " ")+" - string and numeric keys sort in opposite directions")
	cmpFn := p.Func(p.Fpgo, "_compareBySortDescriptors")
	sbd := p.Func(p.Fpgo, "SortBySortDescriptors")
	// the comparator SortBySortDescriptors hands to Sort: a closure, a bound method or a named function
	var sbdCmp *ssa.Function
	var sbdFV *core.FuncVal
	if sbd != nil {
		sortFn := p.Func(p.Fpgo, "Sort")
		n := 0
		core.Instrs(sbd, func(ins ssa.Instruction) {
			if call, isC := ins.(*ssa.Call); isC && sortFn != nil && core.Callee(&call.Call) == sortFn && len(call.Call.Args) == 2 {
				n++
				if fv := core.ResolveFuncValue(p, call.Call.Args[0]); fv != nil && len(fv.Fn.Params) >= 2 {
					sbdCmp, sbdFV = fv.Fn, fv
				}
			}
		})
		if n != 1 {
			sbdCmp = nil
		}
	}
	if cmpFn == nil || sbd == nil || sbdCmp == nil {
		c.Unknown("R4", "descriptor-comparator", "-", "_compareBySortDescriptors / the comparator SortBySortDescriptors hands to Sort not found")
		return
	}
	c.Analysed(core.FuncName(cmpFn), core.FuncName(sbd))
	{
		ok, detail := c19descriptor(p, cmpFn, sign)
		c.Check(ok, "R4", "_compareBySortDescriptors/orientation", p.Pos(cmpFn.Pos()), detail, detail)
		// final test in the closure of SortBySortDescriptors
		cl := sbdCmp
		np := len(cl.Params)
		okF, dF := false, "comparator closure does not test the comparison result against 0"
		core.Instrs(cl, func(ins ssa.Instruction) {
			r, isR := ins.(*ssa.Return)
			if !isR {
				return
			}
			// `cmp(...) > 0`, also written `0 < cmp(...)`
			bm, isB := core.AsCmp(core.Cond{V: core.Resolve(core.RetVals(r)[0]), True: true})
			if !isB || !core.IsIntConst(bm.Y, 0) {
				return
			}
			b := struct {
				Op token.Token
				X  ssa.Value
			}{bm.Op, bm.X}
			call, isC := b.X.(*ssa.Call)
			if !isC || core.Callee(&call.Call) != cmpFn {
				return
			}
			// arguments: (item1, item2, descriptors, 0)
			if len(call.Call.Args) < 3 {
				dF = "the comparator does not call the descriptor comparison with (item1, item2, descriptors, 0)"
				return
			}
			q1, q2, ql, qi, okQ := c19roles(cmpFn)
			if !okQ {
				dF = "the descriptor comparison does not take (item1, item2, descriptors, index)"
				return
			}
			argsOK := call.Call.Args[q1] == ssa.Value(cl.Params[np-2]) && call.Call.Args[q2] == ssa.Value(cl.Params[np-1]) && (qi < 0 || core.IsIntConst(call.Call.Args[qi], 0))
			descrOK := core.Unwrap(core.Resolve(sbdFV.Outer(call.Call.Args[ql]))) == ssa.Value(sbd.Params[0])
			switch {
			case !argsOK:
				dF = "the comparator does not compare (item1, item2) starting at descriptor 0"
			case !descrOK:
				dF = "the comparator does not walk the descriptor list SortBySortDescriptors was given"
			case b.Op == token.GTR && sign > 0, b.Op == token.LSS && sign < 0:
				okF, dF = true, fmt.Sprintf("strict test %s 0 matches the convention (CompareTo = %d when receiver < argument)", b.Op, sign)
			case b.Op == token.GEQ || b.Op == token.LEQ:
				dF = "non-strict test " + b.Op.String() + " 0: the comparator is true for equal keys, which is not a strict order (sort.SliceStable then reorders equal records)"
			default:
				dF = fmt.Sprintf("test %s 0 is the wrong direction for the sign convention %d: ascending descriptors sort descending", b.Op, sign)
			}
		})
		c.Check(okF, "R4", "SortBySortDescriptors/final-test", p.Pos(cl.Pos()), dF, dF)
	}
	// ---- R5
	{
		ok, detail := c19recursion(p, cmpFn)
		c.Check(ok, "R5", "_compareBySortDescriptors/next-descriptor", p.Pos(cmpFn.Pos()), detail, detail)
	}
	// ---- R6
	ei := core.ComputeEffects(p)
	if f := p.Func(p.Fpgo, "SortedListBySortDescriptors"); f == nil {
		c.Unknown("R6", "SortedListBySortDescriptors", "-", "function not found")
	} else {
		c.Analysed(core.FuncName(f))
		e := ei.Of[f]
		okF := e.Writes == 0 && e.Ret[0].Params() == 0 && e.RetIdent[0] == 0
		c.Check(okF, "R6", "SortedListBySortDescriptors", p.Pos(f.Pos()), "sorts and returns a fresh copy", "the input slice is sorted in place or returned: writes="+e.Writes.Describe(f)+" result="+e.Ret[0].Describe(f))
	}
	if f := p.Func(p.Fpgo, "NewSortDescriptorsBuilder"); f == nil {
		c.Unknown("R6", "NewSortDescriptorsBuilder", "-", "function not found")
	} else {
		ok := true
		core.Instrs(f, func(ins ssa.Instruction) {
			if ms, isMS := ins.(*ssa.MakeSlice); isMS {
				l, okL := ms.Len.(*ssa.Const)
				k, okK := ms.Cap.(*ssa.Const)
				if !okL || !okK || k.Int64() > l.Int64() {
					ok = false
				}
			}
			// make with constant sizes is lowered to new [N]T + slice[:len]
			if sl, isSl := ins.(*ssa.Slice); isSl {
				if pt, isP := sl.X.Type().Underlying().(*types.Pointer); isP {
					if arr, isArr := pt.Elem().Underlying().(*types.Array); isArr {
						hi := arr.Len()
						if k, isK := sl.High.(*ssa.Const); isK {
							hi = k.Int64()
						}
						capN := arr.Len()
						if k, isK := sl.Max.(*ssa.Const); isK {
							capN = k.Int64()
						}
						if capN > hi {
							ok = false
						}
					}
				}
			}
		})
		c.Check(ok, "R6", "NewSortDescriptorsBuilder", p.Pos(f.Pos()), "builder starts with no spare capacity", "the builder starts with spare capacity while ThenWith* use plain append: two stacks derived from one prefix share the next slot and the later one overwrites the earlier one's descriptor")
	}
	_ = types.Typ
}

// c19less: closure(i, j) returns fn(input[i], input[j]) with input the sorted slice.
func c19less(p *core.Prog, parent *ssa.Function, less ssa.Value, sorted ssa.Value) (bool, string) {
	fv := core.ResolveFuncValue(p, less)
	if fv == nil {
		return false, "less function is neither a library-built function value nor the caller's comparator"
	}
	cl := fv.Fn
	np := len(cl.Params)
	if np < 2 {
		return false, "less function does not take two indices"
	}
	pi, pj := cl.Params[np-2], cl.Params[np-1]
	var call *ssa.Call
	core.Instrs(cl, func(ins ssa.Instruction) {
		if r, ok := ins.(*ssa.Return); ok {
			if x, isC := core.Resolve(core.RetVals(r)[0]).(*ssa.Call); isC {
				call = x
			}
		}
	})
	if call == nil || len(call.Call.Args) != 2 {
		return false, "less does not return the comparator applied to two elements"
	}
	elem := func(v ssa.Value, idx *ssa.Parameter) bool {
		u, ok := core.Resolve(v).(*ssa.UnOp)
		if !ok {
			return false
		}
		ia, ok := u.X.(*ssa.IndexAddr)
		if !ok || ia.Index != ssa.Value(idx) {
			return false
		}
		// the indexed slice is the one handed to sort.SliceStable (captured variable / field of the bound receiver)
		return fv.Outer(ia.X) == core.Resolve(sorted)
	}
	if !elem(call.Call.Args[0], pi) || !elem(call.Call.Args[1], pj) {
		return false, "less does not compare (sorted[i], sorted[j]) of the slice handed to sort.SliceStable in that order: it indexes another slice or swaps the arguments"
	}
	// the comparator is the fn parameter of the sorting function
	if prm, isP := fv.Outer(call.Call.Value).(*ssa.Parameter); !isP || prm.Parent() != parent {
		return false, "the comparator called is not the one given to Sort"
	}
	return true, "sort.SliceStable(input, func(i, j) { return fn(input[i], input[j]) })"
}

// c19descriptor: on the IsAscending edge result = key1.CompareTo(key2), otherwise key2.CompareTo(key1); keys from the same descriptor applied to item1/item2.
func c19descriptor(p *core.Prog, f *ssa.Function, sign int64) (bool, string) {
	// the CompareTo calls of the comparator: in f itself or in unexported helpers it calls (not through the
	// recursive step)
	var cmps []core.Found
	for _, fd := range core.DeepFind(p, f, func(ins ssa.Instruction) bool {
		call, ok := ins.(*ssa.Call)
		return ok && call.Call.IsInvoke() && call.Call.Method.Name() == "CompareTo"
	}) {
		rec := false
		for _, sc := range fd.Stack {
			if core.Callee(&sc.Call) == f {
				rec = true
			}
		}
		if !rec {
			cmps = append(cmps, fd)
		}
	}
	if len(cmps) == 0 {
		return false, "no CompareTo call found in the descriptor comparator"
	}
	// key of item k: the call descriptor.TransformedBy()(item_k) in f, seen from the frame the value lives in
	keyOf := func(v ssa.Value, stack []*ssa.Call) int {
		u, st := core.Up(core.Unwrap(core.Resolve(v)), stack)
		call, ok := core.Unwrap(core.Resolve(u)).(*ssa.Call)
		if !ok || len(call.Call.Args) != 1 {
			return -1
		}
		// the item the key is taken from, seen from the comparator's own frame (the key may be computed in a helper
		// that was handed the items)
		item, ist := core.Up(core.Unwrap(core.Resolve(call.Call.Args[0])), st)
		if len(ist) != 0 {
			return -1
		}
		r1, r2, _, _, okR := c19roles(f)
		if !okR {
			return -1
		}
		for k, pos := range []int{r1, r2} {
			if item == ssa.Value(f.Params[pos]) {
				return k
			}
		}
		return -1
	}
	if len(cmps) != 2 {
		return false, fmt.Sprintf("expected two CompareTo calls (ascending / descending), found %d", len(cmps))
	}
	// what the comparator can return
	var results []core.Leaf
	for _, rcase := range core.ReturnCases(f) {
		results = append(results, core.Origins(p, rcase.Vals[0], nil)...)
	}
	for _, fd := range cmps {
		cm := fd.Ins.(*ssa.Call)
		// the blocks on the way: the call's own block and the block of every call of the chain, each in its frame
		type frameBlock struct {
			b  *ssa.BasicBlock
			st []*ssa.Call
		}
		fbs := []frameBlock{{cm.Block(), fd.Stack}}
		for i, sc := range fd.Stack {
			fbs = append(fbs, frameBlock{sc.Block(), fd.Stack[:i]})
		}
		asc, known := false, false
		for _, fb := range fbs {
			for _, cnd := range core.EdgeFacts(fb.b) {
				n := core.Normalize(cnd)
				if call, ok := n.V.(*ssa.Call); ok && call.Call.IsInvoke() && call.Call.Method.Name() == "IsAscending" {
					asc, known = n.True, true
				}
			}
		}
		if !known {
			return false, "a CompareTo call is not selected by IsAscending()"
		}
		// the comparison is made for present keys: every nil test of a key on the way has the not-nil polarity
		for _, fb := range fbs {
			for _, m := range core.EdgeCmps(fb.b) {
				if !core.IsNilConst(m.Y) {
					continue
				}
				if kk := keyOf(m.X, fb.st); kk >= 0 && m.Op == token.EQL {
					return false, fmt.Sprintf("CompareTo is reached only when key%d is nil: keys that are present are never compared (every pair sorts as equal) and the call dereferences a nil key", kk+1)
				}
			}
		}
		recvK := keyOf(cm.Call.Value, fd.Stack)
		argK := -1
		if len(cm.Call.Args) == 1 {
			argK = keyOf(cm.Call.Args[0], fd.Stack)
		}
		wantRecv, wantArg := 0, 1
		if !asc {
			wantRecv, wantArg = 1, 0
		}
		if recvK != wantRecv || argK != wantArg {
			return false, fmt.Sprintf("on the IsAscending=%v edge the comparison is key%d.CompareTo(key%d), expected key%d.CompareTo(key%d)", asc, recvK+1, argK+1, wantRecv+1, wantArg+1)
		}
		// the result must flow to the returned value
		flows := false
		for _, l := range results {
			if l.Val == ssa.Value(cm) {
				flows = true
			}
		}
		if !flows {
			return false, "a CompareTo result does not flow into the function's result"
		}
	}
	return true, "ascending: key1.CompareTo(key2); descending: key2.CompareTo(key1); results flow to the return value"
}

func c19recursion(p *core.Prog, f *ssa.Function) (bool, string) {
	var rec *ssa.Call
	core.Instrs(f, func(ins ssa.Instruction) {
		if call, ok := ins.(*ssa.Call); ok && core.Callee(&call.Call) == f {
			rec = call
		}
	})
	if rec == nil {
		return c19iteration(p, f)
	}
	// args: same items, same descriptors, index+1 (whatever the order of the parameters)
	r1, r2, rl, ri, okRoles := c19roles(f)
	if !okRoles || ri < 0 || len(rec.Call.Args) != len(f.Params) {
		return false, "the recursive step is not (item1, item2, descriptors, index+1)"
	}
	step, ok := rec.Call.Args[ri].(*ssa.BinOp)
	if !(rec.Call.Args[r1] == ssa.Value(f.Params[r1]) && rec.Call.Args[r2] == ssa.Value(f.Params[r2]) && rec.Call.Args[rl] == ssa.Value(f.Params[rl]) && ok && step.Op == token.ADD && step.X == ssa.Value(f.Params[ri]) && core.IsIntConst(step.Y, 1)) {
		return false, "the recursive step is not (item1, item2, descriptors, index+1)"
	}
	tie, hasNext := false, false
	for _, cnd := range core.EdgeFacts(rec.Block()) {
		if m, ok := core.AsCmp(cnd); ok && m.Op == token.EQL && core.IsIntConst(m.Y, 0) {
			tie = true
		}
		if c19hasNextFact(cnd, f.Params[rl], f.Params[ri]) {
			hasNext = true
		}
	}
	if !tie || !hasNext {
		return false, fmt.Sprintf("the next descriptor is consulted without result == 0 (tie=%v) && hasNext (%v)", tie, hasNext)
	}
	// its verdict is returned
	ret := false
	for _, rcase := range core.ReturnCases(f) {
		if core.Resolve(rcase.Vals[0]) != ssa.Value(rec) {
			continue
		}
		// the case is the one that passed through the recursive call
		for _, b := range rcase.Via {
			if b == rec.Block() || rec.Block().Dominates(b) {
				ret = true
			}
		}
	}
	if !ret {
		return false, "the verdict of the next descriptor is not returned"
	}
	return true, "next descriptor consulted exactly on result == 0 && hasNext; its verdict returned"
}

func c19idxPlus1(v ssa.Value, idx ssa.Value) bool {
	b, ok := core.Resolve(v).(*ssa.BinOp)
	return ok && b.Op == token.ADD && b.X == idx && core.IsIntConst(b.Y, 1)
}

func c19lenOf(v ssa.Value, list *ssa.Parameter) bool {
	call, ok := core.Resolve(v).(*ssa.Call)
	return ok && core.IsBuiltin(&call.Call, "len") && call.Call.Args[0] == ssa.Value(list)
}

// c19isHasNext: v is (idx+1) < len(list).
func c19isHasNext(v ssa.Value, list *ssa.Parameter, idx ssa.Value) bool {
	b, ok := core.Resolve(v).(*ssa.BinOp)
	if !ok {
		return false
	}
	return b.Op == token.LSS && c19idxPlus1(b.X, idx) && c19lenOf(b.Y, list) || b.Op == token.GTR && c19idxPlus1(b.Y, idx) && c19lenOf(b.X, list)
}


// c19iteration: the descriptor comparator written as a loop instead of a recursion - the descriptor index is advanced by
// one exactly on the edge "tie on this descriptor and there is a next one", every other exit returns this descriptor's
// verdict.
func c19iteration(p *core.Prog, f *ssa.Function) (bool, string) {
	var list, idxPrm *ssa.Parameter
	for _, prm := range f.Params {
		if _, isSl := prm.Type().Underlying().(*types.Slice); isSl && list == nil {
			list = prm
		}
		if core.IsInteger(prm.Type()) && idxPrm == nil {
			idxPrm = prm
		}
	}
	if list == nil {
		return false, "later descriptors are never consulted: ties of the first key are not broken"
	}
	var phi *ssa.Phi
	back := -1
	core.Instrs(f, func(ins ssa.Instruction) {
		ph, ok := ins.(*ssa.Phi)
		if !ok || len(ph.Edges) != 2 {
			return
		}
		for i, e := range ph.Edges {
			start := core.Resolve(ph.Edges[1-i])
			// (an index parameter that is 0 at its only call site reads as the constant)
			if (idxPrm != nil && start == ssa.Value(idxPrm) || core.IsIntConst(start, 0)) && c19idxPlus1(e, ph) {
				phi, back = ph, i
			}
		}
	})
	if phi == nil {
		return false, "later descriptors are never consulted: ties of the first key are not broken"
	}
	// the descriptor compared in an iteration is descriptors[index]
	uses := false
	core.Instrs(f, func(ins ssa.Instruction) {
		if ia, ok := ins.(*ssa.IndexAddr); ok && core.Resolve(ia.X) == ssa.Value(list) && ia.Index == ssa.Value(phi) {
			uses = true
		}
	})
	if !uses {
		return false, "the loop does not compare by descriptors[index]"
	}
	pred := phi.Block().Preds[back]
	tie, hasNext := false, false
	for _, cnd := range core.EdgeFacts(pred) {
		if m, ok := core.AsCmp(cnd); ok && m.Op == token.EQL && core.IsIntConst(m.Y, 0) {
			tie = true
		}
		n := core.Normalize(cnd)
		if call, ok := n.V.(*ssa.Call); ok && n.True {
			if g := core.Callee(&call.Call); g != nil && len(call.Call.Args) == 2 && core.Resolve(call.Call.Args[0]) == ssa.Value(list) && call.Call.Args[1] == ssa.Value(phi) && len(g.Params) == 2 {
				core.Instrs(g, func(ins ssa.Instruction) {
					if r, isR := ins.(*ssa.Return); isR && c19isHasNext(core.RetVals(r)[0], g.Params[0], g.Params[1]) {
						hasNext = true
					}
				})
			}
		}
		if n.True && c19isHasNext(n.V, list, phi) {
			hasNext = true
		}
		if m, ok := core.AsCmp(cnd); ok {
			if m.Op == token.LSS && c19idxPlus1(m.X, phi) && c19lenOf(m.Y, list) || m.Op == token.GTR && c19idxPlus1(m.Y, phi) && c19lenOf(m.X, list) {
				hasNext = true
			}
		}
	}
	if !tie {
		// path form: the verdict of this descriptor is not one variable tested once - every comparison made in the
		// iteration must be found equal to 0 on the way to the next iteration (the other ways there compare nothing:
		// both keys missing)
		tie = c19tieOnEveryPath(p, f, pred)
	}
	if !tie || !hasNext {
		return false, fmt.Sprintf("the next descriptor is consulted without result == 0 (tie=%v) && hasNext (%v)", tie, hasNext)
	}
	return true, "loop form: index advanced by one exactly on result == 0 && hasNext; every other exit returns this descriptor's verdict"
}


// c19roles: the positions of (item1, item2, descriptors, index) among the parameters of the descriptor comparator - the
// two parameters of the element type in order, the slice of descriptors, the int.
func c19roles(f *ssa.Function) (i1, i2, list, idx int, ok bool) {
	i1, i2, list, idx = -1, -1, -1, -1
	for i, prm := range f.Params {
		switch t := prm.Type().Underlying().(type) {
		case *types.Slice:
			if list < 0 {
				list = i
			}
			continue
		case *types.Basic:
			if t.Kind() == types.Int && idx < 0 {
				idx = i
				continue
			}
		}
		if i1 < 0 {
			i1 = i
		} else if i2 < 0 {
			i2 = i
		}
	}
	// (idx may be -1: the iterative form can start at the constant 0 instead of taking a start index)
	return i1, i2, list, idx, i1 >= 0 && i2 >= 0 && list >= 0
}

// c19hasNextFact: the decided condition says "there is a descriptor after index" - (index+1) < len(list) spelled directly,
// or a helper that returns (a+1) < b / (a+1) < len(b) of its own parameters, called with index and the list (or its length).
func c19hasNextFact(cnd core.Cond, list *ssa.Parameter, idx ssa.Value) bool {
	n := core.Normalize(cnd)
	if n.True && c19isHasNext(n.V, list, idx) {
		return true
	}
	if m, ok := core.AsCmp(cnd); ok {
		if m.Op == token.LSS && c19idxPlus1(m.X, idx) && c19lenOf(m.Y, list) || m.Op == token.GTR && c19idxPlus1(m.Y, idx) && c19lenOf(m.X, list) {
			return true
		}
	}
	call, ok := n.V.(*ssa.Call)
	if !ok || !n.True {
		return false
	}
	g := core.Callee(&call.Call)
	if g == nil || len(g.Blocks) == 0 {
		return false
	}
	found := false
	core.Instrs(g, func(ins ssa.Instruction) {
		r, isR := ins.(*ssa.Return)
		if !isR || len(r.Results) != 1 {
			return
		}
		b, isB := core.Resolve(core.RetVals(r)[0]).(*ssa.BinOp)
		if !isB {
			return
		}
		plus, bound := b.X, b.Y
		if b.Op == token.GTR {
			plus, bound = b.Y, b.X
		} else if b.Op != token.LSS {
			return
		}
		for i, pa := range g.Params {
			if !c19idxPlus1(plus, pa) || i >= len(call.Call.Args) || core.Resolve(call.Call.Args[i]) != idx {
				continue
			}
			for j, pb := range g.Params {
				if j >= len(call.Call.Args) {
					continue
				}
				if c19lenOf(bound, pb) && core.Resolve(call.Call.Args[j]) == ssa.Value(list) {
					found = true
				}
				if core.Resolve(bound) == ssa.Value(pb) && c19lenOf(call.Call.Args[j], list) {
					found = true
				}
			}
		}
	})
	return found
}


// c19constructors (R7): for every package-level function of the library that takes a bool and returns a (struct) type
// with an IsAscending method: in the object it returns, the field IsAscending reads holds that bool.
func c19constructors(c *core.Ctx) {
	p := c.P
	// the field read by IsAscending, per declaring type
	dirField := map[string]string{} // receiver type name -> field key
	for _, f := range p.Funcs {
		if f.Parent() == nil && f.Pkg == p.Fpgo && f.Signature.Recv() != nil && f.Name() == "IsAscending" {
			key := ""
			core.Instrs(f, func(ins ssa.Instruction) {
				if r, isR := ins.(*ssa.Return); isR && r.Block() != f.Recover && len(r.Results) == 1 {
					k := core.FieldKey(core.Resolve(r.Results[0]))
					if k == "" || (key != "" && key != k) {
						key = "-"
					} else {
						key = k
					}
				}
			})
			if key != "" && key != "-" {
				dirField[core.TypeName(f.Signature.Recv().Type())] = key
			}
		}
	}
	hasDir := func(t types.Type) string {
		// the direction field reachable in t (own or through an embedded struct)
		var walk func(t types.Type, depth int) string
		walk = func(t types.Type, depth int) string {
			if k, ok := dirField[core.TypeName(t)]; ok {
				return k
			}
			st, isSt := t.Underlying().(*types.Struct)
			if !isSt || depth > 2 {
				return ""
			}
			for i := 0; i < st.NumFields(); i++ {
				if st.Field(i).Embedded() {
					if k := walk(st.Field(i).Type(), depth+1); k != "" {
						return k
					}
				}
			}
			return ""
		}
		return walk(t, 0)
	}
	var decide func(f *ssa.Function, depth int) (bool, string)
	decide = func(f *ssa.Function, depth int) (bool, string) {
		k := hasDir(f.Signature.Results().At(0).Type())
		var flag *ssa.Parameter
		for _, prm := range f.Params {
			if b, isB := prm.Type().Underlying().(*types.Basic); isB && b.Kind() == types.Bool {
				flag = prm
			}
		}
		if k == "" || flag == nil {
			return false, "no direction field / bool parameter"
		}
		ok, detail := true, "the direction field holds the bool argument in the returned descriptor"
		n := 0
		core.Instrs(f, func(ins ssa.Instruction) {
			r, isR := ins.(*ssa.Return)
			if !isR || r.Block() == f.Recover {
				return
			}
			n++
			v := core.Resolve(core.RetVals(r)[0])
			if call, isC := v.(*ssa.Call); isC && depth < 2 {
				// delegation to another constructor with the flag in its bool position
				if g := core.Callee(&call.Call); g != nil && p.InRepo(g) && len(g.Blocks) > 0 {
					for i, prm := range g.Params {
						if b, isB := prm.Type().Underlying().(*types.Basic); isB && b.Kind() == types.Bool && i < len(call.Call.Args) && core.Resolve(call.Call.Args[i]) == ssa.Value(flag) {
							if okG, _ := decide(g, depth+1); okG {
								return
							}
						}
					}
				}
			}
			ld, isLd := v.(*ssa.UnOp)
			var obj *ssa.Alloc
			if isLd && ld.Op == token.MUL {
				obj, _ = ld.X.(*ssa.Alloc)
			}
			if a, isA := v.(*ssa.Alloc); isA {
				obj = a // &T{...} returned as pointer
			}
			if obj == nil {
				// built elsewhere (e.g. through functional options that carry the flag in a closure): the flow of the
				// direction is not visible here - not established, and not reported
				if _, isCall := v.(*ssa.Call); isCall {
					detail = "delegates the construction (direction not followed through the delegate)"
					return
				}
				ok, detail = false, "the returned descriptor is not an object built in the constructor: cannot see its direction"
				return
			}
			// stores into the direction field of obj (possibly through the embedded struct), all before the return
			found := false
			// an inner composite literal may be built in a temporary of its own and copied whole into the embedded field
			// (the newer SSA builder does): such a temporary is part of the object
			parts := map[ssa.Value]bool{obj: true}
			for round := 0; round < 2; round++ {
				core.Instrs(f, func(i2 ssa.Instruction) {
					st, isS := i2.(*ssa.Store)
					if !isS {
						return
					}
					root := st.Addr
					for {
						x, isX := root.(*ssa.FieldAddr)
						if !isX {
							break
						}
						root = x.X
					}
					if !parts[root] {
						return
					}
					if ld, isLd := st.Val.(*ssa.UnOp); isLd && ld.Op == token.MUL {
						if a, isA := ld.X.(*ssa.Alloc); isA {
							parts[a] = true
						}
					}
				})
			}
			core.Instrs(f, func(i2 ssa.Instruction) {
				st, isS := i2.(*ssa.Store)
				if !isS {
					return
				}
				fa, isFA := st.Addr.(*ssa.FieldAddr)
				if !isFA {
					return
				}
				root := ssa.Value(fa)
				for {
					x, isX := root.(*ssa.FieldAddr)
					if !isX {
						break
					}
					root = x.X
				}
				if !parts[root] {
					return
				}
				if core.FieldKey(fa) == k {
					if core.Resolve(st.Val) == ssa.Value(flag) && core.InstrDominates(st, r) {
						found = true
					} else {
						ok, detail = false, "the direction field is assigned something other than the constructor's bool argument"
					}
					return
				}
				// an embedded descriptor stored whole from another constructor
				if hasDir(fa.Type().(*types.Pointer).Elem()) == k && depth < 2 {
					if call, isC := core.Resolve(st.Val).(*ssa.Call); isC {
						if g := core.Callee(&call.Call); g != nil && p.InRepo(g) && len(g.Blocks) > 0 {
							for i, prm := range g.Params {
								if b, isB := prm.Type().Underlying().(*types.Basic); isB && b.Kind() == types.Bool && i < len(call.Call.Args) && core.Resolve(call.Call.Args[i]) == ssa.Value(flag) {
									if okG, _ := decide(g, depth+1); okG && core.InstrDominates(st, r) {
										found = true
									}
								}
							}
						}
					}
				}
			})
			if !found && ok {
				ok, detail = false, "the returned descriptor's direction field is never assigned the constructor's bool argument (e.g. set through a value-receiver setter, which changes a copy): every descriptor built this way reports ascending=false"
			}
		})
		if n == 0 {
			return false, "no return"
		}
		return ok, detail
	}
	for _, f := range p.Funcs {
		if f.Parent() != nil || f.Pkg != p.Fpgo || f.Signature.Recv() != nil || f.Object() == nil || !f.Object().Exported() || f.Signature.Results().Len() != 1 {
			continue
		}
		if hasDir(f.Signature.Results().At(0).Type()) == "" {
			continue
		}
		hasBool := false
		for _, prm := range f.Params {
			if b, isB := prm.Type().Underlying().(*types.Basic); isB && b.Kind() == types.Bool {
				hasBool = true
			}
		}
		if !hasBool {
			continue
		}
		c.Analysed(core.FuncName(f))
		ok, detail := decide(f, 0)
		c.Check(ok, "R7", f.Name(), p.Pos(f.Pos()), detail, detail)
	}
}


// c19onlyStable: fn orders its slice by exactly one sort.SliceStable call on every path that has two or more elements to
// order, and moves no element by hand.
func c19onlyStable(p *core.Prog, sortFn *ssa.Function) (bool, int, int, string) {
	trivial := func(b, s2 *ssa.BasicBlock) bool {
		iff, ok := b.Instrs[len(b.Instrs)-1].(*ssa.If)
		if !ok || len(b.Succs) != 2 {
			return false
		}
		for _, cnd := range core.ExpandCond(core.Cond{V: iff.Cond, True: b.Succs[0] == s2, If: iff}) {
			cmp, isCmp := core.AsCmp(core.Normalize(cnd))
			if !isCmp {
				continue
			}
			call, isC := core.Resolve(cmp.X).(*ssa.Call)
			k, isK := cmp.Y.(*ssa.Const)
			if !isC || !isK || !core.IsBuiltin(&call.Call, "len") {
				continue
			}
			n := k.Int64()
			if cmp.Op == token.LSS && n <= 2 || cmp.Op == token.LEQ && n <= 1 || cmp.Op == token.EQL && n <= 1 {
				return true
			}
		}
		return false
	}
	min, max := core.PathCountEdges(sortFn.Blocks[0], nil, func(ins ssa.Instruction) int {
		if call, ok := ins.(*ssa.Call); ok && core.StdCallee(&call.Call) == "sort.SliceStable" {
			return 1
		}
		return 0
	}, trivial)
	writes := ""
	core.InstrsDeep(sortFn, func(_ *ssa.Function, ins ssa.Instruction) {
		if st, ok := ins.(*ssa.Store); ok {
			if _, isIA := st.Addr.(*ssa.IndexAddr); isIA {
				writes = p.InstrPos(ins)
			}
		}
	})
	return min == 1 && max == 1 && writes == "", min, max, writes
}

// c19forwardsToSort: g (comparator, items) sorts by handing exactly its two parameters, in order, to sortFn once on
// every path (SortSlice is Sort with a variadic list).
func c19forwardsToSort(g, sortFn *ssa.Function) bool {
	if g == nil || sortFn == nil || g == sortFn || len(g.Blocks) == 0 || len(g.Params) != 2 {
		return false
	}
	ok := true
	min, max := core.PathCount(g, func(ins ssa.Instruction) int {
		call, isC := ins.(*ssa.Call)
		if !isC || core.Callee(&call.Call) != sortFn {
			return 0
		}
		if len(call.Call.Args) != 2 || core.Resolve(call.Call.Args[0]) != ssa.Value(g.Params[0]) || core.Resolve(call.Call.Args[1]) != ssa.Value(g.Params[1]) {
			ok = false
		}
		return 1
	}, nil)
	return ok && min == 1 && max == 1
}

// c19tieOnEveryPath: every path from a CompareTo call of f to block back (the source of the loop's back edge) crosses
// a branch edge on which a value that can be that call's result is known to be 0.
func c19tieOnEveryPath(p *core.Prog, f *ssa.Function, back *ssa.BasicBlock) bool {
	var cmps []*ssa.Call
	core.Instrs(f, func(ins ssa.Instruction) {
		if call, ok := ins.(*ssa.Call); ok && call.Call.IsInvoke() && call.Call.Method.Name() == "CompareTo" {
			cmps = append(cmps, call)
		}
	})
	if len(cmps) == 0 {
		return false
	}
	for _, cc := range cmps {
		isResult := func(v ssa.Value) bool {
			for _, lf := range core.Origins(p, v, nil) {
				if lf.Val == ssa.Value(cc) {
					return true
				}
			}
			return false
		}
		seen := map[*ssa.BasicBlock]bool{}
		bad := false
		var walk func(b *ssa.BasicBlock)
		walk = func(b *ssa.BasicBlock) {
			if seen[b] || bad {
				return
			}
			seen[b] = true
			if b == back && b != cc.Block() {
				bad = true
				return
			}
			for _, s2 := range b.Succs {
				// the back edge itself ends the iteration
				if b == back && s2.Dominates(b) {
					bad = true
					return
				}
				zero := false
				if iff, isIf := b.Instrs[len(b.Instrs)-1].(*ssa.If); isIf && len(b.Succs) == 2 && b.Succs[0] != b.Succs[1] {
					for _, cnd := range core.ExpandCond(core.Cond{V: iff.Cond, True: b.Succs[0] == s2, If: iff}) {
						if m, isM := core.AsCmp(cnd); isM && m.Op == token.EQL && core.IsIntConst(m.Y, 0) && isResult(m.X) {
							zero = true
						}
					}
				}
				if !zero {
					walk(s2)
				}
			}
		}
		walk(cc.Block())
		if bad {
			return false
		}
	}
	return true
}

// capturedCell: the value bound, in parent, to the free variable name of closure cl (the cell itself for a variable
// captured by reference).
func capturedCell(parent, cl *ssa.Function, name string) ssa.Value {
	var out ssa.Value
	core.Instrs(parent, func(ins ssa.Instruction) {
		mc, ok := ins.(*ssa.MakeClosure)
		if !ok || mc.Fn != ssa.Value(cl) {
			return
		}
		for k, fv := range cl.FreeVars {
			if fv.Name() == name && k < len(mc.Bindings) {
				out = mc.Bindings[k]
			}
		}
	})
	return out
}
