package rules

import (
	"strings"
	"fmt"
	"go/token"
	"go/types"

	"fpcheck/internal/core"

	"golang.org/x/tools/go/ssa"
)

func init() {
	register(&Prop{
		ID: "C13",
		Explanation: "Ask/Reply correlation and timeout hygiene decided on SSA: (R1) correlation by construction - Reply performs exactly one blocking send of its argument on the request's own channel field; AskChannel hands the request itself to the target exactly once and returns that same field; AskOnce/AskOnceWithTimeout receive from AskChannel(self) and return the received value; the default constructor allocates a channel per request; " +
			"(R2) the awaiting side closes the reply channel only on paths where it has already received the reply (a close on the timeout path makes a late Reply panic inside the actor); (R3) the default reply channel has constant capacity >= 1 so a late Reply is parked instead of blocking the actor, and the timeout arm returns (zero, ErrActorAskTimeout) while the reply arm returns (reply, nil). " +
			"(R4) the awaited receive is the only consumer of the reply channel in an ask (no drain or second wait can drop this request's reply). Not decided: that user effects reply exactly once per request; latency classes; behaviour with a caller-supplied unbuffered channel.",
		Trusted: append([]string{"the effect replies at most once per request"}, commonTrusted...),
		Run:     runC13,
		Relies: []Dep{
			{Prop: "C12", Rule: "R2", Keys: []string{"ActorDef/"}, Floor: 1, Why: "an ask travels through the target's mailbox: each message is handed to the effect once, in order"},
			{Prop: "C12", Rule: "R3", Keys: []string{"ActorDef.Send"}, Floor: 1, Why: "an ask travels through the target's mailbox: Send enqueues exactly once"},
		},
	})
}

func runC13(c *core.Ctx) {
	p := c.P
	c.Rule("R1", "correlation: Reply sends once (blocking) on the request's own channel; AskChannel sends the request itself to the target once and returns that channel; AskOnce* receive from AskChannel(self) and return the received value; default constructor makes a channel per request", 5)
	c.Rule("R2", "the reply channel is closed by the asker only after the reply has been received on that path", 2)
	c.Rule("R3", "default reply channel is buffered (constant capacity >= 1); timeout arm returns (zero, ErrActorAskTimeout), reply arm returns (reply, nil)", 2)
	c.Rule("R4", "the awaited receive is the only consumer of the reply channel in an ask: no other receive (a drain, a peek, a second wait - in the method or in a helper handed the channel) can take the reply off the channel and drop it", 2)
	const chField = "AskDef.ch"
	// ---- Reply
	if f := p.Method(p.Fpgo, "AskDef", "Reply"); f == nil {
		c.Unknown("R1", "AskDef.Reply", "-", "method not found")
	} else {
		c.Analysed(core.FuncName(f))
		bad := ""
		core.InstrsDeep(f, func(g *ssa.Function, ins ssa.Instruction) {
			switch ins.(type) {
			case *ssa.Select:
				bad = "uses select at " + p.InstrPos(ins) + ": the reply can be dropped (asker times out although the actor answered) or deferred"
			case *ssa.Go:
				bad = "replies from a new goroutine at " + p.InstrPos(ins)
			}
		})
		min, max := core.PathCount(f, func(ins ssa.Instruction) int {
			if s, ok := ins.(*ssa.Send); ok && core.FieldKey(s.Chan) == chField && core.FieldBase(s.Chan) == f.Params[0].Name() && s.X == ssa.Value(f.Params[1]) {
				return 1
			}
			return 0
		}, nil)
		if bad == "" && (min != 1 || max != 1) {
			bad = fmt.Sprintf("sends the response %d..%d times on the request's own channel (must be exactly 1)", min, max)
		}
		c.Check(bad == "", "R1", "AskDef.Reply", p.Pos(f.Pos()), "exactly one blocking send of the response on askSelf.ch", "Reply "+bad)
	}
	// ---- AskChannel
	askCh := p.Method(p.Fpgo, "AskDef", "AskChannel")
	if askCh == nil {
		c.Unknown("R1", "AskDef.AskChannel", "-", "method not found")
	} else {
		c.Analysed(core.FuncName(askCh))
		min, max := core.PathCount(askCh, func(ins ssa.Instruction) int {
			if call, ok := ins.(*ssa.Call); ok && call.Call.IsInvoke() && call.Call.Method.Name() == "Send" && call.Call.Value == ssa.Value(askCh.Params[1]) {
				if len(call.Call.Args) == 1 && core.Unwrap(call.Call.Args[0]) == ssa.Value(askCh.Params[0]) {
					return 1
				}
				return 100
			}
			return 0
		}, nil)
		retOK := true
		core.Instrs(askCh, func(ins ssa.Instruction) {
			if r, ok := ins.(*ssa.Return); ok {
				v := core.RetVals(r)[0]
				if core.FieldKey(v) != chField || core.FieldBase(v) != askCh.Params[0].Name() {
					retOK = false
				}
			}
		})
		c.Check(min == 1 && max == 1 && retOK, "R1", "AskDef.AskChannel", p.Pos(askCh.Pos()), "sends the request itself to the target once; returns its own reply channel", fmt.Sprintf("AskChannel sends the request %d..%d times / sends something else, or returns a channel other than the request's own (retOK=%v): replies reach another asker", min, max, retOK))
	}
	// ---- askers
	for _, name := range []string{"AskOnce", "AskOnceWithTimeout"} {
		f := p.Method(p.Fpgo, "AskDef", name)
		key := "AskDef." + name
		if f == nil {
			c.Unknown("R1", key, "-", "method not found")
			continue
		}
		c.Analysed(core.FuncName(f))
		// the reply channel value
		var chCall *ssa.Call
		core.Instrs(f, func(ins ssa.Instruction) {
			if call, ok := ins.(*ssa.Call); ok && core.Callee(&call.Call) == askCh && askCh != nil {
				chCall = call
			}
		})
		if chCall == nil {
			c.Fail("R1", key, p.Pos(f.Pos()), "does not obtain its reply channel from AskChannel")
			continue
		}
		selfOK := chCall.Call.Args[0] == ssa.Value(f.Params[0]) && chCall.Call.Args[1] == ssa.Value(f.Params[1])
		// receive ops on that channel
		isCh := func(v ssa.Value) bool { return core.Resolve(v) == ssa.Value(chCall) }
		// the waiting may be done by an unexported helper that is handed the reply channel (and the expiry channel) and
		// whose results the asker returns: the rules below then read the helper, its parameters standing for the
		// asker's arguments
		body := f
		isChB := isCh
		upB := func(v ssa.Value) ssa.Value { return v }
		{
			direct := false
			core.Instrs(f, func(ins ssa.Instruction) {
				switch x := ins.(type) {
				case *ssa.UnOp:
					if x.Op == token.ARROW && isCh(x.X) {
						direct = true
					}
				case *ssa.Select:
					for _, st := range x.States {
						if st.Dir == types.RecvOnly && isCh(st.Chan) {
							direct = true
						}
					}
				}
			})
			if !direct {
				var hc *ssa.Call
				hi := -1
				core.Instrs(f, func(ins ssa.Instruction) {
					call, ok := ins.(*ssa.Call)
					if !ok || call == chCall {
						return
					}
					g := core.Callee(&call.Call)
					if g == nil || !p.InRepo(g) || len(g.Blocks) == 0 || g.Object() == nil || g.Object().Exported() {
						return
					}
					for i, a := range call.Call.Args {
						if isCh(a) && i < len(g.Params) {
							hc, hi = call, i
						}
					}
				})
				if hc != nil {
					h := core.Callee(&hc.Call)
					// the asker returns the helper's first result as its reply
					passes := true
					for _, rc := range core.ReturnCases(f) {
						v := core.Resolve(rc.Vals[0])
						if ex, isE := v.(*ssa.Extract); isE && ex.Tuple == ssa.Value(hc) && ex.Index == 0 {
							continue
						}
						if v == ssa.Value(hc) {
							continue
						}
						passes = false
					}
					if passes {
						prm := h.Params[hi]
						body = h
						isChB = func(v ssa.Value) bool { return core.Resolve(v) == ssa.Value(prm) }
						upB = func(v ssa.Value) ssa.Value {
							if q, isP := core.Resolve(v).(*ssa.Parameter); isP && q.Parent() == h {
								for i, hp := range h.Params {
									if hp == q && i < len(hc.Call.Args) {
										return hc.Call.Args[i]
									}
								}
							}
							return v
						}
						c.Analysed(core.FuncName(h))
					}
				}
			}
		}
		var recvVals []ssa.Value // the received value per receive op
		var sel *ssa.Select
		selIdx := -1
		core.Instrs(body, func(ins ssa.Instruction) {
			switch x := ins.(type) {
			case *ssa.UnOp:
				if x.Op == token.ARROW && isChB(x.X) {
					recvVals = append(recvVals, x)
				}
			case *ssa.Select:
				for i, st := range x.States {
					if st.Dir == types.RecvOnly && isChB(st.Chan) {
						sel, selIdx = x, i
					}
				}
			}
		})
		// returned value on the reply path is the received value
		retOK, detail := false, "no return of the received reply found"
		var timerRet, replyRet *core.RetCase
		for _, rc0 := range core.ReturnCases(body) {
			rc := rc0
			v := core.Resolve(rc.Vals[0])
			for _, rv := range recvVals {
				if v == rv {
					retOK, replyRet = true, &rc
				}
			}
			if sel != nil {
				arm := selectArmOf(sel, rc.Cmps())
				if arm == selIdx {
					replyRet = &rc
					// value = extract sel #(2+k) where k = index among receive states
					if ex, ok := v.(*ssa.Extract); ok && ex.Tuple == ssa.Value(sel) && ex.Index >= 2 {
						retOK = true
					} else {
						detail = "the reply arm does not return the received value"
					}
				} else if arm >= 0 {
					timerRet = &rc
				}
			}
		}
		// R4: sole consumer
		{
			nRecv, where := 0, ""
			countIn := func(g *ssa.Function, is func(ssa.Value) bool) {
				core.Instrs(g, func(ins ssa.Instruction) {
					switch x := ins.(type) {
					case *ssa.UnOp:
						if x.Op == token.ARROW && is(x.X) {
							nRecv++
							where += " " + p.InstrPos(ins)
						}
					case *ssa.Select:
						for _, st := range x.States {
							if st.Dir == types.RecvOnly && is(st.Chan) {
								nRecv++
								where += " " + p.InstrPos(ins)
							}
						}
					case *ssa.Range:
						if is(x.X) {
							nRecv += 2
							where += " " + p.InstrPos(ins)
						}
					}
				})
			}
			countIn(f, isCh)
			core.Instrs(f, func(ins ssa.Instruction) {
				call, ok := ins.(*ssa.Call)
				if !ok || call == chCall {
					return
				}
				g := core.Callee(&call.Call)
				if g == nil || !p.InRepo(g) || len(g.Blocks) == 0 {
					return
				}
				for i, a := range call.Call.Args {
					if isCh(a) && i < len(g.Params) {
						prm := g.Params[i]
						countIn(g, func(v ssa.Value) bool { return core.Resolve(v) == ssa.Value(prm) })
					}
				}
			})
			c.Check(nRecv <= 1, "R4", key+"/sole-receive", p.Pos(f.Pos()), fmt.Sprintf("%d receive on the reply channel", nRecv), fmt.Sprintf("%d receives on the reply channel of one ask (%s): the reply to this request can be taken off the channel by the other receive and dropped - the asker then waits for a second reply that never comes (timeout although the actor answered)", nRecv, strings.TrimSpace(where)))
		}
		c.Check(selfOK && retOK, "R1", key, p.Pos(f.Pos()), "receives from AskChannel(self, target) and returns the received value", fmt.Sprintf("%s (self/target passed through=%v): the asker can get another request's answer", detail, selfOK))
		// R2 closes
		nClose := 0
		core.Instrs(body, func(ins ssa.Instruction) {
			ci, ok := ins.(ssa.CallInstruction)
			if !ok || !core.IsBuiltin(ci.Common(), "close") || !isChB(ci.Common().Args[0]) {
				return
			}
			nClose++
			ckey := fmt.Sprintf("%s/close#%d", key, nClose)
			afterRecv := func(b *ssa.BasicBlock, at ssa.Instruction) bool {
				for _, rv := range recvVals {
					ri := rv.(ssa.Instruction)
					if at != nil && core.InstrDominates(ri, at) || at == nil && (ri.Block() == b || ri.Block().Dominates(b)) {
						return true
					}
				}
				if sel != nil && selectArm(sel, b) == selIdx {
					return true
				}
				return false
			}
			if _, isDefer := ins.(*ssa.Defer); isDefer {
				// runs at every return: each (non-recover) return must come after a receive
				bad := ""
				core.Instrs(body, func(i2 ssa.Instruction) {
					if r, ok := i2.(*ssa.Return); ok && r.Block() != body.Recover && !afterRecv(r.Block(), r) {
						bad = p.InstrPos(r)
					}
				})
				c.Check(bad == "", "R2", ckey, p.InstrPos(ins), "deferred close; every return follows the receive of the reply", "deferred close also runs on the return at "+bad+" where no reply was received (timeout): a later Reply sends on a closed channel and panics inside the actor")
			} else {
				c.Check(afterRecv(ins.Block(), ins), "R2", ckey, p.InstrPos(ins), "close only after the reply was received", "closes the reply channel on a path where no reply was received: a later Reply panics inside the actor")
			}
		})
		if nClose == 0 {
			c.Pass("R2", key+"/no-close", p.Pos(f.Pos()), "the asker never closes the reply channel")
		}
		// R3 result shapes for the timeout variant
		if sel != nil {
			ok, d := true, "reply arm returns (reply, nil); timer arm returns (zero, ErrActorAskTimeout)"
			if replyRet == nil || !core.IsNilConst(core.Resolve(replyRet.Vals[1])) {
				ok, d = false, "the reply arm does not return a nil error"
			}
			if timerRet == nil || core.GlobalName(core.Resolve(timerRet.Vals[1])) != "ErrActorAskTimeout" {
				ok, d = false, "the timeout arm does not return ErrActorAskTimeout"
			} else if _, isConst := core.Resolve(timerRet.Vals[0]).(*ssa.Const); !isConst {
				if !isZeroValue(timerRet.Vals[0]) {
					ok, d = false, "the timeout arm does not return the zero value"
				}
			}
			// the other arm must be time.After(timeout)
			for i, st := range sel.States {
				if i != selIdx {
					armCh := upB(st.Chan)
					if core.IsNilConst(core.Resolve(armCh)) && len(f.Params) < 3 {
						continue // an expiry channel that is nil never fires: the plain wait of AskOnce
					}
					call, isCall := core.Resolve(armCh).(*ssa.Call)
					if !isCall {
						// the definition of time.After written out: timer := time.NewTimer(timeout); <-timer.C
						if ld, isLd := st.Chan.(*ssa.UnOp); isLd && ld.Op == token.MUL {
							if fa, isFA := ld.X.(*ssa.FieldAddr); isFA {
								if nt, isNT := core.Resolve(fa.X).(*ssa.Call); isNT && core.StdCallee(&nt.Call) == "time.NewTimer" && fa.X.Type().Underlying().(*types.Pointer).Elem().Underlying().(*types.Struct).Field(fa.Field).Name() == "C" {
									call, isCall = nt, true
								}
							}
						}
					}
					if !isCall || (core.StdCallee(&call.Call) != "time.After" && core.StdCallee(&call.Call) != "time.NewTimer") || core.Resolve(upB(call.Call.Args[0])) != ssa.Value(f.Params[2]) {
						ok, d = false, "the second select arm is not time.After(timeout)"
					}
				}
			}
			c.Check(ok && sel.Blocking, "R3", key+"/results", p.InstrPos(sel), d, d)
		}
	}
	// ---- constructors
	gen := p.Func(p.Fpgo, "AskNewGenerics")
	opt := p.Func(p.Fpgo, "AskNewByOptionsGenerics")
	if gen == nil || opt == nil {
		c.Unknown("R1", "AskNewGenerics", "-", "constructors not found")
		return
	}
	c.Analysed(core.FuncName(gen), core.FuncName(opt))
	var mk *ssa.MakeChan
	okCtor := false
	core.Instrs(gen, func(ins ssa.Instruction) {
		if call, ok := ins.(*ssa.Call); ok && core.Callee(&call.Call) == opt && len(call.Call.Args) == 2 {
			if m, ok := call.Call.Args[1].(*ssa.MakeChan); ok && call.Call.Args[0] == ssa.Value(gen.Params[0]) {
				mk, okCtor = m, true
			}
		}
	})
	storesCh := false
	core.Instrs(opt, func(ins ssa.Instruction) {
		if st, ok := ins.(*ssa.Store); ok && core.FieldKey(st.Addr) == chField && st.Val == ssa.Value(opt.Params[1]) {
			if _, fresh := st.Addr.(*ssa.FieldAddr).X.(*ssa.Alloc); fresh {
				storesCh = true
			}
		}
	})
	c.Check(okCtor && storesCh, "R1", "AskNewGenerics/per-request-channel", p.Pos(gen.Pos()), "a new channel is made for every request and stored in the new request", "the default constructor does not allocate a fresh reply channel per request (shared channel: answers get mixed up)")
	if mk != nil {
		k, isK := mk.Size.(*ssa.Const)
		c.Check(isK && k.Int64() >= 1, "R3", "AskNewGenerics/buffered", p.InstrPos(mk), "reply channel capacity is a constant >= 1", "the default reply channel is unbuffered: a Reply after the asker timed out blocks the actor forever")
	} else {
		c.Unknown("R3", "AskNewGenerics/buffered", p.Pos(gen.Pos()), "channel allocation not found")
	}
}

// selectArm returns the select state index whose body dominates block b (via `extract sel #0 == k` facts), or -1.
func selectArm(sel *ssa.Select, b *ssa.BasicBlock) int {
	return selectArmOf(sel, core.EdgeCmps(b))
}

// selectArmOf: the select arm that the given comparisons place us in (index == k), or -1.
func selectArmOf(sel *ssa.Select, cmps []core.Cmp) int {
	for _, m := range cmps {
		if ex, ok := m.X.(*ssa.Extract); ok && ex.Tuple == ssa.Value(sel) && ex.Index == 0 && m.Op == token.EQL {
			if k, ok := m.Y.(*ssa.Const); ok {
				return int(k.Int64())
			}
		}
	}
	return -1
}

// isZeroValue: v is a load of a never-stored local (var x T) or *new(T).
func isZeroValue(v ssa.Value) bool {
	if _, ok := v.(*ssa.Const); ok {
		return true
	}
	if u, ok := v.(*ssa.UnOp); ok && u.Op == token.MUL {
		if a, ok := u.X.(*ssa.Alloc); ok && len(core.Stores(a)) == 0 {
			return true
		}
	}
	return false
}
