package rules

import (
	"fmt"
	"go/constant"
	"go/token"
	"go/types"
	"sort"
	"strings"

	"fpcheck/internal/core"

	"golang.org/x/tools/go/ssa"
)

func init() {
	register(&Prop{
		ID: "C15",
		Explanation: "Check-then-act atomicity for every closable channel that is a struct field (discovered: every field that is an operand of close() anywhere in the three packages). " +
			"A send on a closed channel is impossible for every schedule iff the close and every send are serialised by one lock and each sender re-checks the closed flag inside its critical section. " +
			"Decided with a whole-program lockset analysis (entry locks of closures/helpers inferred from all their call sites) plus dominance of the not-closed edge of a flag test that itself executes under the lock. " +
			"Not decided: deadlock freedom beyond R5 (a caller blocked in a receive is released by the close), goroutines left parked after a close, double close.",
		Trusted: commonTrusted,
		Run:     runC15,
		Relies: []Dep{
			{Prop: "C09", Rule: "R1", Keys: []string{"worker-body/panic-isolation"}, Floor: 1, Why: "closing the pool closes the job channel under the parked workers: what they receive then is a nil job, which must not be called (the panic handler would be invoked for a panic no job raised)"},
		},
	})
}

// flagRead reports whether v reads the closed flag base.flag (directly, through AtomBool.Get, or through a one-line accessor method of base).
func flagRead(p *core.Prog, v ssa.Value, base, flag string, depth int) bool {
	v = core.Unwrap(v)
	if addr, ok := core.StateLoadCmp(v); ok {
		return core.Path(addr) == base+"."+flag
	}
	switch x := v.(type) {
	case *ssa.UnOp:
		if x.Op == token.MUL {
			if _, ok := x.X.(*ssa.FieldAddr); ok {
				return core.Path(x.X) == base+"."+flag
			}
		}
	case *ssa.Call:
		g := core.Callee(&x.Call)
		if g == nil || len(x.Call.Args) == 0 {
			return false
		}
		if core.IsAtomGet(g) {
			return core.Path(x.Call.Args[0]) == base+"."+flag
		}
		if depth < 2 && p.InRepo(g) && g.Signature.Recv() != nil && core.Path(x.Call.Args[0]) == base && len(g.Params) > 0 {
			// accessor: every return returns a flag read of the accessor's own receiver
			n, ok := 0, true
			core.Instrs(g, func(ins ssa.Instruction) {
				if r, isRet := ins.(*ssa.Return); isRet {
					n++
					if len(r.Results) != 1 || !flagRead(p, r.Results[0], g.Params[0].Name(), flag, depth+1) {
						ok = false
					}
				}
			})
			return n > 0 && ok
		}
	}
	return false
}

type c15chan struct {
	field    string
	lockSuf  string // ".lock" – suffix of the lock path relative to the struct
	flag     string // flag field name
	closers  []core.ChanOp
	senders  []core.ChanOp
	lockless bool
}

func runC15(c *core.Ctx) {
	p := c.P
	theProgC15 = p
	c.Rule("R1", "each close(C) of a field channel runs with an exclusive lock of the same object held, and a store of true to the object's closed flag precedes it on every path", 6)
	c.Rule("R2", "each send on a closable field channel (bare, in a select, or through a ChannelQueue helper) runs with the closer's lock held (R or W) and is dominated, within that lock hold, by a test of the closed flag taking the not-closed edge (followed through closures passed to lock wrappers and through unexported helpers via all their call sites)", 8)
	c.Rule("R3", "operations started after the close report it: the closed edge of the entry points returns the documented sentinel (ErrQueueIsClosed / ErrWorkerPoolIsClosed / 0) or drops the work", 8)
	c.Assume = append(c.Assume, "channels are closed only through close() on the field (no reflection)", "a caller-supplied channel (NewByCh/NewByOptions) is not closed or used by the caller")
	li := core.ComputeLocks(p)
	c.Rule("R4", "every lock taken by the closers/senders' types (Cor, BufferedChannelQueue, WorkerPool) is released in the same mode on every return path", 8)
	lockBalance(c, li, "R4", append(append(funcsOfType(p, p.Fpgo, "CorDef"), funcsOfType(p, p.Fpgo, "BufferedChannelQueue")...), funcsOfType(p, p.Worker, "DefaultWorkerPool")...))
	ops := core.ChanOps(p)
	chans := map[string]*c15chan{}
	for _, o := range ops {
		if o.Kind == "close" && o.Field != "" {
			if chans[o.Field] == nil {
				chans[o.Field] = &c15chan{field: o.Field}
			}
			chans[o.Field].closers = append(chans[o.Field].closers, o)
		}
	}
	neverClosed := map[string]bool{}
	for _, o := range ops {
		if o.Kind == "send" && o.Field != "" {
			if ch := chans[o.Field]; ch != nil {
				ch.senders = append(ch.senders, o)
			} else {
				neverClosed[o.Field] = true
			}
		}
	}
	var nc []string
	for f := range neverClosed {
		nc = append(nc, f)
	}
	sort.Strings(nc)
	c.Extra["closable_channels"] = keysOf(chans)
	c.Extra["channels_never_closed"] = nc
	for _, name := range keysOf(chans) {
		ch := chans[name]
		// ---- R1
		for _, cl := range ch.closers {
			c.Analysed(core.FuncName(cl.Fn))
			key := fmt.Sprintf("%s/close@%s", ch.field, core.FuncName(cl.Fn))
			ls := li.At[cl.Instr]
			suf := ""
			for k := range ls {
				path, mode, _ := strings.Cut(k, ":")
				if mode == "W" && strings.HasPrefix(path, cl.Base+".") {
					suf = path[len(cl.Base):]
				}
			}
			// the close must not sit on the edge where the channel is known to be nil (close(nil) panics, and the real
			// channel is then never closed: receivers waiting for the close hang)
			for _, m := range core.EdgeCmps(cl.Instr.Block()) {
				if m.Op == token.EQL && core.IsNilConst(m.Y) && core.Path(m.X) == core.Path(cl.Chan) {
					c.Fail("R1", fmt.Sprintf("%s/nil-edge@%s", ch.field, core.FuncName(cl.Fn)), p.InstrPos(cl.Instr), "close("+core.Path(cl.Chan)+") is reached only when the channel is nil: close of nil channel panics and an existing channel is never closed (its receivers are never released)")
				}
			}
			flag := closedFlagSetBefore(p, cl)
			// independent of the lock: the closed flag must be raised before the channel is closed, otherwise not
			// even operations started after Close returned can notice (kept separate so that a recorded
			// finding about the missing lock cannot hide it)
			c.Check(flag != "", "R1", fmt.Sprintf("%s/flag@%s", ch.field, core.FuncName(cl.Fn)), p.InstrPos(cl.Instr), "closed flag "+flag+" set before the close", "no store of true to a closed flag of "+cl.Base+" dominates the close of "+ch.field+": operations started after Close returned still find the object open and send on the closed channel")
			switch {
			case suf == "":
				ch.lockless = true
				c.Fail("R1", key, p.InstrPos(cl.Instr), fmt.Sprintf("close(%s) runs with no lock of %s held (held=%s): a concurrent sender that already passed its closed-check sends on the closed channel and panics", core.Path(cl.Chan), cl.Base, ls))
			case flag == "":
				c.Fail("R1", key, p.InstrPos(cl.Instr), "no store of true to a closed flag of "+cl.Base+" dominates the close: senders have nothing to re-check")
			default:
				if ch.lockSuf != "" && ch.lockSuf != suf || ch.flag != "" && ch.flag != flag {
					c.Fail("R1", key, p.InstrPos(cl.Instr), "closers of this channel disagree on lock or flag")
				} else {
					c.Pass("R1", key, p.InstrPos(cl.Instr), fmt.Sprintf("under %s%s:W, flag %s set before", cl.Base, suf, flag))
				}
			}
			if suf != "" {
				ch.lockSuf = suf
			}
			if flag != "" {
				ch.flag = flag
			}
		}
		// ---- R2
		for _, s := range ch.senders {
			c.Analysed(core.FuncName(s.Fn))
			key := fmt.Sprintf("%s/send@%s", ch.field, core.FuncName(s.Fn))
			if s.Via != "" && !c15privateHelper(p, s) {
				key += "/" + strings.TrimPrefix(s.Via, "fpgo.")
			}
			if ch.lockSuf == "" && ch.flag != "" {
				// no lock to order the send against the close (recorded finding); the weaker guarantee - a send is
				// at least preceded by a test of the closed flag on the not-closed edge - is still demanded
				tested := false
				for _, cond := range core.EdgeFacts(s.Instr.Block()) {
					n := core.Normalize(cond)
					if !n.True && flagRead(p, n.V, s.Base, ch.flag, 0) {
						tested = true
					}
				}
				if !tested {
					if ok, _ := c15testedAtSites(p, s.Fn, s.Base, ch.flag, 0); ok {
						tested = true
					}
				}
				if !tested && c15privateHelper(p, s) {
					// the send sits in an unexported helper that is handed the flag's value and the channel
					// (`sendUnlessClosed(x.isClosed, x.ch, item)`) and tests that parameter itself
					call := s.Instr.(ssa.CallInstruction).Common()
					g := core.Callee(call)
					core.Instrs(g, func(ins ssa.Instruction) {
						snd, isS := ins.(*ssa.Send)
						if !isS {
							return
						}
						for _, cond := range core.EdgeFacts(snd.Block()) {
							n := core.Normalize(cond)
							for k, prm := range g.Params {
								if core.Resolve(n.V) == ssa.Value(prm) && k < len(call.Args) && !n.True && flagRead(p, call.Args[k], s.Base, ch.flag, 0) {
									tested = true
								}
							}
						}
					})
				}
				c.Check(tested, "R2", key+"/flag-test", p.InstrPos(s.Instr), "send preceded by a test of "+s.Base+"."+ch.flag+" on the not-closed edge", "send on "+ch.field+" is not even preceded by a test of the closed flag: every operation after Close sends on the closed channel and panics")
			}
			if ch.lockSuf == "" || ch.flag == "" {
				c.Fail("R2", key, p.InstrPos(s.Instr), fmt.Sprintf("send on %s: the channel's closer holds no lock / sets no flag, so no critical section can order this send against the close (check-then-send race → 'send on closed channel')", ch.field))
				continue
			}
			ok, why := c15guarded(p, li, s.Fn, s.Instr, s.Base, ch, 0)
			if _, isDefer := s.Instr.(*ssa.Defer); isDefer {
				ok, why = false, "send is deferred: it runs at function exit, outside any guard"
			}
			c.Check(ok, "R2", key, p.InstrPos(s.Instr), why, why)
		}
	}
	c15R3(c, li)
	c15R5(c, ops, chans)
	c15R6(c, li, chans)
}

// c15R6: state the closer releases. A reference field of a closable object that its closer sets to nil (to let the
// buffered items go) is dereferenced by the other operations; each such use must sit inside a hold of the closer's lock
// in which the closed flag was re-tested - a closed-check made before taking the lock leaves a window in which Close
// runs and the operation then dereferences nil.
func c15R6(c *core.Ctx, li *core.LockInfo, chans map[string]*c15chan) {
	p := c.P
	c.Rule("R6", "a field that the closer of an object sets to nil is only dereferenced inside a hold of the closer's lock in which the closed flag was found not set (a Close landing between an unlocked closed-check and the use makes the operation dereference nil and panic)", 1)
	released := map[string]*c15chan{}
	closerFns := map[*ssa.Function]bool{}
	for _, name := range keysOf(chans) {
		ch := chans[name]
		for _, cl := range ch.closers {
			closerFns[cl.Fn] = true
			core.Instrs(cl.Fn, func(ins ssa.Instruction) {
				st, ok := ins.(*ssa.Store)
				if !ok || !core.IsNilConst(st.Val) {
					return
				}
				fa, isFA := st.Addr.(*ssa.FieldAddr)
				if !isFA || core.Path(core.FieldOwner(fa)) != cl.Base {
					return
				}
				key := core.FieldKey(fa)
				if key == "" || chans[key] != nil {
					return
				}
				switch fa.Type().(*types.Pointer).Elem().Underlying().(type) {
				case *types.Pointer, *types.Map, *types.Slice, *types.Interface, *types.Signature:
					released[key] = ch
				}
			})
		}
	}
	n := 0
	for _, key := range keysOf(released) {
		ch := released[key]
		for _, f := range p.Funcs {
			if closerFns[f] {
				continue
			}
			core.Instrs(f, func(ins ssa.Instruction) {
				ld, ok := ins.(*ssa.UnOp)
				if !ok || ld.Op != token.MUL {
					return
				}
				fa, isFA := ld.X.(*ssa.FieldAddr)
				if !isFA || core.FieldKey(fa) != key {
					return
				}
				// a use that needs the object: anything but a comparison with nil
				used := false
				for _, r := range *ld.Referrers() {
					switch x := r.(type) {
					case *ssa.DebugRef:
					case *ssa.BinOp:
						if !((x.Op == token.EQL || x.Op == token.NEQ) && (core.IsNilConst(x.X) || core.IsNilConst(x.Y))) {
							used = true
						}
					default:
						used = true
					}
				}
				if !used {
					return
				}
				n++
				c.Analysed(core.FuncName(f))
				okG, why := c15guarded(p, li, f, ins, core.Path(core.FieldOwner(fa)), ch, 0)
				c.Check(okG, "R6", fmt.Sprintf("%s/use@%s#%d", key, core.FuncName(f), n), p.InstrPos(ins), why, "use of "+key+", which the closer sets to nil: "+why)
			})
		}
	}
	if len(released) == 0 {
		c.Pass("R6", "released-state", "-", fmt.Sprintf("no closer releases (sets to nil) a reference field of its object; %d closable channels examined", len(chans)))
	}
}

// c15R5: a caller that blocks in a receive on a field channel of a closable object must be released by the close.
// Closable object = a struct type at least one field channel of which is closed somewhere. Instances: blocking receives
// (bare `<-ch`, `range ch`, a select with neither default nor any other case, or the same through a
// ChannelQueue helper) on a field channel of such a type, in a function that is not exclusively the body of a
// goroutine the package starts itself (a parked housekeeping goroutine is a leak, not a blocked user - not claimed).
func c15R5(c *core.Ctx, ops []core.ChanOp, chans map[string]*c15chan) {
	p := c.P
	c.Rule("R5", "every field channel of a closable object on which a caller's goroutine blocks in a receive with no alternative (Take, YieldRef, YieldFrom's wait for the answer) is closed by the object's closer: otherwise a caller already waiting when Close / the coroutine's completion happens is never released (deadlock)", 3)
	closable := map[string]bool{}
	for f := range chans {
		if t, _, ok := strings.Cut(f, "."); ok {
			closable[t] = true
		}
	}
	seen := map[string]bool{}
	for _, o := range ops {
		if o.Kind != "recv" || !o.Blocking || o.Field == "" {
			continue
		}
		t, _, _ := strings.Cut(o.Field, ".")
		if !closable[t] {
			continue
		}
		if o.Alt {
			continue
		}
		if _, isGo := o.Instr.(*ssa.Go); isGo || c15goroutineOnly(p, o.Fn, 0) {
			continue // the receive happens in a goroutine the package starts itself (directly, or in the helper started here)
		}
		key := fmt.Sprintf("%s/released@%s", o.Field, core.FuncName(o.Fn))
		if seen[key] {
			continue
		}
		seen[key] = true
		c.Analysed(core.FuncName(o.Fn))
		ch := chans[o.Field]
		c.Check(ch != nil && len(ch.closers) > 0, "R5", key, p.InstrPos(o.Instr), "the channel is closed by the closer", "blocking receive on "+o.Field+", which no function closes although "+t+" is closable: a caller waiting here when the object is closed is never released")
	}
}

// c15goroutineOnly: fn runs only as (part of) a goroutine started by the package itself: every call site is a go
// statement, or lies in such a function.
func c15goroutineOnly(p *core.Prog, fn *ssa.Function, depth int) bool {
	if depth > 3 {
		return false
	}
	sites, complete := core.CallSites(p, fn)
	if !complete || len(sites) == 0 {
		return false
	}
	for _, s := range sites {
		if _, isGo := s.Instr.(*ssa.Go); isGo {
			continue
		}
		if s.Caller == nil || s.Caller == fn || !c15goroutineOnly(p, s.Caller, depth+1) {
			return false
		}
	}
	return true
}

// c15privateHelper: the operation happens inside an unexported helper function of the repository that the listed
// instruction calls with the channel as an argument (not one of the ChannelQueue methods).
func c15privateHelper(p *core.Prog, o core.ChanOp) bool {
	ci, ok := o.Instr.(ssa.CallInstruction)
	if !ok || o.Via == "" {
		return false
	}
	g := core.Callee(ci.Common())
	return g != nil && p.InRepo(g) && g.Object() != nil && !g.Object().Exported() && len(g.Blocks) > 0
}

// c15feeds: value v is (part of) the computation of cond.
func c15feeds(v ssa.Value, cond ssa.Value, depth int) bool {
	if depth > 6 || cond == nil {
		return false
	}
	cond = core.Resolve(cond)
	if cond == v {
		return true
	}
	switch x := cond.(type) {
	case *ssa.UnOp:
		return c15feeds(v, x.X, depth+1)
	case *ssa.BinOp:
		return c15feeds(v, x.X, depth+1) || c15feeds(v, x.Y, depth+1)
	case *ssa.Phi:
		for _, e := range x.Edges {
			if c15feeds(v, e, depth+1) {
				return true
			}
		}
	case *ssa.Extract:
		return c15feeds(v, x.Tuple, depth+1)
	case *ssa.Call:
		for _, a := range x.Call.Args {
			if c15feeds(v, a, depth+1) {
				return true
			}
		}
	}
	return false
}

func keysOf(m map[string]*c15chan) []string {
	var out []string
	for k := range m {
		out = append(out, k)
	}
	sort.Strings(out)
	return out
}

// closedFlagSetBefore finds a flag store (bool field := true, or AtomBool.Set(true)) on the closer's object that dominates the close.
// When the close sits in a closure handed to a lock wrapper, the store may precede the wrapper call in the enclosing function.
func closedFlagSetBefore(p *core.Prog, cl core.ChanOp) string {
	if f := flagSetBeforeIn(cl.Fn, cl.Instr, cl.Base); f != "" {
		return f
	}
	// the close happens inside a helper that gets the channel as an argument: the helper may set the flag itself through a
	// pointer parameter (`markClosedAndClose(&x.isClosed, x.ch)`) before it closes
	if ci, isCI := cl.Instr.(ssa.CallInstruction); isCI && cl.Via != "" {
		if g := core.Callee(ci.Common()); g != nil && len(g.Blocks) > 0 {
			res := ""
			nClose := 0
			core.Instrs(g, func(ins ssa.Instruction) {
				cc, isC := ins.(ssa.CallInstruction)
				if !isC || !core.IsBuiltin(cc.Common(), "close") {
					return
				}
				if _, isPrm := core.Resolve(cc.Common().Args[0]).(*ssa.Parameter); !isPrm {
					return
				}
				nClose++
				found := ""
				core.Instrs(g, func(i2 ssa.Instruction) {
					if !core.InstrDominates(i2, ins) || i2 == ins {
						return
					}
					var target ssa.Value
					switch x := i2.(type) {
					case *ssa.Store:
						if isTrueConst(x.Val) {
							target = x.Addr
						}
					case *ssa.Call:
						if h := core.Callee(&x.Call); h != nil && core.FlagSetTrue(&x.Call) {
							target = x.Call.Args[0]
						}
					}
					prm, isPrm := target.(*ssa.Parameter)
					if !isPrm {
						return
					}
					for j, q := range g.Params {
						if q == prm && j < len(ci.Common().Args) {
							if fa, isFA := ci.Common().Args[j].(*ssa.FieldAddr); isFA && core.Path(core.FieldOwner(fa)) == cl.Base {
								found = core.FieldName(fa.X.Type(), fa.Field)
							}
						}
					}
				})
				if found == "" || res != "" && res != found {
					res = "-"
				} else {
					res = found
				}
			})
			if nClose > 0 && res != "" && res != "-" {
				return res
			}
		}
	}
	{
		// closure handed to a lock wrapper, or an unexported helper called (under the lock) by the closer proper
		sites, complete := core.CallSites(p, cl.Fn)
		if complete && len(sites) > 0 {
			res := ""
			for _, s := range sites {
				at := s.Instr
				if s.Outer != nil {
					at = s.Outer
				}
				base := cl.Base
				if cl.Fn.Parent() == nil && s.Outer == nil {
					// plain helper: the object is one of its parameters; name it in the caller
					base = ""
					if ci, isCI := s.Instr.(ssa.CallInstruction); isCI {
						for i, prm := range cl.Fn.Params {
							if prm.Name() == cl.Base && i < len(ci.Common().Args) {
								base = core.Path(ci.Common().Args[i])
							}
						}
					}
					if base == "" {
						return ""
					}
				}
				f := flagSetBeforeIn(at.Parent(), at, base)
				if f == "" || res != "" && res != f {
					return ""
				}
				res = f
			}
			return res
		}
	}
	return ""
}

func flagSetBeforeIn(fn *ssa.Function, at ssa.Instruction, base string) string {
	cl := struct {
		Fn    *ssa.Function
		Instr ssa.Instruction
		Base  string
	}{fn, at, base}
	found := ""
	core.Instrs(cl.Fn, func(ins ssa.Instruction) {
		if !core.InstrDominates(ins, cl.Instr) || ins == cl.Instr {
			return
		}
		switch x := ins.(type) {
		case *ssa.Store:
			if fa, ok := x.Addr.(*ssa.FieldAddr); ok && core.Path(core.FieldOwner(fa)) == cl.Base && isTrueConst(x.Val) {
				found = core.FieldName(fa.X.Type(), fa.Field)
			}
		case *ssa.Call:
			if fld, owner, ok := flagSetOf(theProgC15, x); ok && owner == cl.Base {
				found = fld
			}
		}
	})
	return found
}

// theProgC15: the program of the current run (flagSetBeforeIn has no Prog parameter).
var theProgC15 *core.Prog

func isTrueConst(v ssa.Value) bool {
	k, ok := v.(*ssa.Const)
	return ok && k.Value != nil && k.Value.Kind() == constant.Bool && constant.BoolVal(k.Value)
}

// c15guarded: is instruction ins of fn executed with base's lock held and after a not-closed flag test made under that lock?
func c15guarded(p *core.Prog, li *core.LockInfo, fn *ssa.Function, ins ssa.Instruction, base string, ch *c15chan, depth int) (bool, string) {
	lock := base + ch.lockSuf
	ls := li.At[ins]
	if !ls.HasAny(lock) {
		return false, fmt.Sprintf("in %s the operation runs without %s held (held=%s): Close can run between the closed-check and the send", core.FuncName(fn), lock, ls)
	}
	// dominating flag test under the lock
	for _, cond := range core.EdgeFacts(ins.Block()) {
		n := core.Normalize(cond)
		if n.True || !flagRead(p, n.V, base, ch.flag, 0) {
			continue
		}
		test, _ := core.Unwrap(n.V).(ssa.Instruction)
		if test == nil {
			continue
		}
		if !li.At[test].HasAny(lock) {
			continue // tested before the lock was taken: stale
		}
		if unlockBetween(fn, test, ins, lock) {
			continue
		}
		return true, fmt.Sprintf("under %s, not-closed edge of %s tested at %s", lock, base+"."+ch.flag, p.InstrPos(test))
	}
	if depth >= 3 {
		return false, "no closed-flag test under the lock found within 3 call levels"
	}
	sites, complete := core.CallSites(p, fn)
	if !complete || len(sites) == 0 {
		return false, fmt.Sprintf("%s holds %s but no test of %s.%s on the not-closed edge dominates the operation inside that lock hold (the flag is tested before the lock is taken, or not at all)", core.FuncName(fn), lock, base, ch.flag)
	}
	for _, s := range sites {
		if s.Kind != "call" {
			return false, fmt.Sprintf("%s is started with %s at %s: no guard carries over", core.FuncName(fn), s.Kind, p.InstrPos(s.Instr))
		}
		nb := base
		if s.Outer != nil {
			// closure passed to a wrapper: the wrapper's parameter bound to the actual whose path is base
			g := s.Caller
			nb = ""
			obase := base
			if s.Bound != nil {
				// bound method value: base is a field of the receiver; name it in the frame that built the receiver
				if q := core.ReceiverFieldPath(s.Bound, fn, base); q != "" {
					obase = q
				}
			}
			// the object may be named differently where the closure was built (`cor := op.cor`; the closure sees `cor`)
			obases := []string{obase}
			if b := capturedBinding(s.Outer.Parent(), fn, base); b != nil {
				obases = append(obases, core.Path(b))
			}
			for i, a := range s.Outer.Call.Args {
				for _, ob := range obases {
					if i < len(g.Params) && core.Path(a) == ob {
						nb = g.Params[i].Name()
					}
				}
			}
			if nb == "" {
				return false, "cannot relate " + base + " to the lock wrapper's parameters at " + p.InstrPos(s.Outer)
			}
		} else if fn.Parent() == nil {
			// plain helper: base is one of fn's params; translate to the actual at the call site
			call := s.Instr.(ssa.CallInstruction).Common()
			nb = ""
			for i, prm := range fn.Params {
				if prm.Name() == base && i < len(call.Args) {
					nb = core.Path(call.Args[i])
				}
			}
			if nb == "" {
				return false, "cannot relate " + base + " to the caller at " + p.InstrPos(s.Instr)
			}
		}
		ok, why := c15guarded(p, li, s.Caller, s.Instr, nb, ch, depth+1)
		if !ok {
			return false, fmt.Sprintf("via %s ← %s", core.FuncName(fn), why)
		}
	}
	return true, fmt.Sprintf("guarded at all %d call sites of %s", len(sites), core.FuncName(fn))
}

func unlockBetween(fn *ssa.Function, a, b ssa.Instruction, lock string) bool {
	bad := false
	core.Instrs(fn, func(ins ssa.Instruction) {
		if c, ok := ins.(*ssa.Call); ok {
			if op, path, ok := core.LockOp(&c.Call); ok && path == lock && (op == "Unlock" || op == "RUnlock") {
				if core.Reaches(a, ins) && core.ReachesAvoiding(ins, b, a.Block()) {
					bad = true
				}
			}
		}
	})
	return bad
}

// c15R3: closed edge of the entry points returns the documented sentinel.
func c15R3(c *core.Ctx, li *core.LockInfo) {
	p := c.P
	type want struct {
		pkg      *ssa.Package
		typ, fn  string
		flag     string
		sentinel string // global name, or "0" for Count, or "" for silent drop (no call, no send)
	}
	ws := []want{
		{p.Fpgo, "BufferedChannelQueue", "Offer", "isClosed", "ErrQueueIsClosed"},
		{p.Fpgo, "BufferedChannelQueue", "Take", "isClosed", "ErrQueueIsClosed"},
		{p.Fpgo, "BufferedChannelQueue", "TakeWithTimeout", "isClosed", "ErrQueueIsClosed"},
		{p.Fpgo, "BufferedChannelQueue", "Poll", "isClosed", "ErrQueueIsClosed"},
		{p.Fpgo, "BufferedChannelQueue", "Count", "isClosed", "0"},
		{p.Worker, "DefaultWorkerPool", "Schedule", "isClosed", "ErrWorkerPoolIsClosed"},
		{p.Worker, "DefaultWorkerPool", "ScheduleWithTimeout", "isClosed", "ErrWorkerPoolIsClosed"},
		{p.Fpgo, "HandlerDef", "Post", "isClosed", ""},
		{p.Fpgo, "ActorDef", "Send", "isClosed", ""},
	}
	for _, w := range ws {
		key := w.typ + "." + w.fn
		f := p.Method(w.pkg, w.typ, w.fn)
		if f == nil {
			c.Unknown("R3", key, "-", "entry point not found")
			continue
		}
		c.Analysed(core.FuncName(f))
		f = core.SameParamsImpl(p, f)
		ok, detail := c15closedResult(p, f, w.flag, w.sentinel, 0)
		c.Check(ok, "R3", key, p.Pos(f.Pos()), detail, detail)
	}
	_ = types.Typ
}

// c15closedResult decides whether f, when the closed flag is set, returns the documented sentinel
// (as its last result) without calling user code or sending. The flag test may sit in f itself or in a
// prologue helper of the same receiver whose error result f returns unchanged when it is non-nil.
func c15closedResult(p *core.Prog, f *ssa.Function, flag, sentinel string, depth int) (bool, string) {
	base := f.Params[0].Name()
	up := func(v ssa.Value) ssa.Value { return v }
	if tgt, tc := core.ThinTarget(p, f); tgt != nil && tgt.Object() != nil && !tgt.Object().Exported() && tgt.Signature.Recv() == nil {
		// the entry point only forwards to an unexported helper function that is handed the flag's value
		// (`sendUnlessClosed(x.isClosed, x.ch, item)`): decide the helper's body, reading its parameters as the arguments
		f = tgt
		up = func(v ssa.Value) ssa.Value {
			for i, prm := range tgt.Params {
				if core.Resolve(v) == ssa.Value(prm) && i < len(tc.Call.Args) {
					return tc.Call.Args[i]
				}
			}
			return v
		}
	}
	// an entry point that only takes its lock(s) and returns what one method of the same receiver returns
	// (`Lock(); defer Unlock(); return q.offerLocked(v)`): the delegate's own closed edge is the entry point's
	if depth < 2 {
		var del *ssa.Call
		pure := true
		core.Instrs(f, func(ins ssa.Instruction) {
			switch x := ins.(type) {
			case *ssa.Call:
				if _, _, isLock := core.LockOp(&x.Call); isLock {
					return
				}
				if g := core.Callee(&x.Call); g != nil && p.InRepo(g) && len(g.Blocks) > 0 && len(x.Call.Args) > 0 && core.Path(x.Call.Args[0]) == base && del == nil {
					del = x
					return
				}
				pure = false
			case *ssa.Defer:
				if _, _, isLock := core.LockOp(&x.Call); !isLock {
					pure = false
				}
			case *ssa.Return:
				if x.Block() == f.Recover {
					return
				}
				for _, r := range core.RetVals(x) {
					rv := core.Resolve(r)
					if rv == ssa.Value(del) {
						continue
					}
					if ex, isE := rv.(*ssa.Extract); isE && del != nil && ex.Tuple == ssa.Value(del) {
						continue
					}
					pure = false
				}
			case *ssa.Store:
				if _, isLocal := x.Addr.(*ssa.Alloc); !isLocal {
					pure = false // (a result spilled for the deferred unlock is a local store)
				}
			case *ssa.If, *ssa.Send, *ssa.Go, *ssa.Select, *ssa.MapUpdate:
				pure = false
			}
		})
		if pure && del != nil && len(f.Blocks) <= 3 {
			if h := core.Callee(&del.Call); h != f && h.Signature.Recv() != nil {
				return c15closedResult(p, h, flag, sentinel, depth+1)
			}
		}
	}
	ok, detail := false, "no test of the closed flag found"
	for _, b := range f.Blocks {
		iff, isIf := b.Instrs[len(b.Instrs)-1].(*ssa.If)
		if !isIf {
			continue
		}
		n := core.Normalize(core.Cond{V: iff.Cond, True: true})
		var viaHelper ssa.Value
		viaPredicate := false
		if !flagRead(p, up(n.V), base, flag, 0) {
			// a predicate helper of the receiver whose outcome implies the flag (`if !q.prepareTake() { return …closed }`)
			if condFlag(p, core.Cond{V: iff.Cond, True: true}, base, flag, true, 0) {
				n, viaPredicate = core.Cond{V: iff.Cond, True: true}, true
			} else if condFlag(p, core.Cond{V: iff.Cond, True: false}, base, flag, true, 0) {
				n, viaPredicate = core.Cond{V: iff.Cond, True: false}, true
			}
		}
		if !viaPredicate && !flagRead(p, up(n.V), base, flag, 0) {
			// `if err := q.prologue(); err != nil { return ..., err }`
			cmp, isCmp := core.AsCmp(n)
			if isCmp && core.GlobalName(cmp.X) != "" && core.GlobalName(cmp.Y) == "" && (cmp.Op == token.NEQ || cmp.Op == token.EQL) {
				cmp.X, cmp.Y = cmp.Y, cmp.X // `ErrX != err`
			}
			// also `if err != ErrOtherSentinel { return err }`: a result that equals this entry point's closed sentinel
			// differs from any other sentinel, so that edge is taken as well
			otherSentinel := core.GlobalName(cmp.Y) != "" && core.GlobalName(cmp.Y) != sentinel
			if !isCmp || depth > 1 || sentinel == "" || sentinel == "0" || !(core.IsNilConst(cmp.Y) || otherSentinel) || (cmp.Op != token.NEQ && cmp.Op != token.EQL) {
				continue
			}
			x := core.Resolve(cmp.X)
			var call *ssa.Call
			switch v := x.(type) {
			case *ssa.Call:
				call = v
			case *ssa.Extract:
				call, _ = v.Tuple.(*ssa.Call)
				if call != nil && v.Index != call.Call.Signature().Results().Len()-1 {
					call = nil
				}
			}
			if call == nil || len(call.Call.Args) == 0 || core.Path(call.Call.Args[0]) != base {
				continue
			}
			h := core.Callee(&call.Call)
			if h == nil || !p.InRepo(h) || h == f || len(h.Params) == 0 {
				continue
			}
			if hOK, _ := c15closedResult(p, h, flag, sentinel, depth+1); !hOK {
				continue
			}
			viaHelper = x
			n.True = cmp.Op == token.NEQ
		}
		closedSucc := b.Succs[0]
		if !n.True {
			closedSucc = b.Succs[1]
		}
		// follow jumps through side-effect-free blocks to the return (a single shared return merges the
		// closed path's result in a phi: take the edge we arrive on)
		clean := true
		scan := func(blk *ssa.BasicBlock) {
			for _, ins := range blk.Instrs {
				switch x := ins.(type) {
				case *ssa.Send, *ssa.Go:
					clean = false
				case *ssa.Call:
					if g := core.Callee(&x.Call); g == nil || p.InRepo(g) {
						clean = false
					}
				}
			}
		}
		pred, cur := b, closedSucc
		scan(cur)
		for hops := 0; hops < 4; hops++ {
			if _, isJ := cur.Instrs[len(cur.Instrs)-1].(*ssa.Jump); !isJ || len(cur.Succs) != 1 {
				break
			}
			pred, cur = cur, cur.Succs[0]
			// only the part of a join block after its phis belongs to this path; calls there are shared
			// with the live path and must be unlocks/defers only
			scan(cur)
		}
		ret, _ := cur.Instrs[len(cur.Instrs)-1].(*ssa.Return)
		if ret == nil {
			detail = "closed edge does not return immediately"
			continue
		}
		onEdge := func(v ssa.Value) ssa.Value {
			if phi, isPhi := v.(*ssa.Phi); isPhi && phi.Block() == cur {
				for i, q := range cur.Preds {
					if q == pred {
						return phi.Edges[i]
					}
				}
			}
			return v
		}
		rv := core.RetVals(ret)
		for i := range rv {
			rv[i] = onEdge(rv[i])
		}
		switch {
		case viaHelper != nil:
			ok = clean && len(rv) > 0 && core.Resolve(rv[len(rv)-1]) == viaHelper
		case sentinel == "":
			ok = clean && len(rv) == 0
		case sentinel == "0":
			k, isK := rv[0].(*ssa.Const)
			ok = clean && isK && k.Value != nil && k.Value.ExactString() == "0"
		default:
			last := rv[len(rv)-1]
			u, isLoad := last.(*ssa.UnOp)
			if isLoad {
				g, isG := u.X.(*ssa.Global)
				ok = clean && isG && g.Name() == sentinel
			}
		}
		if ok {
			// nothing is handed over before the closed test: every call into the repository (accessors aside), send and
			// go statement of the entry point comes after it
			var at ssa.Instruction = iff
			if vc, isVC := viaHelper.(ssa.Instruction); isVC {
				at = vc
			} else if ex, isE := viaHelper.(*ssa.Extract); isE {
				at, _ = ex.Tuple.(ssa.Instruction)
			}
			early := ""
			core.Instrs(f, func(ins ssa.Instruction) {
				if ins == at || early != "" || core.InstrDominates(at, ins) {
					return
				}
				switch x := ins.(type) {
				case *ssa.Send, *ssa.Go:
					early = p.InstrPos(ins)
				case *ssa.Call:
					g := core.Callee(&x.Call)
					if g == nil || !p.InRepo(g) || core.ThinReturn(g) != nil || core.IsAtomGet(g) {
						return
					}
					// the call that computes the tested condition itself
					if core.InstrDominates(ins, at) {
						if ifi, isIf := at.(*ssa.If); isIf && c15feeds(x, ifi.Cond, 0) {
							return
						}
					}
					early = p.InstrPos(ins)
				}
			})
			if early != "" {
				ok, detail = false, "work is handed over at "+early+" before the closed flag is tested: an operation started after Close returned still reaches the queue / a worker"
				continue
			}
			detail = "closed edge returns " + sentinel
			if sentinel == "" {
				detail = "closed edge returns without sending"
			}
			if viaHelper != nil {
				detail += " (from its prologue helper)"
			}
			return true, detail
		}
		detail = "closed edge does not return the documented result (" + sentinel + ")"
	}
	return false, detail
}

// c15testedAtSites: every call site of fn (a helper doing the send) is on the not-closed edge of a test of the flag.
func c15testedAtSites(p *core.Prog, fn *ssa.Function, base, flag string, depth int) (bool, string) {
	if depth > 2 {
		return false, ""
	}
	sites, complete := core.CallSites(p, fn)
	if !complete || len(sites) == 0 {
		return false, ""
	}
	for _, s := range sites {
		if s.Kind != "call" {
			return false, ""
		}
		nb := base
		if fn.Parent() == nil {
			call := s.Instr.(ssa.CallInstruction).Common()
			nb = ""
			for i, prm := range fn.Params {
				if prm.Name() == base && i < len(call.Args) {
					nb = core.Path(call.Args[i])
				}
			}
		}
		ok := false
		for _, cond := range core.EdgeFacts(s.Instr.Block()) {
			n := core.Normalize(cond)
			if !n.True && flagRead(p, n.V, nb, flag, 0) {
				ok = true
			}
		}
		if !ok {
			if ok2, _ := c15testedAtSites(p, s.Caller, nb, flag, depth+1); !ok2 {
				return false, ""
			}
		}
	}
	return true, ""
}
