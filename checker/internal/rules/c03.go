package rules

import (
	"fmt"
	"go/constant"
	"go/token"
	"go/types"
	"sort"
	"strings"

	"fpcheck/internal/core"

	"golang.org/x/tools/go/ssa"
)

func init() {
	register(&Prop{
		ID: "C03",
		Explanation: "Three structural clauses of the slice/map helpers, decided on SSA for all inputs: (R1) every slice or index expression whose bound depends on an integer parameter (or is a constant index into a parameter) satisfies 0 <= lo <= hi <= len(s) under the comparisons that dominate it (difference-bound reasoning over the parameters, len() terms and constants) - len, not cap, because slicing past len returns elements that are not part of the input; " +
			"(R2) loops whose step or group size comes from a parameter are dominated by step > 0 (termination); (R3) no helper writes memory reachable from its slice/map arguments (interprocedural write-effect analysis; append into spare capacity counts as a write). " +
			"(R4) every integer division or remainder has a divisor proven non-zero under its dominating guards; (R5) an input map is never read with a plain index expression for a key that may be absent (missing key vs stored zero value). R4/R5 expect zero instances on the library and self-test their matcher on an embedded snippet on every run. Not decided: that each helper returns the value of its documented definition (value-level equality over all inputs), and indices that depend only on loop counters (listed in the evidence as counter-indexed, not claimed). (R8) no in-band zero sentinel: an equality comparison between an input element and a loop-carried variable that mixes the zero value of its type with input elements (`var last T … if v == last`) is reached only behind a condition inside the loop - otherwise an input whose first element is the zero value is treated as a repetition (zero instances on the library; the matcher is self-tested on an embedded snippet on every run). (R9) every listed helper with a slice or map result, except the documented windows Drop/DropLast/Take/TakeLast/Tail (table c03views, one reason each), returns on every path storage that is not shared with an argument (result-freshness summaries of the write-effect analysis; an append that may add nothing is its first argument): a caller that writes into or sorts the result cannot change an input. (R6) Drop/DropLast/Take/TakeLast return on every feasible path the window of the input prescribed for the region of count the path lies in (linear forms over a difference-bound domain).",
		Trusted: append([]string{"user callbacks do not mutate the slices they are applied to"}, commonTrusted...),
		Run:     runC03,
		Relies: []Dep{
			{Prop: "C05", Rule: "R1", Keys: []string{"Distinct~", "DuplicateMap~", "Exists~", "Keys~", "Merge~", "SliceToMap~", "Values~"}, Floor: 16, Why: "the empty/nil-operand contract of a helper is pinned by agreement with its interface{} twin"},
			{Prop: "C05", Rule: "R2", Keys: []string{"Distinct~", "DuplicateMap~", "Exists~", "Keys~", "Merge~", "SliceToMap~", "Values~"}, Floor: 7, Why: "the element semantics of a helper are pinned by agreement with its interface{} twin"},
		},
	})
}

// the helpers named by the property statement
var c03names = strings.Fields("Map MapIndexed Filter Reject Reduce Concat Flatten Distinct Dedupe DropEq Drop DropLast DropWhile Take TakeLast Head Tail Reverse Prepend Partition SplitEvery GroupBy UniqBy Zip Range Keys Values Merge Min Max MinMax Every Some Exists IsEqual IsEqualMap IsDistinct SliceToMap DuplicateSlice DuplicateMap")

func c03helpers(p *core.Prog) []*ssa.Function {
	var out []*ssa.Function
	for _, n := range c03names {
		if f := p.Func(p.Fpgo, n); f != nil {
			out = append(out, f)
		}
	}
	return out
}

// dependsOnIntParam: v's expression tree reaches an integer-typed parameter.
func dependsOnIntParam(v ssa.Value, depth int) bool {
	if v == nil || depth > 8 {
		return false
	}
	v = core.Resolve(v)
	switch x := v.(type) {
	case *ssa.Parameter:
		return core.IsInteger(x.Type())
	case *ssa.BinOp:
		return dependsOnIntParam(x.X, depth+1) || dependsOnIntParam(x.Y, depth+1)
	case *ssa.Convert:
		return dependsOnIntParam(x.X, depth+1)
	case *ssa.Call:
		// result of a helper fed with a parameter-dependent count (clamp/min/max helpers)
		if core.Callee(&x.Call) != nil && core.IsInteger(x.Type()) {
			if _, isB := x.Call.Value.(*ssa.Builtin); !isB {
				for _, a := range x.Call.Args {
					if dependsOnIntParam(a, depth+1) {
						return true
					}
				}
			}
		}
	case *ssa.Phi:
		for _, e := range x.Edges {
			if dependsOnIntParam(e, depth+1) {
				return true
			}
		}
	}
	return false
}

func rootedAtParam(v ssa.Value) bool {
	for i := 0; i < 10; i++ {
		switch x := v.(type) {
		case *ssa.Parameter:
			return true
		case *ssa.Slice:
			v = x.X
		case *ssa.UnOp:
			v = x.X
		case *ssa.IndexAddr:
			v = x.X
		default:
			return false
		}
	}
	return false
}

func runC03(c *core.Ctx) {
	p := c.P
	c.Rule("R1", "parameter-dependent slice/index bounds are within [0, len] under their dominating guards", 6)
	c.Rule("R2", "a loop step / group size taken from a parameter is proven positive where the loop runs", 2)
	c.Rule("R3", "no helper named by the property writes through its slice/map arguments", 40)
	c.Rule("R4", "every integer division or remainder in the helpers has a divisor proven non-zero under its dominating guards", 1)
	c.Rule("R6", "window helpers: on every path, Drop/DropLast/Take/TakeLast return exactly the window of the input their definition prescribes for the count region the path lies in (count >= len; 1 <= count < len; for Drop/DropLast also count <= 0)", 4)
	c.Rule("R7", "Merge gives the second map precedence: its entries are written into the result unconditionally (not 'only if absent') and never before an entry of the first map on the same path", 2)
	c.Rule("R8", "no in-band zero sentinel: a loop-carried 'previous element' variable that still holds the zero value it was declared with is not compared with an input element unguarded (the zero value of T is a legitimate element)", 1)
	c.Rule("R9", "helpers that build their result (every listed helper except the documented views Drop/DropLast/DropWhile/Take/TakeLast/Tail and the pass-through cases listed in c03views) return storage that is not shared with an argument on any path: a caller writing into or sorting the result cannot change an input", 10)
	c.Rule("R5", "an input map is never read with a plain index expression for a key that may be absent (missing key ≠ stored zero value)", 1)
	ei := core.ComputeEffects(p)
	helpers := c03helpers(p)
	var counterIndexed []string
	// (a helper that delegates to another function of the package - exported or not - is decided on that function's body)
	subjects := append([]*ssa.Function{}, helpers...)
	{
		seen := map[*ssa.Function]bool{}
		for _, f := range subjects {
			seen[f] = true
		}
		for i := 0; i < len(subjects); i++ {
			for _, g := range core.Callees(p, subjects[i], true) {
				if !seen[g] && g.Pkg == p.Fpgo && g.Parent() == nil && g.Signature.Recv() == nil {
					seen[g] = true
					subjects = append(subjects, g)
				}
			}
		}
	}
	isHelper := map[*ssa.Function]bool{}
	for _, f := range helpers {
		isHelper[f] = true
	}
	for _, f := range subjects {
		c.Analysed(core.FuncName(f))
		// R3
		if !isHelper[f] {
			// a function a helper delegates to: its writes are part of the helper's own effect summary
		} else if strings.HasPrefix(f.Name(), "Sort") {
			c.Pass("R3", f.Name(), p.Pos(f.Pos()), "documented in-place sort (C19)")
		} else {
			e := ei.Of[f]
			if e.Writes != 0 {
				var d []string
				for _, s := range e.Sites {
					d = append(d, fmt.Sprintf("%s at %s", s.What, p.InstrPos(s.Instr)))
				}
				c.Fail("R3", f.Name(), p.Pos(f.Pos()), "helper may modify its input "+e.Writes.Describe(f)+": "+strings.Join(d, "; "))
			} else {
				c.Pass("R3", f.Name(), p.Pos(f.Pos()), "writes no argument memory")
			}
		}
		// R1
		n := 0
		core.Instrs(f, func(ins ssa.Instruction) {
			switch x := ins.(type) {
			case *ssa.Slice:
				if _, isStr := x.X.Type().Underlying().(*types.Basic); isStr {
					return
				}
				dep := dependsOnIntParam(x.Low, 0) || dependsOnIntParam(x.High, 0) || dependsOnIntParam(x.Max, 0)
				constOnParam := rootedAtParam(x.X) && (isConstV(x.Low) || isConstV(x.High)) && !(x.High != nil && x.Max != nil && core.IsIntConst(x.High, 0))
				if !dep && !constOnParam {
					return
				}
				n++
				key := fmt.Sprintf("%s/slice#%d", f.Name(), n)
				lenS := lenValue(x.X)
				var fails []string
				zero := ssa.Value(nil)
				prove := func(z *core.Zone, low, hi ssa.Value) {
					// 0 <= lo
					if low != nil && !z.ProveLE(zero, low, 0) {
						fails = append(fails, "cannot prove 0 <= low bound")
					}
					// lo <= hi  (hi nil → len)
					if low != nil {
						if hi != nil {
							if !z.ProveLE(low, hi, 0) {
								fails = append(fails, "cannot prove low <= high")
							}
						} else if !proveLEKey(z, low, lenS) {
							fails = append(fails, "cannot prove low bound <= len")
						}
					}
					if hi != nil {
						if !z.ProveLE(zero, hi, 0) {
							fails = append(fails, "cannot prove 0 <= high bound")
						}
						if !proveLEKey(z, hi, lenS) {
							fails = append(fails, "cannot prove high bound <= len (slicing past len panics or, within spare capacity, yields elements that were never in the list)")
						}
					}
				}
				// a bound that merges several values (a clamped count) is proven per incoming edge, under the facts of that
				// edge; an edge whose facts contradict each other cannot be taken
				var phi *ssa.Phi
				which := ""
				if ph, isPhi := core.Resolve(x.High).(*ssa.Phi); x.High != nil && isPhi {
					phi, which = ph, "high"
				} else if ph, isPhi := core.Resolve(x.Low).(*ssa.Phi); x.Low != nil && isPhi {
					phi, which = ph, "low"
				}
				if phi != nil && phi.Block().Dominates(ins.Block()) {
					for i, e := range phi.Edges {
						pred := phi.Block().Preds[i]
						z := core.ZoneAtIP(p, pred)
						if iff, isIf := pred.Instrs[len(pred.Instrs)-1].(*ssa.If); isIf {
							for _, cnd := range core.ExpandCond(core.Cond{V: iff.Cond, True: pred.Succs[0] == phi.Block()}) {
								if m, okM := core.AsCmp(cnd); okM {
									z.AddCmpLin(m)
								}
							}
						}
						for _, m := range core.EdgeCmps(ins.Block()) {
							if m.X != ssa.Value(phi) && m.Y != ssa.Value(phi) {
								z.AddCmpLin(m)
							}
						}
						if !z.Consistent() {
							continue
						}
						if which == "high" {
							prove(z, x.Low, e)
						} else {
							prove(z, e, x.High)
						}
					}
				} else {
					prove(core.ZoneAtIP(p, ins.Block()), x.Low, x.High)
				}
				c.Check(len(fails) == 0, "R1", key, p.InstrPos(ins), "0 <= lo <= hi <= len proven from dominating guards", strings.Join(fails, "; ")+" for "+sliceText(x))
			case *ssa.IndexAddr, *ssa.Index:
				var X, idx ssa.Value
				if ia, ok := x.(*ssa.IndexAddr); ok {
					X, idx = ia.X, ia.Index
				} else {
					ix := x.(*ssa.Index)
					X, idx = ix.X, ix.Index
				}
				if _, isArr := X.Type().Underlying().(*types.Pointer); isArr {
					return // local array literal
				}
				if _, isSl := X.Type().Underlying().(*types.Slice); !isSl {
					return
				}
				dep := dependsOnIntParam(idx, 0)
				constOnParam := rootedAtParam(X) && isConstV(idx)
				if !dep && !constOnParam {
					if !isConstV(idx) {
						counterIndexed = append(counterIndexed, fmt.Sprintf("%s %s", f.Name(), p.InstrPos(ins)))
					}
					return
				}
				n++
				key := fmt.Sprintf("%s/index#%d", f.Name(), n)
				z := core.ZoneAtIP(p, ins.Block())
				ok := false
				// index on a slice expression with constant bounds: len known
				if sl, isSl := X.(*ssa.Slice); isSl && isConstV(idx) {
					lo, hi := int64(0), int64(-1)
					if k, ok2 := sl.Low.(*ssa.Const); ok2 {
						lo = k.Int64()
					}
					if k, ok2 := sl.High.(*ssa.Const); ok2 {
						hi = k.Int64()
					}
					if hi >= 0 {
						i := idx.(*ssa.Const).Int64()
						ok = i >= 0 && i < hi-lo
					}
				}
				if !ok {
					ok = z.ProveLE(nil, idx, 0) && proveLTKey(z, idx, lenValue(X))
				}
				c.Check(ok, "R1", key, p.InstrPos(ins), "0 <= index < len proven from dominating guards", "cannot prove the index is within [0, len) for "+core.Path(X)+"["+core.Path(idx)+"]: panics for some argument values")
			}
		})
	}
	c.Extra["counter_indexed_sites_not_claimed"] = counterIndexed
	// R4 / R5 over the helpers and the unexported helpers they call
	nDiv, nLk := 0, 0
	for _, f := range subjects {
		all, bad := c03divisions(f)
		nDiv += len(all)
		isBad := map[*ssa.BinOp]bool{}
		for _, b := range bad {
			isBad[b] = true
		}
		for i, b := range all {
			key := fmt.Sprintf("%s/div#%d", f.Name(), i+1)
			c.Check(!isBad[b], "R4", key, p.InstrPos(b), "divisor proven non-zero", "integer division/remainder by "+core.Path(b.Y)+" is not guarded against zero: panics (integer divide by zero) for some argument values")
		}
		allL, badL := c03blindLookups(f)
		nLk += len(allL)
		isBadL := map[*ssa.Lookup]bool{}
		for _, l := range badL {
			isBadL[l] = true
		}
		for i, l := range allL {
			key := fmt.Sprintf("%s/lookup#%d", f.Name(), i+1)
			c.Check(!isBadL[l], "R5", key, p.InstrPos(l), "key known to be present (range key of the same map / comma-ok success)", "input map "+core.Path(l.X)+" is read with a plain index expression for a key that may be absent: a missing key is indistinguishable from a stored zero value, so maps that differ only in such entries are treated alike")
		}
	}
	for _, f := range helpers {
		e := ei.Of[f]
		if e == nil {
			continue
		}
		for k := 0; k < f.Signature.Results().Len() && k < len(e.Ret); k++ {
			switch f.Signature.Results().At(k).Type().Underlying().(type) {
			case *types.Slice, *types.Map:
			default:
				continue
			}
			key := fmt.Sprintf("%s/result#%d", f.Name(), k)
			shared := e.Ret[k].Params() | e.Ret[k]&(core.LocGlobal|core.LocUnknown)
			if k < len(e.RetIdent) {
				shared |= e.RetIdent[k].Params() // the very argument handed back (a fast path `return list`)
			}
			if why, isView := c03views[f.Name()]; isView {
				c.Pass("R9", key, p.Pos(f.Pos()), "documented view / pass-through: "+why)
				continue
			}
			c.Check(shared == 0, "R9", key, p.Pos(f.Pos()), "result storage "+e.Ret[k].Describe(f), "the result may share storage with "+shared.Describe(f)+" on some path (result storage "+e.Ret[k].Describe(f)+"): the helper builds a new list, so a caller that writes into or sorts the result would change the input")
		}
	}
	nSent := 0
	for _, f := range subjects {
		all, bad := c03zeroSentinels(f)
		nSent += len(all)
		isBad := map[*ssa.BinOp]bool{}
		for _, b := range bad {
			isBad[b] = true
		}
		for i, b := range all {
			key := fmt.Sprintf("%s/sentinel#%d", f.Name(), i+1)
			c.Check(!isBad[b], "R8", key, p.InstrPos(b), "the comparison with the loop-carried variable is reached only behind a guard inside the loop", "an input element is compared with a loop-carried variable that still holds the zero value of its type on the first iteration, with no guard in between: an input whose first element is the zero value (0, \"\", nil) is treated as if it repeated a previous element")
		}
	}
	c.Check(true, "R8", "scan", "fp.go", fmt.Sprintf("%d comparisons of input elements with zero-initialised loop-carried variables in %d functions, all guarded", nSent, len(subjects)), "")
	if why := c03selftest(); why != "" {
		c.Unknown("R4", "matcher-selftest", "-", why)
	} else {
		c.Pass("R4", "matcher-selftest", "-", "positive and negative examples of R4/R5 recognised")
	}
	c.Check(true, "R4", "scan", "fp.go", fmt.Sprintf("%d integer divisions/remainders in %d functions, all with a non-zero divisor", nDiv, len(subjects)), "")
	c.Check(true, "R5", "scan", "fp.go", fmt.Sprintf("%d plain lookups in input maps in %d functions, all with a present key", nLk, len(subjects)), "")
	c03windows(c)
	c03mergePrecedence(c)
	// R2
	if f := p.Func(p.Fpgo, "Range"); f == nil {
		c.Unknown("R2", "Range", "-", "function not found")
	} else {
		ok, detail := false, "no loop with a parameter-derived step found"
		core.Instrs(f, func(ins ssa.Instruction) {
			phi, isPhi := ins.(*ssa.Phi)
			if !isPhi {
				return
			}
			for _, e := range phi.Edges {
				b, isAdd := e.(*ssa.BinOp)
				if !isAdd || b.Op != token.ADD || b.X != ssa.Value(phi) {
					continue
				}
				ok, detail = stepPositive(b.Y, 0)
			}
		})
		c.Check(ok, "R2", "Range/step", p.Pos(f.Pos()), detail, "the loop step is not proven positive: "+detail+" (a zero or negative hop never terminates)")
	}
	if f := p.Func(p.Fpgo, "SplitEvery"); f == nil {
		c.Unknown("R2", "SplitEvery", "-", "function not found")
	} else {
		ok := false
		var size ssa.Value
		for _, prm := range f.Params {
			if core.IsInteger(prm.Type()) {
				size = prm
			}
		}
		nLoop := 0
		for _, b := range f.Blocks {
			if !core.InLoop(b) {
				continue
			}
			nLoop++
			z := core.ZoneAt(b)
			// size >= 1  ⟺ 0 - size <= -1
			if size != nil && z.ProveLE(nil, size, -1) {
				ok = true
			} else {
				ok = false
				break
			}
		}
		c.Check(ok && nLoop > 0, "R2", "SplitEvery/size", p.Pos(f.Pos()), "grouping loop runs only with size >= 1", "the grouping loop may run with size <= 0")
	}
}

func isConstV(v ssa.Value) bool {
	_, ok := v.(*ssa.Const)
	return ok
}

// lenValue fabricates the zone key for len(s).
func lenValue(s ssa.Value) string { return "len(" + core.Path(s) + ")" }

// proveLEKey proves v <= node(key).
func proveLEKey(z *core.Zone, v ssa.Value, key string) bool { return z.ProveLEKey(v, key, 0) }
func proveLTKey(z *core.Zone, v ssa.Value, key string) bool { return z.ProveLEKey(v, key, -1) }

func sliceText(x *ssa.Slice) string {
	lo, hi := "", ""
	if x.Low != nil {
		lo = core.Path(x.Low)
	}
	if x.High != nil {
		hi = core.Path(x.High)
	}
	return core.Path(x.X) + "[" + lo + ":" + hi + "]"
}

// stepPositive: every phi leaf of the step is a positive constant or dominated by a fact leaf > 0.
func stepPositive(v ssa.Value, depth int) (bool, string) {
	if depth > 6 {
		return false, "step expression too deep"
	}
	switch x := v.(type) {
	case *ssa.Phi:
		for _, e := range x.Edges {
			if ok, why := stepPositive(e, depth+1); !ok {
				return false, why
			}
		}
		return true, "every source of the step is positive"
	case *ssa.Const:
		if a, ok := core.ConstAV(x); ok && a.Lo != nil && a.Lo.Sign() > 0 {
			return true, "constant step"
		}
		return false, "constant step " + core.Path(x) + " is not positive"
	case *ssa.Convert:
		return stepPositive(x.X, depth+1)
	case *ssa.MultiConvert:
		return stepPositive(x.X, depth+1)
	}
	ins, ok := v.(ssa.Instruction)
	if !ok {
		return false, "step " + core.Path(v) + " has no dominating positivity guard"
	}
	for _, m := range core.EdgeCmps(ins.Block()) {
		if core.Path(m.X) == core.Path(v) {
			if k, isK := m.Y.(*ssa.Const); isK {
				if a, ok := core.ConstAV(k); ok && a.Lo != nil {
					if m.Op == token.GTR && a.Lo.Sign() >= 0 || m.Op == token.GEQ && a.Lo.Sign() > 0 {
						return true, "step " + core.Path(v) + " guarded positive"
					}
				}
			}
		}
	}
	return false, "step " + core.Path(v) + " is not dominated by a check that it is > 0"
}

// c03divisions returns the integer divisions/remainders of f whose divisor is not proven non-zero.
func c03divisions(f *ssa.Function) (all, bad []*ssa.BinOp) {
	core.Instrs(f, func(ins ssa.Instruction) {
		b, ok := ins.(*ssa.BinOp)
		if !ok || (b.Op != token.QUO && b.Op != token.REM) || !core.IsInteger(b.X.Type()) {
			return
		}
		all = append(all, b)
		d := b.Y
		if k, isK := d.(*ssa.Const); isK {
			if !core.IsIntConst(k, 0) {
				return
			}
			bad = append(bad, b)
			return
		}
		z := core.ZoneAt(b.Block())
		if z.ProveLE(nil, d, -1) || z.ProveLE(d, nil, -1) {
			return
		}
		for _, m := range core.EdgeCmps(b.Block()) {
			if m.Op == token.NEQ && core.IsIntConst(m.Y, 0) && core.Resolve(m.X) == core.Resolve(d) {
				return
			}
		}
		bad = append(bad, b)
	})
	return
}

// c03blindLookups returns the non-comma-ok lookups in input maps (maps reached from a parameter) whose key
// is not known to be present (it is not the key variable of a range over the same map): such a read
// cannot tell a missing key from a stored zero value.
func c03blindLookups(f *ssa.Function) (all, bad []*ssa.Lookup) {
	core.Instrs(f, func(ins ssa.Instruction) {
		lk, ok := ins.(*ssa.Lookup)
		if !ok || lk.CommaOk {
			return
		}
		if _, isMap := lk.X.Type().Underlying().(*types.Map); !isMap {
			return
		}
		if _, isP := core.Resolve(lk.X).(*ssa.Parameter); !isP {
			return
		}
		all = append(all, lk)
		// key = extract #1 of next(range X')  with X' the same map
		if ex, isE := core.Resolve(lk.Index).(*ssa.Extract); isE && ex.Index == 1 {
			if nx, isN := ex.Tuple.(*ssa.Next); isN {
				if rg, isR := nx.Iter.(*ssa.Range); isR && core.Resolve(rg.X) == core.Resolve(lk.X) {
					return
				}
			}
		}
		// dominated by a successful comma-ok lookup of the same key in the same map
		for _, cnd := range core.EdgeFacts(lk.Block()) {
			n := core.Normalize(cnd)
			if ex, isE := n.V.(*ssa.Extract); isE && ex.Index == 1 && n.True {
				if l2, isL := ex.Tuple.(*ssa.Lookup); isL && l2.CommaOk && core.Resolve(l2.X) == core.Resolve(lk.X) && core.Resolve(l2.Index) == core.Resolve(lk.Index) {
					return
				}
			}
		}
		bad = append(bad, lk)
	})
	return
}

const c03snippet = `package snippet

func divBad(a, n int) int { return a / n }
func divGood(a, n int) int {
	if n <= 0 {
		return 0
	}
	return (a + n - 1) / n
}
func remConst(a int) int { return a % 7 }
func lookupBad(m1, m2 map[int]int) bool {
	for k, v := range m1 {
		if m2[k] != v {
			return false
		}
	}
	return true
}
func sentinelBad[T comparable](list ...T) []T {
	var out []T
	var last T
	for _, v := range list {
		if v == last {
			continue
		}
		out = append(out, v)
		last = v
	}
	return out
}
func sentinelGood[T comparable](list ...T) []T {
	var out []T
	var last T
	for i, v := range list {
		if i > 0 && v == last {
			continue
		}
		out = append(out, v)
		last = v
	}
	return out
}
func counterGood(list []int, n int) int {
	hits := 0
	for _, v := range list {
		if v == n {
			hits++
		}
		if hits == v {
			return v
		}
	}
	return hits
}
func lookupGood(m1, m2 map[int]int) bool {
	for k, v := range m1 {
		if v2, ok := m2[k]; !ok || v2 != v {
			return false
		}
		if m1[k] != v {
			return false
		}
	}
	return true
}
`

// c03views: helpers whose result is, by definition, a window of (or the very) input - confirmed by reading on the pinned tree.
var c03views = map[string]string{
	"Drop":     "returns the window list[count:] of its input (decided by R6)",
	"DropLast": "returns the window list[:len-count] of its input (decided by R6)",
	"Take":     "returns the window list[:count] of its input (decided by R6)",
	"TakeLast": "returns the window list[len-count:] of its input (decided by R6)",
	"Tail":     "returns the window list[1:] of its input",
}

// c03zeroSentinels finds the equality comparisons of f between an input element and a loop-carried variable (phi) that
// mixes the zero value of its type with input elements (`var last T; for _, v := range list { if v == last … last = v }`),
// and among them those that no condition inside the loop guards (the first iteration compares with the zero value).
func c03zeroSentinels(f *ssa.Function) (all, bad []*ssa.BinOp) {
	isElem := func(v ssa.Value) bool {
		switch x := v.(type) {
		case *ssa.UnOp:
			if x.Op == token.MUL {
				_, ok := x.X.(*ssa.IndexAddr)
				return ok
			}
		case *ssa.Extract:
			_, ok := x.Tuple.(*ssa.Next)
			return ok
		case *ssa.Index, *ssa.Lookup:
			return true
		}
		return false
	}
	isZero := func(v ssa.Value) bool {
		k, ok := v.(*ssa.Const)
		if !ok {
			return false
		}
		if k.Value == nil {
			return true
		}
		switch k.Value.Kind() {
		case constant.Int, constant.Float:
			return constant.Sign(k.Value) == 0
		case constant.String:
			return constant.StringVal(k.Value) == ""
		}
		return false
	}
	sentinel := func(ph *ssa.Phi) bool {
		zero, elem := false, false
		seen := map[*ssa.Phi]bool{}
		var walk func(*ssa.Phi)
		walk = func(q *ssa.Phi) {
			if seen[q] {
				return
			}
			seen[q] = true
			for _, e := range q.Edges {
				switch {
				case isZero(e):
					zero = true
				case isElem(e):
					elem = true
				default:
					if r, ok := e.(*ssa.Phi); ok {
						walk(r)
					}
				}
			}
		}
		walk(ph)
		return zero && elem
	}
	for _, b := range f.Blocks {
		for _, ins := range b.Instrs {
			bo, ok := ins.(*ssa.BinOp)
			if !ok || (bo.Op != token.EQL && bo.Op != token.NEQ) {
				continue
			}
			var ph *ssa.Phi
			if q, ok := bo.X.(*ssa.Phi); ok && isElem(bo.Y) {
				ph = q
			} else if q, ok := bo.Y.(*ssa.Phi); ok && isElem(bo.X) {
				ph = q
			}
			if ph == nil || !sentinel(ph) {
				continue
			}
			all = append(all, bo)
			guarded := false
			for d := b.Idom(); d != nil && d != ph.Block(); d = d.Idom() {
				if len(d.Instrs) > 0 {
					if _, ok := d.Instrs[len(d.Instrs)-1].(*ssa.If); ok {
						guarded = true
					}
				}
			}
			if !guarded {
				bad = append(bad, bo)
			}
		}
	}
	return all, bad
}

// c03selftest runs the R4/R5/R8 matchers on a fixed snippet: they must flag exactly the bad functions.
func c03selftest() string {
	sp, err := core.BuildSnippet(c03snippet)
	if err != nil {
		return "cannot build the self-test snippet: " + err.Error()
	}
	for name, w := range map[string][2]int{"sentinelBad": {1, 1}, "sentinelGood": {1, 0}, "counterGood": {0, 0}} {
		f := sp.Func(name)
		if f == nil {
			return "self-test function " + name + " missing"
		}
		all, bad := c03zeroSentinels(f)
		if len(all) != w[0] || len(bad) != w[1] {
			return fmt.Sprintf("matcher self-test: %s has %d sentinel comparisons of which %d flagged, expected %d and %d", name, len(all), len(bad), w[0], w[1])
		}
	}
	want := map[string][2]int{"divBad": {1, 0}, "divGood": {0, 0}, "remConst": {0, 0}, "lookupBad": {0, 1}, "lookupGood": {0, 0}}
	for name, w := range want {
		f := sp.Func(name)
		if f == nil {
			return "self-test function " + name + " missing"
		}
		_, bd := c03divisions(f)
		_, bl := c03blindLookups(f)
		if len(bd) != w[0] || len(bl) != w[1] {
			return fmt.Sprintf("matcher self-test: %s flagged %d divisions and %d lookups, expected %d and %d", name, len(bd), len(bl), w[0], w[1])
		}
	}
	return ""
}


// ---------------------------------------------------------------- R6 window helpers

// c03windowSpec: the window [lo, hi) of the input (n = count, L = len(list)) a helper must return in the regions
// B1: n <= 0, B2: 1 <= n && n >= L, B3: 1 <= n <= L-1. "all" is [0, L), "empty" any empty window, "" unspecified (the
// documentation speaks of "the first/last n elements" and is silent about n <= 0).
var c03windowSpec = map[string][3]string{
	"Drop":     {"all", "empty", "n:L"},
	"DropLast": {"all", "empty", "0:L-n"},
	"Take":     {"", "all", "0:n"},
	"TakeLast": {"", "all", "L-n:L"},
}

func c03windows(c *core.Ctx) {
	p := c.P
	for _, name := range []string{"Drop", "DropLast", "Take", "TakeLast"} {
		f := p.Func(p.Fpgo, name)
		if f == nil {
			c.Unknown("R6", name, "-", "function not found")
			continue
		}
		ok, detail := c03window(p, f, c03windowSpec[name])
		c.Check(ok, "R6", name, p.Pos(f.Pos()), detail, detail)
	}
}

func c03window(p *core.Prog, f *ssa.Function, spec [3]string) (bool, string) {
	var cnt, list *ssa.Parameter
	for _, prm := range f.Params {
		if cnt == nil && core.IsInteger(prm.Type()) {
			cnt = prm
		}
		if _, isSl := prm.Type().Underlying().(*types.Slice); isSl && list == nil {
			list = prm
		}
	}
	if cnt == nil || list == nil {
		return false, "count / list parameters not found"
	}
	n, L := core.LinNode(core.Path(cnt)), core.LinNode(core.LenKey(list))
	zero := core.LinConst(0)
	parse := func(e string) core.Lin {
		switch e {
		case "0":
			return zero
		case "n":
			return n
		case "L":
			return L
		case "L-n":
			return L.Add(n, -1)
		}
		panic("bad window spec " + e)
	}
	paths, complete := core.FeasiblePaths(f, 64)
	if !complete || len(paths) == 0 {
		return false, "too many paths to enumerate"
	}
	regionName := []string{"count <= 0", "count >= 1 && count >= len", "1 <= count < len"}
	checked := 0
	for _, path := range paths {
		last := path[len(path)-1]
		ret, isR := last.Instrs[len(last.Instrs)-1].(*ssa.Return)
		if !isR {
			continue // panic exit
		}
		// a value as it is on this path: phis resolved by the predecessor the path came through
		onPath := func(v ssa.Value) ssa.Value {
			for i := 0; i < 8; i++ {
				v = core.Resolve(v)
				phi, isPhi := v.(*ssa.Phi)
				if !isPhi {
					break
				}
				idx := -1
				for k, b := range path {
					if b == phi.Block() && k > 0 {
						for e, pred := range b.Preds {
							if pred == path[k-1] {
								idx = e
							}
						}
					}
				}
				if idx < 0 {
					break
				}
				v = phi.Edges[idx]
			}
			return v
		}
		v := onPath(core.RetVals(ret)[0])
		// window of the result
		var lo, hi core.Lin
		empty, known := false, false
		switch x := v.(type) {
		case *ssa.Parameter:
			if x == list {
				lo, hi, known = zero, L, true
			}
		case *ssa.MakeSlice:
			if core.IsIntConst(x.Len, 0) {
				empty, known = true, true
			}
		case *ssa.Slice:
			base := core.Resolve(x.X)
			if base == ssa.Value(list) {
				okL, okH := true, true
				lo, hi = zero, L
				if x.Low != nil {
					lo, okL = core.LinOf(onPath(x.Low))
				}
				if x.High != nil {
					hi, okH = core.LinOf(onPath(x.High))
				}
				known = okL && okH
			} else if al, isAl := base.(*ssa.Alloc); isAl {
				// make([]T, 0) with constant sizes: new [0]T sliced
				if pt, okP := al.Type().Underlying().(*types.Pointer); okP {
					if arr, okA := pt.Elem().Underlying().(*types.Array); okA && arr.Len() == 0 {
						empty, known = true, true
					}
				}
			}
		case *ssa.Const:
			if x.IsNil() {
				empty, known = true, true
			}
		}
		if !known {
			return false, "a path returns " + core.Path(v) + " (" + p.InstrPos(ret) + "), which is neither the input, an empty slice nor a slice expression of the input with linear bounds: window not decided"
		}
		for region := 0; region < 3; region++ {
			if spec[region] == "" {
				continue
			}
			z := core.NewZone()
			for k := 0; k+1 < len(path); k++ {
				b := path[k]
				if iff, isIf := b.Instrs[len(b.Instrs)-1].(*ssa.If); isIf {
					cv := onPath(iff.Cond)
					if _, isK := cv.(*ssa.Const); isK {
						continue
					}
					for _, cnd := range core.ExpandCond(core.Cond{V: cv, True: path[k+1] == b.Succs[0]}) {
						if m, okM := core.AsCmp(cnd); okM {
							z.AddCmpLin(m)
						}
					}
				}
			}
			z.AddLin(zero.Add(L, -1), 0) // -L <= 0
			switch region {
			case 0:
				z.AddLin(n, 0)
			case 1:
				z.AddLin(zero.Add(n, -1), -1) // -n <= -1
				z.AddLin(L.Add(n, -1), 0)
			case 2:
				z.AddLin(zero.Add(n, -1), -1)
				z.AddLin(n.Add(L, -1), -1)
			}
			if !z.Consistent() {
				continue
			}
			checked++
			where := "for " + regionName[region] + " (path ending at " + p.InstrPos(ret) + ")"
			var slo, shi core.Lin
			specEmpty := spec[region] == "empty"
			if !specEmpty {
				if spec[region] == "all" {
					slo, shi = zero, L
				} else {
					i := strings.Index(spec[region], ":")
					slo, shi = parse(spec[region][:i]), parse(spec[region][i+1:])
				}
				// an "all" window of an empty list is empty
				if z.ProveLin(shi.Add(slo, -1), 0) {
					specEmpty = true
				}
			}
			resEmpty := empty || (!empty && z.ProveLin(hi.Add(lo, -1), 0))
			switch {
			case specEmpty && resEmpty:
			case specEmpty:
				return false, where + " the result must be empty but is the window [" + c03lin(lo) + ", " + c03lin(hi) + ") of the input"
			case empty:
				return false, where + " the result is empty but the definition prescribes the window [" + c03lin(slo) + ", " + c03lin(shi) + ")"
			case z.ProveEq(lo, slo) && z.ProveEq(hi, shi):
			default:
				return false, where + " the result is the window [" + c03lin(lo) + ", " + c03lin(hi) + ") of the input, the definition prescribes [" + c03lin(slo) + ", " + c03lin(shi) + ")"
			}
		}
	}
	if checked == 0 {
		return false, "no (path, count region) combination could be checked"
	}
	return true, fmt.Sprintf("%d (path, count region) combinations return the prescribed window", checked)
}

func c03lin(l core.Lin) string {
	var ks []string
	for k := range l.T {
		ks = append(ks, k)
	}
	sort.Strings(ks)
	s := ""
	for _, k := range ks {
		switch l.T[k] {
		case 1:
			s += "+" + k
		case -1:
			s += "-" + k
		default:
			s += fmt.Sprintf("%+d*%s", l.T[k], k)
		}
	}
	if l.K != 0 || s == "" {
		s += fmt.Sprintf("%+d", l.K)
	}
	return strings.TrimPrefix(s, "+")
}


// ---------------------------------------------------------------- R7 Merge precedence

// c03mergePrecedence: Merge(map1, map2) and its interface{} twin. The entries of map2 must end up in the result with
// map2's value for keys both maps hold: every write of a map2 entry into the result is unconditional with respect to the
// result's content, and no write of a map1 entry can follow it.
func c03mergePrecedence(c *core.Ctx) {
	p := c.P
	for _, name := range []string{"Merge", "MergeForInterface"} {
		f := p.Func(p.Fpgo, name)
		if f == nil || len(f.Params) != 2 {
			c.Unknown("R7", name, "-", "function not found")
			continue
		}
		type upd struct {
			fd      core.Found
			from    int  // 0 = map1, 1 = map2
			guarded bool // written only where the key is absent from the result
		}
		var upds []upd
		bad := ""
		for _, fd := range core.DeepFind(p, f, func(ins ssa.Instruction) bool {
			_, ok := ins.(*ssa.MapUpdate)
			return ok
		}) {
			mu := fd.Ins.(*ssa.MapUpdate)
			// the ranged map the key comes from
			ex, isE := core.Resolve(mu.Key).(*ssa.Extract)
			if !isE {
				continue
			}
			nx, isN := ex.Tuple.(*ssa.Next)
			if !isN {
				continue
			}
			rg, isR := nx.Iter.(*ssa.Range)
			if !isR {
				continue
			}
			src, st := core.Up(rg.X, fd.Stack)
			from := -1
			if len(st) == 0 {
				for i, prm := range f.Params {
					if core.Resolve(src) == ssa.Value(prm) {
						from = i
					}
				}
			}
			if from < 0 {
				continue
			}
			guarded := false
			for _, cnd := range core.EdgeFacts(mu.Block()) {
				n := core.Normalize(cnd)
				if e2, isE2 := n.V.(*ssa.Extract); isE2 && e2.Index == 1 {
					if lk, isLk := e2.Tuple.(*ssa.Lookup); isLk && lk.CommaOk && core.Resolve(lk.X) == core.Resolve(mu.Map) && !n.True {
						guarded = true
					}
				}
			}
			upds = append(upds, upd{fd, from, guarded})
		}
		n1, n2 := 0, 0
		rootOf := func(fd core.Found) ssa.Instruction {
			if len(fd.Stack) > 0 {
				return fd.Stack[0]
			}
			return fd.Ins
		}
		for _, u := range upds {
			if u.from == 0 {
				n1++
			} else {
				n2++
			}
		}
		for _, a := range upds {
			for _, b := range upds {
				if rootOf(a.fd) == rootOf(b.fd) || !core.Reaches(rootOf(a.fd), rootOf(b.fd)) {
					continue
				}
				// a runs before b on some path
				if a.from == 1 && b.from == 0 && !b.guarded {
					bad = "an entry of the first map can be written, unconditionally, after the entries of the second (" + p.InstrPos(rootOf(b.fd)) + " after " + p.InstrPos(rootOf(a.fd)) + "): the first map's value overrides the second's"
				}
				if a.from == 0 && b.from == 1 && b.guarded {
					bad = "after the first map's entries an entry of the second map is written only where the key is still absent (" + p.InstrPos(b.fd.Ins) + "): for a key both maps hold, the first map's value survives"
				}
			}
		}
		if n1 == 0 || n2 == 0 {
			bad = "the copies of the two maps into the result were not found"
		}
		c.Check(bad == "", "R7", name, p.Pos(f.Pos()), fmt.Sprintf("%d writes of first-map entries, then %d unconditional writes of second-map entries", n1, n2), bad)
	}
}
