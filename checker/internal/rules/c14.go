package rules

import (
	"fmt"
	"go/token"
	"go/types"
	"strings"

	"fpcheck/internal/core"

	"golang.org/x/tools/go/ssa"
)

func init() {
	register(&Prop{
		ID: "C14",
		Explanation: "Coroutine routing and lifecycle ordering decided by value flow on SSA: (R1) YieldRef receives from its own request channel, replies on the result channel of the coroutine stored in the very request it received (under that coroutine's lock wrapper), sends its parameter `out` exactly once on the path where a requester is present, and returns the request's value; YieldFrom sends one request carrying the caller and `in` to the target and then receives from its own result channel and returns that; receive builds {cor: caller, val: in} and sends it on the target's own request channel. " +
			"(R2) Start sets the started flag before spawning, the goroutine runs the effect and then close(); StartWithVal enqueues (nil, in) before Start; DoNotation assigns the result before Done and waits before returning; YieldFromIO subscribes exactly once, OnNext stores then signals, Wait dominates the return. " +
			"Not decided: the k-th request / k-th yield pairing and per-caller order over all interleavings with more requests than the channel buffer - schedule properties; what happens when the target finishes first (C15). (R3) the request/result channels are assigned only on the object under construction.",
		Trusted: commonTrusted,
		Run:     runC14,
		Relies: []Dep{
			{Prop: "C11", Rule: "R3", Keys: []string{"doSubscribe/"}, Floor: 2, Why: "YieldFromIO waits for the OnNext of the MonadIO it subscribes to: Subscribe must deliver exactly one OnNext per evaluation, whatever the value"},
		},
	})
}

func callsOf(f *ssa.Function, name string) []*ssa.Call {
	var out []*ssa.Call
	core.Instrs(f, func(ins ssa.Instruction) {
		if call, ok := ins.(*ssa.Call); ok {
			if g := core.Callee(&call.Call); g != nil && (core.FuncName(g) == name || core.StdCallee(&call.Call) == name) {
				out = append(out, call)
			}
		}
	})
	return out
}

func countCallsOf(f *ssa.Function, name string, skipEdge func(b, s *ssa.BasicBlock) bool) (int, int) {
	if len(f.Blocks) == 0 {
		return 0, 0
	}
	return core.PathCountEdges(f.Blocks[0], nil, func(ins ssa.Instruction) int {
		if call, ok := ins.(*ssa.Call); ok {
			if g := core.Callee(&call.Call); g != nil && (core.FuncName(g) == name || core.StdCallee(&call.Call) == name) {
				return 1
			}
		}
		return 0
	}, skipEdge)
}

// capturedValue: value of captured variable fv of closure cl as stored by the parent (single store), or the bound value itself.
func capturedBinding(parent *ssa.Function, cl *ssa.Function, name string) ssa.Value {
	var mc *ssa.MakeClosure
	core.Instrs(parent, func(ins ssa.Instruction) {
		if x, ok := ins.(*ssa.MakeClosure); ok && x.Fn == ssa.Value(cl) {
			mc = x
		}
	})
	if mc == nil {
		return nil
	}
	for k, fv := range cl.FreeVars {
		if fv.Name() == name && k < len(mc.Bindings) {
			b := mc.Bindings[k]
			if a, ok := b.(*ssa.Alloc); ok {
				if st := core.Stores(a); len(st) == 1 {
					return core.Resolve(st[0].Val)
				}
				return a
			}
			return b
		}
	}
	return nil
}

func runC14(c *core.Ctx) {
	p := c.P
	c.Rule("R1", "request/reply routing: YieldRef replies to the requester carried by the received request with `out` and returns the request's value; YieldFrom sends {cor: caller, val: in} on the target's request channel under the target's lock and returns what arrives on its own result channel; a request helper (receive), where there is one, builds {cor: caller, val: in}", 2)
	c.Rule("R3", "the request and result channels of a coroutine are assigned only on the object under construction (never created lazily or replaced once the coroutine is shared)", 2)
	c.Rule("R2", "lifecycle ordering: started flag before spawn, effect then close; StartWithVal enqueues before Start; DoNotation/YieldFromIO assign before Done and Wait before return", 4)
	yr := p.Method(p.Fpgo, "CorDef", "YieldRef")
	yf := p.Method(p.Fpgo, "CorDef", "YieldFrom")
	// an entry point that only hands its parameters on to a more general form (`YieldFromWithOk`) is read there
	if yr != nil {
		yr = core.SameParamsImpl(p, yr)
	}
	if yf != nil {
		yf = core.SameParamsImpl(p, yf)
	}
	rc := p.Method(p.Fpgo, "CorDef", "receive") // may have been inlined into its callers
	if yr == nil || yf == nil {
		c.Unknown("R1", "anchors", "-", "YieldRef/YieldFrom not found")
		return
	}
	c.Analysed(core.FuncName(yr), core.FuncName(yf))
	li := core.ComputeLocks(p)
	// ---------- YieldRef
	{
		ok, detail := func() (bool, string) {
			// the receive, the reply and the return may sit in YieldRef itself or in unexported helpers it calls;
			// values are traced through the helpers' parameters and results
			var recv *ssa.UnOp
			for _, f := range core.DeepFind(p, yr, func(ins ssa.Instruction) bool {
				u, isU := ins.(*ssa.UnOp)
				return isU && u.Op == token.ARROW
			}) {
				u := f.Ins.(*ssa.UnOp)
				if core.FieldKey(u.X) != "CorDef.opCh" {
					continue
				}
				if ld, isLd := core.Unwrap(u.X).(*ssa.UnOp); isLd {
					if fa, isFA := ld.X.(*ssa.FieldAddr); isFA {
						if base, st := core.Up(core.FieldOwner(fa), f.Stack); len(st) == 0 && base == ssa.Value(yr.Params[0]) {
							recv = u
						}
					}
				}
			}
			if recv == nil {
				return false, "YieldRef does not receive from its own request channel"
			}
			var op ssa.Value = recv
			if recv.CommaOk {
				for _, r := range *recv.Referrers() {
					if ex, isE := r.(*ssa.Extract); isE && ex.Index == 0 {
						op = ex
					}
				}
			}
			isRecvOp := func(v ssa.Value, stack []*ssa.Call) bool {
				lv := core.Origins(p, v, stack)
				if len(lv) == 0 {
					return false
				}
				for _, l := range lv {
					if core.Resolve(l.Val) != op {
						return false
					}
				}
				return true
			}
			isOpField := func(v ssa.Value, stack []*ssa.Call, field string) bool {
				r, st := core.Up(v, stack)
				u, isU := core.Resolve(r).(*ssa.UnOp)
				if !isU {
					return false
				}
				fa, isFA := u.X.(*ssa.FieldAddr)
				return isFA && core.FieldKey(fa) == "CorOp."+field && isRecvOp(core.FieldOwner(fa), st)
			}
			// the reply: the one send on a result channel reachable from YieldRef (in the method, a helper, or the function
			// handed to a lock wrapper), expressed in YieldRef's frame
			replies := c14deepSends(p, li, yr, "CorDef.resultCh")
			if len(replies) != 1 {
				return false, fmt.Sprintf("expected one guarded reply (found %d sends on a result channel)", len(replies))
			}
			rp := replies[0]
			if rp.owner.v == nil || !isOpField(rp.owner.v, rp.owner.stack, "cor") {
				return false, "the reply goes to the result channel of " + rp.ownerPath + ", which is not the requester stored in the received request: the value is routed to the wrong coroutine"
			}
			if !rp.locked {
				return false, "the reply is sent without holding the lock of the requester carried by the received request (op.cor): the send races with that coroutine's close, and a full result channel deadlocks"
			}
			if !rp.val.isRoot(yr.Params[1]) {
				return false, "the value sent back is not YieldRef's argument"
			}
			// exactly once where a requester is present
			present := false
			for _, fr := range rp.frames {
				for _, m := range core.EdgeCmps(fr.block) {
					x := fr.conv(m.X)
					if x.v == nil {
						continue
					}
					if m.Op == token.NEQ && core.IsNilConst(m.Y) && isOpField(x.v, x.stack, "cor") {
						present = true
					}
					// any nil test of the received request itself on the way must say "not nil"
					if m.Op == token.EQL && core.IsNilConst(m.Y) && isRecvOp(x.v, x.stack) {
						return false, "the reply is sent only when the received request is nil: real requests are never answered (their YieldFrom hangs) and the nil request is dereferenced"
					}
				}
			}
			if !present || !rp.once {
				return false, "the reply is not sent exactly once on the path where the request carries a requester"
			}
			// return value
			okRet := true
			for _, rc := range core.ReturnCases(yr) {
				if isOpField(rc.Vals[0], nil, "val") {
					continue
				}
				// the early return on IsDone returns the zero value
				closed := false
				for _, cnd := range rc.Facts {
					n := core.Normalize(cnd)
					if n.True && flagRead(p, n.V, yr.Params[0].Name(), "isClosed", 0) {
						closed = true
					}
				}
				if !closed {
					okRet = false
				}
			}
			if !okRet {
				return false, "YieldRef does not return the value carried by the received request"
			}
			return true, "receives own opCh; replies `out` once to op.cor.resultCh under op.cor's lock; returns op.val"
		}()
		c.Check(ok, "R1", "CorDef.YieldRef", p.Pos(yr.Pos()), detail, detail)
	}
	// ---------- YieldFrom
	{
		ok, detail := func() (bool, string) {
			reqs := c14deepSends(p, li, yf, "CorDef.opCh")
			if len(reqs) != 1 {
				return false, fmt.Sprintf("YieldFrom issues %d requests (must be 1)", len(reqs))
			}
			rq := reqs[0]
			if why := rq.requestIs(yf.Params[1], yf.Params[0], yf.Params[2]); why != "" {
				return false, "the request is not target.receive(caller, in): it must go to the target and carry the caller and the input value (" + why + ")"
			}
			closedEdge := flagEdge(p, yf.Params[0].Name(), "isClosed", true)
			min, max := core.PathCountEdges(yf.Blocks[0], nil, func(ins ssa.Instruction) int {
				if ins == rq.rootIns {
					return 1
				}
				return 0
			}, closedEdge)
			if min != 1 || max != 1 || !rq.once {
				return false, fmt.Sprintf("request sent %d..%d times on the live path", min, max)
			}
			var recv *ssa.UnOp
			core.Instrs(yf, func(ins ssa.Instruction) {
				if u, isU := ins.(*ssa.UnOp); isU && u.Op == token.ARROW {
					recv = u
				}
			})
			if recv == nil || core.FieldKey(recv.X) != "CorDef.resultCh" || core.FieldBase(recv.X) != yf.Params[0].Name() {
				return false, "YieldFrom does not wait on the caller's own result channel (it would take another coroutine's answer)"
			}
			if !core.InstrDominates(rq.rootIns, recv) {
				return false, "the wait for the answer does not follow the request"
			}
			okRet := false
			for _, rcase := range core.ReturnCases(yf) {
				v := core.Resolve(liveValue(core.Resolve(rcase.Vals[0]), closedEdge))
				if ex, isE := v.(*ssa.Extract); isE && ex.Tuple == ssa.Value(recv) && ex.Index == 0 || v == ssa.Value(recv) {
					okRet = true
				}
			}
			if !okRet {
				return false, "YieldFrom does not return the received answer"
			}
			return true, "one request {cor: caller, val: in} on the target's request channel under the target's lock, then receive on own resultCh, returned"
		}()
		c.Check(ok, "R1", "CorDef.YieldFrom", p.Pos(yf.Pos()), detail, detail)
	}
	// ---------- the request builder (receive), where it exists as a function of its own
	if rc != nil {
		c.Analysed(core.FuncName(rc))
		ok, detail := func() (bool, string) {
			reqs := c14deepSends(p, li, rc, "CorDef.opCh")
			if len(reqs) != 1 {
				return false, "receive does not enqueue under its own lock exactly once"
			}
			// (caller, in) are its parameters, whatever their order
			var corPrm, valPrm *ssa.Parameter
			for _, prm := range rc.Params[1:] {
				if core.TypeName(prm.Type()) == "CorDef" {
					corPrm = prm
				} else if valPrm == nil {
					valPrm = prm
				}
			}
			if corPrm == nil || valPrm == nil {
				return false, "receive does not take the caller and the value"
			}
			if why := reqs[0].requestIs(rc.Params[0], corPrm, valPrm); why != "" {
				return false, why
			}
			if !reqs[0].once {
				return false, "receive does not enqueue under its own lock exactly once"
			}
			return true, "enqueues &CorOp{cor: caller, val: in} on its own opCh under its own lock"
		}()
		c.Check(ok, "R1", "CorDef.receive", p.Pos(rc.Pos()), detail, detail)
	}
	// ---------- R3 the channels are created once, before the coroutine is shared
	{
		var fresh func(v ssa.Value, depth int) bool
		fresh = func(v ssa.Value, depth int) bool {
			v = core.Resolve(v)
			switch x := v.(type) {
			case *ssa.Alloc:
				return true
			case *ssa.Parameter:
				// an initialisation helper of the constructor: every caller hands it the object under construction
				acts := core.ParamActuals(p, x)
				if len(acts) == 0 || depth > 2 {
					return false
				}
				for _, a := range acts {
					if !fresh(a.Arg, depth+1) {
						return false
					}
				}
				return true
			}
			return false
		}
		n := 0
		for _, f := range p.Funcs {
			if f.Pkg != p.Fpgo && !(f.Parent() != nil && p.InRepo(f)) {
				continue
			}
			core.Instrs(f, func(ins ssa.Instruction) {
				st, isS := ins.(*ssa.Store)
				if !isS {
					return
				}
				fa, isFA := st.Addr.(*ssa.FieldAddr)
				if !isFA {
					return
				}
				key := core.FieldKey(fa)
				if key != "CorDef.opCh" && key != "CorDef.resultCh" {
					return
				}
				n++
				c.Check(fresh(core.FieldOwner(fa), 0), "R3", fmt.Sprintf("%s/store:%s", core.FuncName(f), key), p.InstrPos(ins), "set on the object under construction", key+" is assigned outside the construction of the coroutine: once the coroutine is shared, the requester (receive, under the lock) and the owner (YieldRef/YieldFrom, without it) read this field concurrently - a channel created or replaced later means a request or reply is sent on a channel nobody receives from (YieldFrom hangs) and races with close()")
			})
		}
		if n == 0 {
			c.Unknown("R3", "CorDef.channels", "-", "no store to CorDef.opCh / CorDef.resultCh found (constructor expected)")
		}
	}
	// ---------- R2 Start
	if st := p.Method(p.Fpgo, "CorDef", "Start"); st == nil {
		c.Unknown("R2", "CorDef.Start", "-", "method not found")
	} else {
		c.Analysed(core.FuncName(st))
		ok, detail := func() (bool, string) {
			var goIns *ssa.Go
			core.Instrs(st, func(ins ssa.Instruction) {
				if g, isG := ins.(*ssa.Go); isG {
					goIns = g
				}
			})
			nGo := 0
			core.Instrs(st, func(ins ssa.Instruction) {
				if _, isG := ins.(*ssa.Go); isG {
					nGo++
				}
			})
			var body *ssa.Function
			if goIns != nil {
				body = callTarget(p, &goIns.Call)
			}
			if goIns == nil || nGo != 1 || body == nil {
				return false, "Start does not spawn exactly one goroutine"
			}
			setOK := false
			core.Instrs(st, func(ins ssa.Instruction) {
				if call, isC := ins.(*ssa.Call); isC && core.InstrDominates(ins, goIns) {
					if fld, owner, ok := flagSetOf(p, call); ok && fld == "isStarted" && owner == st.Params[0].Name() {
						setOK = true
					}
				}
			})
			if !setOK {
				return false, "the started flag is not set before the goroutine is spawned (IsStarted can be false while the effect already runs; a second Start spawns twice)"
			}
			if !c14notStarted(p, goIns.Block(), st.Params[0].Name()) {
				return false, "the goroutine is spawned without knowing the coroutine was not started yet (the started flag is not tested on the not-started edge): a second Start runs the effect twice"
			}
			var eff, cls ssa.Instruction
			core.Instrs(body, func(ins ssa.Instruction) {
				if call, isC := ins.(*ssa.Call); isC {
					if core.FieldKey(call.Call.Value) == "CorDef.effect" {
						eff = ins
					}
					if g := core.Callee(&call.Call); g != nil && core.FuncName(g) == "fpgo.CorDef.close" {
						cls = ins
					}
				}
			})
			if eff == nil || cls == nil || !core.InstrDominates(eff, cls) {
				return false, "the goroutine does not run the effect and then close()"
			}
			emin, emax := core.PathCount(body, func(ins ssa.Instruction) int {
				if ins == eff || ins == cls {
					return 1
				}
				return 0
			}, nil)
			if emin != 2 || emax != 2 {
				return false, "effect/close are not each executed exactly once"
			}
			return true, "flag set before spawn; goroutine = effect then close"
		}()
		c.Check(ok, "R2", "CorDef.Start", p.Pos(st.Pos()), detail, detail)
	}
	if sv := p.Method(p.Fpgo, "CorDef", "StartWithVal"); sv == nil {
		c.Unknown("R2", "CorDef.StartWithVal", "-", "method not found")
	} else {
		c.Analysed(core.FuncName(sv))
		ss := callsOf(sv, "fpgo.CorDef.Start")
		reqs := c14deepSends(p, li, sv, "CorDef.opCh")
		ok := len(reqs) == 1 && len(ss) == 1 && core.Resolve(ss[0].Call.Args[0]) == ssa.Value(sv.Params[0])
		if ok {
			rq := reqs[0]
			ok = rq.requestIs(sv.Params[0], nil, sv.Params[1]) == "" && rq.once && c14notStarted(p, rq.rootIns.Block(), sv.Params[0].Name()) && core.InstrDominates(rq.rootIns, ss[0])
		}
		c.Check(ok, "R2", "CorDef.StartWithVal", p.Pos(sv.Pos()), "receive(nil, in) precedes Start()", "the initial value is not enqueued (as receive(nil, in)) before the coroutine is started: a caller that sees IsStarted can get its request in front of it, shifting every later pairing")
	}
	// the signalling closure: the one closure of the method that calls Done()
	callsDone := func(ins ssa.Instruction) bool { return c14isSignal(ins) }
	// an exported method that only hands (some of) its parameters on to an unexported function doing the work is read there;
	// role is the parameter of that function receiving the method's i-th parameter
	thinImpl := func(f *ssa.Function, i int) (*ssa.Function, *ssa.Parameter) {
		if f == nil || i >= len(f.Params) {
			return f, nil
		}
		role := f.Params[i]
		for depth := 0; depth < 2; depth++ {
			tgt, call := core.ThinTarget(p, f)
			if tgt == nil || tgt == f {
				break
			}
			var next *ssa.Parameter
			for j, a := range call.Call.Args {
				if core.Resolve(a) == ssa.Value(role) && j < len(tgt.Params) {
					next = tgt.Params[j]
				}
			}
			if next == nil {
				break
			}
			f, role = tgt, next
		}
		return f, role
	}
	dn, dnEffect := thinImpl(p.Method(p.Fpgo, "CorDef", "DoNotation"), 1)
	if h, launch := c14awaitCombinator(p, dn); h != nil {
		// continuation-passing form: `return await(func(deliver func(T)) { cor = CorNew(func() { deliver(effect(cor)) }); cor.Start() })`
		c.Analysed(core.FuncName(dn), core.FuncName(h))
		ok, detail := c14combinatorShape(p, h)
		if ok {
			ok, detail = c14launchDoNotation(p, dn, launch, dnEffect)
		}
		c.Check(ok, "R2", "CorDef.DoNotation", p.Pos(dn.Pos()), detail, detail)
	} else if dn == nil || core.ClosureContaining(dn, callsDone) == nil {
		c.Unknown("R2", "CorDef.DoNotation", "-", "method or closure not found")
	} else {
		c.Analysed(core.FuncName(dn))
		dcl := core.ClosureContaining(dn, callsDone)
		ok, detail := c14waitShape(p, dn, dcl, func(ins ssa.Instruction) bool {
			// result = effect(cor)
			st, isS := ins.(*ssa.Store)
			if !isS {
				return false
			}
			call, isC := core.Resolve(st.Val).(*ssa.Call)
			return isC && core.Callee(&call.Call) == nil && capturedBinding(dn, dcl, core.Path(call.Call.Value)) == ssa.Value(dnEffect)
		}, "fpgo.CorDef.Start")
		c.Check(ok, "R2", "CorDef.DoNotation", p.Pos(dn.Pos()), detail, detail)
	}
	yio, _ := thinImpl(p.Method(p.Fpgo, "CorDef", "YieldFromIO"), 1)
	if h, launch := c14awaitCombinator(p, yio); h != nil {
		c.Analysed(core.FuncName(yio), core.FuncName(h))
		ok, detail := c14combinatorShape(p, h)
		if ok {
			ok, detail = c14launchSubscribe(p, launch)
		}
		c.Check(ok, "R2", "CorDef.YieldFromIO", p.Pos(yio.Pos()), detail, detail)
	} else if yio == nil || core.ClosureContaining(yio, callsDone) == nil {
		c.Unknown("R2", "CorDef.YieldFromIO", "-", "method or closure not found")
	} else {
		c.Analysed(core.FuncName(yio))
		cl := core.ClosureContaining(yio, callsDone)
		ok, detail := c14waitShape(p, yio, cl, func(ins ssa.Instruction) bool {
			st, isS := ins.(*ssa.Store)
			return isS && st.Val == ssa.Value(cl.Params[0])
		}, "fpgo.MonadIODef.Subscribe")
		c.Check(ok, "R2", "CorDef.YieldFromIO", p.Pos(yio.Pos()), detail, detail)
	}
}

// c14isSignal: the instruction announces "the result is ready" - wg.Done(), or a close of / send on a local channel.
func c14isSignal(ins ssa.Instruction) bool {
	switch x := ins.(type) {
	case *ssa.Call:
		if core.StdCallee(&x.Call) == "sync.(WaitGroup).Done" {
			return true
		}
		if core.IsBuiltin(&x.Call, "close") && core.FieldKey(x.Call.Args[0]) == "" {
			return true
		}
	case *ssa.Send:
		return core.FieldKey(x.Chan) == ""
	}
	return false
}

// c14waitShape: the parent arms a one-shot signal (wg.Add(1), or makes a channel), triggers (exactly once), waits
// (wg.Wait() / a receive on that channel) and only then returns the result; the closure assigns (isAssign) and then
// raises the signal (wg.Done() / close or send on the same channel), each once.
func c14waitShape(p *core.Prog, parent, cl *ssa.Function, isAssign func(ssa.Instruction) bool, trigger string) (bool, string) {
	return c14waitShapeT(p, parent, cl, isAssign, trigger, func(call *ssa.Call) bool {
		g := core.Callee(&call.Call)
		return g != nil && (core.FuncName(g) == trigger || core.StdCallee(&call.Call) == trigger)
	})
}

func c14waitShapeT(p *core.Prog, parent, cl *ssa.Function, isAssign func(ssa.Instruction) bool, trigger string, isTrig func(*ssa.Call) bool) (bool, string) {
	adds := callsOf(parent, "sync.(WaitGroup).Add")
	waitCalls := callsOf(parent, "sync.(WaitGroup).Wait")
	var trig []*ssa.Call
	core.Instrs(parent, func(ins ssa.Instruction) {
		if call, ok := ins.(*ssa.Call); ok && isTrig(call) {
			trig = append(trig, call)
		}
	})
	var wait ssa.Instruction
	var armed ssa.Instruction
	var sigChan ssa.Value // channel form: the MakeChan the waiter receives from
	switch {
	case len(adds) == 1 && len(waitCalls) == 1:
		if !core.IsIntConst(adds[0].Call.Args[1], 1) {
			return false, "WaitGroup.Add is not Add(1)"
		}
		wait, armed = waitCalls[0], adds[0]
	case len(adds) == 0 && len(waitCalls) == 0:
		n := 0
		core.Instrs(parent, func(ins ssa.Instruction) {
			if u, isU := ins.(*ssa.UnOp); isU && u.Op == token.ARROW {
				if mk, isMk := core.Resolve(u.X).(*ssa.MakeChan); isMk {
					n++
					wait, armed, sigChan = u, mk, mk
				}
			}
		})
		if n != 1 {
			return false, fmt.Sprintf("expected one Add(1)/Wait pair or one receive on a channel made here (found %d receives)", n)
		}
	default:
		return false, fmt.Sprintf("expected one Add and one Wait (found %d, %d)", len(adds), len(waitCalls))
	}
	if len(trig) != 1 {
		return false, fmt.Sprintf("expected one %s (found %d)", trigger, len(trig))
	}
	if !(core.InstrDominates(armed, trig[0]) && core.InstrDominates(trig[0], wait)) {
		return false, "order arm → start → wait is broken"
	}
	okRet := true
	core.Instrs(parent, func(ins ssa.Instruction) {
		if r, isR := ins.(*ssa.Return); isR && r.Block() != parent.Recover && !core.InstrDominates(wait, r) {
			okRet = false
		}
	})
	if !okRet {
		return false, "a return is not preceded by the wait: the result may be read before it is assigned"
	}
	var assign, done ssa.Instruction
	nSig := 0
	core.Instrs(cl, func(ins ssa.Instruction) {
		if isAssign(ins) {
			assign = ins
		}
		if c14isSignal(ins) {
			nSig++
			done = ins
		}
	})
	if nSig != 1 {
		done = nil
	}
	if done != nil && sigChan != nil {
		// the signal must be raised on the channel the waiter receives from
		var ch ssa.Value
		switch x := done.(type) {
		case *ssa.Call:
			if core.IsBuiltin(&x.Call, "close") {
				ch = x.Call.Args[0]
			}
		case *ssa.Send:
			ch = x.Chan
		}
		if ch == nil || core.Resolve(capturedBinding(parent, cl, core.Path(ch))) != sigChan {
			return false, "the closure does not signal on the channel the waiter receives from"
		}
	} else if done != nil && sigChan == nil {
		if call, isC := done.(*ssa.Call); !isC || core.StdCallee(&call.Call) != "sync.(WaitGroup).Done" {
			return false, "the closure does not call Done on the WaitGroup the waiter waits for"
		}
	}
	if assign == nil || done == nil || !core.InstrDominates(assign, done) {
		return false, "the closure does not assign the result before signalling (the waiter can return a stale value)"
	}
	dmin, dmax := core.PathCount(cl, func(ins ssa.Instruction) int {
		if ins == done {
			return 1
		}
		return 0
	}, nil)
	if dmin != 1 || dmax != 1 {
		return false, "the signal is not raised exactly once"
	}
	return true, "arm → start once → closure assigns then signals → wait dominates the return"
}

// c14notStarted: block b is on the not-started edge of a test of the started flag of base.
func c14notStarted(p *core.Prog, b *ssa.BasicBlock, base string) bool {
	for _, cnd := range core.EdgeFacts(b) {
		if condFlag(p, cnd, base, "isStarted", false, 0) {
			return true
		}
	}
	return false
}

// guardedBody returns the function that really runs under the lock wrapper for a function value handed to it
// (the value's own function, or the unexported helper it only forwards to) and a translation of that
// function's values into the frame that built the function value.
func guardedBody(p *core.Prog, fv *core.FuncVal) (*ssa.Function, func(ssa.Value) ssa.Value) {
	cl := fv.Fn
	thinArg := map[ssa.Value]ssa.Value{}
	if tgt, tc := core.ThinTarget(p, cl); tgt != nil {
		for i, prm := range tgt.Params {
			if i < len(tc.Call.Args) {
				thinArg[prm] = tc.Call.Args[i]
			}
		}
		cl = tgt
	}
	return cl, func(v ssa.Value) ssa.Value {
		if a, okA := thinArg[core.Resolve(v)]; okA {
			v = a
		}
		return fv.Outer(v)
	}
}


// c14val is a value together with the chain of helper calls (from the root) that leads to the frame it lives in; the
// chain is empty for a value of the root's own frame.
type c14val struct {
	v     ssa.Value
	stack []*ssa.Call
}

func (x c14val) isRoot(v ssa.Value) bool {
	return x.v != nil && len(x.stack) == 0 && core.Resolve(x.v) == v
}

// c14frame is one frame on the way from a root function to a send: the block (in that frame) from which the next step is
// taken, and the translation of that frame's values towards the root's frame (as far up as parameters allow).
type c14frame struct {
	block *ssa.BasicBlock
	conv  func(ssa.Value) c14val
}

// c14send is a send on a coroutine channel reachable from a root function - in the root itself, in a function of the
// package it calls, or in the function a lock wrapper runs for it.
type c14send struct {
	send      *ssa.Send
	rootIns   ssa.Instruction // the instruction of the root that leads to the send
	owner     c14val          // the coroutine whose channel is sent on
	ownerPath string
	val       c14val // the value sent
	locked    bool   // the owner's closedM is held exclusively at the send
	once      bool   // no frame on the way takes the step more than once per execution
	frames    []c14frame
	lit       map[string]c14val // for a request: the fields of the &CorOp{…} sent
}

func c14deepSends(p *core.Prog, li *core.LockInfo, root *ssa.Function, field string) []c14send {
	var out []c14send
	onStack := map[*ssa.Function]bool{}
	convOf := map[*ssa.Function]func(ssa.Value) c14val{}
	var walk func(f *ssa.Function, conv func(ssa.Value) c14val, stack []*ssa.Call, rootIns ssa.Instruction, frames []c14frame, once bool, depth int)
	walk = func(f *ssa.Function, conv func(ssa.Value) c14val, stack []*ssa.Call, rootIns ssa.Instruction, frames []c14frame, once bool, depth int) {
		if depth > 4 || onStack[f] || len(f.Blocks) == 0 {
			return
		}
		onStack[f] = true
		convOf[f] = conv
		defer func() { onStack[f] = false; delete(convOf, f) }()
		stepOnce := func(ins ssa.Instruction) bool {
			_, mx := core.PathCount(f, func(i2 ssa.Instruction) int {
				if i2 == ins {
					return 1
				}
				return 0
			}, nil)
			return mx == 1
		}
		core.Instrs(f, func(ins ssa.Instruction) {
			cur := rootIns
			if depth == 0 {
				cur = ins
			}
			fr := append(append([]c14frame{}, frames...), c14frame{ins.Block(), conv})
			switch x := ins.(type) {
			case *ssa.Send:
				if core.FieldKey(x.Chan) != field {
					return
				}
				snd := c14send{send: x, rootIns: cur, frames: fr, once: once && stepOnce(ins), ownerPath: core.FieldBase(x.Chan)}
				if ld, isLd := core.Unwrap(x.Chan).(*ssa.UnOp); isLd {
					if fa, isFA := ld.X.(*ssa.FieldAddr); isFA {
						own := core.FieldOwner(fa)
						snd.owner = conv(own)
						snd.locked = li.At[ins].Has(core.Path(own)+".closedM", "W")
					}
				}
				snd.val = conv(x.X)
				// a request literal: &CorOp{cor: …, val: …} built in this frame or in an outer one and captured
				alloc, isA := core.Resolve(x.X).(*ssa.Alloc)
				if !isA && snd.val.v != nil {
					alloc, isA = core.Resolve(snd.val.v).(*ssa.Alloc)
				}
				if isA {
					if ac := convOf[alloc.Parent()]; ac != nil {
						snd.lit = map[string]c14val{}
						for _, r := range *alloc.Referrers() {
							if fa, isFA := r.(*ssa.FieldAddr); isFA {
								for _, st := range core.Stores(fa) {
									snd.lit[core.FieldName(fa.X.Type(), fa.Field)] = ac(st.Val)
								}
							}
						}
					}
				}
				out = append(out, snd)
			case *ssa.Call:
				g := core.Callee(&x.Call)
				if g != nil && g.Pkg == p.Fpgo && g.Parent() == nil && len(g.Blocks) > 0 && !x.Call.IsInvoke() {
					ns := append(append([]*ssa.Call{}, stack...), x)
					sub := func(v ssa.Value) c14val {
						r, st := core.Up(core.Resolve(v), ns)
						return c14val{r, st}
					}
					walk(g, sub, ns, cur, fr, once && stepOnce(ins), depth+1)
				}
				// functions this call may run, at most once (lock wrappers, a closure called in place)
				ran := map[*ssa.Function]bool{}
				for _, cl := range core.RunsAtMostOnce(p, x) {
					ran[cl] = true
				}
				cands := append([]ssa.Value{x.Call.Value}, x.Call.Args...)
				for _, a := range cands {
					fv := core.ResolveFuncValue(p, a)
					if fv == nil || !ran[fv.Fn] {
						continue
					}
					body, outer := guardedBody(p, fv)
					sub := func(v ssa.Value) c14val {
						o := outer(v)
						if o == nil {
							return c14val{}
						}
						// a value of the creating frame (this one) - or one that stays local to the function run
						if iv, isI := o.(ssa.Instruction); isI && iv.Parent() != f {
							return c14val{o, nil}
						}
						if prm, isP := o.(*ssa.Parameter); isP && prm.Parent() != f {
							return c14val{o, nil}
						}
						return conv(o)
					}
					walk(body, sub, stack, cur, fr, once && stepOnce(ins), depth+1)
				}
			}
		})
	}
	walk(root, func(v ssa.Value) c14val { return c14val{core.Resolve(v), nil} }, nil, nil, nil, true, 0)
	return out
}

// requestIs: the send is a request on target's request channel, under target's lock, carrying &CorOp{cor: caller, val: v}
// (caller nil: the nil constant / field left zero). Returns "" or what is wrong.
func (s c14send) requestIs(target, caller, v ssa.Value) string {
	if !s.owner.isRoot(target) {
		return "the request is not sent on the receiver's own request channel"
	}
	if !s.locked {
		return "the request is sent without holding the target's lock: it races with the target's close()"
	}
	if s.lit == nil {
		return "the request sent is not a freshly built CorOp"
	}
	corOK := false
	if cv, has := s.lit["cor"]; has {
		if caller == nil {
			corOK = cv.v != nil && core.IsNilConst(core.Resolve(cv.v))
		} else {
			corOK = cv.isRoot(caller)
		}
	} else if caller == nil {
		corOK = true
	}
	valOK := s.lit["val"].isRoot(v)
	if !corOK || !valOK {
		return fmt.Sprintf("the request is not {cor: caller, val: in} (cor ok=%v, val ok=%v): answers go to the wrong coroutine or carry the wrong value", corOK, valOK)
	}
	return ""
}

// c14awaitCombinator: every return of f yields the result of one call h(L) where h is an unexported function of the
// repository whose single parameter is a function and L is a closure built in f (the continuation-passing form of
// "arm, start, wait, return the delivered value").
func c14awaitCombinator(p *core.Prog, f *ssa.Function) (*ssa.Function, *ssa.Function) {
	if f == nil {
		return nil, nil
	}
	var h, launch *ssa.Function
	ok := true
	n := 0
	core.Instrs(f, func(ins ssa.Instruction) {
		r, isR := ins.(*ssa.Return)
		if !isR || r.Block() == f.Recover {
			return
		}
		n++
		vals := core.RetVals(r)
		if len(vals) != 1 {
			ok = false
			return
		}
		call, isC := core.Resolve(vals[0]).(*ssa.Call)
		if !isC || len(call.Call.Args) != 1 {
			ok = false
			return
		}
		g := core.Callee(&call.Call)
		mc, isMC := core.Resolve(call.Call.Args[0]).(*ssa.MakeClosure)
		if g == nil || !p.InRepo(g) || len(g.Blocks) == 0 || g.Object() == nil || g.Object().Exported() || len(g.Params) != 1 || !isMC {
			ok = false
			return
		}
		if _, isSig := g.Params[0].Type().Underlying().(*types.Signature); !isSig {
			ok = false
			return
		}
		if h != nil && h != g {
			ok = false
		}
		h, launch = g, mc.Fn.(*ssa.Function)
	})
	if !ok || n != 1 || h == nil {
		return nil, nil
	}
	return h, launch
}

// c14combinatorShape: h arms a one-shot signal, calls its parameter exactly once with a closure that stores its own
// argument as the result and then raises the signal (each once), waits, and only then returns.
func c14combinatorShape(p *core.Prog, h *ssa.Function) (bool, string) {
	dcl := core.ClosureContaining(h, func(ins ssa.Instruction) bool { return c14isSignal(ins) })
	if dcl == nil || len(dcl.Params) != 1 {
		return false, "the waiting helper has no delivery closure that raises the signal"
	}
	return c14waitShapeT(p, h, dcl, func(ins ssa.Instruction) bool {
		st, isS := ins.(*ssa.Store)
		return isS && st.Val == ssa.Value(dcl.Params[0])
	}, "launch(deliver)", func(call *ssa.Call) bool {
		if core.Callee(&call.Call) != nil || call.Call.IsInvoke() || core.Resolve(call.Call.Value) != ssa.Value(h.Params[0]) || len(call.Call.Args) != 1 {
			return false
		}
		mc, isMC := core.Resolve(call.Call.Args[0]).(*ssa.MakeClosure)
		return isMC && mc.Fn == ssa.Value(dcl)
	})
}

// c14launchDoNotation: the launch closure builds one coroutine whose effect delivers effect(cor) exactly once, and
// starts it exactly once.
func c14launchDoNotation(p *core.Prog, dn, launch *ssa.Function, dnEffect *ssa.Parameter) (bool, string) {
	if len(launch.Params) != 1 {
		return false, "the launch closure does not take the delivery function"
	}
	smin, smax := core.PathCount(launch, func(ins ssa.Instruction) int {
		if call, ok := ins.(*ssa.Call); ok {
			if g := core.Callee(&call.Call); g != nil && core.FuncName(g) == "fpgo.CorDef.Start" {
				return 1
			}
		}
		return 0
	}, nil)
	if smin != 1 || smax != 1 {
		return false, fmt.Sprintf("the coroutine is started %d..%d times (must be exactly once)", smin, smax)
	}
	// the effect closure of the coroutine: the one closure of launch that calls the delivery function
	var eff *ssa.Function
	for _, a := range launch.AnonFuncs {
		a := a
		core.Instrs(a, func(ins ssa.Instruction) {
			if call, ok := ins.(*ssa.Call); ok && core.Callee(&call.Call) == nil && !call.Call.IsInvoke() {
				if capturedBinding(launch, a, core.Path(call.Call.Value)) == ssa.Value(launch.Params[0]) {
					eff = a
				}
			}
		})
	}
	if eff == nil {
		return false, "no coroutine effect that delivers its result found"
	}
	okArg := true
	dmin, dmax := core.PathCount(eff, func(ins ssa.Instruction) int {
		call, ok := ins.(*ssa.Call)
		if !ok || core.Callee(&call.Call) != nil || call.Call.IsInvoke() || capturedBinding(launch, eff, core.Path(call.Call.Value)) != ssa.Value(launch.Params[0]) {
			return 0
		}
		// deliver(effect(cor)): the delivered value is the result of the user's effect
		inner, isC := core.Resolve(call.Call.Args[0]).(*ssa.Call)
		if !isC || core.Callee(&inner.Call) != nil {
			okArg = false
			return 1
		}
		v1 := capturedBinding(launch, eff, core.Path(inner.Call.Value))
		if v1 == nil || capturedBinding(dn, launch, core.Path(v1)) != ssa.Value(dnEffect) {
			okArg = false
		}
		return 1
	}, nil)
	if dmin != 1 || dmax != 1 || !okArg {
		return false, fmt.Sprintf("the coroutine's effect does not deliver effect(cor) exactly once (%d..%d deliveries, value ok=%v)", dmin, dmax, okArg)
	}
	// the effect closure is what the coroutine is built from
	built := false
	core.Instrs(launch, func(ins ssa.Instruction) {
		if call, ok := ins.(*ssa.Call); ok && len(call.Call.Args) >= 1 {
			if g := core.Callee(&call.Call); g != nil && strings.HasPrefix(g.Name(), "CorNew") {
				if mc, isMC := core.Resolve(call.Call.Args[len(call.Call.Args)-1]).(*ssa.MakeClosure); isMC && mc.Fn == ssa.Value(eff) {
					built = true
				}
			}
		}
	})
	if !built {
		return false, "the delivering closure is not the effect of the coroutine that is started"
	}
	return true, "await(launch): arm → launch once → deliver assigns then signals → wait dominates the return; launch starts one coroutine whose effect delivers effect(cor) once"
}

// c14launchSubscribe: the launch closure subscribes exactly once, with the delivery function as OnNext.
func c14launchSubscribe(p *core.Prog, launch *ssa.Function) (bool, string) {
	if len(launch.Params) != 1 {
		return false, "the launch closure does not take the delivery function"
	}
	okNext := false
	smin, smax := core.PathCount(launch, func(ins ssa.Instruction) int {
		call, ok := ins.(*ssa.Call)
		if !ok {
			return 0
		}
		if g := core.Callee(&call.Call); g == nil || core.FuncName(g) != "fpgo.MonadIODef.Subscribe" {
			return 0
		}
		if len(call.Call.Args) == 2 {
			if v := core.LiteralField(call.Call.Args[1], "OnNext"); v != nil && core.Resolve(v) == ssa.Value(launch.Params[0]) {
				okNext = true
			}
		}
		return 1
	}, nil)
	if smin != 1 || smax != 1 || !okNext {
		return false, fmt.Sprintf("the MonadIO is not subscribed exactly once with the delivery function as OnNext (%d..%d subscriptions, OnNext ok=%v)", smin, smax, okNext)
	}
	return true, "await(launch): arm → launch once → deliver assigns then signals → wait dominates the return; launch subscribes once with OnNext = deliver"
}
