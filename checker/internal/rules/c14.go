package rules

import (
	"fmt"
	"go/token"

	"fpcheck/internal/core"

	"golang.org/x/tools/go/ssa"
)

func init() {
	register(&Prop{
		ID: "C14",
		Explanation: "Coroutine routing and lifecycle ordering decided by value flow on SSA: (R1) YieldRef receives from its own request channel, replies on the result channel of the coroutine stored in the very request it received (under that coroutine's lock wrapper), sends its parameter `out` exactly once on the path where a requester is present, and returns the request's value; YieldFrom sends one request carrying the caller and `in` to the target and then receives from its own result channel and returns that; receive builds {cor: caller, val: in} and sends it on the target's own request channel. " +
			"(R2) Start sets the started flag before spawning, the goroutine runs the effect and then close(); StartWithVal enqueues (nil, in) before Start; DoNotation assigns the result before Done and waits before returning; YieldFromIO subscribes exactly once, OnNext stores then signals, Wait dominates the return. " +
			"Not decided: the k-th request / k-th yield pairing and per-caller order over all interleavings with more requests than the channel buffer - schedule properties; what happens when the target finishes first (C15). (R3) the request/result channels are assigned only on the object under construction.",
		Trusted: commonTrusted,
		Run:     runC14,
		Relies: []Dep{
			{Prop: "C11", Rule: "R3", Keys: []string{"doSubscribe/"}, Floor: 2, Why: "YieldFromIO waits for the OnNext of the MonadIO it subscribes to: Subscribe must deliver exactly one OnNext per evaluation, whatever the value"},
		},
	})
}

func callsOf(f *ssa.Function, name string) []*ssa.Call {
	var out []*ssa.Call
	core.Instrs(f, func(ins ssa.Instruction) {
		if call, ok := ins.(*ssa.Call); ok {
			if g := core.Callee(&call.Call); g != nil && (core.FuncName(g) == name || core.StdCallee(&call.Call) == name) {
				out = append(out, call)
			}
		}
	})
	return out
}

func countCallsOf(f *ssa.Function, name string, skipEdge func(b, s *ssa.BasicBlock) bool) (int, int) {
	if len(f.Blocks) == 0 {
		return 0, 0
	}
	return core.PathCountEdges(f.Blocks[0], nil, func(ins ssa.Instruction) int {
		if call, ok := ins.(*ssa.Call); ok {
			if g := core.Callee(&call.Call); g != nil && (core.FuncName(g) == name || core.StdCallee(&call.Call) == name) {
				return 1
			}
		}
		return 0
	}, skipEdge)
}

// capturedValue: value of captured variable fv of closure cl as stored by the parent (single store), or the bound value itself.
func capturedBinding(parent *ssa.Function, cl *ssa.Function, name string) ssa.Value {
	var mc *ssa.MakeClosure
	core.Instrs(parent, func(ins ssa.Instruction) {
		if x, ok := ins.(*ssa.MakeClosure); ok && x.Fn == ssa.Value(cl) {
			mc = x
		}
	})
	if mc == nil {
		return nil
	}
	for k, fv := range cl.FreeVars {
		if fv.Name() == name && k < len(mc.Bindings) {
			b := mc.Bindings[k]
			if a, ok := b.(*ssa.Alloc); ok {
				if st := core.Stores(a); len(st) == 1 {
					return core.Resolve(st[0].Val)
				}
				return a
			}
			return b
		}
	}
	return nil
}

func runC14(c *core.Ctx) {
	p := c.P
	c.Rule("R1", "request/reply routing: YieldRef replies to the requester carried by the received request with `out` and returns the request's value; YieldFrom sends (caller, in) to the target and returns what arrives on its own result channel; receive builds {cor: caller, val: in}", 3)
	c.Rule("R3", "the request and result channels of a coroutine are assigned only on the object under construction (never created lazily or replaced once the coroutine is shared)", 2)
	c.Rule("R2", "lifecycle ordering: started flag before spawn, effect then close; StartWithVal enqueues before Start; DoNotation/YieldFromIO assign before Done and Wait before return", 4)
	yr := p.Method(p.Fpgo, "CorDef", "YieldRef")
	yf := p.Method(p.Fpgo, "CorDef", "YieldFrom")
	rc := p.Method(p.Fpgo, "CorDef", "receive")
	wrapper := p.Method(p.Fpgo, "CorDef", "doCloseSafe")
	if yr == nil || yf == nil || rc == nil || wrapper == nil {
		c.Unknown("R1", "anchors", "-", "YieldRef/YieldFrom/receive/doCloseSafe not all found")
		return
	}
	c.Analysed(core.FuncName(yr), core.FuncName(yf), core.FuncName(rc))
	// ---------- YieldRef
	{
		ok, detail := func() (bool, string) {
			// the receive, the reply and the return may sit in YieldRef itself or in unexported helpers it calls;
			// values are traced through the helpers' parameters and results
			var recv *ssa.UnOp
			for _, f := range core.DeepFind(p, yr, func(ins ssa.Instruction) bool {
				u, isU := ins.(*ssa.UnOp)
				return isU && u.Op == token.ARROW
			}) {
				u := f.Ins.(*ssa.UnOp)
				if core.FieldKey(u.X) != "CorDef.opCh" {
					continue
				}
				if ld, isLd := core.Unwrap(u.X).(*ssa.UnOp); isLd {
					if fa, isFA := ld.X.(*ssa.FieldAddr); isFA {
						if base, st := core.Up(core.FieldOwner(fa), f.Stack); len(st) == 0 && base == ssa.Value(yr.Params[0]) {
							recv = u
						}
					}
				}
			}
			if recv == nil {
				return false, "YieldRef does not receive from its own request channel"
			}
			var op ssa.Value = recv
			if recv.CommaOk {
				for _, r := range *recv.Referrers() {
					if ex, isE := r.(*ssa.Extract); isE && ex.Index == 0 {
						op = ex
					}
				}
			}
			isRecvOp := func(v ssa.Value, stack []*ssa.Call) bool {
				lv := core.Origins(p, v, stack)
				if len(lv) == 0 {
					return false
				}
				for _, l := range lv {
					if core.Resolve(l.Val) != op {
						return false
					}
				}
				return true
			}
			isOpField := func(v ssa.Value, stack []*ssa.Call, field string) bool {
				r, st := core.Up(v, stack)
				u, isU := core.Resolve(r).(*ssa.UnOp)
				if !isU {
					return false
				}
				fa, isFA := u.X.(*ssa.FieldAddr)
				return isFA && core.FieldKey(fa) == "CorOp."+field && isRecvOp(core.FieldOwner(fa), st)
			}
			// reply wrapper call
			var w *ssa.Call
			var wstack []*ssa.Call
			nW := 0
			for _, f := range core.DeepFind(p, yr, func(ins ssa.Instruction) bool {
				call, isC := ins.(*ssa.Call)
				return isC && core.Callee(&call.Call) == wrapper
			}) {
				w, wstack, nW = f.Ins.(*ssa.Call), f.Stack, nW+1
			}
			if nW != 1 || len(w.Call.Args) < 2 {
				return false, fmt.Sprintf("expected one guarded reply (found %d wrapper calls)", nW)
			}
			fv := core.ResolveFuncValue(p, w.Call.Args[1])
			if fv == nil {
				return false, "the function handed to the lock wrapper is not a function value built here"
			}
			if !isOpField(w.Call.Args[0], wstack, "cor") {
				return false, "the reply is sent under the lock of " + core.Path(w.Call.Args[0]) + ", not of the requester carried by the received request (op.cor): wrong lock → sends race with that coroutine's close, and a full request channel deadlocks"
			}
			cl, outer := guardedBody(p, fv)
			var send *ssa.Send
			core.Instrs(cl, func(ins ssa.Instruction) {
				if s, isS := ins.(*ssa.Send); isS {
					send = s
				}
			})
			if send == nil || core.FieldKey(send.Chan) != "CorDef.resultCh" {
				return false, "the reply closure does not send on a result channel"
			}
			// the channel's owner is the captured requester (captured variable / field of the bound receiver)
			ownerName := core.FieldBase(send.Chan)
			var owner ssa.Value
			if ld, isLd := core.Unwrap(send.Chan).(*ssa.UnOp); isLd {
				if fa, isFA := ld.X.(*ssa.FieldAddr); isFA {
					owner = outer(core.FieldOwner(fa))
				}
			}
			if owner == nil || !isOpField(owner, wstack, "cor") {
				return false, "the reply goes to the result channel of " + ownerName + ", which is not the requester stored in the received request: the value is routed to the wrong coroutine"
			}
			if v, st := core.Up(outer(send.X), wstack); len(st) != 0 || v != ssa.Value(yr.Params[1]) {
				return false, "the value sent back is not YieldRef's argument"
			}
			// exactly once where a requester is present
			present := false
			type frameBlock struct {
				b  *ssa.BasicBlock
				st []*ssa.Call
			}
			fbs := []frameBlock{{w.Block(), wstack}}
			for i, sc := range wstack {
				fbs = append(fbs, frameBlock{sc.Block(), wstack[:i]})
			}
			for _, fb := range fbs {
				for _, m := range core.EdgeCmps(fb.b) {
					if m.Op == token.NEQ && core.IsNilConst(m.Y) && isOpField(m.X, fb.st, "cor") {
						present = true
					}
					// any nil test of the received request itself on the way must say "not nil"
					if m.Op == token.EQL && core.IsNilConst(m.Y) && isRecvOp(m.X, fb.st) {
						return false, "the reply is sent only when the received request is nil: real requests are never answered (their YieldFrom hangs) and the nil request is dereferenced"
					}
				}
			}
			// at most once: in every frame of the chain the call towards the reply is passed at most once per path
			max := 1
			for _, ci := range append(append([]*ssa.Call{}, wstack...), w) {
				tgt := ssa.Instruction(ci)
				if _, mx := core.PathCount(ci.Parent(), func(ins ssa.Instruction) int {
					if ins == tgt {
						return 1
					}
					return 0
				}, nil); mx != 1 {
					max = mx
				}
			}
			if !present || max != 1 {
				return false, "the reply is not sent exactly once on the path where the request carries a requester"
			}
			// return value
			okRet := true
			for _, rc := range core.ReturnCases(yr) {
				if isOpField(rc.Vals[0], nil, "val") {
					continue
				}
				// the early return on IsDone returns the zero value
				closed := false
				for _, cnd := range rc.Facts {
					n := core.Normalize(cnd)
					if n.True && flagRead(p, n.V, yr.Params[0].Name(), "isClosed", 0) {
						closed = true
					}
				}
				if !closed {
					okRet = false
				}
			}
			if !okRet {
				return false, "YieldRef does not return the value carried by the received request"
			}
			return true, "receives own opCh; replies `out` once to op.cor.resultCh under op.cor's lock; returns op.val"
		}()
		c.Check(ok, "R1", "CorDef.YieldRef", p.Pos(yr.Pos()), detail, detail)
	}
	// ---------- YieldFrom
	{
		ok, detail := func() (bool, string) {
			calls := callsOf(yf, core.FuncName(rc))
			if len(calls) != 1 {
				return false, fmt.Sprintf("YieldFrom issues %d requests (must be 1)", len(calls))
			}
			call := calls[0]
			if call.Call.Args[0] != ssa.Value(yf.Params[1]) || call.Call.Args[1] != ssa.Value(yf.Params[0]) || call.Call.Args[2] != ssa.Value(yf.Params[2]) {
				return false, "the request is not target.receive(caller, in): it must go to the target and carry the caller and the input value"
			}
			closedEdge := flagEdge(p, yf.Params[0].Name(), "isClosed", true)
			min, max := countCallsOf(yf, core.FuncName(rc), closedEdge)
			if min != 1 || max != 1 {
				return false, fmt.Sprintf("request sent %d..%d times on the live path", min, max)
			}
			var recv *ssa.UnOp
			core.Instrs(yf, func(ins ssa.Instruction) {
				if u, isU := ins.(*ssa.UnOp); isU && u.Op == token.ARROW {
					recv = u
				}
			})
			if recv == nil || core.FieldKey(recv.X) != "CorDef.resultCh" || core.FieldBase(recv.X) != yf.Params[0].Name() {
				return false, "YieldFrom does not wait on the caller's own result channel (it would take another coroutine's answer)"
			}
			if !core.InstrDominates(call, recv) {
				return false, "the wait for the answer does not follow the request"
			}
			okRet := false
			core.Instrs(yf, func(ins ssa.Instruction) {
				if r, isR := ins.(*ssa.Return); isR {
					v := core.Resolve(liveValue(core.Resolve(core.RetVals(r)[0]), closedEdge))
					if ex, isE := v.(*ssa.Extract); isE && ex.Tuple == ssa.Value(recv) && ex.Index == 0 || v == ssa.Value(recv) {
						okRet = true
					}
				}
			})
			if !okRet {
				return false, "YieldFrom does not return the received answer"
			}
			return true, "one request target.receive(caller, in), then receive on own resultCh, returned"
		}()
		c.Check(ok, "R1", "CorDef.YieldFrom", p.Pos(yf.Pos()), detail, detail)
	}
	// ---------- receive
	{
		ok, detail := func() (bool, string) {
			ws := callsOf(rc, core.FuncName(wrapper))
			if len(ws) != 1 || len(ws[0].Call.Args) < 2 || core.Resolve(ws[0].Call.Args[0]) != ssa.Value(rc.Params[0]) {
				return false, "receive does not enqueue under its own lock wrapper exactly once"
			}
			fv := core.ResolveFuncValue(p, ws[0].Call.Args[1])
			if fv == nil {
				return false, "receive does not enqueue under its own lock wrapper exactly once"
			}
			cl, outer := guardedBody(p, fv)
			var send *ssa.Send
			core.Instrs(cl, func(ins ssa.Instruction) {
				if s, isS := ins.(*ssa.Send); isS {
					send = s
				}
			})
			var chOwner ssa.Value
			if send != nil {
				if ld, isLd := core.Unwrap(send.Chan).(*ssa.UnOp); isLd {
					if fa, isFA := ld.X.(*ssa.FieldAddr); isFA {
						chOwner = outer(core.FieldOwner(fa))
					}
				}
			}
			if send == nil || core.FieldKey(send.Chan) != "CorDef.opCh" || chOwner == nil || core.Resolve(chOwner) != ssa.Value(rc.Params[0]) {
				return false, "the request is not sent on the receiver's own request channel"
			}
			alloc, isA := core.Resolve(send.X).(*ssa.Alloc)
			if !isA {
				// built by receive itself before the guarded function runs, and captured by it
				if o := outer(send.X); o != nil {
					alloc, isA = core.Resolve(o).(*ssa.Alloc)
				}
			}
			if !isA {
				return false, "the request sent is not a freshly built CorOp"
			}
			corOK, valOK := false, false
			for _, r := range *alloc.Referrers() {
				fa, isFA := r.(*ssa.FieldAddr)
				if !isFA {
					continue
				}
				for _, st := range core.Stores(fa) {
					v := outer(st.Val)
					if v != nil {
						v = core.Resolve(v)
					}
					switch core.FieldName(fa.X.Type(), fa.Field) {
					case "cor":
						corOK = v == ssa.Value(rc.Params[1])
					case "val":
						valOK = v == ssa.Value(rc.Params[2])
					}
				}
			}
			if !corOK || !valOK {
				return false, fmt.Sprintf("the request is not {cor: caller, val: in} (cor ok=%v, val ok=%v): answers go to the wrong coroutine or carry the wrong value", corOK, valOK)
			}
			return true, "enqueues &CorOp{cor: caller, val: in} on its own opCh under its own lock wrapper"
		}()
		c.Check(ok, "R1", "CorDef.receive", p.Pos(rc.Pos()), detail, detail)
	}
	// ---------- R3 the channels are created once, before the coroutine is shared
	{
		var fresh func(v ssa.Value, depth int) bool
		fresh = func(v ssa.Value, depth int) bool {
			v = core.Resolve(v)
			switch x := v.(type) {
			case *ssa.Alloc:
				return true
			case *ssa.Parameter:
				// an initialisation helper of the constructor: every caller hands it the object under construction
				acts := core.ParamActuals(p, x)
				if len(acts) == 0 || depth > 2 {
					return false
				}
				for _, a := range acts {
					if !fresh(a.Arg, depth+1) {
						return false
					}
				}
				return true
			}
			return false
		}
		n := 0
		for _, f := range p.Funcs {
			if f.Pkg != p.Fpgo && !(f.Parent() != nil && p.InRepo(f)) {
				continue
			}
			core.Instrs(f, func(ins ssa.Instruction) {
				st, isS := ins.(*ssa.Store)
				if !isS {
					return
				}
				fa, isFA := st.Addr.(*ssa.FieldAddr)
				if !isFA {
					return
				}
				key := core.FieldKey(fa)
				if key != "CorDef.opCh" && key != "CorDef.resultCh" {
					return
				}
				n++
				c.Check(fresh(core.FieldOwner(fa), 0), "R3", fmt.Sprintf("%s/store:%s", core.FuncName(f), key), p.InstrPos(ins), "set on the object under construction", key+" is assigned outside the construction of the coroutine: once the coroutine is shared, the requester (receive, under the lock) and the owner (YieldRef/YieldFrom, without it) read this field concurrently - a channel created or replaced later means a request or reply is sent on a channel nobody receives from (YieldFrom hangs) and races with close()")
			})
		}
		if n == 0 {
			c.Unknown("R3", "CorDef.channels", "-", "no store to CorDef.opCh / CorDef.resultCh found (constructor expected)")
		}
	}
	// ---------- R2 Start
	if st := p.Method(p.Fpgo, "CorDef", "Start"); st == nil {
		c.Unknown("R2", "CorDef.Start", "-", "method not found")
	} else {
		c.Analysed(core.FuncName(st))
		ok, detail := func() (bool, string) {
			var goIns *ssa.Go
			core.Instrs(st, func(ins ssa.Instruction) {
				if g, isG := ins.(*ssa.Go); isG {
					goIns = g
				}
			})
			nGo := 0
			core.Instrs(st, func(ins ssa.Instruction) {
				if _, isG := ins.(*ssa.Go); isG {
					nGo++
				}
			})
			var body *ssa.Function
			if goIns != nil {
				body = callTarget(p, &goIns.Call)
			}
			if goIns == nil || nGo != 1 || body == nil {
				return false, "Start does not spawn exactly one goroutine"
			}
			setOK := false
			core.Instrs(st, func(ins ssa.Instruction) {
				if call, isC := ins.(*ssa.Call); isC && core.InstrDominates(ins, goIns) {
					if g := core.Callee(&call.Call); g != nil && core.FuncName(g) == "fpgo.AtomBool.Set" && core.FieldKey(call.Call.Args[0]) == "CorDef.isStarted" && isTrueConst(call.Call.Args[1]) {
						setOK = true
					}
				}
			})
			if !setOK {
				return false, "the started flag is not set before the goroutine is spawned (IsStarted can be false while the effect already runs; a second Start spawns twice)"
			}
			if !c14notStarted(p, goIns.Block(), st.Params[0].Name()) {
				return false, "the goroutine is spawned without knowing the coroutine was not started yet (the started flag is not tested on the not-started edge): a second Start runs the effect twice"
			}
			var eff, cls ssa.Instruction
			core.Instrs(body, func(ins ssa.Instruction) {
				if call, isC := ins.(*ssa.Call); isC {
					if core.FieldKey(call.Call.Value) == "CorDef.effect" {
						eff = ins
					}
					if g := core.Callee(&call.Call); g != nil && core.FuncName(g) == "fpgo.CorDef.close" {
						cls = ins
					}
				}
			})
			if eff == nil || cls == nil || !core.InstrDominates(eff, cls) {
				return false, "the goroutine does not run the effect and then close()"
			}
			emin, emax := core.PathCount(body, func(ins ssa.Instruction) int {
				if ins == eff || ins == cls {
					return 1
				}
				return 0
			}, nil)
			if emin != 2 || emax != 2 {
				return false, "effect/close are not each executed exactly once"
			}
			return true, "flag set before spawn; goroutine = effect then close"
		}()
		c.Check(ok, "R2", "CorDef.Start", p.Pos(st.Pos()), detail, detail)
	}
	if sv := p.Method(p.Fpgo, "CorDef", "StartWithVal"); sv == nil {
		c.Unknown("R2", "CorDef.StartWithVal", "-", "method not found")
	} else {
		c.Analysed(core.FuncName(sv))
		rs := callsOf(sv, core.FuncName(rc))
		ss := callsOf(sv, "fpgo.CorDef.Start")
		ok := len(rs) == 1 && len(ss) == 1 && c14notStarted(p, rs[0].Block(), sv.Params[0].Name()) && core.InstrDominates(rs[0], ss[0]) && rs[0].Call.Args[0] == ssa.Value(sv.Params[0]) && core.IsNilConst(rs[0].Call.Args[1]) && rs[0].Call.Args[2] == ssa.Value(sv.Params[1]) && ss[0].Call.Args[0] == ssa.Value(sv.Params[0])
		c.Check(ok, "R2", "CorDef.StartWithVal", p.Pos(sv.Pos()), "receive(nil, in) precedes Start()", "the initial value is not enqueued (as receive(nil, in)) before the coroutine is started: a caller that sees IsStarted can get its request in front of it, shifting every later pairing")
	}
	if dn := p.Method(p.Fpgo, "CorDef", "DoNotation"); dn == nil || len(dn.AnonFuncs) != 1 {
		c.Unknown("R2", "CorDef.DoNotation", "-", "method or closure not found")
	} else {
		c.Analysed(core.FuncName(dn))
		ok, detail := c14waitShape(p, dn, dn.AnonFuncs[0], func(ins ssa.Instruction) bool {
			// result = effect(cor)
			st, isS := ins.(*ssa.Store)
			if !isS {
				return false
			}
			call, isC := core.Resolve(st.Val).(*ssa.Call)
			return isC && core.Callee(&call.Call) == nil && capturedBinding(dn, dn.AnonFuncs[0], core.Path(call.Call.Value)) == ssa.Value(dn.Params[1])
		}, "fpgo.CorDef.Start")
		c.Check(ok, "R2", "CorDef.DoNotation", p.Pos(dn.Pos()), detail, detail)
	}
	if yio := p.Method(p.Fpgo, "CorDef", "YieldFromIO"); yio == nil || len(yio.AnonFuncs) != 1 {
		c.Unknown("R2", "CorDef.YieldFromIO", "-", "method or closure not found")
	} else {
		c.Analysed(core.FuncName(yio))
		cl := yio.AnonFuncs[0]
		ok, detail := c14waitShape(p, yio, cl, func(ins ssa.Instruction) bool {
			st, isS := ins.(*ssa.Store)
			return isS && st.Val == ssa.Value(cl.Params[0])
		}, "fpgo.MonadIODef.Subscribe")
		c.Check(ok, "R2", "CorDef.YieldFromIO", p.Pos(yio.Pos()), detail, detail)
	}
}

// c14waitShape: parent does wg.Add(1) → trigger (exactly once) → wg.Wait() → return result; closure assigns (isAssign) then wg.Done(), each once.
func c14waitShape(p *core.Prog, parent, cl *ssa.Function, isAssign func(ssa.Instruction) bool, trigger string) (bool, string) {
	adds := callsOf(parent, "sync.(WaitGroup).Add")
	waits := callsOf(parent, "sync.(WaitGroup).Wait")
	trig := callsOf(parent, trigger)
	if len(adds) != 1 || len(waits) != 1 || len(trig) != 1 {
		return false, fmt.Sprintf("expected one Add, one %s, one Wait (found %d, %d, %d)", trigger, len(adds), len(trig), len(waits))
	}
	if !core.IsIntConst(adds[0].Call.Args[1], 1) {
		return false, "WaitGroup.Add is not Add(1)"
	}
	if !(core.InstrDominates(adds[0], trig[0]) && core.InstrDominates(trig[0], waits[0])) {
		return false, "order Add → start → Wait is broken"
	}
	okRet := true
	core.Instrs(parent, func(ins ssa.Instruction) {
		if r, isR := ins.(*ssa.Return); isR && r.Block() != parent.Recover && !core.InstrDominates(waits[0], r) {
			okRet = false
		}
	})
	if !okRet {
		return false, "a return is not preceded by Wait(): the result may be read before it is assigned"
	}
	var assign, done ssa.Instruction
	core.Instrs(cl, func(ins ssa.Instruction) {
		if isAssign(ins) {
			assign = ins
		}
		if call, isC := ins.(*ssa.Call); isC && core.StdCallee(&call.Call) == "sync.(WaitGroup).Done" {
			done = ins
		}
	})
	if assign == nil || done == nil || !core.InstrDominates(assign, done) {
		return false, "the closure does not assign the result before signalling Done (the waiter can return a stale value)"
	}
	dmin, dmax := core.PathCount(cl, func(ins ssa.Instruction) int {
		if ins == done {
			return 1
		}
		return 0
	}, nil)
	if dmin != 1 || dmax != 1 {
		return false, "Done is not called exactly once"
	}
	return true, "Add(1) → start once → closure assigns then Done → Wait dominates the return"
}

// c14notStarted: block b is on the not-started edge of a test of the started flag of base.
func c14notStarted(p *core.Prog, b *ssa.BasicBlock, base string) bool {
	for _, cnd := range core.EdgeFacts(b) {
		if condFlag(p, cnd, base, "isStarted", false, 0) {
			return true
		}
	}
	return false
}

// guardedBody returns the function that really runs under the lock wrapper for a function value handed to it
// (the value's own function, or the unexported helper it only forwards to) and a translation of that
// function's values into the frame that built the function value.
func guardedBody(p *core.Prog, fv *core.FuncVal) (*ssa.Function, func(ssa.Value) ssa.Value) {
	cl := fv.Fn
	thinArg := map[ssa.Value]ssa.Value{}
	if tgt, tc := core.ThinTarget(p, cl); tgt != nil {
		for i, prm := range tgt.Params {
			if i < len(tc.Call.Args) {
				thinArg[prm] = tc.Call.Args[i]
			}
		}
		cl = tgt
	}
	return cl, func(v ssa.Value) ssa.Value {
		if a, okA := thinArg[core.Resolve(v)]; okA {
			v = a
		}
		return fv.Outer(v)
	}
}
