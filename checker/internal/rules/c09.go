package rules

import (
	"fmt"
	"go/token"
	"go/types"

	"fpcheck/internal/core"

	"golang.org/x/tools/go/ssa"
)

func init() {
	register(&Prop{
		ID: "C09",
		Explanation: "WorkerPool mechanisms decided on SSA: (R1) panic isolation - the goroutine body that invokes jobs received from the job queue registers, before the job call, a deferred closure that calls recover() and, when a panic was recovered, invokes the configured handler exactly once; the job is called synchronously exactly once per receive and only when non-nil; (R2) cap - every increment of the worker counter happens under the pool's exclusive lock, dominated inside the same hold by workerCount < workerSizeMaximum, and is followed by exactly one `go` of the worker body, whose deferred exit decrements the counter exactly once under the lock; jobs are invoked nowhere else; " +
			"(R3) a worker that dies from a panicking job wakes the spawn loop after its decrement (feasible-path enumeration through the recovered flag); (R4) accept/reject - Schedule never invokes or spawns its argument, hands it only to the queue's Offer, maps ErrQueueIsFull to ErrWorkerPoolJobQueueIsFull and passes other results through; ScheduleWithTimeout returns only Schedule's results, ErrWorkerPoolIsClosed, or ErrWorkerPoolScheduleTimeout after the deadline test; Invoke* wrap callee(val) exactly once. " +
			"(R5) spawn requests (posted by Schedule and by dying workers) are consumed only by the spawn loop and each one taken leads to a sizing pass: a request that is taken and dropped leaves accepted jobs without a worker. Not decided: exactly-once execution over all spawn-loop/loader/expiry interleavings (liveness), idle-expiry races, unsynchronised setters. (R7) the worker fetches the job channel through GetChannel() in every iteration of its loop (the call wakes the queue loader).",
		Trusted: commonTrusted,
		Run:     runC09,
		Relies: []Dep{
			{Prop: "C06", Rule: "*", Floor: 1, Why: "accepted jobs wait in a BufferedChannelQueue whose overflow buffer is a LinkedListQueue: a deque that loses or repeats elements loses or repeats jobs"},
			{Prop: "C07", Rule: "*", Floor: 1, Why: "accepted jobs wait in a BufferedChannelQueue: its FIFO/no-loss/bound protocol is what 'exactly once' rests on"},
			{Prop: "C15", Rule: "R1", Keys: []string{"DefaultWorkerPool."}, Floor: 0, Why: "a pool channel that gets closed must not race with the senders on the panic / Schedule paths"},
			{Prop: "C15", Rule: "R2", Keys: []string{"DefaultWorkerPool."}, Floor: 0, Why: "sends on a pool channel that can be closed: a send on a closed channel in a worker's deferred path kills the process"},
			{Prop: "C15", Rule: "R3", Keys: []string{"DefaultWorkerPool."}, Floor: 1, Why: "Schedule on a closed pool"},
		},
	})
}

func runC09(c *core.Ctx) {
	p := c.P
	c.Rule("R1", "panic isolation: recover-defer registered before the job call in the job-running goroutine; handler called once on a recovered panic; job invoked synchronously, once per receive, only if non-nil", 1)
	c.Rule("R2", "cap: worker counter incremented only under the exclusive pool lock after workerCount < workerSizeMaximum in the same hold, followed by exactly one worker spawn; exit decrements once under the lock; jobs run only in worker bodies", 2)
	c.Rule("R3", "a worker killed by a panicking job posts a spawn-loop wake-up after its decrement", 1)
	c.Rule("R4", "Schedule/ScheduleWithTimeout/Invoke* result and argument discipline", 4)
	c.Rule("R6", "every lock a worker-pool function takes is released in the same mode on every return path", 3)
	c.Rule("R7", "the worker fetches the job channel through jobQueue.GetChannel() in every iteration of its loop: the call is what wakes the buffered queue's loader, so a channel fetched once leaves parked jobs unloaded", 1)
	c.Rule("R5", "no spawn request is lost: the only consumers of the spawn-request channel sit in the spawn loop, and every request taken is followed (unless the pool is found closed) by a sizing pass before the next one is taken or the loop ends", 1)
	// worker body: closure started with `go` that receives from jobQueue.GetChannel()
	var body, spawner *ssa.Function
	var goIns *ssa.Go
	for _, f := range p.Funcs {
		if f.Pkg != p.Worker && !(f.Parent() != nil && p.InRepo(f)) {
			continue
		}
		core.Instrs(f, func(ins ssa.Instruction) {
			g, ok := ins.(*ssa.Go)
			if !ok {
				return
			}
			cl := callTarget(p, &g.Call)
			if cl == nil {
				return
			}
			recvJob := false
			core.Instrs(cl, func(i2 ssa.Instruction) {
				if call, isC := i2.(*ssa.Call); isC {
					if h := core.Callee(&call.Call); h != nil && core.FuncName(h) == "fpgo.BufferedChannelQueue.GetChannel" {
						recvJob = true
					}
				}
			})
			if recvJob {
				body, spawner, goIns = cl, f, g
			}
		})
	}
	if body == nil {
		c.Unknown("R1", "worker-body", "-", "no goroutine receiving from the job queue found")
		return
	}
	c.Analysed(core.FuncName(body), core.FuncName(spawner))
	_ = goIns
	// ---------------- R1
	{
		ok, detail := func() (bool, string) {
			// job = value received from the select on GetChannel()
			var sel *ssa.Select
			core.Instrs(body, func(ins ssa.Instruction) {
				if s, isS := ins.(*ssa.Select); isS {
					sel = s
				}
			})
			if sel == nil {
				return false, "worker does not select on the job channel"
			}
			// the call of the received job: in the worker body itself or in a helper it hands the job to
			isJob := func(v ssa.Value, stack []*ssa.Call) bool {
				r, st := core.Up(v, stack)
				ex, isE := core.Resolve(r).(*ssa.Extract)
				return isE && len(st) == 0 && ex.Tuple == ssa.Value(sel)
			}
			var jobCall *ssa.Call
			var jstack []*ssa.Call
			nJobCalls := 0
			for _, f := range core.DeepFind(p, body, func(ins ssa.Instruction) bool {
				switch x := ins.(type) {
				case *ssa.Call:
					return core.Callee(&x.Call) == nil && !x.Call.IsInvoke()
				case *ssa.Go:
					return true
				}
				return false
			}) {
				switch x := f.Ins.(type) {
				case *ssa.Call:
					if isJob(x.Call.Value, f.Stack) {
						jobCall, jstack, nJobCalls = x, f.Stack, nJobCalls+1
					}
				case *ssa.Go:
					if isJob(x.Call.Value, f.Stack) {
						nJobCalls += 100
					}
				}
			}
			if nJobCalls != 1 {
				return false, fmt.Sprintf("the received job is invoked %d times / asynchronously (must be one direct call)", nJobCalls)
			}
			// anchor: the instruction of the worker body that leads to the job call
			anchor := ssa.Instruction(jobCall)
			if len(jstack) > 0 {
				anchor = jstack[0]
			}
			nonNil := false
			blocks := []*ssa.BasicBlock{jobCall.Block()}
			for _, sc := range jstack {
				blocks = append(blocks, sc.Block())
			}
			for bi, bb := range blocks {
				for _, m := range core.EdgeCmps(bb) {
					var stk []*ssa.Call
					if bi == 0 {
						stk = jstack
					} else {
						stk = jstack[:bi-1]
					}
					if m.Op == token.NEQ && core.IsNilConst(m.Y) && isJob(m.X, stk) {
						nonNil = true
					}
				}
			}
			if !nonNil {
				return false, "a nil job (closed queue) would be invoked"
			}
			min, max := core.PathCountIter(anchor.Block(), nil, func(ins ssa.Instruction) int {
				if ins == anchor {
					return 1
				}
				return 0
			}, nil)
			for i := range jstack {
				// inside each helper on the way: the next call / the job call happens exactly once per execution
				h := core.Callee(&jstack[i].Call)
				next := ssa.Instruction(jobCall)
				if i+1 < len(jstack) {
					next = jstack[i+1]
				}
				// the edge on which the job is found nil (closed queue) carries no job: it does not count
				frame := jstack[:i+1]
				nilEdge := func(b, s2 *ssa.BasicBlock) bool {
					for _, cnd := range core.EdgeFactsOn(b, s2) {
						if m, isM := core.AsCmp(cnd); isM && m.Op == token.EQL && core.IsNilConst(m.Y) && isJob(m.X, frame) {
							return true
						}
					}
					return false
				}
				hmin, hmax := core.PathCountEdges(h.Blocks[0], nil, func(ins ssa.Instruction) int {
					if ins == next {
						return 1
					}
					return 0
				}, nilEdge)
				if hmin != 1 || hmax != 1 {
					min, max = 0, hmax
				}
			}
			if min != 1 || max != 1 {
				return false, "the job is not invoked exactly once per receive"
			}
			// recover defer
			var def *ssa.Defer
			core.Instrs(body, func(ins ssa.Instruction) {
				if d, isD := ins.(*ssa.Defer); isD {
					if dt := callTarget(p, &d.Call); dt != nil {
						rec := false
						core.Instrs(dt, func(i2 ssa.Instruction) {
							if call, isC := i2.(*ssa.Call); isC && core.IsBuiltin(&call.Call, "recover") {
								rec = true
							}
						})
						if rec {
							def = d
						}
					}
				}
			})
			if def == nil {
				return false, "no deferred recover() in the job-running goroutine: a panicking job kills the process"
			}
			if !core.InstrDominates(def, anchor) {
				return false, "the recover-defer is registered after the job call on some path"
			}
			exit := callTarget(p, &def.Call)
			// handler call: exactly once on recovered != nil && handler != nil, with the recovered value
			var rec *ssa.Call
			core.Instrs(exit, func(ins ssa.Instruction) {
				if call, isC := ins.(*ssa.Call); isC && core.IsBuiltin(&call.Call, "recover") {
					rec = call
				}
			})
			var hcall *ssa.Call
			n := 0
			core.Instrs(exit, func(ins ssa.Instruction) {
				if call, isC := ins.(*ssa.Call); isC && core.FieldKey(call.Call.Value) == "DefaultWorkerPoolSettings.panicHandler" {
					hcall, n = call, n+1
				}
			})
			if n != 1 || len(hcall.Call.Args) != 1 || hcall.Call.Args[0] != ssa.Value(rec) {
				return false, "the configured panic handler is not called exactly once with the recovered value"
			}
			onPanic, nonNil := false, false
			for _, m := range core.EdgeCmps(hcall.Block()) {
				if m.Op == token.NEQ && core.IsNilConst(m.Y) && m.X == ssa.Value(rec) {
					onPanic = true
				}
				if m.Op == token.NEQ && core.IsNilConst(m.Y) && core.Resolve(m.X) == core.Resolve(hcall.Call.Value) {
					nonNil = true
				}
			}
			if !onPanic {
				return false, "the panic handler is invoked even when nothing was recovered"
			}
			if !nonNil {
				return false, "the configured panic handler is called without being known non-nil: with no handler configured the deferred recover itself panics and the process dies (or the handler is skipped when one is set)"
			}
			return true, "deferred recover before the job call; handler(recovered) once on a panic; job called directly once per receive when non-nil"
		}()
		c.Check(ok, "R1", "worker-body/panic-isolation", p.Pos(body.Pos()), detail, detail)
	}
	// who else invokes jobs: any dynamic call of a func() value obtained from the job queue elsewhere
	// ---------------- R7: every wait for a job goes through GetChannel() again
	{
		ok, detail := func() (bool, string) {
			n := 0
			bad := ""
			core.Instrs(body, func(ins ssa.Instruction) {
				var chans []ssa.Value
				switch x := ins.(type) {
				case *ssa.Select:
					for _, st := range x.States {
						if st.Dir == types.RecvOnly {
							chans = append(chans, st.Chan)
						}
					}
				case *ssa.UnOp:
					if x.Op == token.ARROW {
						chans = append(chans, x.X)
					}
				}
				for _, ch := range chans {
					call, isC := core.Resolve(ch).(*ssa.Call)
					if !isC {
						continue
					}
					if h := core.Callee(&call.Call); h == nil || core.FuncName(h) != "fpgo.BufferedChannelQueue.GetChannel" {
						continue
					}
					n++
					if !core.InLoop(ins.Block()) {
						continue // a single wait outside any loop
					}
					if !core.InLoop(call.Block()) || !core.InstrDominates(call, ins) {
						bad = "the worker waits repeatedly (" + p.InstrPos(ins) + ") on a job channel it fetched once, outside its loop (" + p.InstrPos(call) + "): GetChannel() is also what wakes the queue's loader, so jobs parked in the overflow buffer while all workers are busy are not loaded once submissions stop - accepted jobs never run"
					}
				}
			})
			if n == 0 {
				return false, "no wait on jobQueue.GetChannel() found in the worker body"
			}
			if bad != "" {
				return false, bad
			}
			return true, "each iteration of the worker loop fetches the job channel through GetChannel() (which wakes the queue's loader) before waiting on it"
		}()
		c.Check(ok, "R7", "worker-body/job-wait", p.Pos(body.Pos()), detail, detail)
	}
	// ---------------- R2
	li := core.ComputeLocks(p)
	// every function of the worker package: the pool's methods, and whatever private types its goroutines were moved into
	var wfns []*ssa.Function
	for _, f := range p.Funcs {
		root := f
		for root.Parent() != nil {
			root = root.Parent()
		}
		if root.Pkg == p.Worker {
			wfns = append(wfns, f)
		}
	}
	lockBalance(c, li, "R6", wfns)
	{
		nInc := 0
		for _, f := range p.Funcs {
			core.Instrs(f, func(ins ssa.Instruction) {
				st, ok := ins.(*ssa.Store)
				if !ok || core.FieldKey(st.Addr) != "DefaultWorkerPool.workerCount" {
					return
				}
				b, isB := st.Val.(*ssa.BinOp)
				if !isB || b.Op != token.ADD {
					return
				}
				nInc++
				key := core.FuncName(f) + "/workerCount++"
				fb := core.FieldBase(st.Addr)
				ls := li.At[ins]
				if !ls.Has(fb+".lock", "W") {
					c.Fail("R2", key, p.InstrPos(ins), "worker counter incremented without the exclusive pool lock (held="+ls.String()+"): two spawners can both pass the cap test")
					return
				}
				capOK := false
				for _, m := range core.EdgeCmps(ins.Block()) {
					if m.Op == token.LSS && core.FieldKey(m.X) == "DefaultWorkerPool.workerCount" && core.FieldKey(m.Y) == "DefaultWorkerPoolSettings.workerSizeMaximum" {
						if test, isI := m.X.(ssa.Instruction); isI && li.At[test].Has(fb+".lock", "W") && !unlockBetween(f, test, ins, fb+".lock") {
							capOK = true
							if why := c09sharedSettings(p, m.Y); why != "" {
								c.Fail("R2", "pool-settings/per-instance", p.InstrPos(ins), "the worker maximum is read through "+why+": a setter called on one pool changes the cap of another, which can then run more than its own workerSizeMaximum jobs at once")
							}
						}
					}
				}
				if !capOK {
					c.Fail("R2", key, p.InstrPos(ins), "the increment is not dominated, inside the same lock hold, by workerCount < workerSizeMaximum: more than workerSizeMaximum workers (and jobs) can run at once")
					return
				}
				// followed by exactly one go of the worker body
				min, max := core.PathCountFrom(ins.Block(), ins, func(i2 ssa.Instruction) int {
					if g, isG := i2.(*ssa.Go); isG && callTarget(p, &g.Call) == body {
						return 1
					}
					return 0
				}, nil)
				c.Check(min == 1 && max == 1, "R2", key, p.InstrPos(ins), "under the exclusive lock after workerCount < workerSizeMaximum; exactly one worker spawned", fmt.Sprintf("the increment is followed by %d..%d worker spawns (must be exactly 1): the counter drifts from the number of live workers", min, max))
			})
		}
		if nInc == 0 {
			c.Unknown("R2", "workerCount++", "-", "no increment of the worker counter found")
		}
		// decrement in the deferred exit of the worker body
		var exit *ssa.Function
		core.Instrs(body, func(ins ssa.Instruction) {
			if d, isD := ins.(*ssa.Defer); isD {
				if dt := callTarget(p, &d.Call); dt != nil {
					exit = dt
				}
			}
		})
		if exit == nil {
			c.Unknown("R2", "worker-exit/decrement", p.Pos(body.Pos()), "no deferred exit closure")
		} else {
			c.Analysed(core.FuncName(exit))
			var dec *ssa.Store
			nDec := 0
			core.InstrsDeep(exit, func(_ *ssa.Function, ins ssa.Instruction) {
				if st, ok := ins.(*ssa.Store); ok && core.FieldKey(st.Addr) == "DefaultWorkerPool.workerCount" {
					if b, isB := st.Val.(*ssa.BinOp); isB && b.Op == token.SUB && core.IsIntConst(b.Y, 1) {
						dec, nDec = st, nDec+1
					}
				}
			})
			okD := false
			detail := "the deferred exit does not decrement the worker counter exactly once under the lock"
			if nDec == 1 {
				// the decrement may sit in a closure that a lock wrapper runs once (DeepWeight); locks from the whole-program lockset
				min, max := core.PathCount(exit, core.DeepWeight(p, func(ins ssa.Instruction) int {
					if ins == ssa.Instruction(dec) {
						return 1
					}
					return 0
				}), nil)
				held := false
				for k := range li.At[dec] {
					if len(k) > 7 && k[len(k)-7:] == ".lock:W" {
						held = true
					}
				}
				if min == 1 && max == 1 && held {
					okD, detail = true, "exactly one decrement under the exclusive lock on every exit"
				}
			}
			c.Check(okD, "R2", "worker-exit/decrement", p.Pos(exit.Pos()), detail, detail)
			// ---------------- R3
			paths, okP := core.FeasiblePaths(exit, 5000)
			if !okP || dec == nil {
				c.Unknown("R3", "worker-exit/panic-path", p.Pos(exit.Pos()), "cannot enumerate the exit paths")
			} else {
				var rec *ssa.Call
				core.Instrs(exit, func(ins ssa.Instruction) {
					if call, isC := ins.(*ssa.Call); isC && core.IsBuiltin(&call.Call, "recover") {
						rec = call
					}
				})
				bad := ""
				nPanic := 0
				for _, path := range paths {
					// is this a panic path? takes the true edge of `recovered != nil`
					panicPath := false
					for i := 0; i+1 < len(path); i++ {
						if iff, isIf := path[i].Instrs[len(path[i].Instrs)-1].(*ssa.If); isIf {
							// the edge taken says "recovered value != nil" (however the test is written)
							if m, isM := core.AsCmp(core.Cond{V: iff.Cond, True: path[i].Succs[0] == path[i+1]}); isM && rec != nil && core.Resolve(m.X) == ssa.Value(rec) && core.IsNilConst(m.Y) && m.Op == token.NEQ {
								panicPath = true
							}
						}
					}
					if !panicPath {
						continue
					}
					nPanic++
					seenDec, woke := false, false
					for _, b := range path {
						for _, ins := range b.Instrs {
							if core.ContainsDeep(p, ins, dec) {
								seenDec = true
							}
							if call, isC := ins.(*ssa.Call); isC && seenDec && len(call.Call.Args) > 0 {
								if c09wakes(p, &call.Call, 0) {
									woke = true
								}
								if g := core.Callee(&call.Call); g != nil && core.FuncName(g) == "worker.DefaultWorkerPool.notifyWorkers" {
									// conditional notifier: acceptable only if its condition includes queued jobs; treated as a wake-up
									woke = true
								}
							}
						}
					}
					if !woke {
						bad = "a path on which a panic was recovered ends without posting on spawnWorkerCh after the decrement"
					}
				}
				c.Check(bad == "" && nPanic > 0, "R3", "worker-exit/panic-path", p.Pos(exit.Pos()), fmt.Sprintf("%d feasible panic paths, each posts a spawn-loop wake-up after the decrement", nPanic), bad+": jobs already accepted are not run until the next Schedule (with workerSizeMaximum 1 the pool stalls)")
			}
		}
	}
	// ---------------- R5 consumers of the spawn-request channel
	{
		isReq := func(v ssa.Value) bool { return core.FieldKey(v) == "DefaultWorkerPool.spawnWorkerCh" }
		type consumer struct {
			fn  *ssa.Function
			ins ssa.Instruction
		}
		var cons []consumer
		for _, f := range p.Funcs {
			if !p.InRepo(f) {
				continue
			}
			core.Instrs(f, func(ins ssa.Instruction) {
				switch x := ins.(type) {
				case *ssa.UnOp:
					if x.Op == token.ARROW && isReq(chanOf(x.X)) {
						cons = append(cons, consumer{f, ins})
					}
				case *ssa.Select:
					for _, st := range x.States {
						if st.Dir == types.RecvOnly && isReq(chanOf(st.Chan)) {
							cons = append(cons, consumer{f, ins})
						}
					}
				case *ssa.Call:
					if len(x.Call.Args) > 0 && isReq(x.Call.Args[0]) {
						if g := core.Callee(&x.Call); g != nil && chanReceives(g) {
							cons = append(cons, consumer{f, ins})
						}
					}
				case *ssa.Range:
					if isReq(chanOf(x.X)) {
						cons = append(cons, consumer{f, ins})
					}
				}
			})
		}
		// a sizing pass = a call that can reach the function which starts workers
		spawnRoot := spawner
		for spawnRoot != nil && spawnRoot.Parent() != nil {
			spawnRoot = spawnRoot.Parent()
		}
		reaches := map[*ssa.Function]bool{}
		isSizing := func(g *ssa.Function) bool {
			if g == nil || !p.InRepo(g) {
				return false
			}
			if v, ok := reaches[g]; ok {
				return v
			}
			reaches[g] = g == spawnRoot || core.Reachable(p, g)[spawnRoot]
			return reaches[g]
		}
		if len(cons) == 0 || spawnRoot == nil {
			c.Unknown("R5", "spawn-requests", "-", "no consumer of the spawn-request channel / no sizing pass found")
		} else {
			isCons := map[ssa.Instruction]bool{}
			for _, k := range cons {
				isCons[k.ins] = true
			}
			for i, k := range cons {
				key := fmt.Sprintf("%s/take#%d", core.FuncName(k.fn), i+1)
				base := ""
				if len(k.fn.Params) > 0 {
					base = k.fn.Params[0].Name()
				}
				closed := flagEdge(p, base, "isClosed", true)
				skip := func(b, s2 *ssa.BasicBlock) bool {
					if closed(b, s2) {
						return true
					}
					// the channel-closed edge of `v, ok := <-ch`
					if iff, ok := b.Instrs[len(b.Instrs)-1].(*ssa.If); ok && len(b.Succs) == 2 {
						if ex, isE := iff.Cond.(*ssa.Extract); isE && ex.Index == 1 && ex.Tuple == k.ins.(ssa.Value) && b.Succs[1] == s2 {
							return true
						}
					}
					return false
				}
				ok, bad := core.MustPassBefore(k.ins, func(ins ssa.Instruction) bool {
					if call, isC := ins.(*ssa.Call); isC && isSizing(core.Callee(&call.Call)) {
						return true
					}
					// the sizing pass written out in place: the decision `workerCount < expected` that guards the spawn calls
					if iff, isIf := ins.(*ssa.If); isIf {
						if b, isB := iff.Cond.(*ssa.BinOp); isB && (core.FieldKey(b.X) == "DefaultWorkerPool.workerCount" || core.FieldKey(b.Y) == "DefaultWorkerPool.workerCount") {
							guards := false
							core.Instrs(ins.Parent(), func(i2 ssa.Instruction) {
								if call, isC := i2.(*ssa.Call); isC && isSizing(core.Callee(&call.Call)) && iff.Block().Dominates(call.Block()) {
									guards = true
								}
							})
							return guards
						}
					}
					return false
				}, func(ins ssa.Instruction) bool { return isCons[ins] }, skip)
				where := ""
				if bad != nil {
					where = p.InstrPos(bad)
				}
				c.Check(ok, "R5", key, p.InstrPos(k.ins), "the request taken here is followed by a sizing pass before the next take / the end of the loop", "a spawn request taken here can be dropped: "+where+" is reached without a sizing pass (a worker killed by a panicking job, or a job accepted meanwhile, is then never given a worker)")
			}
		}
	}
	// ---------------- R4
	sched := p.Method(p.Worker, "DefaultWorkerPool", "Schedule")
	if sched == nil {
		c.Unknown("R4", "DefaultWorkerPool.Schedule", "-", "method not found")
	} else {
		c.Analysed(core.FuncName(sched))
		ok, detail := func() (bool, string) {
			fn := sched.Params[1]
			var offer *ssa.Call
			bad := ""
			for _, r := range *fn.Referrers() {
				switch x := r.(type) {
				case *ssa.Call:
					g := core.Callee(&x.Call)
					if x.Call.Value == ssa.Value(fn) {
						bad = "Schedule invokes the job itself at " + p.InstrPos(x)
					} else if g != nil && core.FuncName(g) == "fpgo.BufferedChannelQueue.Offer" && core.FieldKey(x.Call.Args[0]) == "DefaultWorkerPool.jobQueue" {
						offer = x
					} else {
						bad = "the job is handed to something other than the job queue's Offer at " + p.InstrPos(x)
					}
				case *ssa.Go, *ssa.Defer:
					bad = "Schedule starts the job itself at " + p.InstrPos(x)
				case *ssa.DebugRef:
				default:
					bad = "the job escapes at " + p.InstrPos(x)
				}
			}
			if bad != "" {
				return false, bad + ": a rejected job may run, or an accepted one run twice"
			}
			if offer == nil {
				return false, "Schedule does not offer the job to the job queue"
			}
			// the spawn loop is told about the accepted job: a wake-up deferred before the offer, or posted after it
			// on every path that accepted the job
			isWake := func(cc *ssa.CallCommon) bool { return c09wakes(p, cc, 0) }
			woken := false
			core.Instrs(sched, func(ins ssa.Instruction) {
				if d, isD := ins.(*ssa.Defer); isD && isWake(&d.Call) && core.InstrDominates(d, offer) {
					woken = true
				}
			})
			if !woken {
				min, _ := core.PathCountFrom(offer.Block(), offer, func(ins ssa.Instruction) int {
					if call, isC := ins.(*ssa.Call); isC && isWake(&call.Call) {
						return 1
					}
					return 0
				}, func(b *ssa.BasicBlock) bool {
					// paths on which the offer failed need no wake-up
					for _, m := range core.EdgeCmps(b) {
						if core.Resolve(m.X) == ssa.Value(offer) && (m.Op == token.NEQ && core.IsNilConst(m.Y) || m.Op == token.EQL && !core.IsNilConst(m.Y)) {
							return true
						}
					}
					return false
				})
				woken = min >= 1
			}
			if !woken {
				return false, "Schedule does not wake the spawn loop after offering the job: with no idle worker alive the accepted job is never given a worker"
			}
			// result mapping
			fullOK, passOK := false, false
			// (value returned, comparisons known, the value standing for the offer's result) - in Schedule itself, or in
			// a private translation helper the offer's result is handed to (`return fromQueueErr(q.Offer(fn))`)
			type retCase struct {
				v    ssa.Value
				cmps []core.Cmp
				subj ssa.Value
			}
			var cases []retCase
			for _, rc := range core.ReturnCases(sched) {
				v := core.Resolve(rc.Vals[0])
				if hc, isHC := v.(*ssa.Call); isHC && hc != offer {
					if h := core.Callee(&hc.Call); h != nil && p.InRepo(h) && len(h.Blocks) > 0 && h.Object() != nil && !h.Object().Exported() {
						pi := -1
						for i, a := range hc.Call.Args {
							if core.Resolve(a) == ssa.Value(offer) && i < len(h.Params) {
								pi = i
							}
						}
						if pi >= 0 {
							for _, rc2 := range core.ReturnCases(h) {
								cases = append(cases, retCase{core.Resolve(rc2.Vals[0]), rc2.Cmps(), h.Params[pi]})
							}
							continue
						}
					}
				}
				cases = append(cases, retCase{v, rc.Cmps(), offer})
			}
			for _, rc := range cases {
				v := rc.v
				offer := rc.subj
				isFullEdge, isNotFullEdge := false, false
				for _, m := range rc.cmps {
					if core.Resolve(m.X) == ssa.Value(offer) && core.GlobalName(m.Y) == "ErrQueueIsFull" {
						if m.Op == token.EQL {
							isFullEdge = true
						} else if m.Op == token.NEQ {
							isNotFullEdge = true
						}
					}
				}
				if isFullEdge && core.GlobalName(v) == "ErrWorkerPoolJobQueueIsFull" {
					fullOK = true
				}
				if isNotFullEdge && v == ssa.Value(offer) {
					passOK = true
				}
				if isFullEdge && v == ssa.Value(offer) {
					fullOK = false
					passOK = false
					break // the queue's own "full" sentinel leaks out
				}
			}
			if !fullOK || !passOK {
				return false, fmt.Sprintf("result mapping broken: ErrQueueIsFull→ErrWorkerPoolJobQueueIsFull=%v, other results passed through=%v (a rejected job could be reported as accepted)", fullOK, passOK)
			}
			return true, "job only offered to the queue; full → ErrWorkerPoolJobQueueIsFull; other results passed through"
		}()
		c.Check(ok, "R4", "DefaultWorkerPool.Schedule", p.Pos(sched.Pos()), detail, detail)
	}
	swtDecl := p.Method(p.Worker, "DefaultWorkerPool", "ScheduleWithTimeout")
	if swtDecl != nil {
		swtDecl = core.SameParamsImpl(p, swtDecl) // `ScheduleWithTimeout(fn, d)` may be `Schedule…General(fn, d, 0)`
	}
	if swt := swtDecl; swt == nil || sched == nil {
		c.Unknown("R4", "DefaultWorkerPool.ScheduleWithTimeout", "-", "method not found")
	} else {
		c.Analysed(core.FuncName(swt))
		bad := ""
		group := map[*ssa.Function]bool{}
		for _, g := range core.Group(p, swt) {
			group[g] = true
		}
		job := ssa.Value(swt.Params[1])
		core.InstrsGroup(p, swt, func(fn *ssa.Function, ins ssa.Instruction) {
			switch x := ins.(type) {
			case *ssa.Call:
				if core.ResolveIP(p, x.Call.Value) == job {
					bad = "invokes the job itself"
				}
			case *ssa.Go:
				bad = "starts a goroutine"
			case *ssa.Return:
				if x.Block() == fn.Recover || fn.Signature.Results().Len() == 0 {
					return
				}
				if fn != swt && !returnedToRoot(p, swt, x) {
					return // a helper whose result is not what ScheduleWithTimeout returns (e.g. the retry interval)
				}
				for _, rc := range core.ReturnCases(fn) {
					if rc.Ret != x {
						continue
					}
					v := core.Resolve(rc.Vals[len(rc.Vals)-1])
					switch {
					case core.GlobalName(v) == "ErrWorkerPoolIsClosed":
					case core.GlobalName(v) == "ErrWorkerPoolScheduleTimeout":
						// after the deadline test
						okT := false
						for _, cnd := range rc.Facts {
							n := core.Normalize(cnd)
							if call, isC := n.V.(*ssa.Call); isC && core.StdCallee(&call.Call) == "time.(Time).After" && n.True {
								okT = true
							}
						}
						if !okT {
							bad = "returns ErrWorkerPoolScheduleTimeout without the deadline having passed"
						}
					default:
						okS := false
						if call, isC := v.(*ssa.Call); isC && (core.Callee(&call.Call) == sched || group[core.Callee(&call.Call)] && core.Callee(&call.Call) != fn) {
							okS = true // Schedule's result, or the result of a helper of the group (its own returns are checked)
						}
						if phi, isPhi := v.(*ssa.Phi); isPhi {
							okS = true
							for _, e := range phi.Edges {
								if call, isC := core.Resolve(e).(*ssa.Call); !isC || core.Callee(&call.Call) != sched {
									okS = false
								}
							}
						}
						// a nil returned where a result of Schedule is known to be nil is that result
						if core.IsNilConst(v) {
							for _, m := range rc.Cmps() {
								if call, isC := core.Resolve(m.X).(*ssa.Call); isC && core.Callee(&call.Call) == sched && m.Op == token.EQL && core.IsNilConst(m.Y) {
									okS = true
								}
							}
						}
						if !okS {
							bad = "returns a value that is not a result of Schedule at " + p.InstrPos(x)
						}
					}
				}
			}
		})
		// every Schedule call passes the same job
		core.InstrsGroup(p, swt, func(_ *ssa.Function, ins ssa.Instruction) {
			if call, isC := ins.(*ssa.Call); isC && core.Callee(&call.Call) == sched && core.ResolveIP(p, call.Call.Args[1]) != job {
				bad = "retries with a different job"
			}
		})
		c.Check(bad == "", "R4", "DefaultWorkerPool.ScheduleWithTimeout", p.Pos(swt.Pos()), "returns only Schedule's results, ErrWorkerPoolIsClosed, or the timeout error after the deadline", "ScheduleWithTimeout "+bad)
	}
	for _, name := range []string{"Invoke", "InvokeWithTimeout"} {
		f := p.Method(p.Worker, "DefaultInvokable", name)
		if f == nil {
			c.Unknown("R4", "DefaultInvokable."+name, "-", "method not found")
			continue
		}
		c.Analysed(core.FuncName(f))
		f = core.SameParamsImpl(p, f) // `Invoke(v)` may only hand v on (`TryInvoke(v)`, result dropped)
		// the closure is handed to the pool's Schedule*/ exactly once
		nS := 0
		var job *core.BoundClosure
		core.Instrs(f, func(ins ssa.Instruction) {
			if call, isC := ins.(*ssa.Call); isC && call.Call.IsInvoke() && (call.Call.Method.Name() == "Schedule" || call.Call.Method.Name() == "ScheduleWithTimeout") {
				nS++
				if len(call.Call.Args) > 0 {
					job = core.ResolveClosure(p, call.Call.Args[0])
				}
			}
		})
		if job == nil {
			c.Unknown("R4", "DefaultInvokable."+name, p.Pos(f.Pos()), "the job handed to Schedule is not a closure built here or by a closure factory")
			continue
		}
		cl := job.Fn
		min, max := core.PathCount(cl, func(ins ssa.Instruction) int {
			if call, isC := ins.(*ssa.Call); isC && core.Callee(&call.Call) == nil && !call.Call.IsInvoke() {
				return 1
			}
			return 0
		}, nil)
		argOK := false
		core.Instrs(cl, func(ins ssa.Instruction) {
			if call, isC := ins.(*ssa.Call); isC && core.Callee(&call.Call) == nil && len(call.Call.Args) == 1 {
				if b := job.Bind[core.Path(call.Call.Args[0])]; b != nil && b == core.Resolve(ssa.Value(f.Params[1])) {
					argOK = true
				}
			}
		})
		c.Check(min == 1 && max == 1 && argOK && nS == 1, "R4", "DefaultInvokable."+name, p.Pos(f.Pos()), "schedules one job that calls callee(val) exactly once", fmt.Sprintf("the scheduled job calls the callee %d..%d times / not with val (%v) / scheduled %d times", min, max, argOK, nS))
	}
}


// c09wakes: the call posts a spawn-loop wake-up - a send on the pool's spawn-request channel, or a method of the pool that
// does so on every one of its paths (a `wakeSpawnLoop()` helper).
func c09wakes(p *core.Prog, cc *ssa.CallCommon, depth int) bool {
	if len(cc.Args) == 0 {
		return false
	}
	g := core.Callee(cc)
	if core.FieldKey(cc.Args[0]) == "DefaultWorkerPool.spawnWorkerCh" {
		return g != nil && chanSends(g)
	}
	if g == nil || depth > 2 || g.Pkg != p.Worker || g.Signature.Recv() == nil || len(g.Blocks) == 0 {
		return false
	}
	min, _ := core.PathCount(g, func(ins ssa.Instruction) int {
		if ci, ok := ins.(ssa.CallInstruction); ok {
			if _, isGo := ins.(*ssa.Go); !isGo && c09wakes(p, ci.Common(), depth+1) {
				return 1
			}
		}
		return 0
	}, nil)
	return min >= 1
}


// c09sharedSettings: v reads a settings field of the pool. Returns "" when the field lives in the pool object itself (or
// behind a pointer that is only ever assigned objects freshly allocated for that pool), else a description of the
// sharing.
func c09sharedSettings(p *core.Prog, v ssa.Value) string {
	ld, ok := core.Unwrap(v).(*ssa.UnOp)
	if !ok || ld.Op != token.MUL {
		return ""
	}
	x := ld.X
	for depth := 0; depth < 6; depth++ {
		switch y := x.(type) {
		case *ssa.FieldAddr:
			x = y.X
			continue
		case *ssa.UnOp:
			if y.Op != token.MUL {
				return ""
			}
			pf, isFA := y.X.(*ssa.FieldAddr)
			if !isFA {
				return ""
			}
			key := core.FieldKey(pf)
			var fresh func(val ssa.Value, depth int) bool
			fresh = func(val ssa.Value, depth int) bool {
				val = core.Resolve(val)
				switch z := val.(type) {
				case *ssa.Alloc:
					return true
				case *ssa.Phi:
					for _, e := range z.Edges {
						if !fresh(e, depth+1) {
							return false
						}
					}
					return true
				case *ssa.Call:
					g := core.Callee(&z.Call)
					if g == nil || !p.InRepo(g) || len(g.Blocks) == 0 || depth > 2 {
						return false
					}
					okAll, n := true, 0
					core.Instrs(g, func(ins ssa.Instruction) {
						if r, isR := ins.(*ssa.Return); isR && r.Block() != g.Recover && len(r.Results) == 1 {
							n++
							if !fresh(r.Results[0], depth+1) {
								okAll = false
							}
						}
					})
					return okAll && n > 0
				}
				return false
			}
			bad := ""
			for _, f := range p.Funcs {
				core.Instrs(f, func(ins ssa.Instruction) {
					if st, isS := ins.(*ssa.Store); isS && core.FieldKey(st.Addr) == key && !fresh(st.Val, 0) {
						bad = "the pointer " + key + ", which " + core.FuncName(f) + " sets to an object that is not allocated for this pool (" + p.InstrPos(ins) + ")"
					}
				})
			}
			return bad
		}
		return ""
	}
	return ""
}
