package rules

import (
	"fmt"
	"go/constant"
	"go/token"
	"go/types"
	"math/big"
	"sort"
	"strings"

	"fpcheck/internal/core"

	"golang.org/x/tools/go/ssa"
)

func init() {
	register(&Prop{
		ID: "C02",
		Explanation: "Interval abstract interpretation, path by path, of every numeric conversion method of the Maybe implementation (15 methods with a type switch x 15 source clauses + ToUint8 delegating). " +
			"Every acyclic path from the type-switch clause to a return is evaluated with exact big-number intervals refined by the branch conditions taken (NaN- and Inf-aware; constants rounded to their float type exactly as the compiler does). " +
			"R2 (soundness): at every return whose error may be nil the returned value must be provably the source value: a chain of conversions each of which fits its target under the path's guards, float→integer only after math.Round, float64→float32 only within ±MaxFloat32 (or ±Inf/NaN); bool sources map to 1/0; the delegation graph between (method, source) pairs is acyclic so the argument is inductive. " +
			"R3 (completeness): the source region of every definitely-failing path must not meet the must-succeed set (target range; portable 32-bit range for int/uint/uintptr), including failures inherited from delegates and from strconv parse widths. R1: all switches have the same clause set and an unsupported default. R4: ToBool of a number is value != 0.",
		Trusted: append([]string{"model of strconv.ParseInt/ParseUint/ParseFloat/Atoi/ParseBool result ranges given err == nil", "math.Round = round half away from zero", "64-bit types.Sizes (the package does not compile for 32-bit targets)"}, commonTrusted...),
		Run:     runC02,
	})
}

var c02Sources = []string{"string", "bool", "uint", "uint8", "uint16", "uint32", "uint64", "uintptr", "int", "int8", "int16", "int32", "int64", "float32", "float64"}

type c02group struct {
	method, source string
	pos            string
	nReturns       int
	problems       []string  // R2
	fail           []core.AV // failing source regions (R3)
	failDesc       []string
	delegates      []string // "Method/source" keys whose failure is passed through
	parse          *core.AV // parse range for string sources (nil = none)
	parseDesc      string
	boolProblems   []string
}

type c02eval struct {
	c       *core.Ctx
	f       *ssa.Function
	path    []*ssa.BasicBlock
	refined map[ssa.Value]core.AV
	caseT   types.Type
	srcRoot ssa.Value
	srcCall *ssa.Call
	srcKind string // "delegate:<M>", "parse:<fn>", "assert"
	boolTaken map[ssa.Value]bool
	notes   []string
	// pure helpers inlined on this path (one callee path each)
	frames     map[*ssa.Call]*c02frame
	byFn       map[*ssa.Function]*c02frame
	infeasible bool
}

// c02frame is one path through a pure helper called on the analysed path.
type c02frame struct {
	call   *ssa.Call
	callee *ssa.Function
	path   []*ssa.BasicBlock
	ret    []ssa.Value
}

// c02inlinable: a repo helper whose body is loop-free arithmetic/comparison over its parameters
// (no stores to shared state, no calls except math predicates and other such helpers), so that one
// of its paths can be spliced into the caller's path.
func c02inlinable(p *core.Prog, g *ssa.Function, depth int) bool {
	if g == nil || !p.InRepo(g) || len(g.Blocks) == 0 || depth > 3 {
		return false
	}
	for _, fv := range g.FreeVars {
		// captured variables may only be read
		if fv.Referrers() == nil {
			continue
		}
		for _, r := range *fv.Referrers() {
			switch x := r.(type) {
			case *ssa.UnOp:
				if x.Op != token.MUL {
					return false
				}
			case *ssa.DebugRef:
			default:
				return false
			}
		}
	}
	if g.Signature.Recv() != nil {
		return false
	}
	ok := true
	core.Instrs(g, func(ins ssa.Instruction) {
		switch x := ins.(type) {
		case *ssa.BinOp, *ssa.Convert, *ssa.MultiConvert, *ssa.ChangeType, *ssa.Phi, *ssa.If, *ssa.Jump, *ssa.Return, *ssa.DebugRef, *ssa.Extract:
		case *ssa.UnOp:
			if x.Op == token.MUL {
				switch x.X.(type) {
				case *ssa.Global, *ssa.Alloc, *ssa.FreeVar:
				default:
					ok = false
				}
			}
		case *ssa.Alloc:
			if x.Heap {
				ok = false
			}
		case *ssa.Store:
			if _, isA := x.Addr.(*ssa.Alloc); !isA {
				ok = false
			}
		case *ssa.Call:
			switch core.StdCallee(&x.Call) {
			case "math.IsInf", "math.IsNaN", "math.Round":
			default:
				if h := core.Callee(&x.Call); h == g || !c02inlinable(p, h, depth+1) {
					ok = false
				}
			}
		default:
			ok = false
		}
		if core.InLoop(ins.Block()) {
			ok = false
		}
	})
	return ok
}

// c02expand enumerates, for the calls of inlinable helpers met along blocks, every combination of one path per helper call.
func c02expand(p *core.Prog, blocks []*ssa.BasicBlock, depth int) [][]*c02frame {
	combos := [][]*c02frame{nil}
	for _, b := range blocks {
		for _, ins := range b.Instrs {
			call, ok := ins.(*ssa.Call)
			if !ok {
				continue
			}
			g := core.Callee(&call.Call)
			if g == nil && !call.Call.IsInvoke() {
				// a local closure called through the variable that holds it
				if mc, isMC := core.Resolve(call.Call.Value).(*ssa.MakeClosure); isMC {
					g = mc.Fn.(*ssa.Function)
				}
			}
			if !c02inlinable(p, g, depth) {
				continue
			}
			paths, okP := c02paths(g, 64)
			if !okP {
				continue
			}
			var next [][]*c02frame
			for _, cp := range paths {
				last := cp[len(cp)-1]
				ret := core.RetVals(last.Instrs[len(last.Instrs)-1].(*ssa.Return))
				fr := &c02frame{call: call, callee: g, path: cp, ret: ret}
				for _, sub := range c02expand(p, cp, depth+1) {
					for _, c0 := range combos {
						n := append(append(append([]*c02frame{}, c0...), fr), sub...)
						next = append(next, n)
					}
				}
			}
			combos = next
			if len(combos) > 4096 {
				return [][]*c02frame{nil}
			}
		}
	}
	return combos
}

func (e *c02eval) setFrames(frs []*c02frame) {
	e.frames, e.byFn = map[*ssa.Call]*c02frame{}, map[*ssa.Function]*c02frame{}
	dup := map[*ssa.Function]bool{}
	for _, fr := range frs {
		if e.byFn[fr.callee] != nil {
			dup[fr.callee] = true
		}
		e.byFn[fr.callee] = fr
	}
	for _, fr := range frs {
		if !dup[fr.callee] {
			e.frames[fr.call] = fr
		}
	}
	for g := range dup {
		delete(e.byFn, g)
	}
}

// deref maps a value to what it denotes on this path: a parameter of an inlined helper to the actual
// argument, the result of an inlined call to the value its chosen path returns, a phi to its edge on the path.
func (e *c02eval) deref(v ssa.Value) ssa.Value {
	for i := 0; i < 30; i++ {
		switch x := v.(type) {
		case *ssa.Parameter:
			if fr := e.byFn[x.Parent()]; fr != nil {
				done := false
				for k, prm := range x.Parent().Params {
					if prm == x && k < len(fr.call.Call.Args) {
						v, done = fr.call.Call.Args[k], true
					}
				}
				if done {
					continue
				}
			}
		case *ssa.Call:
			if fr := e.frames[x]; fr != nil && len(fr.ret) == 1 {
				v = fr.ret[0]
				continue
			}
		case *ssa.Extract:
			if call, ok := x.Tuple.(*ssa.Call); ok {
				if fr := e.frames[call]; fr != nil && x.Index < len(fr.ret) {
					v = fr.ret[x.Index]
					continue
				}
			}
		case *ssa.Phi:
			if pb := e.predOf(x.Block()); pb != nil {
				done := false
				for k, q := range x.Block().Preds {
					if q == pb {
						v, done = x.Edges[k], true
					}
				}
				if done {
					continue
				}
			}
		case *ssa.UnOp:
			if x.Op == token.MUL {
				if fv, isFV := x.X.(*ssa.FreeVar); isFV {
					// variable captured by an inlined local closure: the value its cell holds in the enclosing function
					var bound ssa.Value
					if fr := e.byFn[fv.Parent()]; fr != nil {
						if mc, isMC := core.Resolve(fr.call.Call.Value).(*ssa.MakeClosure); isMC {
							for k, f2 := range fv.Parent().FreeVars {
								if f2 == fv && k < len(mc.Bindings) {
									if a, isA := mc.Bindings[k].(*ssa.Alloc); isA {
										if st := core.Stores(a); len(st) == 1 {
											bound = st[0].Val
										}
									}
								}
							}
						}
					}
					if bound != nil {
						v = bound
						continue
					}
				}
				if a, isA := x.X.(*ssa.Alloc); isA && e.byFn[a.Parent()] != nil {
					if s := core.LoadSource(x); s != nil {
						v = s
						continue
					}
				}
			}
		}
		return v
	}
	return v
}

// walk applies the branch decisions of a block sequence (and, in program order, those of the helper
// paths inlined at its calls) to the abstract state.
func (e *c02eval) walk(blocks []*ssa.BasicBlock, skip map[*ssa.If]types.Type) {
	for i, b := range blocks {
		for _, ins := range b.Instrs {
			if call, ok := ins.(*ssa.Call); ok {
				if fr := e.frames[call]; fr != nil {
					e.walk(fr.path, nil)
				}
			}
		}
		if i+1 >= len(blocks) {
			break
		}
		if iff, ok := b.Instrs[len(b.Instrs)-1].(*ssa.If); ok {
			if _, isClause := skip[iff]; isClause {
				continue
			}
			e.take(iff.Cond, b.Succs[0] == blocks[i+1])
		}
	}
}

func c02mustRange(t types.Type) core.AV {
	b := t.Underlying().(*types.Basic)
	switch b.Kind() {
	case types.Int:
		return core.AV{Lo: core.BI(new(big.Int).Neg(core.Pow2(31))), Hi: core.BI(new(big.Int).Sub(core.Pow2(31), big.NewInt(1)))}
	case types.Uint, types.Uintptr:
		return core.AV{Lo: core.BF(0), Hi: core.BI(new(big.Int).Sub(core.Pow2(32), big.NewInt(1)))}
	case types.Float32:
		m := core.MaxFloat(true)
		return core.AV{Lo: new(big.Float).Neg(m), Hi: m}
	case types.Float64:
		return core.AV{Lo: core.NInf(), Hi: core.PInf()}
	}
	r, _ := core.TypeRange(t)
	return r
}

// isRecv reports whether v denotes the method's receiver (value receivers are spilled to an alloc).
func c02isRecv(f *ssa.Function, v ssa.Value) bool {
	v = core.Unwrap(v)
	if v == ssa.Value(f.Params[0]) {
		return true
	}
	if s := core.LoadSource(v); s != nil {
		return s == ssa.Value(f.Params[0])
	}
	return false
}

// isRef reports whether v is the wrapped value (field ref of the receiver), possibly boxed into interface{}.
func c02isRef(f *ssa.Function, v ssa.Value) bool {
	v = core.Resolve(v)
	if core.FieldKey(v) == "someDef.ref" {
		return true
	}
	return false
}

func (e *c02eval) classifySource(x *ssa.Extract) (core.AV, bool) {
	call, ok := x.Tuple.(*ssa.Call)
	if !ok || x.Index != 0 {
		return core.AV{}, false
	}
	name := core.StdCallee(&call.Call)
	isStrSrc := func(v ssa.Value) bool {
		v = core.Resolve(v)
		if ta := core.AssertOf(v); ta != nil && c02isRef(e.f, ta.X) && types.Identical(ta.AssertedType, types.Typ[types.String]) {
			return true
		}
		if c, ok := v.(*ssa.Call); ok {
			if g := core.Callee(&c.Call); g != nil && core.FuncName(g) == "fpgo.someDef.ToString" && c02isRecv(e.f, c.Call.Args[0]) {
				return true
			}
		}
		return false
	}
	intRange := func(bits uint, signed bool) core.AV {
		if bits == 0 {
			bits = 64
		}
		if signed {
			return core.AV{Lo: core.BI(new(big.Int).Neg(core.Pow2(bits - 1))), Hi: core.BI(new(big.Int).Sub(core.Pow2(bits-1), big.NewInt(1))), Integral: true, Src: true}
		}
		return core.AV{Lo: core.BF(0), Hi: core.BI(new(big.Int).Sub(core.Pow2(bits), big.NewInt(1))), Integral: true, Src: true}
	}
	switch name {
	case "strconv.Atoi":
		if isStrSrc(call.Call.Args[0]) {
			e.setSrc(x, call, "parse:Atoi")
			return intRange(64, true), true
		}
	case "strconv.ParseInt", "strconv.ParseUint":
		if isStrSrc(call.Call.Args[0]) && core.IsIntConst(call.Call.Args[1], 10) {
			if k, ok := call.Call.Args[2].(*ssa.Const); ok {
				e.setSrc(x, call, fmt.Sprintf("parse:%s/%d", strings.TrimPrefix(name, "strconv."), k.Int64()))
				return intRange(uint(k.Int64()), name == "strconv.ParseInt"), true
			}
		}
	case "strconv.ParseFloat":
		if isStrSrc(call.Call.Args[0]) {
			if k, ok := call.Call.Args[1].(*ssa.Const); ok {
				e.setSrc(x, call, fmt.Sprintf("parse:ParseFloat/%d", k.Int64()))
				r := core.AV{Lo: core.NInf(), Hi: core.PInf(), NaN: true, Src: true}
				if k.Int64() == 32 {
					// with err == nil the float64 result is exactly representable as float32 (or ±Inf/NaN from the literal)
					r.InfOnly = false
					e.notes = append(e.notes, "ParseFloat/32 result is float32-representable")
					r.Why = "f32rep"
				}
				return r, true
			}
		}
	case "strconv.ParseBool":
		if isStrSrc(call.Call.Args[0]) {
			e.setSrc(x, call, "parse:ParseBool")
			return core.AV{Bool: true, Src: true}, true
		}
	}
	// delegate: another conversion method of the same receiver
	g := core.Callee(&call.Call)
	if g != nil && g.Signature.Recv() != nil && strings.HasPrefix(core.FuncName(g), "fpgo.someDef.To") && len(call.Call.Args) == 1 && c02isRecv(e.f, call.Call.Args[0]) {
		e.setSrc(x, call, "delegate:"+g.Name())
		if e.caseT == nil {
			return core.AV{}, false
		}
		if b, ok := e.caseT.Underlying().(*types.Basic); ok && b.Kind() == types.Bool {
			return core.AV{Bool: true, Src: true}, true
		}
		sr, ok := core.TypeRange(e.caseT)
		if !ok {
			// string source delegated to a numeric method: the callee parses
			rr, ok2 := core.TypeRange(x.Type())
			if !ok2 {
				return core.AV{}, false
			}
			rr.Src = true
			return rr, true
		}
		if rr, ok2 := core.TypeRange(x.Type()); ok2 && !core.IsFloat(x.Type()) && !core.IsFloat(e.caseT) {
			sr = sr.MeetLo(rr.Lo, false).MeetHi(rr.Hi, false)
		}
		sr.Src = true
		return sr, true
	}
	return core.AV{}, false
}

func (e *c02eval) setSrc(x ssa.Value, call *ssa.Call, kind string) {
	if e.srcRoot == nil {
		e.srcRoot, e.srcCall, e.srcKind = x, call, kind
	}
}

func (e *c02eval) predOf(b *ssa.BasicBlock) *ssa.BasicBlock {
	path := e.path
	if b.Parent() != e.f {
		fr := e.byFn[b.Parent()]
		if fr == nil {
			return nil
		}
		path = fr.path
	}
	for i, pb := range path {
		if pb == b && i > 0 {
			return path[i-1]
		}
	}
	return nil
}

func (e *c02eval) eval(v ssa.Value) core.AV {
	v = e.deref(v)
	if r, ok := e.refined[v]; ok {
		return r
	}
	unknown := func(why string) core.AV {
		if r, ok := core.TypeRange(v.Type()); ok {
			r.Why = why
			return r
		}
		return core.AV{Lo: core.NInf(), Hi: core.PInf(), NaN: true, Why: why}
	}
	switch x := v.(type) {
	case *ssa.Const:
		if a, ok := core.ConstAV(x); ok {
			return a
		}
		return unknown("constant")
	case *ssa.Extract:
		if ta := core.AssertOf(x); ta != nil {
			// the variable bound by the type-switch clause
			if c02isRef(e.f, ta.X) && e.caseT != nil && types.Identical(ta.AssertedType, e.caseT) {
				e.setSrc(x, nil, "assert")
				if b, ok := e.caseT.Underlying().(*types.Basic); ok && b.Kind() == types.Bool {
					return core.AV{Bool: true, Src: true}
				}
				if r, ok := core.TypeRange(e.caseT); ok {
					r.Src = true
					return r
				}
			}
			return unknown("type assertion that is not the clause's own source")
		}
		if a, ok := e.classifySource(x); ok {
			return a
		}
		return unknown("result of a call that is not a recognised source (delegated conversion of the same receiver / strconv parse of the wrapped string)")
	case *ssa.TypeAssert:
		if !x.CommaOk && c02isRef(e.f, x.X) && e.caseT != nil && types.Identical(x.AssertedType, e.caseT) {
			e.setSrc(x, nil, "assert")
			if b, ok := e.caseT.Underlying().(*types.Basic); ok && b.Kind() == types.Bool {
				return core.AV{Bool: true, Src: true}
			}
			r, ok := core.TypeRange(e.caseT)
			if ok {
				r.Src = true
				return r
			}
		}
		return unknown("type assertion that is not the clause's own source")
	case *ssa.Convert:
		a := e.eval(x.X)
		if a.Bool {
			return unknown("conversion of a bool")
		}
		from := x.X.Type()
		if _, isTP := from.(*types.TypeParam); isTP {
			// inside a generic helper: the operand's type is the type of the value the caller passed
			from = e.deref(x.X).Type()
		}
		if _, ok := core.TypeRange(from); !ok {
			return unknown("conversion from non-numeric")
		}
		if a.Why == "f32rep" && core.IsFloat32(x.Type()) {
			// exactly representable: float32(x) is exact
			a.Why = ""
			return a
		}
		r, _ := core.ConvertAV(a, from, x.Type())
		if !a.Src && r.Why == "" {
			r.Src, r.Why = false, a.Why
		}
		return r
	case *ssa.MultiConvert:
		// N(val) between type parameters of a generic helper: the conversion between the types the call instantiates
		a := e.eval(x.X)
		if a.Bool {
			return unknown("conversion of a bool")
		}
		from, to := x.X.Type(), e.concrete(x.Type(), x.Parent())
		if _, isTP := from.(*types.TypeParam); isTP {
			from = e.deref(x.X).Type()
		}
		if _, ok := core.TypeRange(from); !ok {
			return unknown("conversion from non-numeric")
		}
		if _, ok := core.TypeRange(to); !ok {
			return unknown("conversion to a type that is not known here")
		}
		r, _ := core.ConvertAV(a, from, to)
		if !a.Src && r.Why == "" {
			r.Src, r.Why = false, a.Why
		}
		return r
	case *ssa.ChangeType:
		return e.eval(x.X)
	case *ssa.Call:
		switch core.StdCallee(&x.Call) {
		case "math.Round":
			return core.RoundAV(e.eval(x.Call.Args[0]))
		}
		return unknown("call of " + core.StdCallee(&x.Call))
	case *ssa.Phi:
		if p := e.predOf(x.Block()); p != nil {
			for i, pb := range x.Block().Preds {
				if pb == p {
					return e.eval(x.Edges[i])
				}
			}
		}
		return unknown("phi")
	case *ssa.UnOp:
		if x.Op == token.MUL {
			if s := core.LoadSource(x); s != nil {
				return e.eval(s)
			}
		}
		if x.Op == token.SUB {
			a := e.eval(x.X)
			if a.Lo != nil {
				r := a
				r.Lo, r.Hi = new(big.Float).Neg(a.Hi), new(big.Float).Neg(a.Lo)
				r.LoOpen, r.HiOpen = a.HiOpen, a.LoOpen
				r.Src = false
				return r
			}
		}
	}
	return unknown(fmt.Sprintf("unrecognised expression %T", v))
}

// concrete: a type parameter of the inlined generic helper fn, read as the type argument of the call that is inlined.
func (e *c02eval) concrete(t types.Type, fn *ssa.Function) types.Type {
	tp, ok := t.(*types.TypeParam)
	if !ok {
		return t
	}
	fr := e.byFn[fn]
	if fr == nil {
		return t
	}
	inst := fr.call.Call.StaticCallee()
	if inst == nil {
		return t
	}
	org := inst.Origin()
	if org == nil {
		return t
	}
	tps, tas := org.TypeParams(), inst.TypeArgs()
	for i := 0; i < tps.Len() && i < len(tas); i++ {
		if tps.At(i) == tp {
			return tas[i]
		}
	}
	return t
}

// refine applies "x op k" (already with polarity) to x.
func (e *c02eval) bound(x ssa.Value, op token.Token, k *big.Float) {
	x = e.deref(x)
	if _, isConst := x.(*ssa.Const); isConst {
		return
	}
	a := e.eval(x)
	if a.Lo == nil {
		return
	}
	if core.IsFloat(x.Type()) && (op == token.LSS || op == token.GTR) && !k.IsInf() {
		// x is a float: "x < k" means x ≤ the largest float of x's type below k
		k = core.FloatNeighbour(k, core.IsFloat32(x.Type()), op == token.LSS)
		if op == token.LSS {
			op = token.LEQ
		} else {
			op = token.GEQ
		}
	}
	switch op {
	case token.LSS:
		a = a.MeetHi(k, true)
	case token.LEQ:
		a = a.MeetHi(k, false)
	case token.GTR:
		a = a.MeetLo(k, true)
	case token.GEQ:
		a = a.MeetLo(k, false)
	case token.EQL:
		a = a.MeetLo(k, false).MeetHi(k, false)
	default:
		return
	}
	e.refined[x] = a
	// back-propagate through value-preserving conversions
	switch c := x.(type) {
	case *ssa.Convert:
		from, to := c.X.Type(), c.Type()
		exact := core.IsFloat32(from) && core.IsFloat(to) || core.IsFloat(from) && core.IsFloat(to) && !core.IsFloat32(to)
		if core.IsInteger(from) && core.IsInteger(to) {
			fr, _ := core.TypeRange(from)
			tr, _ := core.TypeRange(to)
			exact = e.eval(c.X).Within(tr) && fr.Lo != nil
		}
		if exact {
			e.bound(c.X, op, k)
		}
	case *ssa.ChangeType:
		e.bound(c.X, op, k)
	}
}

func (e *c02eval) dropNaN(x ssa.Value) {
	x = e.deref(x)
	if _, isConst := x.(*ssa.Const); isConst {
		return
	}
	a := e.eval(x)
	if a.NaN {
		a.NaN = false
		e.refined[x] = a
	}
	if c, ok := x.(*ssa.Convert); ok && core.IsFloat(c.X.Type()) {
		e.dropNaN(c.X)
	}
}

func (e *c02eval) take(cond ssa.Value, taken bool) {
	cond = e.deref(cond)
	switch c := cond.(type) {
	case *ssa.Const:
		if c.Value != nil && c.Value.Kind() == constant.Bool && constant.BoolVal(c.Value) != taken {
			e.infeasible = true // the inlined helper path returns the other truth value
		}
		return
	case *ssa.UnOp:
		if c.Op == token.NOT {
			e.take(c.X, !taken)
			return
		}
	case *ssa.Call:
		switch core.StdCallee(&c.Call) {
		case "math.IsInf":
			x := e.deref(c.Call.Args[0])
			a := e.eval(x)
			if a.Lo == nil {
				return
			}
			if taken {
				a.InfOnly, a.NaN = true, false
			} else {
				m := core.MaxFloat(core.IsFloat32(x.Type()))
				a = a.MeetLo(new(big.Float).Neg(m), false).MeetHi(m, false)
			}
			e.refined[x] = a
			return
		case "math.IsNaN":
			if !taken {
				e.dropNaN(c.Call.Args[0])
			}
			return
		}
	case *ssa.BinOp:
		op := c.Op
		switch op {
		case token.LSS, token.LEQ, token.GTR, token.GEQ, token.EQL, token.NEQ:
		default:
			return
		}
		xt := c.X.Type()
		if _, isTP := xt.(*types.TypeParam); isTP {
			xt = e.deref(c.X).Type() // inside a generic helper: the type of the value the caller passed
		}
		if _, ok := core.TypeRange(xt); !ok {
			return // comparisons of errors, bools, ...
		}
		ordered := op != token.NEQ
		if !taken {
			op = map[token.Token]token.Token{token.LSS: token.GEQ, token.LEQ: token.GTR, token.GTR: token.LEQ, token.GEQ: token.LSS, token.EQL: token.NEQ, token.NEQ: token.EQL}[op]
		}
		ax, ay := e.eval(c.X), e.eval(c.Y)
		// a comparison that evaluated to true (ordered ops and ==) excludes NaN operands
		if taken && ordered || !taken && c.Op == token.NEQ {
			e.dropNaN(c.X)
			e.dropNaN(c.Y)
		}
		if ay.Lo != nil && ay.Lo.Cmp(ay.Hi) == 0 && !ay.NaN {
			e.bound(c.X, op, ay.Lo)
		}
		if ax.Lo != nil && ax.Lo.Cmp(ax.Hi) == 0 && !ax.NaN {
			mir := map[token.Token]token.Token{token.LSS: token.GTR, token.LEQ: token.GEQ, token.GTR: token.LSS, token.GEQ: token.LEQ, token.EQL: token.EQL, token.NEQ: token.NEQ}[op]
			e.bound(c.Y, mir, ax.Lo)
		}
		return
	}
	// a boolean source used as a condition
	if a := e.eval(cond); a.Bool && a.Src {
		e.boolTaken[cond] = taken
	}
}

// c02paths enumerates acyclic entry→return paths.
func c02paths(f *ssa.Function, limit int) ([][]*ssa.BasicBlock, bool) {
	var out [][]*ssa.BasicBlock
	var cur []*ssa.BasicBlock
	on := map[*ssa.BasicBlock]bool{}
	ok := true
	var dfs func(b *ssa.BasicBlock)
	dfs = func(b *ssa.BasicBlock) {
		if !ok || on[b] {
			return
		}
		on[b] = true
		cur = append(cur, b)
		if _, isRet := b.Instrs[len(b.Instrs)-1].(*ssa.Return); isRet {
			out = append(out, append([]*ssa.BasicBlock{}, cur...))
			if len(out) > limit {
				ok = false
			}
		}
		for _, s := range b.Succs {
			dfs(s)
		}
		cur = cur[:len(cur)-1]
		on[b] = false
	}
	dfs(f.Blocks[0])
	return out, ok
}

func runC02(c *core.Ctx) {
	p := c.P
	c.Rule("R1", "every conversion method switches over the same 15 source types; the default clause returns (zero, ErrConversionUnsupported)", 15)
	c.Rule("R2", "soundness per (method, source) group: on every path to a return whose error may be nil, the returned value is provably the source value (each conversion fits under the path's guards; float→integer only after math.Round; no NaN/Inf reaches an integer conversion; bool sources map to 1/0)", 210)
	c.Rule("R3", "completeness per (method, source) group: no definitely-failing path (own guards, delegated failures, strconv parse width) covers a value of the must-succeed set = source range ∩ target range (portable 32-bit range for int/uint/uintptr)", 195)
	c.Rule("R4", "ToBool of a numeric source returns exactly (value != 0) of the source", 13)
	c.Rule("R5", "the delegation graph between (method, source) groups is acyclic, so soundness of each group follows by induction from the groups it delegates to", 1)
	c.Assume = append(c.Assume, "values within half a unit of a range bound that are not integers are left free (the statement is silent on them)")
	methods := []*ssa.Function{}
	for _, m := range p.Methods(p.Fpgo, "someDef") {
		n := m.Name()
		if !strings.HasPrefix(n, "To") || n == "ToString" || n == "ToPtr" || n == "ToMaybe" {
			continue
		}
		methods = append(methods, m)
	}
	groups := map[string]*c02group{}
	alias := map[string]string{} // whole-method delegation (ToUint8 → ToByte)
	var order []string
	for _, m := range methods {
		c.Analysed(core.FuncName(m))
		// target type
		T := m.Signature.Results().At(0).Type()
		// whole-method delegation?
		if len(m.Blocks) == 1 {
			if r, ok := m.Blocks[0].Instrs[len(m.Blocks[0].Instrs)-1].(*ssa.Return); ok && len(r.Results) == 2 {
				e0, ok0 := r.Results[0].(*ssa.Extract)
				e1, ok1 := r.Results[1].(*ssa.Extract)
				if ok0 && ok1 && e0.Tuple == e1.Tuple && e0.Index == 0 && e1.Index == 1 {
					if call, ok := e0.Tuple.(*ssa.Call); ok {
						if g := core.Callee(&call.Call); g != nil && strings.HasPrefix(core.FuncName(g), "fpgo.someDef.To") && c02isRecv(m, call.Call.Args[0]) && types.Identical(g.Signature.Results().At(0).Type(), T) {
							alias[m.Name()] = g.Name()
							c.Pass("R1", m.Name(), p.Pos(m.Pos()), "whole-method delegation to "+g.Name()+" (same result type): inherits its clause set and verdicts")
							continue
						}
					}
				}
			}
		}
		// clauses: comma-ok type assertions on ref
		clauseOf := map[*ssa.If]types.Type{}
		var clauseNames []string
		core.Instrs(m, func(ins ssa.Instruction) {
			ta, ok := ins.(*ssa.TypeAssert)
			if !ok || !ta.CommaOk || !c02isRef(m, ta.X) {
				return
			}
			for _, r := range *ta.Referrers() {
				ex, ok := r.(*ssa.Extract)
				if !ok || ex.Index != 1 {
					continue
				}
				for _, rr := range *ex.Referrers() {
					if iff, ok := rr.(*ssa.If); ok {
						clauseOf[iff] = ta.AssertedType
						clauseNames = append(clauseNames, c02typeName(ta.AssertedType))
					}
				}
			}
		})
		sort.Strings(clauseNames)
		want := append([]string{}, c02Sources...)
		sort.Strings(want)
		if strings.Join(clauseNames, ",") != strings.Join(want, ",") {
			c.Fail("R1", m.Name(), p.Pos(m.Pos()), fmt.Sprintf("type switch covers {%s}, expected the 15 supported source types {%s}", strings.Join(clauseNames, ","), strings.Join(want, ",")))
		}
		paths, okP := c02paths(m, 20000)
		if !okP {
			c.Unknown("R2", m.Name(), p.Pos(m.Pos()), "too many paths to enumerate")
			continue
		}
		defaultOK, sawDefault := true, false
		for _, path := range paths {
			ret := path[len(path)-1].Instrs[len(path[len(path)-1].Instrs)-1].(*ssa.Return)
			// which clause? the clause If whose true edge is on the path
			var S types.Type
			nFalse := 0
			absent := false
			for i := 0; i+1 < len(path); i++ {
				iff, ok := path[i].Instrs[len(path[i].Instrs)-1].(*ssa.If)
				if !ok {
					continue
				}
				taken := path[i].Succs[0] == path[i+1]
				if t, isClause := clauseOf[iff]; isClause {
					if taken {
						S = t
					} else {
						nFalse++
					}
				} else if S == nil && nFalse == 0 {
					// the absence guard (IsNil) precedes the switch
					n := core.Normalize(core.Cond{V: iff.Cond, True: taken})
					if call, ok := n.V.(*ssa.Call); ok && n.True {
						if g := core.Callee(&call.Call); g != nil && g.Name() == "IsNil" {
							absent = true
						}
					}
				}
			}
			rv := core.RetVals(ret)
			for i := range rv {
				rv[i] = c02onPath(path, rv[i])
			}
			if absent {
				continue // C01/R3 decides the absent branch
			}
			if S == nil {
				// default clause
				if nFalse == len(clauseOf) {
					sawDefault = true
					if core.GlobalName(rv[1]) != "ErrConversionUnsupported" {
						defaultOK = false
					}
				}
				continue
			}
			key := m.Name() + "/" + c02typeName(S)
			g := groups[key]
			if g == nil {
				g = &c02group{method: m.Name(), source: c02typeName(S), pos: p.InstrPos(ret)}
				groups[key] = g
				order = append(order, key)
			}
			for _, frs := range c02expand(p, path, 0) {
				g.nReturns++
				e := &c02eval{c: c, f: m, path: path, refined: map[ssa.Value]core.AV{}, caseT: S, boolTaken: map[ssa.Value]bool{}}
				e.setFrames(frs)
				// walk the path (and the inlined helper paths) applying branch refinements
				e.walk(path, clauseOf)
				rv := []ssa.Value{e.deref(rv[0]), e.deref(rv[1])}
				val := e.eval(rv[0])
				// infeasible path (contradictory guards): skip
				infeasible := e.infeasible
				for _, a := range e.refined {
					if a.Lo != nil && a.Empty() && !a.NaN && !a.InfOnly {
						infeasible = true
					}
				}
				if infeasible {
					continue
				}
				// error operand
				errKind := "unknown"
				switch {
				case core.IsNilConst(rv[1]):
					errKind = "nil"
				case strings.HasPrefix(core.GlobalName(rv[1]), "Err"):
					errKind = "sentinel"
				default:
					if ex, ok := rv[1].(*ssa.Extract); ok && ex.Index == 1 && e.srcCall != nil && ex.Tuple == ssa.Value(e.srcCall) {
						errKind = "delegated"
					} else if ex, ok := rv[1].(*ssa.Extract); ok && ex.Index == 1 {
						// error of some call evaluated on this path: classify its value result to find the source
						if call, ok := ex.Tuple.(*ssa.Call); ok {
							for _, r := range *call.Referrers() {
								if e0, ok := r.(*ssa.Extract); ok && e0.Index == 0 {
									e.eval(e0)
								}
							}
							if e.srcCall == call {
								errKind = "delegated"
							}
						}
					}
				}
				where := p.InstrPos(ret)
				if errKind == "sentinel" {
					// R3: failing region on the source
					if name := core.GlobalName(rv[1]); name != "ErrConversionSizeOverflow" {
						g.fail = append(g.fail, core.AV{Lo: core.NInf(), Hi: core.PInf()})
						g.failDesc = append(g.failDesc, fmt.Sprintf("returns %s inside the %s clause at %s", name, S, where))
						continue
					}
					if e.srcRoot == nil {
						g.fail = append(g.fail, core.AV{Lo: core.NInf(), Hi: core.PInf()})
						g.failDesc = append(g.failDesc, "fails before reading the source at "+where)
						continue
					}
					reg := e.eval(e.srcRoot)
					if reg.Lo != nil {
						g.fail = append(g.fail, reg)
						g.failDesc = append(g.failDesc, fmt.Sprintf("source ∈ %s rejected at %s", reg, where))
					}
					if strings.HasPrefix(e.srcKind, "delegate:") {
						g.addDelegate(strings.TrimPrefix(e.srcKind, "delegate:") + "/" + c02typeName(S))
					}
					continue
				}
				// R2
				if strings.HasPrefix(e.srcKind, "delegate:") {
					g.addDelegate(strings.TrimPrefix(e.srcKind, "delegate:") + "/" + c02typeName(S))
				}
				if strings.HasPrefix(e.srcKind, "parse:") && e.srcRoot != nil {
					pr := e.eval(e.srcRoot)
					if base, ok := e.refined[e.srcRoot]; ok {
						_ = base
					}
					// the parse range itself (unrefined) bounds what strconv accepts
					e2 := &c02eval{c: c, f: m, path: path, refined: map[ssa.Value]core.AV{}, caseT: S, boolTaken: map[ssa.Value]bool{}}
					e2.setFrames(frs)
					full := e2.eval(e.srcRoot)
					if full.Lo != nil {
						g.parse, g.parseDesc = &full, e.srcKind
					}
					_ = pr
				}
				isBoolSrc := false
				if b, ok := S.Underlying().(*types.Basic); ok && b.Kind() == types.Bool {
					isBoolSrc = true
				}
				Tb := T.Underlying().(*types.Basic)
				switch {
				case Tb.Kind() == types.Bool && !isBoolSrc && c02typeName(S) != "string":
					// R4: value must be (src != 0)
					okB := false
					if b, ok := core.Resolve(rv[0]).(*ssa.BinOp); ok && b.Op == token.NEQ {
						a, k := e.eval(b.X), b.Y
						if _, isK := b.X.(*ssa.Const); isK {
							a, k = e.eval(b.Y), b.X
						}
						ka, _ := k.(*ssa.Const)
						if a.Src && !a.Approx && ka != nil {
							if kv, ok := core.ConstAV(ka); ok && kv.Lo != nil && kv.Lo.Sign() == 0 && kv.Hi.Sign() == 0 {
								okB = true
							}
						}
					}
					if !okB {
						g.boolProblems = append(g.boolProblems, "returned bool is not (source != 0) at "+where)
					}
				case isBoolSrc || (Tb.Kind() == types.Bool):
					// bool → number: constant 1 on the true edge, 0 on the false edge; bool/string → bool: the source itself
					if val.Bool && val.Src {
						break
					}
					// (a numeric conversion of the selected constant - float32(boolToFloat64(v)) - keeps 0 and 1)
					sel := rv[0]
					for depth := 0; depth < 3; depth++ {
						cv, isCv := sel.(*ssa.Convert)
						if !isCv {
							break
						}
						sel = e.deref(cv.X)
					}
					k, isK := sel.(*ssa.Const)
					if !isK || len(e.boolTaken) != 1 {
						g.problems = append(g.problems, "bool source: returned value is neither the source nor a constant selected by it at "+where)
						break
					}
					for _, taken := range e.boolTaken {
						kv, _ := core.ConstAV(k)
						want := 0
						if taken {
							want = 1
						}
						if kv.Lo == nil || kv.Lo.Cmp(core.BF(float64(want))) != 0 {
							g.problems = append(g.problems, fmt.Sprintf("bool source: returns %s on the %v edge (true must be 1, false 0) at %s", k.Value, taken, where))
						}
					}
				default:
					if !val.Src {
						why := val.Why
						if why == "" || why == "f32rep" {
							why = "returned value is not derived from the source"
						}
						g.problems = append(g.problems, fmt.Sprintf("%s at %s (error result may be nil: %s)", why, where, errKind))
					} else if core.IsInteger(T) && val.Approx {
						g.problems = append(g.problems, "integer result passed through a rounding float conversion at "+where)
					}
				}
					}
		}
		c.Check(sawDefault && defaultOK, "R1", m.Name()+"/default", p.Pos(m.Pos()), "default clause returns ErrConversionUnsupported", "the default clause (unsupported kinds) does not return ErrConversionUnsupported")
		if strings.Join(clauseNames, ",") == strings.Join(want, ",") {
			c.Pass("R1", m.Name(), p.Pos(m.Pos()), "15 source clauses")
		}
	}
	// resolve aliases in delegate keys
	res := func(k string) string {
		parts := strings.SplitN(k, "/", 2)
		for i := 0; i < 3; i++ {
			if a, ok := alias[parts[0]]; ok {
				parts[0] = a
			}
		}
		return parts[0] + "/" + parts[1]
	}
	// R5 acyclicity
	state := map[string]int{}
	cyc := ""
	var visit func(k string)
	visit = func(k string) {
		if state[k] == 2 {
			return
		}
		if state[k] == 1 {
			cyc = k
			return
		}
		state[k] = 1
		if g := groups[k]; g != nil {
			for _, d := range g.delegates {
				visit(res(d))
			}
		}
		state[k] = 2
	}
	for _, k := range order {
		visit(k)
	}
	c.Check(cyc == "", "R5", "delegation-graph", "maybe.go", fmt.Sprintf("%d groups, acyclic", len(groups)), "delegation cycle through "+cyc+": the inductive soundness argument does not apply (and the call recurses forever)")
	// transitive failing regions
	var failOf func(k string, depth int) ([]core.AV, []string)
	failOf = func(k string, depth int) ([]core.AV, []string) {
		g := groups[res(k)]
		if g == nil || depth > 20 {
			return nil, nil
		}
		fs, ds := append([]core.AV{}, g.fail...), append([]string{}, g.failDesc...)
		if g.parse != nil {
			// strconv fails outside its bit width
			fs = append(fs, core.AV{Lo: core.NInf(), Hi: g.parse.Lo, HiOpen: true}, core.AV{Lo: g.parse.Hi, Hi: core.PInf(), LoOpen: true})
			ds = append(ds, g.parseDesc+" rejects values below "+g.parse.Lo.Text('g', 22), g.parseDesc+" rejects values above "+g.parse.Hi.Text('g', 22))
		}
		for _, d := range g.delegates {
			f2, d2 := failOf(d, depth+1)
			fs = append(fs, f2...)
			for _, x := range d2 {
				ds = append(ds, "via "+res(d)+": "+x)
			}
		}
		return fs, ds
	}
	for _, k := range order {
		g := groups[k]
		key := g.method + "/" + g.source
		if g.source != "bool" && g.method == "ToBool" && g.source != "string" {
			c.Check(len(g.boolProblems) == 0, "R4", key, g.pos, "returns source != 0", strings.Join(g.boolProblems, "; "))
		}
		c.Check(len(g.problems) == 0, "R2", key, g.pos, fmt.Sprintf("%d return paths value-preserving or failing", g.nReturns), strings.Join(g.problems, "; "))
		// R3
		m := p.Method(p.Fpgo, "someDef", g.method)
		T := m.Signature.Results().At(0).Type()
		if Tb := T.Underlying().(*types.Basic); Tb.Kind() == types.Bool {
			continue
		}
		must := c02mustRange(T)
		var S types.Type
		for _, b := range []*types.Basic{types.Typ[types.Bool], types.Typ[types.Uint], types.Typ[types.Uint8], types.Typ[types.Uint16], types.Typ[types.Uint32], types.Typ[types.Uint64], types.Typ[types.Uintptr], types.Typ[types.Int], types.Typ[types.Int8], types.Typ[types.Int16], types.Typ[types.Int32], types.Typ[types.Int64], types.Typ[types.Float32], types.Typ[types.Float64], types.Typ[types.String]} {
			if b.String() == g.source {
				S = b
			}
		}
		if S == nil || g.source == "bool" {
			c.Pass("R3", key, g.pos, "bool source: both values convert")
			continue
		}
		if sr, ok := core.TypeRange(S); ok {
			must = must.MeetLo(sr.Lo, false).MeetHi(sr.Hi, false)
		}
		fs, ds := failOf(k, 0)
		bad := ""
		integralOnly := !(core.IsFloat(T) && (g.source == "float32" || g.source == "float64"))
		for i, f := range fs {
			ff := f
			if integralOnly {
				ff = f.IntHull()
			}
			if !integralOnly && (f.Hi.IsInf() && !f.HiOpen && !f.Empty() || f.Lo.IsInf() && !f.LoOpen && !f.Empty() || f.NaN) {
				bad = fmt.Sprintf("±Inf/NaN are representable in %s but are rejected: %s", T, ds[i])
				break
			}
			if ff.Intersects(must) && !must.Empty() {
				meet := ff.MeetLo(must.Lo, false).MeetHi(must.Hi, false)
				bad = fmt.Sprintf("values %s fit %s but are rejected: %s", meet, T, ds[i])
				break
			}
		}
		c.Check(bad == "", "R3", key, g.pos, fmt.Sprintf("%d failing regions, none meets the must-succeed set %s", len(fs), must), bad)
	}
}

func c02typeName(t types.Type) string {
	if b, ok := t.Underlying().(*types.Basic); ok {
		return types.Typ[b.Kind()].Name()
	}
	return t.String()
}

func (g *c02group) addDelegate(k string) {
	for _, d := range g.delegates {
		if d == k {
			return
		}
	}
	g.delegates = append(g.delegates, k)
}

// c02onPath resolves a phi (single-exit functions merge their results) to the value that arrives along path.
func c02onPath(path []*ssa.BasicBlock, v ssa.Value) ssa.Value {
	for d := 0; d < 8; d++ {
		phi, ok := v.(*ssa.Phi)
		if !ok {
			return v
		}
		found := false
		for i, b := range path {
			if b == phi.Block() && i > 0 {
				for k, pb := range phi.Block().Preds {
					if pb == path[i-1] {
						v, found = phi.Edges[k], true
					}
				}
			}
		}
		if !found {
			return v
		}
	}
	return v
}
