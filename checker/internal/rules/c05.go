package rules

import (
	"fmt"
	"go/ast"
	"go/types"
	"sort"
	"strings"

	"fpcheck/internal/core"

	"golang.org/x/tools/go/ssa"
)

func init() {
	register(&Prop{
		ID: "C05",
		Explanation: "Agreement of the hand-duplicated generic and interface{} families, decided on the type-checked syntax: the twin table is built from the program (every …ForInterface function and every same-named method of StreamDef/StreamForInterfaceDef, MapSetDef/SetForInterfaceDef, StreamSetDef/StreamSetForInterfaceDef, promoted methods included); a missing twin is an unresolved anchor. " +
			"(R2) the two bodies must have the same normal form after erasing what is inherent to the duplication (local names, type arguments and element types, collection↔underlying conversions, type assertions, the pointer-wrapping idioms, X.AsMap() ≡ *X, the embedded set field, the ForInterface suffix of callees) - the first differing token is reported with both positions; this is a sufficient condition, a one-sided rewrite is reported as 'agreement no longer established'. " +
			"(R1) the empty/nil-operand contract of the two twins is the same, decided by abstract interpretation of both in an emptiness domain {nil, empty, non-empty} with delegation followed through callees. (R3) a structural necessary condition of the algebra laws on slices: membership results must not depend on how often an element is repeated, so no branch may compare the lengths of two different slice operands (a 'bigger list cannot be a subset' shortcut applied to both twins keeps them in agreement and is therefore invisible to R1/R2). Not decided: the set-algebra laws themselves for non-empty operands (value level).",
		Trusted: append([]string{"the normaliser's rewrite table (each entry erases a difference that cannot change the result on the same data)"}, commonTrusted...),
		Run:     runC05,
	})
}

type c05pair struct {
	key      string
	gen, ifc *ssa.Function
	promoted bool // the generic side is a method promoted from the embedded set
}

var c05typePairs = [][2]string{{"StreamDef", "StreamForInterfaceDef"}, {"MapSetDef", "SetForInterfaceDef"}, {"StreamSetDef", "StreamSetForInterfaceDef"}}

func c05pairs(c *core.Ctx) []c05pair {
	p := c.P
	var out []c05pair
	// functions
	for _, name := range sortedMembers(p.Fpgo) {
		f, ok := p.Fpgo.Members[name].(*ssa.Function)
		if !ok || !strings.Contains(name, "Interface") {
			continue
		}
		tn := core.TwinName(name)
		if tn == name {
			continue
		}
		g := p.Func(p.Fpgo, tn)
		if !f.Object().Exported() {
			// unexported helpers extracted from twins: compared when both exist (the exported twins call them
			// under names that the normaliser identifies)
			if g != nil {
				out = append(out, c05pair{key: tn + "~" + name, gen: g, ifc: f})
			}
			continue
		}
		if g == nil {
			if name == "ComposeInterface" || name == "PipeInterface" {
				continue // wrappers that call the generic function itself
			}
			c.Unknown("R2", name, p.Pos(f.Pos()), "interface{} variant without a generic twin named "+tn)
			continue
		}
		out = append(out, c05pair{key: tn + "~" + name, gen: g, ifc: f})
	}
	// methods
	for _, tp := range c05typePairs {
		gen, ifc := p.Named(p.Fpgo, tp[0]), p.Named(p.Fpgo, tp[1])
		if gen == nil || ifc == nil {
			c.Unknown("R2", tp[0]+"~"+tp[1], "-", "collection types not found")
			continue
		}
		gms := types.NewMethodSet(types.NewPointer(gen))
		ims := types.NewMethodSet(types.NewPointer(ifc))
		for i := 0; i < ims.Len(); i++ {
			mo := ims.At(i).Obj().(*types.Func)
			sel := gms.Lookup(mo.Pkg(), mo.Name())
			if sel == nil {
				continue
			}
			go_ := sel.Obj().(*types.Func)
			gf, inf := p.FuncOf(go_), p.FuncOf(mo)
			if gf == nil || inf == nil {
				continue
			}
			// skip pairs where both sides are the same promoted twin already paired at the lower level
			ownG := core.TypeName(gf.Signature.Recv().Type()) == tp[0]
			ownI := core.TypeName(inf.Signature.Recv().Type()) == tp[1]
			if !ownG && !ownI {
				continue
			}
			out = append(out, c05pair{key: tp[0] + "." + mo.Name() + "~" + tp[1] + "." + mo.Name(), gen: gf, ifc: inf, promoted: !ownG || !ownI})
		}
	}
	sort.Slice(out, func(i, j int) bool { return out[i].key < out[j].key })
	return out
}

func funcDecl(p *core.Prog, f *ssa.Function) (*ast.FuncDecl, *types.Info) {
	fd, _ := f.Syntax().(*ast.FuncDecl)
	return fd, p.TypesInfo(f)
}

func runC05(c *core.Ctx) {
	p := c.P
	c.Rule("R1", "twins have the same empty/nil-operand contract (which guard fires and what it returns), evaluated in the emptiness domain with delegation followed", 30)
	c.Rule("R2", "twin bodies have the same normal form (differences inherent to the duplication erased)", 60)
	c.Rule("R3", "multiplicity independence: no set operation on slices branches on a comparison between the lengths of two different slice operands (repeated elements make lengths meaningless for membership)", 1)
	ei := core.ComputeEffects(p)
	freshIn := func(info *types.Info) func(*ast.CallExpr) bool {
		return func(call *ast.CallExpr) bool {
			fun := call.Fun
			for {
				switch f := fun.(type) {
				case *ast.IndexExpr:
					fun = f.X
					continue
				case *ast.IndexListExpr:
					fun = f.X
					continue
				}
				break
			}
			id, ok := fun.(*ast.Ident)
			if !ok {
				return false
			}
			fo, ok := info.ObjectOf(id).(*types.Func)
			if !ok {
				return false
			}
			g := p.FuncOf(fo)
			if g == nil || ei.Of[g] == nil || len(ei.Of[g].Ret) == 0 {
				return false
			}
			e := ei.Of[g]
			return e.Ret[0] == core.LocFresh && e.RetIdent[0] == 0
		}
	}
	core.PtrWrapperDecl = func(fo *types.Func) (*ast.FuncDecl, *types.Info) {
		g := p.FuncOf(fo)
		if g == nil || !p.InRepo(g) {
			return nil, nil
		}
		return funcDecl(p, g)
	}
	pairs := c05pairs(c)
	c05R3(c, pairs)
	var keys []string
	for _, pr := range pairs {
		keys = append(keys, pr.key)
		c.Analysed(core.FuncName(pr.gen), core.FuncName(pr.ifc))
		gd, gi := funcDecl(p, pr.gen)
		id, ii := funcDecl(p, pr.ifc)
		if gd == nil || id == nil {
			c.Unknown("R2", pr.key, "-", "no syntax for one of the twins")
			continue
		}
		if pr.promoted {
			c.Pass("R2", pr.key, p.Pos(pr.ifc.Pos()), "one side is a method promoted from the embedded set: body comparison does not apply; the empty/nil contract (R1) and the delegate's own twin pair are compared instead")
			continue
		}
		gn, in := core.NormalForm(gi, gd, freshIn(gi)), core.NormalForm(ii, id, freshIn(ii))
		if why, ok := c05exceptions[pr.key]; ok {
			c.Pass("R2", pr.key, p.Pos(pr.ifc.Pos()), "table exception: "+why)
			continue
		}
		i := 0
		for i < len(gn) && i < len(in) && gn[i] == in[i] {
			i++
		}
		if i == len(gn) && i == len(in) {
			c.Pass("R2", pr.key, p.Pos(pr.ifc.Pos()), fmt.Sprintf("identical normal form (%d tokens)", len(gn)))
			continue
		}
		ctx := func(t []string) string {
			lo, hi := i-6, i+8
			if lo < 0 {
				lo = 0
			}
			if hi > len(t) {
				hi = len(t)
			}
			return strings.Join(t[lo:hi], " ")
		}
		c.Fail("R2", pr.key, p.Pos(pr.ifc.Pos()), fmt.Sprintf("the twins differ at token %d: generic (%s) has «%s», interface{} (%s) has «%s»: they can return different answers on the same data (or agreement is no longer established)", i, p.Pos(pr.gen.Pos()), ctx(gn), p.Pos(pr.ifc.Pos()), ctx(in)))
	}
	c.Extra["twin_pairs"] = keys
	// ---------------- R1: empty / nil operand contracts
	isOperand := func(t types.Type) bool {
		if pt, ok := t.Underlying().(*types.Pointer); ok {
			t = pt.Elem()
		}
		switch t.Underlying().(type) {
		case *types.Slice, *types.Map:
			return true
		case *types.Struct:
			if n, ok := t.(*types.Named); ok {
				return strings.Contains(n.Origin().Obj().Name(), "StreamSet")
			}
		case *types.Interface:
			if n, ok := t.(*types.Named); ok && n.Origin().Obj().Name() == "SetDef" {
				return true
			}
		}
		return false
	}
	classify := func(v core.EmpVal, isMethod bool) string {
		switch {
		case v.Id == 0 && isMethod:
			return "the receiver itself"
		case v.Id >= 0:
			return fmt.Sprintf("its argument #%d itself", v.Id)
		case v.Kind == "fresh0":
			return "a new empty collection"
		case v.Kind == "bool":
			return fmt.Sprint(v.B)
		case v.Kind == "panic":
			return "panic (nil dereference)"
		case v.Kind == "int":
			return fmt.Sprint(v.I)
		case v.Kind == "nil":
			return "nil"
		case v.Kind == "empty":
			return "the empty operand"
		}
		return "computed by the general code"
	}
	for _, pr := range pairs {
		if len(pr.gen.Params) != len(pr.ifc.Params) {
			c.Unknown("R1", pr.key, p.Pos(pr.ifc.Pos()), "twins have different arity")
			continue
		}
		isMethod := pr.gen.Signature.Recv() != nil
		for j := range pr.gen.Params {
			if isMethod && j == 0 {
				continue
			}
			if !isOperand(pr.gen.Params[j].Type()) || !isOperand(pr.ifc.Params[j].Type()) {
				continue
			}
			for _, state := range []string{"nil", "empty"} {
				mk := func(f *ssa.Function) []core.EmpVal {
					var args []core.EmpVal
					for i, prm := range f.Params {
						switch {
						case i == j:
							args = append(args, core.EmpVal{Kind: state, Id: -1})
						case isOperand(prm.Type()) || isMethod && i == 0:
							args = append(args, core.EmpVal{Kind: "nonempty", Id: -1})
						default:
							args = append(args, core.EmpVal{Kind: "top", Id: -1})
						}
					}
					return args
				}
				rg := classify(core.EvalEmpty(p, pr.gen, mk(pr.gen)), isMethod)
				ri := classify(core.EvalEmpty(p, pr.ifc, mk(pr.ifc)), isMethod)
				key := fmt.Sprintf("%s/arg%d=%s", pr.key, j, state)
				c.Check(rg == ri, "R1", key, p.Pos(pr.ifc.Pos()), "both return "+rg,
					fmt.Sprintf("with %s %s the generic twin (%s) returns %s but the interface{} twin (%s) returns %s", state, pr.gen.Params[j].Name(), p.Pos(pr.gen.Pos()), rg, p.Pos(pr.ifc.Pos()), ri))
			}
		}
		// combinations: two or more operands (the receiver of a method included) empty / nil at the same time - a guard
		// order that differs between the twins only shows when both guards can fire
		var ops []int
		for j := range pr.gen.Params {
			if isMethod && j == 0 || isOperand(pr.gen.Params[j].Type()) && isOperand(pr.ifc.Params[j].Type()) {
				ops = append(ops, j)
			}
		}
		if len(ops) < 2 || len(ops) > 3 {
			continue
		}
		states := []string{"nonempty", "empty", "nil"}
		var combos [][]string
		var gen func(cur []string)
		gen = func(cur []string) {
			if len(cur) == len(ops) {
				n := 0
				for _, st := range cur {
					if st != "nonempty" {
						n++
					}
				}
				if n >= 2 {
					combos = append(combos, append([]string{}, cur...))
				}
				return
			}
			for _, st := range states {
				if st == "nil" && isMethod && ops[len(cur)] == 0 {
					continue // a nil receiver is outside the property's operands
				}
				gen(append(cur, st))
			}
		}
		gen(nil)
		for _, combo := range combos {
			mk := func(f *ssa.Function) []core.EmpVal {
				var args []core.EmpVal
				for i := range f.Params {
					st := "top"
					for k, j := range ops {
						if j == i {
							st = combo[k]
						}
					}
					args = append(args, core.EmpVal{Kind: st, Id: -1})
				}
				return args
			}
			rg := classify(core.EvalEmpty(p, pr.gen, mk(pr.gen)), isMethod)
			ri := classify(core.EvalEmpty(p, pr.ifc, mk(pr.ifc)), isMethod)
			var parts []string
			for k, j := range ops {
				if combo[k] != "nonempty" {
					name := fmt.Sprintf("arg%d", j)
					if isMethod && j == 0 {
						name = "recv"
					}
					parts = append(parts, name+"="+combo[k])
				}
			}
			key := pr.key + "/" + strings.Join(parts, ",")
			c.Check(rg == ri, "R1", key, p.Pos(pr.ifc.Pos()), "both return "+rg,
				fmt.Sprintf("with %s the generic twin (%s) returns %s but the interface{} twin (%s) returns %s", strings.Join(parts, ", "), p.Pos(pr.gen.Pos()), rg, p.Pos(pr.ifc.Pos()), ri))
		}
	}
}

// pairs whose bodies legitimately differ beyond the normaliser; each with the reason.
var c05exceptions = map[string]string{
	"StreamDef.Remove~StreamForInterfaceDef.Remove":    "documented difference (property C04): the interface{} Remove is the in-place mutator, the generic one returns a new stream",
	"StreamSetFromArray~StreamSetFromArrayInterface":   "StreamSetFromArrayInterface is an alias that delegates to StreamSetForInterfaceFromArray, which is itself paired with StreamSetFromArray",
	"StreamSetFromMap~StreamSetForInterfaceFromMap":    "the interface{} constructor copies entry by entry because the value type changes (map[..]*Stream → map[..]interface{}); the generic one uses DuplicateMap: both wrap a fresh shallow copy",
}

// c05lenRoots: the slice-typed expressions whose len() the value v depends on (through +,-,* and conversions).
func c05lenRoots(v ssa.Value, depth int, out map[string]bool) {
	if v == nil || depth > 6 {
		return
	}
	v = core.Resolve(v)
	switch x := v.(type) {
	case *ssa.Call:
		if core.IsBuiltin(&x.Call, "len") {
			if _, isSl := x.Call.Args[0].Type().Underlying().(*types.Slice); isSl {
				out[core.Path(x.Call.Args[0])] = true
			}
		}
	case *ssa.BinOp:
		c05lenRoots(x.X, depth+1, out)
		c05lenRoots(x.Y, depth+1, out)
	case *ssa.Convert:
		c05lenRoots(x.X, depth+1, out)
	case *ssa.Phi:
		for _, e := range x.Edges {
			if e != ssa.Value(x) {
				c05lenRoots(e, depth+1, out)
			}
		}
	}
}

// c05lenCompares returns the branches of f decided by comparing the lengths of two different slices.
func c05lenCompares(f *ssa.Function) (bad []*ssa.If) {
	for _, b := range f.Blocks {
		iff, ok := b.Instrs[len(b.Instrs)-1].(*ssa.If)
		if !ok {
			continue
		}
		hit := false
		for _, cnd := range core.ExpandCond(core.Cond{V: iff.Cond, True: true, If: iff}) {
			cmp, isCmp := core.AsCmp(core.Normalize(cnd))
			if !isCmp {
				continue
			}
			rx, ry := map[string]bool{}, map[string]bool{}
			c05lenRoots(cmp.X, 0, rx)
			c05lenRoots(cmp.Y, 0, ry)
			for a := range rx {
				for bb := range ry {
					if a != bb {
						hit = true
					}
				}
			}
		}
		// a condition that is itself a materialised && / || of comparisons: inspect the operands too
		if phi, isPhi := iff.Cond.(*ssa.Phi); isPhi && !hit {
			for _, e := range phi.Edges {
				if bo, isB := e.(*ssa.BinOp); isB {
					rx, ry := map[string]bool{}, map[string]bool{}
					c05lenRoots(bo.X, 0, rx)
					c05lenRoots(bo.Y, 0, ry)
					for a := range rx {
						for bb := range ry {
							if a != bb {
								hit = true
							}
						}
					}
				}
			}
		}
		if hit {
			bad = append(bad, iff)
		}
	}
	return
}

const c05snippet = `package snippet

func subsetBad(a, b []int) bool {
	if len(a) == 0 || len(b) == 0 {
		return false
	}
	if len(a) > len(b) {
		return false
	}
	return true
}
func subsetGood(a, b []int) bool {
	if len(a) == 0 || len(b) == 0 {
		return false
	}
	n := 0
	for i := 0; i < len(a); i++ {
		for j := 0; j < len(b); j++ {
			if a[i] == b[j] {
				n++
				break
			}
		}
	}
	return n == len(a)
}
func mapsMay(a, b map[int]int) bool { return len(a) <= len(b) }
`

func c05R3(c *core.Ctx, pairs []c05pair) {
	p := c.P
	if sp, err := core.BuildSnippet(c05snippet); err != nil {
		c.Unknown("R3", "matcher-selftest", "-", "cannot build the self-test snippet: "+err.Error())
	} else {
		nb, ng, nm := len(c05lenCompares(sp.Func("subsetBad"))), len(c05lenCompares(sp.Func("subsetGood"))), len(c05lenCompares(sp.Func("mapsMay")))
		c.Check(nb == 1 && ng == 0 && nm == 0, "R3", "matcher-selftest", "-", "positive and negative examples recognised", fmt.Sprintf("matcher self-test: flagged %d/%d/%d branches in the bad/good/map examples, expected 1/0/0", nb, ng, nm))
	}
	var subjects []*ssa.Function
	seen := map[*ssa.Function]bool{}
	for _, pr := range pairs {
		for _, f := range []*ssa.Function{pr.gen, pr.ifc} {
			if f != nil && !seen[f] {
				seen[f] = true
				subjects = append(subjects, f)
			}
		}
	}
	for _, h := range core.HelpersOf(p, subjects) {
		if !seen[h] {
			seen[h] = true
			subjects = append(subjects, h)
		}
	}
	n := 0
	for _, f := range subjects {
		core.InstrsDeep(f, func(fn *ssa.Function, ins ssa.Instruction) {})
		fns := []*ssa.Function{f}
		fns = append(fns, f.AnonFuncs...)
		for _, fn := range fns {
			for _, iff := range c05lenCompares(fn) {
				n++
				c.Fail("R3", core.FuncName(f)+"/len-compare", p.InstrPos(iff), "the result depends on a comparison between the lengths of two different slice operands: with repeated elements a longer list can still be a subset of (or equal as a set to) a shorter one, so the algebra law fails although both twins agree")
			}
		}
	}
	c.Check(true, "R3", "scan", "fp.go", fmt.Sprintf("%d twin functions/methods and their helpers scanned, %d length-vs-length branches", len(subjects), n), "")
}
