package rules

import (
	"strings"
	"fmt"
	"go/token"
	"go/types"

	"fpcheck/internal/core"

	"golang.org/x/tools/go/ssa"
)

func init() {
	register(&Prop{
		ID: "C10",
		Explanation: "Structural clauses of the Publisher decided on SSA: (R1) the subscriber list is only read or written with its mutex held (closures passed to the lock wrapper are analysed with the lock held); (R2) snapshot isolation - Publish lets the slice header escape the critical section, so every store to the list must be append-at-end of the current list or freshly allocated storage; an in-place compaction (append onto a non-capacity-limited prefix of the shared array) changes the array under a running Publish; " +
			"(R3) per subscriber and publish exactly one of {direct call of the delivery closure, Post of it} on every path with OnNext != nil, and the closure calls OnNext once with the published value; (R4) no escaping closure created in a loop captures a variable shared by all iterations (pre-Go-1.22 loop variable); (R5) Map subscribes one forwarding subscription that publishes fn(v) on the new publisher; Unsubscribe removes every occurrence. " +
			"Not decided: the registered-before/still-registered clause for concurrent unsubscribers and the order of deliveries made through a Handler.",
		Trusted: commonTrusted,
		Run:     runC10,
		Relies: []Dep{
			{Prop: "C12", Rule: "R1", Keys: []string{"HandlerDef/"}, Floor: 2, Why: "SubscribeOn delivers through a Handler: one consumer goroutine"},
			{Prop: "C12", Rule: "R2", Keys: []string{"HandlerDef/"}, Floor: 1, Why: "SubscribeOn delivers through a Handler: each posted function runs once, in order"},
			{Prop: "C12", Rule: "R3", Keys: []string{"HandlerDef.Post"}, Floor: 1, Why: "SubscribeOn delivers through a Handler: Post enqueues exactly once"},
		},
	})
}

const c10field = "PublisherDef.subscribers"

func runC10(c *core.Ctx) {
	p := c.P
	c.Rule("R1", "every load/store of PublisherDef.subscribers happens with subscribeM held", 4)
	c.Rule("R2", "every store to the subscriber list stores append-at-end of the current list or fresh storage (copy-on-write), never an in-place compaction of the array a running Publish iterates", 2)
	c.Rule("R3", "Publish delivers exactly once per subscriber with OnNext != nil: one of {direct call, Post} of a closure that calls OnNext once with the published value", 2)
	c.Rule("R4", "no closure that escapes (Post/go/send) from inside a loop captures a variable allocated once outside the loop and assigned inside it", 1)
	c.Rule("R5", "Map forwards fn(v) of every origin value to the new publisher through exactly one subscription; Unsubscribe keeps removing until no occurrence is left", 2)
	li := core.ComputeLocks(p)
	c.Rule("R6", "every lock a Publisher method takes is released in the same mode on every return path", 1)
	{
		fns := funcsOfType(p, p.Fpgo, "PublisherDef")
		// lock wrappers handed the publisher's mutex (`doSubscribeSafe(&x.subscribeM, fn)`) belong to it as well
		seen := map[*ssa.Function]bool{}
		for _, f := range fns {
			core.Instrs(f, func(ins ssa.Instruction) {
				if call, isC := ins.(*ssa.Call); isC {
					if g := core.Callee(&call.Call); g != nil && p.InRepo(g) && len(g.Blocks) > 0 && !seen[g] {
						for _, a := range call.Call.Args {
							if core.FieldKey(a) == "PublisherDef.subscribeM" {
								seen[g] = true
								fns = append(fns, g)
							}
						}
					}
				}
			})
		}
		lockBalance(c, li, "R6", fns)
	}
	// ---- R1 / R2
	nAcc := 0
	for _, f := range p.Funcs {
		core.Instrs(f, func(ins ssa.Instruction) {
			var fa *ssa.FieldAddr
			kind := ""
			switch x := ins.(type) {
			case *ssa.UnOp:
				if a, ok := x.X.(*ssa.FieldAddr); ok && x.Op == token.MUL && core.FieldKey(a) == c10field {
					fa, kind = a, "load"
				}
			case *ssa.Store:
				if a, ok := x.Addr.(*ssa.FieldAddr); ok && core.FieldKey(a) == c10field {
					fa, kind = a, "store"
				}
			}
			if fa == nil {
				return
			}
			nAcc++
			c.Analysed(core.FuncName(f))
			base := core.Path(core.FieldOwner(fa))
			ls := li.At[ins]
			key := fmt.Sprintf("%s/%s", core.FuncName(f), kind)
			c.Check(ls.Has(base+".subscribeM", "W"), "R1", key, p.InstrPos(ins), "under "+ls.String(), fmt.Sprintf("%s of the subscriber list without %s.subscribeM held (held=%s): races with concurrent Subscribe/Unsubscribe/Publish", kind, base, ls))
			if st, isStore := ins.(*ssa.Store); isStore {
				ok, detail := c10storeClass(st.Val, fa, 0)
				c.Check(ok, "R2", core.FuncName(f)+"/store", p.InstrPos(ins), detail, detail)
			}
		})
	}
	if nAcc == 0 {
		c.Unknown("R1", "anchor", "-", "no access to PublisherDef.subscribers found")
	}
	// ---- R3 / R4 in Publish
	pub := p.Method(p.Fpgo, "PublisherDef", "Publish")
	if pub == nil {
		c.Unknown("R3", "PublisherDef.Publish", "-", "method not found")
	} else {
		c.Analysed(core.FuncName(pub))
		// the delivery closure (the one calling OnNext): created in the publish loop itself, or in a helper
		// that the loop calls once per subscriber
		callsOnNext := func(fn *ssa.Function) bool {
			found := false
			core.Instrs(fn, func(ins ssa.Instruction) {
				if call, ok := ins.(*ssa.Call); ok && core.FieldKey(call.Call.Value) == "Subscription.OnNext" {
					found = true
				}
			})
			return found
		}
		var deliver *ssa.MakeClosure
		var dstack []*ssa.Call
		for _, f := range core.DeepFind(p, pub, func(ins ssa.Instruction) bool {
			mc, ok := ins.(*ssa.MakeClosure)
			return ok && callsOnNext(mc.Fn.(*ssa.Function))
		}) {
			deliver, dstack = f.Ins.(*ssa.MakeClosure), f.Stack
		}
		inLoop := deliver != nil && (len(dstack) == 0 && core.InLoop(deliver.Block()) || len(dstack) > 0 && core.InLoop(dstack[0].Block()))
		if deliver == nil || !inLoop {
			c.Unknown("R3", "PublisherDef.Publish/deliver", p.Pos(pub.Pos()), "no delivery closure created in the publish loop")
		} else {
			// guarded by OnNext != nil (next to the closure or at a call on the way to it)
			guarded := false
			blocks := []*ssa.BasicBlock{deliver.Block()}
			for _, sc := range dstack {
				blocks = append(blocks, sc.Block())
			}
			for _, bb := range blocks {
				for _, m := range core.EdgeCmps(bb) {
					if m.Op == token.NEQ && core.IsNilConst(m.Y) && core.FieldKey(m.X) == "Subscription.OnNext" {
						guarded = true
					}
				}
			}
			// helpers the closure is handed to that run or post their argument exactly once: (function, parameter)
			type handSite struct {
				fn *ssa.Function
				v  ssa.Value
			}
			sites := []handSite{{deliver.Parent(), deliver}}
			var handWeight func(v ssa.Value, depth int) func(ssa.Instruction) int
			handWeight = func(v ssa.Value, depth int) func(ssa.Instruction) int {
				return func(ins ssa.Instruction) int {
					switch x := ins.(type) {
					case *ssa.Call:
						if x.Call.Value == v {
							return 1
						}
						for ai, a := range x.Call.Args {
							if a == v {
								g := core.Callee(&x.Call)
								if g != nil && core.FuncName(g) == "fpgo.HandlerDef.Post" {
									return 1
								}
								if depth < 2 && g != nil && !x.Call.IsInvoke() && p.InRepo(g) && len(g.Blocks) > 0 && ai < len(g.Params) {
									if mn, mx := core.PathCount(g, handWeight(g.Params[ai], depth+1), nil); mn == 1 && mx == 1 {
										sites = append(sites, handSite{g, g.Params[ai]})
										return 1
									}
								}
								return 100 // handed to something else
							}
						}
					case *ssa.Go:
						if x.Call.Value == v {
							return 100
						}
					}
					return 0
				}
			}
			hand := handWeight(deliver, 0)
			var min, max int
			if len(dstack) == 0 {
				min, max = core.PathCountIter(deliver.Block(), deliver, hand, nil)
			} else {
				// in the helper: from the creation of the closure to the helper's end; in the loop: the helper is
				// called exactly once per iteration (every call on the way)
				min, max = core.PathCountFrom(deliver.Block(), deliver, hand, nil)
				for _, sc := range dstack {
					scc := sc
					from := scc.Block()
					cmin, cmax := 1, 1
					if core.InLoop(from) {
						// count this call along one iteration, starting at the loop body's first block
						start := from
						for start.Idom() != nil && core.InLoop(start.Idom()) && len(start.Idom().Succs) < 2 {
							start = start.Idom()
						}
						cmin, cmax = core.PathCountIter(start, nil, func(ins ssa.Instruction) int {
							if ins == ssa.Instruction(scc) {
								return 1
							}
							return 0
						}, nil)
					}
					if cmin != 1 || cmax != 1 {
						min, max = cmin*min, cmax*max
					}
				}
			}
			// the hand-off respects the configured handler: Post only where it is known non-nil, the direct call only
			// where it is known nil
			handOK := true
			seenSite := map[handSite]bool{}
			for si := 0; si < len(sites); si++ {
				site := sites[si]
				if seenSite[site] {
					continue
				}
				seenSite[site] = true
				core.Instrs(site.fn, func(ins ssa.Instruction) {
					call, ok := ins.(*ssa.Call)
					if !ok {
						return
					}
					if call.Call.Value == site.v {
						// direct call: if a Post alternative exists it must be on the handler == nil edge
						for _, m := range core.EdgeCmps(ins.Block()) {
							if core.FieldKey(m.X) == "PublisherDef.subOn" && core.IsNilConst(m.Y) && m.Op == token.NEQ {
								handOK = false
							}
						}
						return
					}
					for _, a := range call.Call.Args {
						if a == site.v {
							if g := core.Callee(&call.Call); g != nil && core.FuncName(g) == "fpgo.HandlerDef.Post" {
								nonNil := false
								for _, m := range core.EdgeCmps(ins.Block()) {
									if m.Op == token.NEQ && core.IsNilConst(m.Y) && core.Path(m.X) == core.Path(call.Call.Args[0]) {
										nonNil = true
									}
								}
								if !nonNil {
									handOK = false
								}
							}
						}
					}
				})
			}
			if !handOK {
				guarded = false
			}
			// the loop visits the subscriber list read from the publisher (its snapshot), not some other slice
			srcOK := false
			core.InstrsGroup(p, pub, func(fn *ssa.Function, ins ssa.Instruction) {
				ia, ok := ins.(*ssa.IndexAddr)
				if !ok || !core.InLoop(ia.Block()) {
					return
				}
				base := core.Unwrap(ia.X)
				if ok2, _ := c10isCurrentList(base, 0); ok2 {
					srcOK = true
					return
				}
				if ld, isLd := base.(*ssa.UnOp); isLd && ld.Op == token.MUL {
					if cell, isA := ld.X.(*ssa.Alloc); isA {
						// stores into the cell, also from closures that captured it
						core.InstrsDeep(fn, func(_ *ssa.Function, i2 ssa.Instruction) {
							st, isS := i2.(*ssa.Store)
							if !isS {
								return
							}
							same := st.Addr == ssa.Value(cell)
							if fv, isFV := st.Addr.(*ssa.FreeVar); isFV && fv.Name() == cell.Comment {
								same = true
							}
							if same {
								if ok3, _ := c10isCurrentList(st.Val, 0); ok3 {
									srcOK = true
								}
							}
						})
					}
				}
				if call, isC := core.Resolve(base).(*ssa.Call); isC {
					// snapshot helper returning the list
					if g := core.Callee(&call.Call); g != nil && p.InRepo(g) {
						for _, rc := range core.ReturnCases(g) {
							v := rc.Vals[0]
							if ok3, _ := c10isCurrentList(v, 0); ok3 {
								srcOK = true
							}
							if ld, isLd := v.(*ssa.UnOp); isLd {
								if cell, isA := ld.X.(*ssa.Alloc); isA {
									core.InstrsDeep(g, func(_ *ssa.Function, i2 ssa.Instruction) {
										if st, isS := i2.(*ssa.Store); isS {
											same := st.Addr == ssa.Value(cell)
											if fv, isFV := st.Addr.(*ssa.FreeVar); isFV && fv.Name() == cell.Comment {
												same = true
											}
											if same {
												if ok4, _ := c10isCurrentList(st.Val, 0); ok4 {
													srcOK = true
												}
											}
										}
									})
								}
							}
						}
					}
				}
			})
			if !srcOK {
				// general form: every origin of the iterated value (through helpers and through the result of a callback
				// handed to a lock wrapper) is the publisher's current list
				core.Instrs(pub, func(ins ssa.Instruction) {
					ia, isIA := ins.(*ssa.IndexAddr)
					if !isIA || !core.InLoop(ia.Block()) {
						return
					}
					leaves := core.Origins(p, ia.X, nil)
					all := len(leaves) > 0
					for _, lf := range leaves {
						if ok3, _ := c10isCurrentList(lf.Val, 0); !ok3 {
							all = false
						}
					}
					if all {
						srcOK = true
					}
				})
			}
			c.Check(srcOK, "R3", "PublisherDef.Publish/source", p.Pos(pub.Pos()), "the delivery loop visits the publisher's subscriber list (snapshot read under the lock)", "the delivery loop does not visit the publisher's subscriber list: subscribers are not reached")
			c.Check(guarded && min == 1 && max == 1, "R3", "PublisherDef.Publish/once-per-subscriber", p.InstrPos(deliver),
				"under OnNext != nil exactly one of {call, Post} of the delivery closure on every path",
				fmt.Sprintf("delivery count per subscriber is between %d and %d (must be exactly 1) or not guarded by OnNext != nil / handed to the handler on the wrong edge of its nil test (ok=%v)", min, max, guarded))
			// closure body
			fn := deliver.Fn.(*ssa.Function)
			c.Analysed(core.FuncName(fn))
			cmin, cmax := core.PathCount(fn, func(ins ssa.Instruction) int {
				if call, ok := ins.(*ssa.Call); ok && core.FieldKey(call.Call.Value) == "Subscription.OnNext" {
					return 1
				}
				return 0
			}, nil)
			argOK := false
			bc := core.ResolveClosure(p, deliver)
			core.Instrs(fn, func(ins ssa.Instruction) {
				if call, ok := ins.(*ssa.Call); ok && core.FieldKey(call.Call.Value) == "Subscription.OnNext" && len(call.Call.Args) == 1 {
					// argument is the captured published value
					if core.Path(call.Call.Args[0]) == pub.Params[1].Name() && len(dstack) == 0 {
						argOK = true
					}
					if bc != nil {
						if b := bc.Bind[core.Path(call.Call.Args[0])]; b != nil {
							if v, st := core.Up(b, dstack); len(st) == 0 && v == ssa.Value(pub.Params[1]) {
								argOK = true
							}
						}
					}
				}
			})
			c.Check(cmin == 1 && cmax == 1 && argOK, "R3", "PublisherDef.Publish/closure", p.Pos(fn.Pos()), "closure calls OnNext exactly once with the published value", fmt.Sprintf("delivery closure calls OnNext %d..%d times / not with the published value (argOK=%v)", cmin, cmax, argOK))
		}
	}
	// ---- R4 everywhere in fpgo publisher/monadIO/handler code: all MakeClosure in loops
	n4 := 0
	for _, f := range p.Funcs {
		core.Instrs(f, func(ins ssa.Instruction) {
			mc, ok := ins.(*ssa.MakeClosure)
			if !ok || !core.InLoop(mc.Block()) {
				return
			}
			g := mc.Fn.(*ssa.Function)
			_, complete := core.CallSites(p, g)
			escapes := !complete
			sites, _ := core.CallSites(p, g)
			for _, s := range sites {
				if s.Kind != "call" {
					escapes = true
				}
			}
			if escapes && mc.Referrers() != nil {
				// a callback handed only to standard-library functions that call it before they return
				// (slices.ContainsFunc, sort.Slice, strings.IndexFunc, …) does not outlive the iteration
				syncOnly := len(*mc.Referrers()) > 0
				for _, r := range *mc.Referrers() {
					call, isC := r.(*ssa.Call)
					if !isC {
						syncOnly = false
						continue
					}
					name := core.StdCallee(&call.Call)
					ok := false
					for _, pre := range []string{"slices.", "sort.", "strings.", "bytes.", "maps."} {
						if strings.HasPrefix(name, pre) {
							ok = true
						}
					}
					if !ok || call.Call.Value == ssa.Value(mc) {
						syncOnly = false
					}
				}
				if syncOnly {
					escapes = false
				}
			}
			for _, b := range mc.Bindings {
				a, isAlloc := b.(*ssa.Alloc)
				if !isAlloc {
					continue
				}
				n4++
				key := fmt.Sprintf("%s/captures:%s", core.FuncName(g), a.Comment)
				shared := !core.InLoop(a.Block())
				storedInLoop := false
				for _, r := range *a.Referrers() {
					if st, ok := r.(*ssa.Store); ok && st.Addr == ssa.Value(a) && core.InLoop(st.Block()) {
						storedInLoop = true
					}
				}
				if shared && storedInLoop && escapes {
					c.Fail("R4", key, p.InstrPos(mc), fmt.Sprintf("closure created in a loop escapes (posted/spawned) and captures %q, one variable shared by all iterations and reassigned by the loop: by the time it runs it sees a later iteration's value (deliveries go to the wrong subscriber)", a.Comment))
				} else {
					c.Pass("R4", key, p.InstrPos(mc), fmt.Sprintf("shared=%v storedInLoop=%v escapes=%v", shared, storedInLoop, escapes))
				}
			}
		})
	}
	if n4 == 0 {
		c.Note("R4: no closure in a loop captures a local cell")
	}
	// ---- R5 Map
	if m := p.Method(p.Fpgo, "PublisherDef", "Map"); m == nil {
		c.Unknown("R5", "PublisherDef.Map", "-", "method not found")
	} else {
		c.Analysed(core.FuncName(m))
		ok, detail := c10map(p, m)
		c.Check(ok, "R5", "PublisherDef.Map", p.Pos(m.Pos()), detail, detail)
	}
	if u := p.Method(p.Fpgo, "PublisherDef", "Unsubscribe"); u == nil {
		c.Unknown("R5", "PublisherDef.Unsubscribe", "-", "method not found")
	} else {
		c.Analysed(core.FuncName(u))
		// recursion on the "found one" edge with the same subscription, or a loop without early exit
		ok := false
		core.Instrs(u, func(ins ssa.Instruction) {
			if call, isCall := ins.(*ssa.Call); isCall && core.Callee(&call.Call) == u && len(call.Call.Args) == 2 {
				if core.Path(call.Call.Args[1]) == u.Params[1].Name() {
					// dominated by a bool flag being true that is set in the removal branch
					if len(core.EdgeFacts(call.Block())) > 0 {
						ok = true
					}
				}
			}
		})
		if !ok {
			// loop form: the removal round sits in a loop that is left only where the found-one flag reads false
			inLoop, exitOnFalse := false, false
			core.Instrs(u, func(ins ssa.Instruction) {
				if call, isCall := ins.(*ssa.Call); isCall && core.InLoop(call.Block()) {
					if g := core.Callee(&call.Call); g != nil && p.InRepo(g) {
						inLoop = true
					}
				}
				if r, isR := ins.(*ssa.Return); isR {
					for _, cnd := range core.EdgeFacts(r.Block()) {
						n := core.Normalize(cnd)
						if ld, isLd := n.V.(*ssa.UnOp); isLd && ld.Op == token.MUL && !n.True {
							if _, isA := ld.X.(*ssa.Alloc); isA {
								exitOnFalse = true
							}
						}
						if _, isCall := n.V.(*ssa.Call); isCall && !n.True {
							exitOnFalse = true // `for removeFirst(s) {}` / `if !removeFirst(s) { return }`
						}
					}
				}
			})
			ok = inLoop && exitOnFalse
		}
		c.Check(ok, "R5", "PublisherDef.Unsubscribe", p.Pos(u.Pos()), "repeats (recursion on the matched edge) until no occurrence is left", "Unsubscribe removes at most one occurrence: a subscription registered twice keeps receiving after Unsubscribe completed")
		okS, dS := c10removal(p, u)
		c.Check(okS, "R5", "PublisherDef.Unsubscribe/removal", p.Pos(u.Pos()), dS, dS)
	}
}

// c10storeClass classifies the value stored into the subscriber list.
func c10storeClass(v ssa.Value, fa *ssa.FieldAddr, depth int) (bool, string) {
	if depth > 4 {
		return false, "stored value too indirect to classify"
	}
	v = core.Unwrap(v)
	// local variable with several assignments: all must be fine
	if u, ok := v.(*ssa.UnOp); ok && u.Op == token.MUL {
		if a, ok := u.X.(*ssa.Alloc); ok {
			okAll, why := true, "every assignment to the local is copy-on-write"
			for _, st := range core.Stores(a) {
				if ok2, w := c10storeClass(st.Val, fa, depth+1); !ok2 {
					okAll, why = false, w
				}
			}
			return okAll, why
		}
		if core.FieldKey(u.X) == c10field {
			return true, "the current list itself (no change)"
		}
	}
	switch x := v.(type) {
	case *ssa.Phi:
		for _, e := range x.Edges {
			if ok, w := c10storeClass(e, fa, depth+1); !ok {
				return false, w
			}
		}
		return true, "all incoming values are copy-on-write"
	case *ssa.MakeSlice:
		return true, "fresh slice"
	case *ssa.Const:
		return true, "nil/empty"
	case *ssa.Call:
		if core.IsBuiltin(&x.Call, "append") {
			s := x.Call.Args[0]
			if sl, ok := s.(*ssa.Slice); ok {
				if sl.Max != nil && (sl.High == sl.Max) {
					return true, "append onto a capacity-limited prefix: always reallocates (copy-on-write)"
				}
				return false, "in-place compaction: append onto the prefix " + core.Path(s) + " of the shared array shifts elements under a Publish that is iterating its snapshot (a subscriber is skipped, another is called twice)"
			}
			if ok, _ := c10isCurrentList(s, 0); ok {
				return true, "append at the end of the current list: older snapshots keep their length and elements"
			}
			if _, ok := core.Resolve(s).(*ssa.MakeSlice); ok {
				return true, "append to a fresh slice"
			}
			if k, ok := core.Resolve(s).(*ssa.Const); ok && k.Value == nil {
				return true, "append to nil: fresh"
			}
			return false, "append onto " + core.Path(s) + ", which is neither the current list nor fresh/capacity-limited"
		}
	}
	return false, fmt.Sprintf("stored value %s is not recognisably append-at-end or fresh", core.Path(v))
}

func c10isCurrentList(v ssa.Value, depth int) (bool, string) {
	v = core.Unwrap(v)
	if u, ok := v.(*ssa.UnOp); ok && u.Op == token.MUL {
		if core.FieldKey(u.X) == c10field {
			return true, ""
		}
		if a, ok := u.X.(*ssa.Alloc); ok && depth < 3 {
			for _, st := range core.Stores(a) {
				if ok2, _ := c10isCurrentList(st.Val, depth+1); !ok2 {
					return false, ""
				}
			}
			return len(core.Stores(a)) > 0, ""
		}
	}
	return false, ""
}

// c10map: next := new publisher; publisherSelf.Subscribe(Subscription{OnNext: func(in){ next.Publish(fn(in)) }}); return next
func c10map(p *core.Prog, m *ssa.Function) (bool, string) {
	var sub []*ssa.Call
	core.Instrs(m, func(ins ssa.Instruction) {
		if call, ok := ins.(*ssa.Call); ok {
			if g := core.Callee(&call.Call); g != nil && core.FuncName(g) == "fpgo.PublisherDef.Subscribe" {
				sub = append(sub, call)
			}
		}
	})
	if len(sub) != 1 {
		return false, fmt.Sprintf("Map makes %d subscriptions to its origin, expected exactly 1", len(sub))
	}
	if core.Path(sub[0].Call.Args[0]) != m.Params[0].Name() {
		return false, "the forwarding subscription is not registered on the origin (the receiver)"
	}
	// the forwarding function: the OnNext of the Subscription handed to Subscribe (closure, method value, ...)
	var onNext ssa.Value
	if len(sub[0].Call.Args) > 1 {
		onNext = core.LiteralField(sub[0].Call.Args[1], "OnNext")
	}
	fv := core.ResolveFuncValue(p, onNext)
	if onNext == nil || fv == nil {
		return false, "expected exactly one forwarding closure"
	}
	fwd := fv.Fn
	if len(fwd.Params) == 0 {
		return false, "the forwarding function takes no value"
	}
	in := ssa.Value(fwd.Params[len(fwd.Params)-1])
	// a forwarding closure that only defers a call to a helper: analyse the helper with its parameters read as the arguments
	thinArg := map[ssa.Value]ssa.Value{}
	if tgt, call := core.ThinTarget(p, fwd); tgt != nil {
		for i, prm := range tgt.Params {
			if i < len(call.Call.Args) {
				thinArg[prm] = call.Call.Args[i]
			}
		}
		for prm, a := range thinArg {
			if core.Resolve(a) == in {
				in = prm
			}
		}
		fwd = tgt
	}
	// returned publisher
	var retVal ssa.Value
	core.Instrs(m, func(ins ssa.Instruction) {
		if r, ok := ins.(*ssa.Return); ok {
			retVal = core.Resolve(core.RetVals(r)[0])
		}
	})
	// value of a captured variable / receiver field of the forwarding function, seen from Map
	captured := func(v ssa.Value) ssa.Value {
		if a, ok := thinArg[core.Resolve(v)]; ok {
			v = a
		}
		return fv.Outer(v)
	}
	nPub, okShape := 0, false
	core.Instrs(fwd, func(ins ssa.Instruction) {
		call, ok := ins.(*ssa.Call)
		if !ok {
			return
		}
		if g := core.Callee(&call.Call); g != nil && core.FuncName(g) == "fpgo.PublisherDef.Publish" {
			nPub++
			// receiver is the captured new publisher (same variable that Map returns), argument is fn(in)
			arg, isCall := call.Call.Args[1].(*ssa.Call)
			if cv := captured(call.Call.Args[0]); cv != nil && cv == retVal && isCall && len(arg.Call.Args) == 1 && arg.Call.Args[0] == in && captured(arg.Call.Value) == ssa.Value(m.Params[1]) {
				okShape = true
			}
		}
	})
	min, max := core.PathCount(fwd, func(ins ssa.Instruction) int {
		if call, ok := ins.(*ssa.Call); ok {
			if g := core.Callee(&call.Call); g != nil && core.FuncName(g) == "fpgo.PublisherDef.Publish" {
				return 1
			}
		}
		return 0
	}, nil)
	if !(okShape && min == 1 && max == 1) {
		return false, fmt.Sprintf("forwarding closure does not publish fn(in) exactly once on the returned publisher (publishes %d..%d times, shape ok=%v)", min, max, okShape)
	}
	_ = types.Typ
	return true, "one subscription on the origin whose OnNext publishes fn(in) once on the returned publisher"
}

// c10removal checks the removal step of Unsubscribe (in the method, its closures and extracted helpers):
// the new list is list[:i:i] + list[i+1:] of the same list and index, built only where list[i] equals the
// subscription to remove; when the "found one" flag is a local variable, it is set on that same edge and the
// repetition is guarded by it.
func c10removal(p *core.Prog, u *ssa.Function) (bool, string) {
	var fns []*ssa.Function
	for _, g := range core.Group(p, u) {
		core.InstrsDeep(g, func(fn *ssa.Function, _ ssa.Instruction) {
			for _, x := range fns {
				if x == fn {
					return
				}
			}
			fns = append(fns, fn)
		})
	}
	var app *ssa.Call
	for _, fn := range fns {
		core.Instrs(fn, func(ins ssa.Instruction) {
			if call, ok := ins.(*ssa.Call); ok && core.IsBuiltin(&call.Call, "append") && len(call.Call.Args) == 2 {
				if sl, isSl := core.Unwrap(call.Call.Args[0]).(*ssa.Slice); isSl && sl.Max != nil && sl.High == sl.Max {
					app = call
				}
			}
		})
	}
	if app == nil {
		return true, "no capacity-limited prefix append (the removal is written differently; R2 judges the stored value)"
	}
	pre := core.Unwrap(app.Call.Args[0]).(*ssa.Slice)
	idx := pre.High
	tail, isSl := core.Unwrap(app.Call.Args[1]).(*ssa.Slice)
	if !isSl || tail.High != nil || core.Path(tail.X) != core.Path(pre.X) {
		return false, "the removal does not append the rest of the same list after the prefix"
	}
	lowOK := false
	if b, isB := tail.Low.(*ssa.BinOp); isB && b.Op == token.ADD && b.X == idx && core.IsIntConst(b.Y, 1) {
		lowOK = true
	}
	if !lowOK {
		return false, "the rest appended after list[:i] does not start at i+1: the matching element is kept (and the removal repeats forever) or a neighbour is dropped or duplicated"
	}
	// searchHelper: idx is the result of a search helper that returns an index only where list[index] equals its
	// argument (and a negative constant otherwise); then "idx >= 0" is the match edge
	searchHelper := func() bool {
		call, ok := core.Resolve(idx).(*ssa.Call)
		if !ok {
			return false
		}
		// the standard search: slices.Index(list, v) is the first i with list[i] == v, or -1 (trusted model)
		if core.StdCallee(&call.Call) == "slices.Index" && len(call.Call.Args) == 2 && core.Path(call.Call.Args[0]) == core.Path(pre.X) {
			return true
		}
		h := core.Callee(&call.Call)
		if h == nil || !p.InRepo(h) || len(h.Blocks) == 0 {
			return false
		}
		found := false
		for _, rc := range core.ReturnCases(h) {
			v := core.Resolve(rc.Vals[0])
			if k, isK := v.(*ssa.Const); isK && k.Value != nil && k.Int64() < 0 {
				continue
			}
			okc := false
			for _, m := range rc.Cmps() {
				if m.Op != token.EQL {
					continue
				}
				for _, side := range []ssa.Value{m.X, m.Y} {
					if ld, isLd := core.Resolve(side).(*ssa.UnOp); isLd && ld.Op == token.MUL {
						if ia, isIA := ld.X.(*ssa.IndexAddr); isIA && core.Resolve(ia.Index) == v {
							okc = true
						}
					}
				}
			}
			if !okc {
				return false
			}
			found = true
		}
		return found
	}()
	// on the edge list[i] == subscription
	matchEdge := func(b *ssa.BasicBlock) bool {
		if searchHelper {
			for _, m := range core.EdgeCmps(b) {
				if core.Resolve(m.X) != core.Resolve(idx) {
					continue
				}
				if m.Op == token.GEQ && core.IsIntConst(m.Y, 0) || m.Op == token.GTR && core.IsIntConst(m.Y, -1) || m.Op == token.NEQ && core.IsIntConst(m.Y, -1) {
					return true
				}
			}
		}
		for _, m := range core.EdgeCmps(b) {
			if m.Op != token.EQL {
				continue
			}
			for _, side := range []ssa.Value{m.X, m.Y} {
				if ld, isLd := core.Resolve(side).(*ssa.UnOp); isLd && ld.Op == token.MUL {
					if ia, isIA := ld.X.(*ssa.IndexAddr); isIA && ia.Index == idx {
						return true
					}
				}
			}
		}
		return false
	}
	if core.InLoop(app.Block()) {
		return false, "the scan goes on after the list was rebuilt: the indices of the old list are applied to the new one (a neighbour of a second occurrence is removed instead of it)"
	}
	if !matchEdge(app.Block()) {
		return false, "the list is rebuilt without the element at i on a path where list[i] is not known to equal the subscription being removed: another subscriber is dropped"
	}
	// found-flag discipline when the flag is a local variable of Unsubscribe
	var guard *ssa.If
	core.Instrs(u, func(ins ssa.Instruction) {
		if call, isCall := ins.(*ssa.Call); isCall && core.Callee(&call.Call) == u {
			for _, cnd := range core.EdgeFacts(call.Block()) {
				guard = cnd.If
			}
		}
	})
	loopForm := false
	if guard == nil {
		// loop form: the flag decides the return
		core.Instrs(u, func(ins ssa.Instruction) {
			if r, isR := ins.(*ssa.Return); isR {
				for _, cnd := range core.EdgeFacts(r.Block()) {
					n := core.Normalize(cnd)
					if ld, isLd := n.V.(*ssa.UnOp); isLd && ld.Op == token.MUL && !n.True {
						if _, isA := ld.X.(*ssa.Alloc); isA {
							guard, loopForm = cnd.If, true
						}
					}
				}
			}
		})
	}
	if guard != nil {
		n := core.Normalize(core.Cond{V: guard.Cond, True: true})
		if ld, isLd := n.V.(*ssa.UnOp); isLd && ld.Op == token.MUL {
			if cell, isA := ld.X.(*ssa.Alloc); isA {
				// the recursion must sit on the flag-true edge
				onTrue := loopForm
				core.Instrs(u, func(ins ssa.Instruction) {
					if call, isCall := ins.(*ssa.Call); isCall && core.Callee(&call.Call) == u {
						for _, cnd := range core.EdgeFacts(call.Block()) {
							nn := core.Normalize(cnd)
							if nn.V == ssa.Value(ld) && nn.True {
								onTrue = true
							}
						}
					}
				})
				if !onTrue {
					return false, "the repetition is not on the edge where an occurrence was found"
				}
				// a store of true to that cell on the match edge (possibly inside the closure that captured it)
				setOnMatch := false
				for _, fn := range fns {
					core.Instrs(fn, func(ins ssa.Instruction) {
						st, ok := ins.(*ssa.Store)
						if !ok || !isTrueConst(st.Val) {
							return
						}
						same := st.Addr == ssa.Value(cell)
						if fv, isFV := st.Addr.(*ssa.FreeVar); isFV && fv.Name() == cell.Comment {
							same = true
						}
						if same && matchEdge(st.Block()) {
							setOnMatch = true
						}
					})
				}
				if !setOnMatch {
					return false, "the found-one flag is not set where an occurrence was removed: Unsubscribe stops after the first occurrence (or never repeats)"
				}
			}
		}
	}
	return true, "new list = list[:i:i] + list[i+1:] on the edge list[i] == subscription; repetition guarded by the flag set on that edge"
}
