package rules

import (
	"fmt"
	"go/constant"
	"go/token"
	"go/types"
	"strings"

	"fpcheck/internal/core"

	"golang.org/x/tools/go/ssa"
)

func init() {
	register(&Prop{
		ID: "C17",
		Explanation: "SimpleAPI request fidelity decided on SSA: (R1) verb fidelity - for every APIMake<Verb>… constructor and every SimpleHTTP verb method the method string that reaches http.NewRequestWithContext (followed through the generic constructors and the captured parameter) is the net/http constant of the verb in the function's name; " +
			"(R2) lazy and once - the constructors' own bodies and the per-call function's own body call nothing that serialises or sends; in the effect closure handed to the MonadIO builder there is at most one request call per path and exactly one on every path that does not return a serializer error; its URL argument is the result of the template fold on (relativeURL, pathParam), its header argument is the result of DefaultHeader.Clone(), its body the serializer's reader, its content type the declared one; " +
			"(R3) the template fold threads its accumulator (the string substituted into is the previous iteration's result) and the URL is BaseURL + \"/\" + accumulator; (R4) decoding happens only on the Err == nil edge, a serializer error returns a response with Err set before any request, and the assertion on the user-supplied deserializer's result is comma-ok. Not decided: the bytes of the body, multipart file handling, net/http itself. (R5) nothing handed back to a sync.Pool escapes through a result.",
		Trusted: append([]string{"net/http: a nil error from Client.Do implies a non-nil Response.Body"}, commonTrusted...),
		Run:     runC17,
		Relies: []Dep{
			{Prop: "C01", Rule: "R2", Keys: []string{"IsNil"}, Floor: 1, Why: "the API constructors decide 'no body' with fpgo.IsNil: nil slices/maps must still be serialised"},
			{Prop: "C18", Rule: "R2", Keys: []string{"SimpleHTTPDef.client/per-instance"}, Floor: 1, Why: "the request of one API goes through its own SimpleHTTP only: a client shared between instances sends it through the other instances' interceptor chains (foreign headers, foreign errors, zero requests)"},
		},
	})
}

var c17verbs = map[string]string{"Get": "GET", "Head": "HEAD", "Options": "OPTIONS", "Delete": "DELETE", "Post": "POST", "Put": "PUT", "Patch": "PATCH"}

func strConst(v ssa.Value) (string, bool) {
	k, ok := v.(*ssa.Const)
	if !ok || k.Value == nil || k.Value.Kind() != constant.String {
		return "", false
	}
	return constant.StringVal(k.Value), true
}

func runC17(c *core.Ctx) {
	p := c.P
	c.Rule("R1", "verb fidelity: the HTTP method constant that reaches the request equals the verb in the constructor's / method's name", 15)
	c.Rule("R2", "lazy, once, faithful arguments: nothing is serialised or sent outside the effect closure; inside it exactly one request on non-serializer-error paths with URL = fold(relativeURL, pathParam), header = DefaultHeader.Clone(), body = serializer output, declared content type; the request builders install the given header and Content-Type before sending", 8)
	c.Rule("R3", "path-template fold threads its accumulator and prefixes BaseURL + \"/\"", 1)
	c.Rule("R4", "failures become Err: decode only when Err == nil; serializer error returned as Err before any request; comma-ok assertion on the deserializer's result", 4)
	// ---------------- R5: nothing handed back to a sync.Pool escapes through a result
	c.Rule("R5", "a value handed back to a sync.Pool (Put, also deferred) is not returned, directly or through a result derived from it (buffer.Bytes(), a reader over it): the request body / decoded value must own its memory", 1)
	{
		isPoolPut := func(cc *ssa.CallCommon) bool { return core.StdCallee(cc) == "sync.(Pool).Put" }
		nPut, nFn := 0, 0
		for _, f := range p.Funcs {
			if f.Pkg != p.Network && f.Pkg != p.Fpgo && !(f.Parent() != nil && p.InRepo(f)) {
				continue
			}
			nFn++
			core.Instrs(f, func(ins ssa.Instruction) {
				if ci, ok := ins.(ssa.CallInstruction); ok && isPoolPut(ci.Common()) {
					nPut++
				}
			})
			for i, put := range poolEscapes(f, isPoolPut) {
				c.Fail("R5", fmt.Sprintf("%s/pool-escape#%d", core.FuncName(f), i+1), p.InstrPos(put), core.FuncName(f)+" returns memory of the value it hands back to a sync.Pool here: the next Get (a nested or concurrent call) overwrites it while the result is still in use - a request body is no longer the serializer's output")
			}
		}
		if why := c17poolSelftest(); why != "" {
			c.Unknown("R5", "matcher-selftest", "-", why)
		} else {
			c.Pass("R5", "matcher-selftest", "-", fmt.Sprintf("positive and negative examples recognised; %d sync.Pool.Put calls in %d functions, none followed by a return of pooled memory", nPut, nFn))
		}
	}
	// ---------------- generic constructors: functions in network returning a func type that wraps MonadIONewGenerics
	var generic []*ssa.Function
	for _, f := range p.Funcs {
		if f.Pkg != p.Network || f.Parent() != nil || f.Signature.Recv() != nil {
			continue
		}
		if strings.HasPrefix(f.Name(), "APIMakeDoNewRequest") {
			generic = append(generic, f)
		}
	}
	// which parameter of the generic constructor is the method: the one whose captured value reaches DoNewRequest*'s method parameter
	methodParam := map[*ssa.Function]int{}
	for _, g := range generic {
		// (simpleAPISelf, method, relativeURL, …): exported signature, identified by position and type, not by name
		if len(g.Params) > 2 && c17isString(g.Params[1].Type()) {
			methodParam[g] = 1
		}
	}
	// ---- R1: SimpleHTTP verb methods + DoNewRequest* pass-through
	doNew := map[string]*ssa.Function{}
	for _, n := range []string{"DoNewRequest", "DoNewRequestWithBodyOptions"} {
		f := p.Method(p.Network, "SimpleHTTPDef", n)
		if f == nil {
			c.Unknown("R1", "SimpleHTTPDef."+n, "-", "method not found")
			continue
		}
		doNew[n] = f
		c.Analysed(core.FuncName(f))
		// pure delegation to the sibling (DoNewRequest → DoNewRequestWithBodyOptions(ctx, header, method, url, nil, "")): the
		// sibling's own obligations cover it
		if sib := c17delegatesTo(p, f); sib != "" && sib != n {
			c.Pass("R1", "SimpleHTTPDef."+n+"/passes-method-url-body", p.Pos(f.Pos()), "delegates to "+sib+" with the same context, header, method and URL (no body, no content type)")
			c.Pass("R2", "SimpleHTTPDef."+n+"/applies-header", p.Pos(f.Pos()), "delegates to "+sib+", which installs the header")
			continue
		}
		ok := false
		// (the request may be built in an unexported helper that gets the parameters passed on)
		for _, fd := range core.DeepFind(p, f, func(ins ssa.Instruction) bool {
			call, isC := ins.(*ssa.Call)
			return isC && core.StdCallee(&call.Call) == "net/http.NewRequestWithContext"
		}) {
			call := fd.Ins.(*ssa.Call)
			arg := func(i int) ssa.Value {
				v, st := core.Up(core.Unwrap(call.Call.Args[i]), fd.Stack)
				if len(st) != 0 {
					return nil
				}
				return core.Unwrap(v)
			}
			// (ctx, method, url, body)
			ok = arg(1) == ssa.Value(f.Params[3]) && arg(2) == ssa.Value(f.Params[4]) && arg(0) == ssa.Value(f.Params[1])
			if n == "DoNewRequestWithBodyOptions" {
				ok = ok && arg(3) == ssa.Value(f.Params[5])
			}
		}
		c.Check(ok, "R1", "SimpleHTTPDef."+n+"/passes-method-url-body", p.Pos(f.Pos()), "NewRequestWithContext(ctx, method, url, body) receives the parameters unchanged", "the request is not built from the given method/url/body parameters")
		// the given header (and Content-Type) reach the request before it is sent
		// (an entry point that only hands all its parameters on - plus constants for the missing ones - is read in the
		// function doing the work)
		impl := core.SameParamsImpl(p, f)
		okH, dH := c17appliesHeader(p, impl, n == "DoNewRequestWithBodyOptions" || len(impl.Params) > len(f.Params))
		c.Check(okH, "R2", "SimpleHTTPDef."+n+"/applies-header", p.Pos(f.Pos()), dH, dH)
	}
	verbOf := func(name string) string {
		for v := range c17verbs {
			if name == v || strings.HasPrefix(name, "APIMake"+v) {
				return v
			}
		}
		return ""
	}
	for _, m := range p.Methods(p.Network, "SimpleHTTPDef") {
		v := verbOf(m.Name())
		if v == "" || strings.HasPrefix(m.Name(), "APIMake") {
			continue
		}
		c.Analysed(core.FuncName(m))
		got := "?"
		// (the request call may sit in an unexported helper that is handed the verb)
		for _, fd := range core.DeepFind(p, m, func(ins ssa.Instruction) bool {
			call, isC := ins.(*ssa.Call)
			if !isC {
				return false
			}
			g := core.Callee(&call.Call)
			return g != nil && (g == doNew["DoNewRequest"] || g == doNew["DoNewRequestWithBodyOptions"])
		}) {
			call := fd.Ins.(*ssa.Call)
			v, st := core.Up(core.Unwrap(call.Call.Args[3]), fd.Stack)
			if len(st) != 0 {
				got = "?"
				continue
			}
			if s, ok := strConst(core.Unwrap(v)); ok {
				got = s
			}
		}
		if got == "?" {
			// the verb handed to a helper whose request call sits in a closure (`doVerb(http.MethodGet, url)` running
			// `withContextTimeout(func(ctx) { return DoNewRequest(ctx, nil, method, url) })`)
			core.Instrs(m, func(ins ssa.Instruction) {
				call, isC := ins.(*ssa.Call)
				if !isC {
					return
				}
				g := core.Callee(&call.Call)
				if g == nil || !p.InRepo(g) || len(g.Blocks) == 0 {
					return
				}
				for i, a := range call.Call.Args {
					if s2, isS := strConst(core.Unwrap(a)); isS && i < len(g.Params) && c17verbReaches(p, g, g.Params[i], doNew, 0) {
						got = s2
					}
				}
			})
		}
		c.Check(got == c17verbs[v], "R1", "SimpleHTTPDef."+m.Name(), p.Pos(m.Pos()), "sends "+got, fmt.Sprintf("method %s sends HTTP %q, expected %q", m.Name(), got, c17verbs[v]))
	}
	for _, f := range p.Funcs {
		if f.Pkg != p.Network || f.Parent() != nil || f.Signature.Recv() != nil || !strings.HasPrefix(f.Name(), "APIMake") || strings.HasPrefix(f.Name(), "APIMakeDoNewRequest") {
			continue
		}
		v := verbOf(f.Name())
		if v == "" {
			c.Unknown("R1", f.Name(), p.Pos(f.Pos()), "constructor name does not contain a known verb")
			continue
		}
		c.Analysed(core.FuncName(f))
		got := "?"
		core.Instrs(f, func(ins ssa.Instruction) {
			if call, isC := ins.(*ssa.Call); isC {
				if g := core.Callee(&call.Call); g != nil {
					if i, ok := methodParam[g]; ok && i < len(call.Call.Args) {
						if s, ok := strConst(call.Call.Args[i]); ok {
							got = s
						}
					}
				}
			}
		})
		c.Check(got == c17verbs[v], "R1", f.Name(), p.Pos(f.Pos()), "passes "+got, fmt.Sprintf("constructor %s passes HTTP method %q, expected %q: every request of an API declared with it uses the wrong verb", f.Name(), got, c17verbs[v]))
	}
	// ---- R2 per generic constructor
	fold := p.Method(p.Network, "SimpleAPIDef", "replacePathParams")
	if fold == nil {
		// role: the network method calling strings.ReplaceAll
		for _, f := range p.Funcs {
			if f.Pkg == p.Network && len(callsOf(f, "strings.ReplaceAll")) > 0 {
				fold = f
			}
		}
	}
	for _, g := range generic {
		c.Analysed(core.FuncName(g))
		key := g.Name()
		// the per-call function is the closure the constructor returns; the effect is the closure that one hands to the
		// MonadIO constructor (other closures - deferred functions, trace helpers - do not matter)
		perCall := core.ReturnedClosure(p, g)
		var eff *ssa.Function
		if perCall != nil {
			eff = core.ClosureArgOf(p, perCall, func(cc *ssa.CallCommon) bool {
				h := core.Callee(cc)
				return h != nil && h.Signature.Results().Len() == 1 && core.TypeName(h.Signature.Results().At(0).Type()) == "MonadIODef"
			})
		}
		if perCall == nil || eff == nil {
			c.Unknown("R2", key, p.Pos(g.Pos()), "expected constructor → per-call function → effect closure")
			continue
		}
		// laziness: own bodies of g and perCall make no dynamic call and call only the MonadIO builder
		bad := ""
		for _, f := range []*ssa.Function{g, perCall} {
			core.Instrs(f, func(ins ssa.Instruction) {
				ci, ok := ins.(ssa.CallInstruction)
				if !ok {
					return
				}
				cc := ci.Common()
				if _, isB := cc.Value.(*ssa.Builtin); isB {
					return
				}
				h := core.Callee(cc)
				if h == nil {
					bad = fmt.Sprintf("dynamic call of %s at %s outside the effect closure: the serializer/request runs when the API function is called (or only once), not on each evaluation", core.Path(cc.Value), p.InstrPos(ins))
					return
				}
				if core.FuncName(h) != "fpgo.MonadIONewGenerics" {
					bad = fmt.Sprintf("call of %s at %s outside the effect closure", core.FuncName(h), p.InstrPos(ins))
				}
			})
		}
		// the per-call function returns MonadIONewGenerics(effect closure)
		retOK := false
		core.Instrs(perCall, func(ins ssa.Instruction) {
			if r, ok := ins.(*ssa.Return); ok {
				if call, isC := core.Resolve(core.RetVals(r)[0]).(*ssa.Call); isC {
					if h := core.Callee(&call.Call); h != nil && core.FuncName(h) == "fpgo.MonadIONewGenerics" {
						if fv := core.ResolveFuncValue(p, core.Unwrap(call.Call.Args[0])); fv != nil && fv.Fn == eff {
							retOK = true
						}
					}
				}
			}
		})
		if bad == "" && !retOK {
			bad = "the API function does not return a MonadIO built lazily around the request closure"
		}
		c.Check(bad == "", "R2", key+"/lazy", p.Pos(g.Pos()), "constructor and per-call function only build the MonadIO", bad)
		ok, detail := c17effect(p, g, perCall, eff, fold, doNew)
		c.Check(ok, "R2", key+"/effect", p.Pos(eff.Pos()), detail, detail)
		// R4 per effect: decode only on Err == nil edge
		ok4, d4 := c17decodeGuard(p, eff)
		c.Check(ok4, "R4", key+"/decode-guard", p.Pos(eff.Pos()), d4, d4)
	}
	// ---- R3
	if fold == nil {
		c.Unknown("R3", "template-fold", "-", "no function substituting path parameters found")
	} else {
		c.Analysed(core.FuncName(fold))
		ok, detail := c17fold(p, fold)
		c.Check(ok, "R3", core.FuncName(fold), p.Pos(fold.Pos()), detail, detail)
	}
	// ---- R4 comma-ok assertions on results of user-supplied function values in network
	dec := p.Func(p.Network, "decodeResponseBody")
	if dec == nil {
		c.Unknown("R4", "decodeResponseBody", "-", "function not found")
	} else {
		c.Analysed(core.FuncName(dec))
		bad := ""
		n := 0
		core.Instrs(dec, func(ins ssa.Instruction) {
			ta, ok := ins.(*ssa.TypeAssert)
			if !ok {
				return
			}
			// does the asserted value come from a dynamic call (user-supplied deserializer)?
			src := core.Resolve(ta.X)
			if ex, isE := src.(*ssa.Extract); isE {
				if call, isC := ex.Tuple.(*ssa.Call); isC && core.Callee(&call.Call) == nil && !call.Call.IsInvoke() {
					n++
					if !ta.CommaOk {
						bad = "unchecked type assertion on the user-supplied deserializer's result at " + p.InstrPos(ins) + ": a deserializer returning (nil, err) or another type panics instead of reporting Err"
					}
				}
			}
		})
		// failures while reading / decoding become Err: the read error is stored on its edge, and a result of the
		// wrong type without an error of its own gets one
		readStored, typeStored := false, false
		// values stored as Err, with the store (a local holding the same error may be tested instead of the field,
		// but only where that store is in effect)
		errStores := map[ssa.Value][]*ssa.Store{}
		core.Instrs(dec, func(ins ssa.Instruction) {
			if st, ok := ins.(*ssa.Store); ok && core.FieldKey(st.Addr) == "ResponseWithError.Err" {
				errStores[core.Resolve(st.Val)] = append(errStores[core.Resolve(st.Val)], st)
			}
		})
		core.Instrs(dec, func(ins ssa.Instruction) {
			st, ok := ins.(*ssa.Store)
			if !ok || core.FieldKey(st.Addr) != "ResponseWithError.Err" {
				return
			}
			for _, m := range core.EdgeCmps(st.Block()) {
				if m.Op == token.NEQ && core.IsNilConst(m.Y) && core.Resolve(m.X) == core.Resolve(st.Val) {
					if ex, isE := core.Resolve(st.Val).(*ssa.Extract); isE {
						if call, isC := ex.Tuple.(*ssa.Call); isC && strings.HasSuffix(core.StdCallee(&call.Call), "ReadAll") {
							readStored = true
						}
					}
				}
			}
			notOK, errNil := false, false
			_ = notOK
			_ = errNil
		})
		// the wrong-type report may sit in an unexported helper called on the not-ok edge: the facts of the helper's
		// block and of every call on the way down are taken together
		for _, fd := range core.DeepFind(p, dec, func(ins ssa.Instruction) bool {
			st, ok := ins.(*ssa.Store)
			return ok && core.FieldKey(st.Addr) == "ResponseWithError.Err"
		}) {
			st := fd.Ins.(*ssa.Store)
			var facts []core.Cond
			facts = append(facts, core.EdgeFacts(st.Block())...)
			for _, call := range fd.Stack {
				facts = append(facts, core.EdgeFacts(call.Block())...)
			}
			notOK, errNil := false, false
			for _, cnd := range facts {
				nn := core.Normalize(cnd)
				if ex, isE := nn.V.(*ssa.Extract); isE && ex.Index == 1 && !nn.True {
					if ta, isTA := ex.Tuple.(*ssa.TypeAssert); isTA && ta.CommaOk {
						notOK = true
					}
				}
				if m, isM := core.AsCmp(nn); isM && m.Op == token.EQL && core.IsNilConst(m.Y) {
					if core.FieldKey(m.X) == "ResponseWithError.Err" {
						errNil = true
					}
					for _, es := range errStores[core.Resolve(m.X)] {
						if es != st && core.InstrDominates(es, st) {
							errNil = true
						}
					}
				}
			}
			if notOK && errNil && !core.IsNilConst(st.Val) {
				typeStored = true
			}
			// the error may be kept in a local that is stored into Err once, at the end (`decodeErr = fmt.Errorf(…)` on the
			// not-ok && decodeErr == nil edge, then `response.Err = decodeErr`): the merged value is read edge by edge
			if phi, isPhi := core.Resolve(st.Val).(*ssa.Phi); isPhi {
				for i, e := range phi.Edges {
					if _, fresh := core.Resolve(e).(*ssa.Call); !fresh || i >= len(phi.Block().Preds) {
						continue
					}
					nOK, eNil := false, false
					for _, cnd := range core.EdgeFacts(phi.Block().Preds[i]) {
						nn := core.Normalize(cnd)
						if ex, isE := nn.V.(*ssa.Extract); isE && ex.Index == 1 && !nn.True {
							if ta, isTA := ex.Tuple.(*ssa.TypeAssert); isTA && ta.CommaOk {
								nOK = true
							}
						}
						if m, isM := core.AsCmp(nn); isM && m.Op == token.EQL && core.IsNilConst(m.Y) {
							for j, e2 := range phi.Edges {
								if j != i && core.Resolve(e2) == core.Resolve(m.X) {
									eNil = true
								}
							}
						}
					}
					if nOK && eNil {
						typeStored = true
					}
				}
			}
		}
		// the deserializer's own error becomes Err on every path (also where its result has the right type)
		{
			var des *ssa.Call
			core.Instrs(dec, func(ins ssa.Instruction) {
				if call, isC := ins.(*ssa.Call); isC && core.Callee(&call.Call) == nil && !call.Call.IsInvoke() && core.FieldKey(call.Call.Value) == "SimpleAPIDef.ResponseDeserializer" {
					des = call
				}
			})
			if des != nil {
				okE, _ := core.MustPassBefore(des, func(ins ssa.Instruction) bool {
					st, isS := ins.(*ssa.Store)
					if !isS || core.FieldKey(st.Addr) != "ResponseWithError.Err" {
						return false
					}
					for _, lf := range core.Origins(p, st.Val, nil) {
						if ex, isE := core.Resolve(lf.Val).(*ssa.Extract); isE && ex.Tuple == ssa.Value(des) && ex.Index == 1 {
							return true
						}
					}
					return false
				}, func(ssa.Instruction) bool { return false }, nil)
				c.Check(okE, "R4", "decodeResponseBody/deserializer-error", p.InstrPos(des), "the deserializer's error result is stored as Err on every path", "a path of decodeResponseBody returns without storing the deserializer's error as Err: a deserializer that reports (target, err) yields a response with Err == nil")
			} else {
				c.Unknown("R4", "decodeResponseBody/deserializer-error", p.Pos(dec.Pos()), "no call of the configured ResponseDeserializer found")
			}
		}
		c.Check(readStored && typeStored, "R4", "decodeResponseBody/failures-become-Err", p.Pos(dec.Pos()), "read error stored as Err; a wrong-typed result without an error gets one",
			fmt.Sprintf("decodeResponseBody drops a failure (read error stored=%v, wrong-type result reported=%v): the caller sees Err == nil with no decoded target", readStored, typeStored))
		c.Check(bad == "" && n > 0, "R4", "decodeResponseBody/assertion", p.Pos(dec.Pos()), "assertion on the deserializer's result is comma-ok", bad+map[bool]string{true: "no assertion on a deserializer result found", false: ""}[n == 0 && bad == ""])
	}
}

// c17effect checks the request closure. The request, the serializer call and the failure response may sit
// in the closure itself or in unexported helpers it calls (values are then traced through the helpers'
// parameters and results).
func c17effect(p *core.Prog, g, perCall, eff, fold *ssa.Function, doNew map[string]*ssa.Function) (bool, string) {
	isReq := func(ins ssa.Instruction) bool {
		call, ok := ins.(*ssa.Call)
		if !ok {
			return false
		}
		h := core.Callee(&call.Call)
		return h != nil && (h == doNew["DoNewRequest"] || h == doNew["DoNewRequestWithBodyOptions"])
	}
	reqs := core.DeepFind(p, eff, isReq)
	if len(reqs) != 1 {
		return false, fmt.Sprintf("the effect contains %d request calls (must be 1)", len(reqs))
	}
	req, rstack := reqs[0].Ins.(*ssa.Call), reqs[0].Stack
	// captured value helper: variable name → value bound in the enclosing functions
	capt := func(name string) ssa.Value {
		if v := capturedBinding(perCall, eff, name); v != nil {
			// may itself be a captured variable of perCall (from g)
			if fv, isFV := v.(*ssa.FreeVar); isFV {
				return capturedBinding(g, perCall, fv.Name())
			}
			if u, ok := v.(*ssa.UnOp); ok {
				if fv, isFV := u.X.(*ssa.FreeVar); isFV {
					return capturedBinding(g, perCall, fv.Name())
				}
			}
			return v
		}
		return nil
	}
	// toG: a value of some frame expressed as a value of the constructor / per-call function where possible
	toG := func(v ssa.Value, stack []*ssa.Call) ssa.Value {
		v, st := core.Up(core.Unwrap(v), stack)
		v = core.Unwrap(v)
		if len(st) != 0 {
			return v
		}
		if cv := capt(core.Path(v)); cv != nil {
			return cv
		}
		return v
	}
	isSerParam := func(v ssa.Value) bool {
		prm, ok := v.(*ssa.Parameter)
		if !ok || prm.Parent() != g {
			return false
		}
		return strings.Contains(strings.ToLower(prm.Name()), "serializer") || strings.Contains(prm.Type().String(), "Serializer")
	}
	// serializer call: dynamic call of the constructor's serializer parameter
	var ser *ssa.Call
	var sstack []*ssa.Call
	for _, f := range core.DeepFind(p, eff, func(ins ssa.Instruction) bool {
		call, ok := ins.(*ssa.Call)
		if !ok || core.Callee(&call.Call) != nil || call.Call.IsInvoke() {
			return false
		}
		_, isB := call.Call.Value.(*ssa.Builtin)
		return !isB
	}) {
		call := f.Ins.(*ssa.Call)
		if isSerParam(toG(call.Call.Value, f.Stack)) {
			ser, sstack = call, f.Stack
		}
	}
	withBody := core.Callee(&req.Call) == doNew["DoNewRequestWithBodyOptions"]
	// leaves of a value: every one is nil/"" or the given result of the serializer call
	fromSer := func(v ssa.Value, stack []*ssa.Call, idx int, neutral func(ssa.Value) bool) (all, some bool) {
		all = true
		for _, lf := range core.Origins(p, v, stack) {
			if neutral(lf.Val) {
				continue
			}
			if ex, ok := lf.Val.(*ssa.Extract); ok && ser != nil && ex.Tuple == ssa.Value(ser) && (ex.Index == idx || idx < 0 && ex.Index == ser.Call.Signature().Results().Len()-1) {
				some = true
				continue
			}
			all = false
		}
		return
	}
	// once: exactly one on paths that do not return on the serializer-error edge
	serErrEdge := func(b *ssa.BasicBlock) bool {
		if ser == nil {
			return false
		}
		for _, m := range core.EdgeCmps(b) {
			if m.Op != token.NEQ || !core.IsNilConst(m.Y) {
				continue
			}
			if all, some := fromSer(m.X, nil, -1, core.IsNilConst); all && some {
				return true
			}
		}
		return false
	}
	min, max := core.DeepCount(p, eff, isReq, serErrEdge)
	if min != 1 || max != 1 {
		return false, fmt.Sprintf("the request is issued %d..%d times per evaluation on paths without a serializer error (must be exactly 1)", min, max)
	}
	// the request's context is still alive when the request is made: its cancel function is deferred (or called
	// afterwards), never called before the request
	if cv, _ := core.Up(req.Call.Args[1], rstack); cv != nil {
		if ex, isE := core.Resolve(cv).(*ssa.Extract); isE && ex.Index == 0 {
			for _, r := range *ex.Tuple.Referrers() {
				cx, isX := r.(*ssa.Extract)
				if !isX || cx.Index != 1 {
					continue
				}
				for _, u := range *cx.Referrers() {
					// the context must outlive the reading of the response body: a cancel deferred in (or called at the end
					// of) a helper that returns before the decoder runs aborts bodies that are still streaming
					if ci, isCI := u.(ssa.CallInstruction); isCI && ci.Common().Value == ssa.Value(cx) {
						if dec := p.Func(p.Network, "decodeResponseBody"); dec != nil {
							for _, fd := range core.DeepFind(p, eff, func(ins ssa.Instruction) bool {
								c2, isC2 := ins.(*ssa.Call)
								return isC2 && core.Callee(&c2.Call) == dec
							}) {
								frames := map[*ssa.Function]bool{fd.Ins.Parent(): true}
								for _, sc := range fd.Stack {
									frames[sc.Parent()] = true
								}
								if !frames[u.Parent()] {
									return false, "the request context is cancelled (in " + core.FuncName(u.Parent()) + ") before the response body is read and decoded: a body that is still being received comes back as 'context canceled'"
								}
							}
						}
					}
					if call, isCall := u.(*ssa.Call); isCall && call.Call.Value == ssa.Value(cx) {
						// a plain (non-deferred) call of cancel: must not come before the request / the helper call leading to it
						at := ssa.Instruction(req)
						if len(rstack) > 0 && call.Parent() != req.Parent() {
							for _, sc := range rstack {
								if sc.Parent() == call.Parent() {
									at = sc
								}
							}
						}
						if call.Parent() == at.Parent() && core.InstrDominates(call, at) {
							return false, "the request context is cancelled before the request is made (cancel is called, not deferred): every evaluation fails with 'context canceled' and no request reaches the server"
						}
					}
				}
			}
		}
	}
	args := req.Call.Args // (recv, ctx, header, method, url, [body, contentType])
	// header = DefaultHeader.Clone()
	hv, _ := core.Up(args[2], rstack)
	hdr, okH := hv.(*ssa.Call)
	if !okH || core.StdCallee(&hdr.Call) != "net/http.(Header).Clone" || core.FieldKey(hdr.Call.Args[0]) != "SimpleAPIDef.DefaultHeader" {
		return false, "the header passed to the request is not a fresh DefaultHeader.Clone(): the shared DefaultHeader map itself is handed to the request, so interceptors/Content-Type additions accumulate in it and leak into later requests"
	}
	// method = captured method parameter of g
	okM := false
	mv := toG(args[3], rstack)
	if len(g.Params) > 2 && c17isString(g.Params[1].Type()) && mv == ssa.Value(g.Params[1]) {
		okM = true
	}
	if !okM {
		return false, "the HTTP method passed to the request is not the constructor's method parameter"
	}
	// url = fold(relativeURL, pathParam)
	uv, ustack := core.Up(args[4], rstack)
	u, okU := uv.(*ssa.Call)
	if !okU || fold == nil || core.Callee(&u.Call) != fold {
		return false, "the URL passed to the request is not the result of the path-template substitution"
	}
	relOK, ppOK := false, false
	rel := toG(u.Call.Args[1], ustack)
	if len(g.Params) > 2 && c17isString(g.Params[2].Type()) && rel == ssa.Value(g.Params[2]) {
		relOK = true
	}
	if pv, pst := core.Up(u.Call.Args[2], ustack); len(pst) == 0 && capturedBinding(perCall, eff, core.Path(pv)) == ssa.Value(perCall.Params[0]) {
		ppOK = true
	}
	if !relOK || !ppOK {
		return false, "the template substitution is not applied to (relativeURL, pathParam) of this API call"
	}
	if withBody && ser == nil && len(perCall.Params) < 3 {
		// an API without a body sent through the general entry point: no body and no content type, as DoNewRequest does
		isEmpty := func(v ssa.Value) bool { s, isS := strConst(v); return isS && s == "" }
		allB, _ := fromSer(args[5], rstack, 0, core.IsNilConst)
		allC, _ := fromSer(args[6], rstack, 1, isEmpty)
		if !allB || !allC {
			return false, "an API declared without a body sends a body or a Content-Type"
		}
	} else if withBody {
		// body reader = nil or the serializer's first result
		if all, some := fromSer(args[5], rstack, 0, core.IsNilConst); !all || !some || ser == nil {
			return false, "the request body is not the serializer's output for the given body"
		}
		// the serializer runs exactly where a body was given: every absence test of the body on the way to it
		// (fpgo.IsNil(body)) has the not-nil polarity
		serBlocks := []*ssa.BasicBlock{ser.Block()}
		for _, sc := range sstack {
			serBlocks = append(serBlocks, sc.Block())
		}
		for _, sb := range serBlocks {
			for _, cnd := range core.EdgeFacts(sb) {
				n := core.Normalize(cnd)
				if call, isC := n.V.(*ssa.Call); isC && n.True {
					if h := core.Callee(&call.Call); h != nil && core.FuncName(h) == "fpgo.IsNil" {
						return false, "the serializer is applied only when the body is nil: a given body is never serialised (the request goes out without it) and a nil body is handed to the serializer"
					}
				}
			}
		}
		// serializer is applied to the captured body parameter of the per-call function
		if bv, bst := core.Up(core.Unwrap(ser.Call.Args[0]), sstack); len(bst) != 0 || capturedBinding(perCall, eff, core.Path(core.Unwrap(bv))) != ssa.Value(perCall.Params[1]) {
			return false, "the serializer is not applied to the body given to this API call"
		}
		// content type: the constructor's parameter, or the serializer's second result (multipart)
		okCT := false
		if cv := toG(args[6], rstack); cv != nil {
			if len(g.Params) > 3 && c17isString(g.Params[3].Type()) && cv == ssa.Value(g.Params[3]) {
				okCT = true
			}
		}
		if !okCT {
			isEmpty := func(v ssa.Value) bool { s, isS := strConst(v); return isS && s == "" }
			if all, some := fromSer(args[6], rstack, 1, isEmpty); all && some {
				okCT = true
			}
		}
		if !okCT {
			return false, "the Content-Type passed is neither the declared one nor the multipart serializer's"
		}
		// serializer error edge returns a response with Err set, before any request
		okErr := false
		for _, f := range core.DeepFind(p, eff, func(ins ssa.Instruction) bool {
			st, isS := ins.(*ssa.Store)
			return isS && core.FieldKey(st.Addr) == "ResponseWithError.Err"
		}) {
			st := f.Ins.(*ssa.Store)
			all, some := fromSer(st.Val, f.Stack, -1, core.IsNilConst)
			if !all || !some {
				continue
			}
			// the store (or the helper call leading to it) sits on the serializer-error edge of the effect
			if serErrEdge(st.Block()) {
				okErr = true
			}
			for _, sc := range f.Stack {
				if serErrEdge(sc.Block()) {
					okErr = true
				}
			}
		}
		if !okErr {
			return false, "a serializer error is not returned as Err on the response"
		}
	}
	return true, "one request per evaluation: header = DefaultHeader.Clone(), method = constructor's, URL = fold(relativeURL, pathParam), body/content type from the serializer"
}

// c17decodeGuard: decodeResponseBody is called only where response.Err == nil is known.
func c17decodeGuard(p *core.Prog, eff *ssa.Function) (bool, string) {
	found := core.DeepFind(p, eff, func(ins ssa.Instruction) bool {
		call, isC := ins.(*ssa.Call)
		if !isC {
			return false
		}
		g := core.Callee(&call.Call)
		return g != nil && core.FuncName(g) == "network.decodeResponseBody"
	})
	if len(found) == 0 {
		return false, "the effect never decodes the response body into the target"
	}
	errNil := func(b *ssa.BasicBlock) bool {
		for _, m := range core.EdgeCmps(b) {
			if m.Op == token.EQL && core.IsNilConst(m.Y) && core.FieldKey(m.X) == "ResponseWithError.Err" {
				return true
			}
		}
		// a private one-line predicate over the same field (`response.failed()` = `response.Err != nil`)
		for _, cnd := range core.EdgeFacts(b) {
			n := core.Normalize(cnd)
			call, isC := n.V.(*ssa.Call)
			if !isC {
				continue
			}
			h := core.Callee(&call.Call)
			if h == nil || !p.InRepo(h) || len(h.Blocks) != 1 || h.Object() == nil || h.Object().Exported() {
				continue
			}
			ret, isRet := h.Blocks[0].Instrs[len(h.Blocks[0].Instrs)-1].(*ssa.Return)
			if !isRet || len(ret.Results) != 1 {
				continue
			}
			if m, okM := core.AsCmp(core.Cond{V: ret.Results[0], True: n.True}); okM && m.Op == token.EQL && core.IsNilConst(m.Y) && core.FieldKey(m.X) == "ResponseWithError.Err" {
				return true
			}
		}
		return false
	}
	for _, f := range found {
		// the guard may sit next to the decode or at any call on the way to it
		guarded := errNil(f.Ins.Block())
		for _, s := range f.Stack {
			if errNil(s.Block()) {
				guarded = true
			}
		}
		if !guarded {
			return false, "the response body is decoded without knowing Err == nil: Response is nil after a transport failure and reading its Body panics"
		}
	}
	return true, "decode only on the Err == nil edge"
}

func c17fold(p *core.Prog, fold *ssa.Function) (bool, string) {
	reps := callsOf(fold, "strings.ReplaceAll")
	if len(reps) != 1 || !core.InLoop(reps[0].Block()) {
		return false, "expected one strings.ReplaceAll inside the loop over the path parameters"
	}
	rep := reps[0]
	phi, ok := rep.Call.Args[0].(*ssa.Phi)
	if !ok {
		return false, "the string substituted into (" + core.Path(rep.Call.Args[0]) + ") is loop-invariant: every iteration restarts from the template, so only the last of several parameters is substituted"
	}
	carried, init := false, false
	for i, e := range phi.Edges {
		if e == ssa.Value(rep) {
			carried = true
		} else if e == ssa.Value(fold.Params[1]) {
			init = true
		} else {
			// an iteration that keeps the accumulator unchanged: allowed only on an edge that proves the
			// placeholder does not occur in it (strings.Contains false, strings.Index < 0 / == -1)
			absent := false
			for _, cnd := range core.EdgeFacts(phi.Block().Preds[i]) {
				n := core.Normalize(cnd)
				if call, isC := n.V.(*ssa.Call); isC && core.StdCallee(&call.Call) == "strings.Contains" && !n.True {
					absent = true
				}
				if cmp, isCmp := core.AsCmp(n); isCmp {
					if call, isC := core.Resolve(cmp.X).(*ssa.Call); isC && core.StdCallee(&call.Call) == "strings.Index" {
						if cmp.Op == token.LSS && core.IsIntConst(cmp.Y, 0) || cmp.Op == token.EQL && core.IsIntConst(cmp.Y, -1) || cmp.Op == token.LEQ && core.IsIntConst(cmp.Y, -1) {
							absent = true
						}
					}
				}
			}
			if !absent {
				return false, "an iteration can leave the template unsubstituted although the placeholder may occur in it (the skip condition does not prove its absence): a parameter is silently not replaced"
			}
		}
	}
	if !carried || !init {
		return false, "the accumulator does not start from the template and carry the previous substitution"
	}
	// return BaseURL + "/" + accumulator
	okRet := false
	core.Instrs(fold, func(ins ssa.Instruction) {
		if r, isR := ins.(*ssa.Return); isR {
			b, isB := core.RetVals(r)[0].(*ssa.BinOp)
			if !isB || b.Op != token.ADD {
				return
			}
			b2, isB2 := b.X.(*ssa.BinOp)
			if !isB2 || b2.Op != token.ADD {
				return
			}
			sep, isS := strConst(b2.Y)
			if core.FieldKey(b2.X) == "SimpleAPIDef.BaseURL" && isS && sep == "/" && b.Y == ssa.Value(phi) {
				okRet = true
			}
		}
	})
	if !okRet {
		return false, "the result is not BaseURL + \"/\" + the substituted template"
	}
	return true, "accumulator threaded through the loop; result BaseURL + \"/\" + accumulator"
}

// c17appliesHeader: between building the request and sending it, the header parameter is installed as the
// request's header wherever it is non-nil, and (body variant) the content type is added wherever it is non-empty.
func c17appliesHeader(p *core.Prog, f *ssa.Function, withCT bool) (bool, string) {
	var build, send *ssa.Call
	var helperBuild *ssa.Call // the NewRequestWithContext call inside the helper, when build is a helper call
	isBuild := func(ins ssa.Instruction) bool {
		call, ok := ins.(*ssa.Call)
		return ok && core.StdCallee(&call.Call) == "net/http.NewRequestWithContext"
	}
	core.Instrs(f, func(ins ssa.Instruction) {
		if call, ok := ins.(*ssa.Call); ok {
			if isBuild(ins) {
				build = call
			}
			if g := core.Callee(&call.Call); g != nil && g.Name() == "DoRequest" {
				send = call
			}
		}
	})
	if build == nil {
		// an unexported helper that builds the request and returns (request, error)
		for _, fd := range core.DeepFind(p, f, isBuild) {
			if len(fd.Stack) == 1 && fd.Stack[0].Call.Signature().Results().Len() == 2 {
				build, helperBuild = fd.Stack[0], fd.Ins.(*ssa.Call)
			}
		}
	}
	if send == nil {
		// the sending may be done by an unexported helper that is handed the built request (`doBuiltRequest(buildRequest(…))`)
		for _, fd := range core.DeepFind(p, f, func(ins ssa.Instruction) bool {
			call, ok := ins.(*ssa.Call)
			if !ok {
				return false
			}
			g := core.Callee(&call.Call)
			return g != nil && g.Name() == "DoRequest"
		}) {
			if len(fd.Stack) >= 1 {
				send = fd.Stack[0]
			}
		}
	}
	if build == nil || send == nil {
		return false, "the request is not built with NewRequestWithContext and sent through DoRequest"
	}
	header := ssa.Value(f.Params[2])
	isParamTest := func(b, s2 *ssa.BasicBlock, prm ssa.Value, absent func(core.Cmp) bool) bool {
		iff, ok := b.Instrs[len(b.Instrs)-1].(*ssa.If)
		if !ok || len(b.Succs) != 2 {
			return false
		}
		for _, cnd := range core.ExpandCond(core.Cond{V: iff.Cond, True: b.Succs[0] == s2, If: iff}) {
			if m, isM := core.AsCmp(cnd); isM && core.Resolve(m.X) == prm && absent(m) {
				return true
			}
		}
		return false
	}
	errEdge := func(b, s2 *ssa.BasicBlock) bool {
		iff, ok := b.Instrs[len(b.Instrs)-1].(*ssa.If)
		if !ok || len(b.Succs) != 2 {
			return false
		}
		for _, cnd := range core.ExpandCond(core.Cond{V: iff.Cond, True: b.Succs[0] == s2, If: iff}) {
			if m, isM := core.AsCmp(cnd); isM && m.Op == token.NEQ && core.IsNilConst(m.Y) {
				if ex, isE := core.Resolve(m.X).(*ssa.Extract); isE && ex.Tuple == ssa.Value(build) && ex.Index == 1 {
					return true
				}
			}
		}
		return false
	}
	okH, _ := core.MustPassBefore(build, func(ins ssa.Instruction) bool {
		st, ok := ins.(*ssa.Store)
		return ok && core.FieldKey(st.Addr) == "Request.Header" && core.Resolve(st.Val) == header
	}, func(ins ssa.Instruction) bool { return ins == ssa.Instruction(send) }, func(b, s2 *ssa.BasicBlock) bool {
		return errEdge(b, s2) || isParamTest(b, s2, header, func(m core.Cmp) bool { return m.Op == token.EQL && core.IsNilConst(m.Y) })
	})
	if !okH && helperBuild != nil {
		// the helper installs the header it is given before it returns the request: every non-error return of the helper
		// passes the store, and the helper gets this function's header
		h := helperBuild.Parent()
		for j, prm := range h.Params {
			if j >= len(build.Call.Args) || core.Resolve(build.Call.Args[j]) != header {
				continue
			}
			hHeader := ssa.Value(prm)
			hErrEdge := func(b, s2 *ssa.BasicBlock) bool {
				iff, ok := b.Instrs[len(b.Instrs)-1].(*ssa.If)
				if !ok || len(b.Succs) != 2 {
					return false
				}
				for _, cnd := range core.ExpandCond(core.Cond{V: iff.Cond, True: b.Succs[0] == s2, If: iff}) {
					if m, isM := core.AsCmp(cnd); isM && m.Op == token.NEQ && core.IsNilConst(m.Y) {
						if ex, isE := core.Resolve(m.X).(*ssa.Extract); isE && ex.Tuple == ssa.Value(helperBuild) && ex.Index == 1 {
							return true
						}
					}
				}
				return false
			}
			okH, _ = core.MustPassBefore(helperBuild, func(ins ssa.Instruction) bool {
				st, ok := ins.(*ssa.Store)
				return ok && core.FieldKey(st.Addr) == "Request.Header" && core.Resolve(st.Val) == hHeader
			}, func(ssa.Instruction) bool { return false }, func(b, s2 *ssa.BasicBlock) bool {
				return hErrEdge(b, s2) || isParamTest(b, s2, hHeader, func(m core.Cmp) bool { return m.Op == token.EQL && core.IsNilConst(m.Y) })
			})
		}
	}
	if !okH {
		return false, "the given header is not installed on the request on every path where it is non-nil: the copy of DefaultHeader never reaches the server"
	}
	if withCT {
		ct := ssa.Value(f.Params[6])
		okC, _ := core.MustPassBefore(build, func(ins ssa.Instruction) bool {
			call, ok := ins.(*ssa.Call)
			if !ok || core.StdCallee(&call.Call) != "net/http.(Header).Add" && core.StdCallee(&call.Call) != "net/http.(Header).Set" {
				return false
			}
			k, isS := strConst(call.Call.Args[1])
			return isS && k == "Content-Type" && core.Resolve(call.Call.Args[2]) == ct
		}, func(ins ssa.Instruction) bool { return ins == ssa.Instruction(send) }, func(b, s2 *ssa.BasicBlock) bool {
			return errEdge(b, s2) || isParamTest(b, s2, ct, func(m core.Cmp) bool {
				s, isS := strConst(m.Y)
				return m.Op == token.EQL && isS && s == ""
			})
		})
		if !okC && helperBuild != nil {
			// the helper that builds the request adds the content type it is given before it returns the request
			h := helperBuild.Parent()
			for j, prm := range h.Params {
				if j >= len(build.Call.Args) || core.Resolve(build.Call.Args[j]) != ct {
					continue
				}
				hCT := ssa.Value(prm)
				hErrEdge := func(b, s2 *ssa.BasicBlock) bool {
					iff, ok := b.Instrs[len(b.Instrs)-1].(*ssa.If)
					if !ok || len(b.Succs) != 2 {
						return false
					}
					for _, cnd := range core.ExpandCond(core.Cond{V: iff.Cond, True: b.Succs[0] == s2, If: iff}) {
						if m, isM := core.AsCmp(cnd); isM && m.Op == token.NEQ && core.IsNilConst(m.Y) {
							if ex, isE := core.Resolve(m.X).(*ssa.Extract); isE && ex.Tuple == ssa.Value(helperBuild) && ex.Index == 1 {
								return true
							}
						}
					}
					return false
				}
				okC, _ = core.MustPassBefore(helperBuild, func(ins ssa.Instruction) bool {
					call, ok := ins.(*ssa.Call)
					if !ok || core.StdCallee(&call.Call) != "net/http.(Header).Add" && core.StdCallee(&call.Call) != "net/http.(Header).Set" {
						return false
					}
					k, isS := strConst(call.Call.Args[1])
					return isS && k == "Content-Type" && core.Resolve(call.Call.Args[2]) == hCT
				}, func(ssa.Instruction) bool { return false }, func(b, s2 *ssa.BasicBlock) bool {
					return hErrEdge(b, s2) || isParamTest(b, s2, hCT, func(m core.Cmp) bool {
						s, isS := strConst(m.Y)
						return m.Op == token.EQL && isS && s == ""
					})
				})
			}
		}
		if !okC {
			return false, "the declared Content-Type is not added to the request on every path where it is non-empty"
		}
	}
	return true, "header installed where non-nil" + map[bool]string{true: "; Content-Type added where non-empty", false: ""}[withCT]
}


const c17poolSnippet = `package snippet

type Pool struct{}

func (p *Pool) Put(x interface{}) {}
func (p *Pool) Get() interface{}  { return nil }

type Buf struct{ b []byte }

func (b *Buf) Bytes() []byte { return b.b }

var pool Pool

func wrap(b []byte) *Buf { return &Buf{b} }

func bad() []byte { b := pool.Get().(*Buf); defer pool.Put(b); return b.Bytes() }
func badWrapped() *Buf { b := pool.Get().(*Buf); defer pool.Put(b); return wrap(b.Bytes()) }
func badDirect() *Buf { b := pool.Get().(*Buf); pool.Put(b); return b }
func good() []byte {
	b := pool.Get().(*Buf)
	defer pool.Put(b)
	out := make([]byte, len(b.Bytes()))
	copy(out, b.Bytes())
	return out
}
func goodErrPath(fail bool) *Buf {
	b := pool.Get().(*Buf)
	if fail {
		pool.Put(b)
		return nil
	}
	return b
}
`

func c17poolSelftest() string {
	sp, err := core.BuildSnippet(c17poolSnippet)
	if err != nil {
		return "cannot build the self-test snippet: " + err.Error()
	}
	isPut := func(cc *ssa.CallCommon) bool {
		g := cc.StaticCallee()
		return g != nil && g.Name() == "Put" && g.Signature.Recv() != nil
	}
	for name, want := range map[string]int{"bad": 1, "badWrapped": 1, "badDirect": 1, "good": 0, "goodErrPath": 0} {
		f := sp.Func(name)
		if f == nil {
			return "self-test function " + name + " missing"
		}
		if got := len(poolEscapes(f, isPut)); got != want {
			return fmt.Sprintf("matcher self-test: %s flagged %d times, expected %d", name, got, want)
		}
	}
	return ""
}


func c17isString(t types.Type) bool {
	b, ok := t.Underlying().(*types.Basic)
	return ok && b.Kind() == types.String
}


// c17delegatesTo: f (a DoNewRequest* method) only returns the result of a sibling DoNewRequest* method called with its own
// receiver, context, header, method and URL in that order, any further arguments being nil / "" constants. Returns the
// sibling's name or "".
func c17delegatesTo(p *core.Prog, f *ssa.Function) string {
	if len(f.Blocks) != 1 {
		return ""
	}
	ret, ok := f.Blocks[0].Instrs[len(f.Blocks[0].Instrs)-1].(*ssa.Return)
	if !ok || len(ret.Results) != 1 {
		return ""
	}
	call, ok := core.Resolve(ret.Results[0]).(*ssa.Call)
	if !ok {
		return ""
	}
	g := core.Callee(&call.Call)
	if g == nil || g == f || g.Pkg != p.Network || !strings.HasPrefix(g.Name(), "DoNewRequest") || len(call.Call.Args) < 5 || len(f.Params) < 5 {
		return ""
	}
	for i := 0; i < 5; i++ {
		if core.Unwrap(core.Resolve(call.Call.Args[i])) != ssa.Value(f.Params[i]) {
			return ""
		}
	}
	for _, a := range call.Call.Args[5:] {
		k, isK := core.Unwrap(a).(*ssa.Const)
		if !isK || !(k.Value == nil || k.Value.ExactString() == `""`) {
			return ""
		}
	}
	// nothing else happens in f
	n := 0
	core.Instrs(f, func(ins ssa.Instruction) {
		if _, isC := ins.(ssa.CallInstruction); isC {
			n++
		}
	})
	if n != 1 {
		return ""
	}
	return g.Name()
}

// c17verbReaches: in g and the closures it builds there is at least one request call, and the method argument of every
// one of them is g's parameter prm (read directly or through the closures' captures).
func c17verbReaches(p *core.Prog, g *ssa.Function, prm *ssa.Parameter, doNew map[string]*ssa.Function, depth int) bool {
	n, ok := 0, true
	var visit func(fn *ssa.Function, toG func(ssa.Value) ssa.Value)
	visit = func(fn *ssa.Function, toG func(ssa.Value) ssa.Value) {
		core.Instrs(fn, func(ins ssa.Instruction) {
			call, isC := ins.(*ssa.Call)
			if !isC {
				return
			}
			h := core.Callee(&call.Call)
			if h != nil && (h == doNew["DoNewRequest"] || h == doNew["DoNewRequestWithBodyOptions"]) {
				n++
				if toG(core.Unwrap(call.Call.Args[3])) != ssa.Value(prm) {
					ok = false
				}
			}
		})
		for _, a := range fn.AnonFuncs {
			a := a
			visit(a, func(v ssa.Value) ssa.Value {
				v = core.Resolve(v)
				if b := capturedBinding(fn, a, core.Path(v)); b != nil {
					return toG(b)
				}
				return v
			})
		}
	}
	visit(g, func(v ssa.Value) ssa.Value { return core.Resolve(v) })
	return ok && n > 0
}
