package rules

import (
	"fmt"
	"go/constant"
	"go/token"
	"strings"

	"fpcheck/internal/core"

	"golang.org/x/tools/go/ssa"
)

func init() {
	register(&Prop{
		ID: "C17",
		Explanation: "SimpleAPI request fidelity decided on SSA: (R1) verb fidelity - for every APIMake<Verb>… constructor and every SimpleHTTP verb method the method string that reaches http.NewRequestWithContext (followed through the generic constructors and the captured parameter) is the net/http constant of the verb in the function's name; " +
			"(R2) lazy and once - the constructors' own bodies and the per-call function's own body call nothing that serialises or sends; in the effect closure handed to the MonadIO builder there is at most one request call per path and exactly one on every path that does not return a serializer error; its URL argument is the result of the template fold on (relativeURL, pathParam), its header argument is the result of DefaultHeader.Clone(), its body the serializer's reader, its content type the declared one; " +
			"(R3) the template fold threads its accumulator (the string substituted into is the previous iteration's result) and the URL is BaseURL + \"/\" + accumulator; (R4) decoding happens only on the Err == nil edge, a serializer error returns a response with Err set before any request, and the assertion on the user-supplied deserializer's result is comma-ok. Not decided: the bytes of the body, multipart file handling, net/http itself.",
		Trusted: append([]string{"net/http: a nil error from Client.Do implies a non-nil Response.Body"}, commonTrusted...),
		Run:     runC17,
	})
}

var c17verbs = map[string]string{"Get": "GET", "Head": "HEAD", "Options": "OPTIONS", "Delete": "DELETE", "Post": "POST", "Put": "PUT", "Patch": "PATCH"}

func strConst(v ssa.Value) (string, bool) {
	k, ok := v.(*ssa.Const)
	if !ok || k.Value == nil || k.Value.Kind() != constant.String {
		return "", false
	}
	return constant.StringVal(k.Value), true
}

func runC17(c *core.Ctx) {
	p := c.P
	c.Rule("R1", "verb fidelity: the HTTP method constant that reaches the request equals the verb in the constructor's / method's name", 15)
	c.Rule("R2", "lazy, once, faithful arguments: nothing is serialised or sent outside the effect closure; inside it exactly one request on non-serializer-error paths with URL = fold(relativeURL, pathParam), header = DefaultHeader.Clone(), body = serializer output, declared content type", 6)
	c.Rule("R3", "path-template fold threads its accumulator and prefixes BaseURL + \"/\"", 1)
	c.Rule("R4", "failures become Err: decode only when Err == nil; serializer error returned as Err before any request; comma-ok assertion on the deserializer's result", 4)
	// ---------------- generic constructors: functions in network returning a func type that wraps MonadIONewGenerics
	var generic []*ssa.Function
	for _, f := range p.Funcs {
		if f.Pkg != p.Network || f.Parent() != nil || f.Signature.Recv() != nil {
			continue
		}
		if strings.HasPrefix(f.Name(), "APIMakeDoNewRequest") {
			generic = append(generic, f)
		}
	}
	// which parameter of the generic constructor is the method: the one whose captured value reaches DoNewRequest*'s method parameter
	methodParam := map[*ssa.Function]int{}
	for _, g := range generic {
		for i, prm := range g.Params {
			if prm.Name() == "method" {
				methodParam[g] = i
			}
		}
	}
	// ---- R1: SimpleHTTP verb methods + DoNewRequest* pass-through
	doNew := map[string]*ssa.Function{}
	for _, n := range []string{"DoNewRequest", "DoNewRequestWithBodyOptions"} {
		f := p.Method(p.Network, "SimpleHTTPDef", n)
		if f == nil {
			c.Unknown("R1", "SimpleHTTPDef."+n, "-", "method not found")
			continue
		}
		doNew[n] = f
		c.Analysed(core.FuncName(f))
		ok := false
		core.Instrs(f, func(ins ssa.Instruction) {
			if call, isC := ins.(*ssa.Call); isC && core.StdCallee(&call.Call) == "net/http.NewRequestWithContext" {
				// (ctx, method, url, body)
				ok = call.Call.Args[1] == ssa.Value(f.Params[3]) && call.Call.Args[2] == ssa.Value(f.Params[4]) && call.Call.Args[0] == ssa.Value(f.Params[1])
				if n == "DoNewRequestWithBodyOptions" {
					ok = ok && core.Unwrap(call.Call.Args[3]) == ssa.Value(f.Params[5])
				}
			}
		})
		c.Check(ok, "R1", "SimpleHTTPDef."+n+"/passes-method-url-body", p.Pos(f.Pos()), "NewRequestWithContext(ctx, method, url, body) receives the parameters unchanged", "the request is not built from the given method/url/body parameters")
	}
	verbOf := func(name string) string {
		for v := range c17verbs {
			if name == v || strings.HasPrefix(name, "APIMake"+v) {
				return v
			}
		}
		return ""
	}
	for _, m := range p.Methods(p.Network, "SimpleHTTPDef") {
		v := verbOf(m.Name())
		if v == "" || strings.HasPrefix(m.Name(), "APIMake") {
			continue
		}
		c.Analysed(core.FuncName(m))
		got := "?"
		core.Instrs(m, func(ins ssa.Instruction) {
			if call, isC := ins.(*ssa.Call); isC {
				if g := core.Callee(&call.Call); g != nil && (g == doNew["DoNewRequest"] || g == doNew["DoNewRequestWithBodyOptions"]) {
					if s, ok := strConst(call.Call.Args[3]); ok {
						got = s
					}
				}
			}
		})
		c.Check(got == c17verbs[v], "R1", "SimpleHTTPDef."+m.Name(), p.Pos(m.Pos()), "sends "+got, fmt.Sprintf("method %s sends HTTP %q, expected %q", m.Name(), got, c17verbs[v]))
	}
	for _, f := range p.Funcs {
		if f.Pkg != p.Network || f.Parent() != nil || f.Signature.Recv() != nil || !strings.HasPrefix(f.Name(), "APIMake") || strings.HasPrefix(f.Name(), "APIMakeDoNewRequest") {
			continue
		}
		v := verbOf(f.Name())
		if v == "" {
			c.Unknown("R1", f.Name(), p.Pos(f.Pos()), "constructor name does not contain a known verb")
			continue
		}
		c.Analysed(core.FuncName(f))
		got := "?"
		core.Instrs(f, func(ins ssa.Instruction) {
			if call, isC := ins.(*ssa.Call); isC {
				if g := core.Callee(&call.Call); g != nil {
					if i, ok := methodParam[g]; ok && i < len(call.Call.Args) {
						if s, ok := strConst(call.Call.Args[i]); ok {
							got = s
						}
					}
				}
			}
		})
		c.Check(got == c17verbs[v], "R1", f.Name(), p.Pos(f.Pos()), "passes "+got, fmt.Sprintf("constructor %s passes HTTP method %q, expected %q: every request of an API declared with it uses the wrong verb", f.Name(), got, c17verbs[v]))
	}
	// ---- R2 per generic constructor
	fold := p.Method(p.Network, "SimpleAPIDef", "replacePathParams")
	if fold == nil {
		// role: the network method calling strings.ReplaceAll
		for _, f := range p.Funcs {
			if f.Pkg == p.Network && len(callsOf(f, "strings.ReplaceAll")) > 0 {
				fold = f
			}
		}
	}
	for _, g := range generic {
		c.Analysed(core.FuncName(g))
		key := g.Name()
		if len(g.AnonFuncs) != 1 || len(g.AnonFuncs[0].AnonFuncs) != 1 {
			c.Unknown("R2", key, p.Pos(g.Pos()), "expected constructor → per-call function → effect closure")
			continue
		}
		perCall := g.AnonFuncs[0]
		eff := perCall.AnonFuncs[0]
		// laziness: own bodies of g and perCall make no dynamic call and call only the MonadIO builder
		bad := ""
		for _, f := range []*ssa.Function{g, perCall} {
			core.Instrs(f, func(ins ssa.Instruction) {
				ci, ok := ins.(ssa.CallInstruction)
				if !ok {
					return
				}
				cc := ci.Common()
				if _, isB := cc.Value.(*ssa.Builtin); isB {
					return
				}
				h := core.Callee(cc)
				if h == nil {
					bad = fmt.Sprintf("dynamic call of %s at %s outside the effect closure: the serializer/request runs when the API function is called (or only once), not on each evaluation", core.Path(cc.Value), p.InstrPos(ins))
					return
				}
				if core.FuncName(h) != "fpgo.MonadIONewGenerics" {
					bad = fmt.Sprintf("call of %s at %s outside the effect closure", core.FuncName(h), p.InstrPos(ins))
				}
			})
		}
		// the per-call function returns MonadIONewGenerics(effect closure)
		retOK := false
		core.Instrs(perCall, func(ins ssa.Instruction) {
			if r, ok := ins.(*ssa.Return); ok {
				if call, isC := core.Resolve(core.RetVals(r)[0]).(*ssa.Call); isC {
					if h := core.Callee(&call.Call); h != nil && core.FuncName(h) == "fpgo.MonadIONewGenerics" {
						if mc, isMC := call.Call.Args[0].(*ssa.MakeClosure); isMC && mc.Fn == ssa.Value(eff) {
							retOK = true
						}
					}
				}
			}
		})
		if bad == "" && !retOK {
			bad = "the API function does not return a MonadIO built lazily around the request closure"
		}
		c.Check(bad == "", "R2", key+"/lazy", p.Pos(g.Pos()), "constructor and per-call function only build the MonadIO", bad)
		ok, detail := c17effect(p, g, perCall, eff, fold, doNew)
		c.Check(ok, "R2", key+"/effect", p.Pos(eff.Pos()), detail, detail)
		// R4 per effect: decode only on Err == nil edge
		ok4, d4 := c17decodeGuard(p, eff)
		c.Check(ok4, "R4", key+"/decode-guard", p.Pos(eff.Pos()), d4, d4)
	}
	// ---- R3
	if fold == nil {
		c.Unknown("R3", "template-fold", "-", "no function substituting path parameters found")
	} else {
		c.Analysed(core.FuncName(fold))
		ok, detail := c17fold(p, fold)
		c.Check(ok, "R3", core.FuncName(fold), p.Pos(fold.Pos()), detail, detail)
	}
	// ---- R4 comma-ok assertions on results of user-supplied function values in network
	dec := p.Func(p.Network, "decodeResponseBody")
	if dec == nil {
		c.Unknown("R4", "decodeResponseBody", "-", "function not found")
	} else {
		c.Analysed(core.FuncName(dec))
		bad := ""
		n := 0
		core.Instrs(dec, func(ins ssa.Instruction) {
			ta, ok := ins.(*ssa.TypeAssert)
			if !ok {
				return
			}
			// does the asserted value come from a dynamic call (user-supplied deserializer)?
			src := core.Resolve(ta.X)
			if ex, isE := src.(*ssa.Extract); isE {
				if call, isC := ex.Tuple.(*ssa.Call); isC && core.Callee(&call.Call) == nil && !call.Call.IsInvoke() {
					n++
					if !ta.CommaOk {
						bad = "unchecked type assertion on the user-supplied deserializer's result at " + p.InstrPos(ins) + ": a deserializer returning (nil, err) or another type panics instead of reporting Err"
					}
				}
			}
		})
		c.Check(bad == "" && n > 0, "R4", "decodeResponseBody/assertion", p.Pos(dec.Pos()), "assertion on the deserializer's result is comma-ok", bad+map[bool]string{true: "no assertion on a deserializer result found", false: ""}[n == 0 && bad == ""])
	}
}

// c17effect checks the request closure.
func c17effect(p *core.Prog, g, perCall, eff, fold *ssa.Function, doNew map[string]*ssa.Function) (bool, string) {
	var req *ssa.Call
	nReq := 0
	core.Instrs(eff, func(ins ssa.Instruction) {
		if call, ok := ins.(*ssa.Call); ok {
			if h := core.Callee(&call.Call); h != nil && (h == doNew["DoNewRequest"] || h == doNew["DoNewRequestWithBodyOptions"]) {
				req, nReq = call, nReq+1
			}
		}
	})
	if nReq != 1 {
		return false, fmt.Sprintf("the effect contains %d request calls (must be 1)", nReq)
	}
	// serializer call (dynamic call of the captured serializer) if any
	var ser *ssa.Call
	core.Instrs(eff, func(ins ssa.Instruction) {
		if call, ok := ins.(*ssa.Call); ok && core.Callee(&call.Call) == nil && !call.Call.IsInvoke() {
			if _, isB := call.Call.Value.(*ssa.Builtin); !isB {
				if fv := core.Path(call.Call.Value); strings.Contains(strings.ToLower(fv), "serializer") {
					ser = call
				}
			}
		}
	})
	withBody := core.Callee(&req.Call) == doNew["DoNewRequestWithBodyOptions"]
	// once: exactly one on paths that do not return on the serializer-error edge
	serErrEdge := func(b *ssa.BasicBlock) bool {
		if ser == nil {
			return false
		}
		for _, m := range core.EdgeCmps(b) {
			if ex, ok := m.X.(*ssa.Extract); ok && ex.Tuple == ssa.Value(ser) && m.Op == token.NEQ && core.IsNilConst(m.Y) {
				return true
			}
		}
		return false
	}
	min, max := core.PathCount(eff, func(ins ssa.Instruction) int {
		if ins == ssa.Instruction(req) {
			return 1
		}
		return 0
	}, serErrEdge)
	if min != 1 || max != 1 {
		return false, fmt.Sprintf("the request is issued %d..%d times per evaluation on paths without a serializer error (must be exactly 1)", min, max)
	}
	// captured value helper: variable name → value bound in the enclosing functions
	capt := func(name string) ssa.Value {
		if v := capturedBinding(perCall, eff, name); v != nil {
			// may itself be a captured variable of perCall (from g)
			if fv, isFV := v.(*ssa.FreeVar); isFV {
				return capturedBinding(g, perCall, fv.Name())
			}
			if u, ok := v.(*ssa.UnOp); ok {
				if fv, isFV := u.X.(*ssa.FreeVar); isFV {
					return capturedBinding(g, perCall, fv.Name())
				}
			}
			if a, ok := v.(*ssa.Alloc); ok {
				_ = a
			}
			return v
		}
		return nil
	}
	args := req.Call.Args // (recv, ctx, header, method, url, [body, contentType])
	// header = DefaultHeader.Clone()
	hdr, okH := core.Resolve(args[2]).(*ssa.Call)
	if !okH || core.StdCallee(&hdr.Call) != "net/http.(Header).Clone" || core.FieldKey(hdr.Call.Args[0]) != "SimpleAPIDef.DefaultHeader" {
		return false, "the header passed to the request is not a fresh DefaultHeader.Clone(): the shared DefaultHeader map itself is handed to the request, so interceptors/Content-Type additions accumulate in it and leak into later requests"
	}
	// method = captured method parameter of g
	mv := capt(core.Path(args[3]))
	okM := false
	for _, prm := range g.Params {
		if prm.Name() == "method" && mv == ssa.Value(prm) {
			okM = true
		}
	}
	if !okM {
		return false, "the HTTP method passed to the request is not the constructor's method parameter"
	}
	// url = fold(relativeURL, pathParam)
	u, okU := core.Resolve(args[4]).(*ssa.Call)
	if !okU || fold == nil || core.Callee(&u.Call) != fold {
		return false, "the URL passed to the request is not the result of the path-template substitution"
	}
	relOK, ppOK := false, false
	for _, prm := range g.Params {
		if prm.Name() == "relativeURL" && capt(core.Path(u.Call.Args[1])) == ssa.Value(prm) {
			relOK = true
		}
	}
	if capturedBinding(perCall, eff, core.Path(u.Call.Args[2])) == ssa.Value(perCall.Params[0]) {
		ppOK = true
	}
	if !relOK || !ppOK {
		return false, "the template substitution is not applied to (relativeURL, pathParam) of this API call"
	}
	if withBody {
		// body reader = phi(nil, serializer result #0)
		okB := false
		switch b := args[5].(type) {
		case *ssa.Phi:
			okB = true
			for _, e := range b.Edges {
				if core.IsNilConst(e) {
					continue
				}
				ex, isE := e.(*ssa.Extract)
				if !isE || ser == nil || ex.Tuple != ssa.Value(ser) || ex.Index != 0 {
					okB = false
				}
			}
		case *ssa.Extract:
			okB = ser != nil && b.Tuple == ssa.Value(ser) && b.Index == 0
		}
		if !okB || ser == nil {
			return false, "the request body is not the serializer's output for the given body"
		}
		// serializer is applied to the captured body parameter of the per-call function
		bodyArg := core.Unwrap(ser.Call.Args[0])
		if capturedBinding(perCall, eff, core.Path(bodyArg)) != ssa.Value(perCall.Params[1]) {
			return false, "the serializer is not applied to the body given to this API call"
		}
		// serializer value is the constructor's parameter
		okS := false
		for _, prm := range g.Params {
			if strings.Contains(strings.ToLower(prm.Name()), "serializer") && capt(core.Path(ser.Call.Value)) == ssa.Value(prm) {
				okS = true
			}
		}
		if !okS {
			return false, "the serializer used is not the one the constructor was given"
		}
		// content type: the constructor's parameter, or the serializer's second result (multipart)
		ct := args[6]
		okCT := false
		if cv := capt(core.Path(ct)); cv != nil {
			for _, prm := range g.Params {
				if prm.Name() == "contentType" && cv == ssa.Value(prm) {
					okCT = true
				}
			}
		}
		if phi, isPhi := ct.(*ssa.Phi); isPhi {
			okCT = true
			for _, e := range phi.Edges {
				if s, isS := strConst(e); isS && s == "" {
					continue
				}
				ex, isE := e.(*ssa.Extract)
				if !isE || ex.Tuple != ssa.Value(ser) || ex.Index != 1 {
					okCT = false
				}
			}
		}
		if !okCT {
			return false, "the Content-Type passed is neither the declared one nor the multipart serializer's"
		}
		// serializer error edge returns a response with Err set, before any request
		okErr := false
		core.Instrs(eff, func(ins ssa.Instruction) {
			if st, isS := ins.(*ssa.Store); isS && core.FieldKey(st.Addr) == "ResponseWithError.Err" {
				if ex, isE := core.NonNilSource(st.Val).(*ssa.Extract); isE && ex.Tuple == ssa.Value(ser) && serErrEdge(st.Block()) {
					okErr = true
				}
			}
			// or through a helper that builds the failure response from the error it is given
			if call, isC := ins.(*ssa.Call); isC && serErrEdge(call.Block()) {
				if h := core.Callee(&call.Call); h != nil && p.InRepo(h) {
					for i, a := range call.Call.Args {
						if ex, isE := core.NonNilSource(a).(*ssa.Extract); isE && ex.Tuple == ssa.Value(ser) && i < len(h.Params) {
							core.Instrs(h, func(i2 ssa.Instruction) {
								if st, isS := i2.(*ssa.Store); isS && core.FieldKey(st.Addr) == "ResponseWithError.Err" && st.Val == ssa.Value(h.Params[i]) {
									okErr = true
								}
							})
						}
					}
				}
			}
		})
		if !okErr {
			return false, "a serializer error is not returned as Err on the response"
		}
	}
	return true, "one request per evaluation: header = DefaultHeader.Clone(), method = constructor's, URL = fold(relativeURL, pathParam), body/content type from the serializer"
}

// c17decodeGuard: decodeResponseBody is called only where response.Err == nil is known.
func c17decodeGuard(p *core.Prog, eff *ssa.Function) (bool, string) {
	n := 0
	ok := true
	check := func(f *ssa.Function) {
		core.Instrs(f, func(ins ssa.Instruction) {
			call, isC := ins.(*ssa.Call)
			if !isC {
				return
			}
			if g := core.Callee(&call.Call); g != nil && core.FuncName(g) == "network.decodeResponseBody" {
				n++
				guarded := false
				for _, m := range core.EdgeCmps(call.Block()) {
					if m.Op == token.EQL && core.IsNilConst(m.Y) && core.FieldKey(m.X) == "ResponseWithError.Err" {
						guarded = true
					}
				}
				if !guarded {
					ok = false
				}
			}
		})
	}
	check(eff)
	if n == 0 {
		// the guard and the decode may have been extracted together into a helper
		core.Instrs(eff, func(ins ssa.Instruction) {
			if call, isC := ins.(*ssa.Call); isC {
				if g := core.Callee(&call.Call); g != nil && p.InRepo(g) && g.Signature.Recv() == nil && core.FuncName(g) != "network.decodeResponseBody" {
					check(g)
				}
			}
		})
	}
	if n == 0 {
		return false, "the effect never decodes the response body into the target"
	}
	if !ok {
		return false, "the response body is decoded without knowing Err == nil: Response is nil after a transport failure and reading its Body panics"
	}
	return true, "decode only on the Err == nil edge"
}

func c17fold(p *core.Prog, fold *ssa.Function) (bool, string) {
	reps := callsOf(fold, "strings.ReplaceAll")
	if len(reps) != 1 || !core.InLoop(reps[0].Block()) {
		return false, "expected one strings.ReplaceAll inside the loop over the path parameters"
	}
	rep := reps[0]
	phi, ok := rep.Call.Args[0].(*ssa.Phi)
	if !ok {
		return false, "the string substituted into (" + core.Path(rep.Call.Args[0]) + ") is loop-invariant: every iteration restarts from the template, so only the last of several parameters is substituted"
	}
	carried, init := false, false
	for i, e := range phi.Edges {
		if e == ssa.Value(rep) {
			carried = true
		} else if e == ssa.Value(fold.Params[1]) {
			init = true
		} else {
			// an iteration that keeps the accumulator unchanged: allowed only on an edge that proves the
			// placeholder does not occur in it (strings.Contains false, strings.Index < 0 / == -1)
			absent := false
			for _, cnd := range core.EdgeFacts(phi.Block().Preds[i]) {
				n := core.Normalize(cnd)
				if call, isC := n.V.(*ssa.Call); isC && core.StdCallee(&call.Call) == "strings.Contains" && !n.True {
					absent = true
				}
				if cmp, isCmp := core.AsCmp(n); isCmp {
					if call, isC := core.Resolve(cmp.X).(*ssa.Call); isC && core.StdCallee(&call.Call) == "strings.Index" {
						if cmp.Op == token.LSS && core.IsIntConst(cmp.Y, 0) || cmp.Op == token.EQL && core.IsIntConst(cmp.Y, -1) || cmp.Op == token.LEQ && core.IsIntConst(cmp.Y, -1) {
							absent = true
						}
					}
				}
			}
			if !absent {
				return false, "an iteration can leave the template unsubstituted although the placeholder may occur in it (the skip condition does not prove its absence): a parameter is silently not replaced"
			}
		}
	}
	if !carried || !init {
		return false, "the accumulator does not start from the template and carry the previous substitution"
	}
	// return BaseURL + "/" + accumulator
	okRet := false
	core.Instrs(fold, func(ins ssa.Instruction) {
		if r, isR := ins.(*ssa.Return); isR {
			b, isB := core.RetVals(r)[0].(*ssa.BinOp)
			if !isB || b.Op != token.ADD {
				return
			}
			b2, isB2 := b.X.(*ssa.BinOp)
			if !isB2 || b2.Op != token.ADD {
				return
			}
			sep, isS := strConst(b2.Y)
			if core.FieldKey(b2.X) == "SimpleAPIDef.BaseURL" && isS && sep == "/" && b.Y == ssa.Value(phi) {
				okRet = true
			}
		}
	})
	if !okRet {
		return false, "the result is not BaseURL + \"/\" + the substituted template"
	}
	return true, "accumulator threaded through the loop; result BaseURL + \"/\" + accumulator"
}
