package rules

import (
	"fmt"
	"go/token"
	"go/types"
	"strings"

	"fpcheck/internal/core"

	"golang.org/x/tools/go/ssa"
)

func init() {
	register(&Prop{
		ID: "C07",
		Explanation: "Structural mechanisms of the channel/buffered queues decided on SSA: (R1) every use of the overflow list happens under the queue lock (exclusive for mutating calls); (R2) FIFO guard - the direct channel offer happens only on the pool-empty edge inside the same lock hold, and the loader puts a polled value back at the head on a failed hand-over; " +
			"(R3) bound guard before the pool insertion; (R4) every consumer entry posts a loader wake-up before touching the channel and the insertion path posts one after inserting; (R5) nothing reachable from Offer/Poll/Put/Count blocks, and no blocking operation happens under the queue lock; (R6) ChannelQueue wrapper shapes (closed → ErrQueueIsClosed, timeouts via select with time.After, default arms → full/empty); (R7) Count = len(channel)+pool count under one lock hold. " +
			"Each is a necessary mechanism of the exactly-once/FIFO/bounded/non-blocking behaviour; the behaviour over all interleavings itself (no loss/duplication, nothing stranded) is a schedule-reachability question and is not decided.",
		Trusted: commonTrusted,
		Run:     runC07,
		Relies: []Dep{
			{Prop: "C06", Rule: "*", Floor: 1, Why: "the overflow buffer of BufferedChannelQueue is a LinkedListQueue: FIFO and no-loss of the buffered queue rest on the deque"},
		},
	})
}

// mutatesRecv: f (a method) stores through its receiver, transitively through methods of the same receiver.
func mutatesRecv(p *core.Prog, f *ssa.Function, seen map[*ssa.Function]bool) bool {
	f = core.Origin(f)
	if seen[f] || len(f.Params) == 0 {
		return false
	}
	seen[f] = true
	recv := f.Params[0]
	rooted := func(v ssa.Value) bool {
		for i := 0; i < 20; i++ {
			switch x := v.(type) {
			case *ssa.FieldAddr:
				v = x.X
			case *ssa.IndexAddr:
				v = x.X
			case *ssa.UnOp:
				v = x.X
			case *ssa.Parameter:
				return x == recv
			default:
				return false
			}
		}
		return false
	}
	mut := false
	core.Instrs(f, func(ins ssa.Instruction) {
		switch x := ins.(type) {
		case *ssa.Store:
			if rooted(x.Addr) {
				mut = true
			}
		case *ssa.Call:
			if g := core.Callee(&x.Call); g != nil && p.InRepo(g) && len(x.Call.Args) > 0 && x.Call.Args[0] == ssa.Value(recv) {
				if mutatesRecv(p, g, seen) {
					mut = true
				}
			}
		}
	})
	return mut
}

func runC07(c *core.Ctx) {
	p := c.P
	c.Rule("R1", "every call on / field access of the overflow list (BufferedChannelQueue.pool) happens with the queue lock held: exclusive for mutating methods, at least shared for reads", 7)
	c.Rule("R2", "FIFO guard: Offer tries the channel only on the pool-empty edge inside the same lock hold; the loader hands the polled head to the channel and on failure puts the same value back with Unshift (head), never at the tail, never dropping it", 2)
	c.Rule("R3", "bound: the pool insertion is dominated by poolCount < bufferSizeMaximum and ErrQueueIsFull is returned on its negation", 1)
	c.Rule("R4", "wake-ups: Take/TakeWithTimeout/Poll/GetChannel post a loader wake-up before their channel operation; the insertion path of Offer posts one after inserting", 5)
	c.Rule("R5", "non-blocking: no blocking operation (bare send/receive, select without default, Sleep, Wait) is reachable from BufferedChannelQueue.Offer/Poll/Put/Count or ChannelQueue.Offer/Poll, and none happens while the queue lock is held", 7)
	c.Rule("R6", "ChannelQueue wrapper shapes: Take/TakeWithTimeout map a closed channel to ErrQueueIsClosed via comma-ok, timeouts come from a select arm on time.After(timeout), Offer/Poll default arms return ErrQueueIsFull/ErrQueueIsEmpty, success arms return the value/nil", 6)
	c.Rule("R7", "Count returns len(channel)+pool.Count() with both operands read under one hold of the queue lock", 1)
	c.Rule("R8", "every lock a BufferedChannelQueue method takes is released in the same mode on every return path", 5)
	c.Rule("R11", "no loader wake-up is discarded: every wake-up taken from loadWorkerCh is followed (unless the queue is found closed) by a loading pass over the overflow list before the next one is taken or the loader ends - a wake-up that is taken and dropped can be the one posted by the consumer that just made room, whose next Take then waits forever with items still parked", 1)
	c07wakeups(c)
	c.Assume = append(c.Assume, "Go channels are FIFO; the pool list is a correct deque when accessed under mutual exclusion (C06)")
	li := core.ComputeLocks(p)
	bq := p.Named(p.Fpgo, "BufferedChannelQueue")
	lockBalance(c, li, "R8", funcsOfType(p, p.Fpgo, "BufferedChannelQueue"))
	if bq == nil {
		c.Unknown("R1", "anchor", "-", "type BufferedChannelQueue not found")
		return
	}
	// all functions that may touch a BufferedChannelQueue: its methods and their closures, and any other
	// function of the package that mentions the pool field (e.g. a worker body written as a closure of the constructor)
	var bqFuncs []*ssa.Function
	for _, f := range p.Funcs {
		root := f
		for root.Parent() != nil {
			root = root.Parent()
		}
		if root.Signature.Recv() != nil && core.TypeName(root.Signature.Recv().Type()) == "BufferedChannelQueue" {
			bqFuncs = append(bqFuncs, f)
			continue
		}
		if root.Pkg != p.Fpgo {
			continue
		}
		touches := false
		core.Instrs(f, func(ins ssa.Instruction) {
			switch x := ins.(type) {
			case *ssa.Call:
				if len(x.Call.Args) > 0 && core.FieldKey(x.Call.Args[0]) == "BufferedChannelQueue.pool" {
					touches = true
				}
			case *ssa.FieldAddr:
				if core.FieldKey(x.X) == "BufferedChannelQueue.pool" {
					touches = true
				}
			}
		})
		if touches {
			bqFuncs = append(bqFuncs, f)
		}
	}
	// ---------------- R1
	for _, f := range bqFuncs {
		c.Analysed(core.FuncName(f))
		core.Instrs(f, func(ins ssa.Instruction) {
			switch x := ins.(type) {
			case *ssa.Call:
				g := core.Callee(&x.Call)
				if g == nil || g.Signature.Recv() == nil || len(x.Call.Args) == 0 || core.FieldKey(x.Call.Args[0]) != "BufferedChannelQueue.pool" {
					return
				}
				base := core.FieldBase(x.Call.Args[0])
				key := fmt.Sprintf("%s/pool.%s", core.FuncName(f), g.Name())
				ls := li.At[ins]
				mut := mutatesRecv(p, g, map[*ssa.Function]bool{})
				switch {
				case ls.Has(base+".lock", "W"):
					c.Pass("R1", key, p.InstrPos(ins), "under "+ls.String())
				case !mut && ls.Has(base+".lock", "R"):
					c.Pass("R1", key, p.InstrPos(ins), "read-only call under "+ls.String())
				case mut:
					c.Fail("R1", key, p.InstrPos(ins), fmt.Sprintf("mutating call pool.%s() without the exclusive queue lock (held=%s): concurrent producers/loader corrupt the overflow list", g.Name(), ls))
				default:
					c.Fail("R1", key, p.InstrPos(ins), fmt.Sprintf("pool.%s() read without the queue lock (held=%s)", g.Name(), ls))
				}
			case *ssa.FieldAddr:
				// direct access to a field of the pool (q.pool.nodeCount)
				if core.FieldKey(x.X) != "BufferedChannelQueue.pool" {
					return
				}
				base := core.FieldBase(x.X)
				key := fmt.Sprintf("%s/pool.%s", core.FuncName(f), core.FieldName(x.X.Type(), x.Field))
				ls := li.At[ins]
				c.Check(ls.HasAny(base+".lock"), "R1", key, p.InstrPos(ins), "under "+ls.String(), "pool field accessed without the queue lock (held="+ls.String()+")")
			}
		})
	}
	offer := p.Method(p.Fpgo, "BufferedChannelQueue", "Offer")
	// ---------------- R2a / R3 / R4-insert in Offer
	if offer == nil {
		c.Unknown("R2", "BufferedChannelQueue.Offer", "-", "method not found")
	} else {
		isPoolCount := func(v ssa.Value, base string) (*ssa.Call, bool) {
			call, ok := core.ResolveIP(p, v).(*ssa.Call)
			if !ok {
				return nil, false
			}
			g := core.Callee(&call.Call)
			return call, g != nil && core.FuncName(g) == "fpgo.LinkedListQueue.Count" && core.FieldKey(call.Call.Args[0]) == "BufferedChannelQueue.pool" && core.FieldBase(call.Call.Args[0]) == call.Parent().Params[0].Name()
		}
		base := offer.Params[0].Name()
		nChan, nIns := 0, 0
		// Offer and the helpers extracted from it
		core.InstrsGroup(p, offer, func(fn *ssa.Function, ins ssa.Instruction) {
			call, ok := ins.(*ssa.Call)
			if !ok || len(call.Call.Args) == 0 {
				return
			}
			g := core.Callee(&call.Call)
			if g == nil {
				return
			}
			switch {
			case core.FieldKey(call.Call.Args[0]) == "BufferedChannelQueue.blockingQueue" && chanSends(g):
				nChan++
				okG, detail := false, "direct channel offer is not dominated by pool.Count()==0: an item could overtake items waiting in the overflow list (FIFO broken)"
				for _, m := range core.CtxCmps(p, ins.Block()) {
					if m.Op != token.EQL {
						continue
					}
					cnt, isCnt := isPoolCount(m.X, base)
					if isCnt && core.IsIntConst(m.Y, 0) {
						if li.At[cnt].Has(cnt.Parent().Params[0].Name()+".lock", "W") && li.At[ins].Has(fn.Params[0].Name()+".lock", "W") && !unlockBetweenIP(p, offer, cnt, ins, ".lock") {
							okG, detail = true, "on the pool.Count()==0 edge, count read and offer inside one exclusive hold"
						} else {
							detail = "pool.Count()==0 test and channel offer are not inside one exclusive lock hold"
						}
					}
				}
				c.Check(okG, "R2", "BufferedChannelQueue.Offer/channel-offer", p.InstrPos(ins), detail, detail)
			case core.FieldKey(call.Call.Args[0]) == "BufferedChannelQueue.pool" && mutatesRecv(p, g, map[*ssa.Function]bool{}):
				nIns++
				// R3
				okB, detail := false, "pool insertion is not dominated by poolCount < bufferSizeMaximum: the overflow list is unbounded"
				for _, m := range core.CtxCmps(p, ins.Block()) {
					x, y, op := m.X, m.Y, m.Op
					if op == token.GTR { // max > count
						x, y, op = y, x, token.LSS
					}
					if op != token.LSS {
						continue
					}
					_, isCnt := isPoolCount(x, base)
					if isCnt && core.FieldKey(y) == "BufferedChannelQueue.bufferSizeMaximum" {
						// the negated edge must return ErrQueueIsFull
						full := false
						for _, s := range m.If.Block().Succs {
							if len(s.Instrs) > 0 {
								if r, ok := s.Instrs[len(s.Instrs)-1].(*ssa.Return); ok && s != ins.Block() && !s.Dominates(ins.Block()) {
									rv := core.RetVals(r)
									if core.GlobalName(rv[len(rv)-1]) == "ErrQueueIsFull" && returnedToRoot(p, offer, r) {
										full = true
									}
								}
							}
						}
						if full {
							okB, detail = true, "insertion on the count<max edge; the other edge returns ErrQueueIsFull"
						} else {
							detail = "the count>=max edge does not return ErrQueueIsFull"
						}
					}
				}
				c.Check(okB, "R3", "BufferedChannelQueue.Offer/pool-insert", p.InstrPos(ins), detail, detail)
				if g.Name() != "Offer" && g.Name() != "Put" && g.Name() != "Push" {
					c.Fail("R2", "BufferedChannelQueue.Offer/pool-insert-end", p.InstrPos(ins), "producer inserts with pool."+g.Name()+"(): not at the tail, FIFO broken")
				}
				// R4 insert path: a wake-up follows on every path
				min := core.MinAfterIP(p, offer, ins, func(i ssa.Instruction) int {
					if cc, ok := i.(*ssa.Call); ok && len(cc.Call.Args) > 0 && core.FieldKey(cc.Call.Args[0]) == "BufferedChannelQueue.loadWorkerCh" {
						if gg := core.Callee(&cc.Call); gg != nil && chanSends(gg) {
							return 1
						}
					}
					return 0
				})
				c.Check(min >= 1, "R4", "BufferedChannelQueue.Offer/after-insert", p.InstrPos(ins), "loader wake-up posted after the insertion on every path", "no loader wake-up after inserting into the overflow list: the item waits until some consumer call happens to wake the loader")
			}
		})
		if nChan == 0 {
			c.Unknown("R2", "BufferedChannelQueue.Offer/channel-offer", p.Pos(offer.Pos()), "no direct channel offer found in Offer")
		}
		if nIns == 0 {
			c.Unknown("R3", "BufferedChannelQueue.Offer/pool-insert", p.Pos(offer.Pos()), "no pool insertion found in Offer")
		}
	}
	// ---------------- R2b loader: function that is started with go from the constructor and calls pool.Poll/Shift
	var loader *ssa.Function
	for _, f := range bqFuncs {
		if f.Parent() != nil || f.Object() == nil || f.Object().Exported() {
			continue
		}
		polls, offers := false, false
		core.Instrs(f, func(ins ssa.Instruction) {
			if call, ok := ins.(*ssa.Call); ok && len(call.Call.Args) > 0 {
				if g := core.Callee(&call.Call); g != nil {
					if core.FieldKey(call.Call.Args[0]) == "BufferedChannelQueue.pool" && (g.Name() == "Poll" || g.Name() == "Shift" || g.Name() == "Take" || g.Name() == "Pop") {
						polls = true
					}
					if core.FieldKey(call.Call.Args[0]) == "BufferedChannelQueue.blockingQueue" && chanSends(g) {
						offers = true
					}
				}
			}
		})
		if polls && offers {
			loader = f
		}
	}
	if loader == nil {
		c.Unknown("R2", "loader", "-", "no unexported BufferedChannelQueue method that polls the pool and offers to the channel")
	} else {
		c.Analysed(core.FuncName(loader))
		okL, detail := c07loader(p, loader)
		c.Check(okL, "R2", "loader/put-back", p.Pos(loader.Pos()), detail, detail)
	}
	// ---------------- R4 consumer entries
	isWakeSend := func(ins ssa.Instruction) bool {
		if cc, ok := ins.(*ssa.Call); ok && len(cc.Call.Args) > 0 && core.FieldKey(cc.Call.Args[0]) == "BufferedChannelQueue.loadWorkerCh" {
			if gg := core.Callee(&cc.Call); gg != nil && chanSends(gg) {
				return true
			}
		}
		return false
	}
	// mustWake: on every path through g that does not leave on the closed-flag edge, a loader wake-up is posted
	var mustWake func(g *ssa.Function, depth int) bool
	mustWake = func(g *ssa.Function, depth int) bool {
		if depth > 3 || len(g.Blocks) == 0 || len(g.Params) == 0 {
			return false
		}
		base := g.Params[0].Name()
		closedEdge := flagEdge(p, base, "isClosed", true)
		min, _ := core.PathCountEdges(g.Blocks[0], nil, func(ins ssa.Instruction) int {
			if isWakeSend(ins) {
				return 1
			}
			if call, ok := ins.(*ssa.Call); ok {
				if h := core.Callee(&call.Call); h != nil && p.InRepo(h) && h != g && len(call.Call.Args) > 0 && core.Path(call.Call.Args[0]) == base && mustWake(h, depth+1) {
					return 1
				}
			}
			return 0
		}, closedEdge)
		return min >= 1
	}
	sendsWake := func(g *ssa.Function) bool { return mustWake(g, 0) }
	for _, name := range []string{"Take", "TakeWithTimeout", "Poll", "GetChannel"} {
		f := p.Method(p.Fpgo, "BufferedChannelQueue", name)
		key := "BufferedChannelQueue." + name
		if f == nil {
			c.Unknown("R4", key, "-", "method not found")
			continue
		}
		// an entry point that only hands the channel operation (a method expression, a closure) to an unexported method
		// doing the common part is read there: `Take() = q.receive(ChannelQueue[T].Take)`
		f = c07consumerImpl(p, f)
		// the channel use: call with blockingQueue receiver, or return of the field
		var use ssa.Instruction
		core.Instrs(f, func(ins ssa.Instruction) {
			switch x := ins.(type) {
			case *ssa.Call:
				if len(x.Call.Args) > 0 && core.FieldKey(x.Call.Args[0]) == "BufferedChannelQueue.blockingQueue" {
					use = ins
				}
			case *ssa.Return:
				for _, r := range core.RetVals(x) {
					if core.FieldKey(r) == "BufferedChannelQueue.blockingQueue" {
						use = ins
					}
				}
			}
		})
		if use == nil {
			c.Unknown("R4", key, p.Pos(f.Pos()), "no use of the item channel found")
			continue
		}
		ok := false
		core.Instrs(f, func(ins ssa.Instruction) {
			if call, isCall := ins.(*ssa.Call); isCall && ins != use && core.InstrDominates(ins, use) {
				if g := core.Callee(&call.Call); g != nil && p.InRepo(g) && sendsWake(g) {
					ok = true
				}
			}
		})
		c.Check(ok, "R4", key, p.InstrPos(use), "a call that posts on loadWorkerCh on every not-closed path dominates the channel operation", "no unconditional loader wake-up before the channel operation (missing, or skipped on some path by an extra condition): items parked in the overflow list are not moved to the channel for this consumer (stranded until the next Offer)")
	}
	// ---------------- R5 non-blocking
	type entry struct{ typ, name string }
	for _, e := range []entry{{"BufferedChannelQueue", "Offer"}, {"BufferedChannelQueue", "Poll"}, {"BufferedChannelQueue", "Put"}, {"BufferedChannelQueue", "Count"}, {"ChannelQueue", "Offer"}, {"ChannelQueue", "Poll"}} {
		f := p.Method(p.Fpgo, e.typ, e.name)
		key := e.typ + "." + e.name
		if f == nil {
			c.Unknown("R5", key, "-", "method not found")
			continue
		}
		bad := ""
		for g := range core.Reachable(p, f) {
			core.Instrs(g, func(ins ssa.Instruction) {
				if w := core.BlockingOp(ins); w != "" {
					bad = fmt.Sprintf("%s in %s at %s", w, core.FuncName(g), p.InstrPos(ins))
				}
			})
		}
		c.Check(bad == "", "R5", key, p.Pos(f.Pos()), fmt.Sprintf("no blocking operation in the %d functions reachable", len(core.Reachable(p, f))), "may block: "+bad)
	}
	// R5b: no blocking op under the queue lock in any BufferedChannelQueue function
	blocksTrans := map[*ssa.Function]string{}
	for _, f := range p.Funcs {
		for g := range core.Reachable(p, f) {
			core.Instrs(g, func(ins ssa.Instruction) {
				if w := core.BlockingOp(ins); w != "" && blocksTrans[f] == "" {
					blocksTrans[f] = w + " in " + core.FuncName(g)
				}
			})
		}
	}
	badUnder := ""
	nUnder := 0
	for _, f := range bqFuncs {
		core.Instrs(f, func(ins ssa.Instruction) {
			ls := li.At[ins]
			held := false
			for k := range ls {
				if strings.Contains(k, ".lock:") {
					held = true
				}
			}
			if !held {
				return
			}
			nUnder++
			if w := core.BlockingOp(ins); w != "" {
				badUnder = fmt.Sprintf("%s at %s while holding %s", w, p.InstrPos(ins), ls)
			}
			if call, ok := ins.(*ssa.Call); ok {
				if g := core.Callee(&call.Call); g != nil && p.InRepo(g) && blocksTrans[g] != "" {
					badUnder = fmt.Sprintf("call of %s (%s) at %s while holding %s", core.FuncName(g), blocksTrans[g], p.InstrPos(ins), ls)
				}
			}
		})
	}
	c.Check(badUnder == "", "R5", "BufferedChannelQueue/under-lock", p.Pos(bq.Obj().Pos()), fmt.Sprintf("%d instructions execute under the queue lock, none can block", nUnder), "blocking operation under the queue lock stalls every producer and consumer: "+badUnder)
	// ---------------- R6 ChannelQueue wrappers
	c07wrappers(c)
	// ---------------- R10 the configured bound is the one given
	c.Rule("R10", "the overflow bound an object is built with is the value the constructor was given: no positive constant (a default substituted for a legal value such as 0) can reach the bufferSizeMaximum field at construction", 1)
	{
		n, bad := 0, ""
		for _, f := range p.Funcs {
			core.Instrs(f, func(ins ssa.Instruction) {
				st, ok := ins.(*ssa.Store)
				if !ok || core.FieldKey(st.Addr) != "BufferedChannelQueue.bufferSizeMaximum" {
					return
				}
				fa, isFA := st.Addr.(*ssa.FieldAddr)
				if !isFA {
					return
				}
				if _, fresh := core.Resolve(core.FieldOwner(fa)).(*ssa.Alloc); !fresh {
					return // a setter on an existing queue
				}
				n++
				for _, lf := range core.Origins(p, st.Val, nil) {
					if k, isK := lf.Val.(*ssa.Const); isK && k.Value != nil && k.Int64() > 0 {
						bad = fmt.Sprintf("%s stores a bound that can be the constant %d instead of the value it was given (%s)", core.FuncName(f), k.Int64(), p.InstrPos(ins))
					}
				}
			})
		}
		if n == 0 {
			c.Unknown("R10", "BufferedChannelQueue/bound-as-given", "-", "no construction-time store of the overflow bound found")
		} else {
			c.Check(bad == "", "R10", "BufferedChannelQueue/bound-as-given", "queue.go", fmt.Sprintf("%d construction sites store the given bound", n), bad+": a queue asked for that bound accepts more than channelCapacity + bufferSizeMaximum items")
		}
	}
	// ---------------- R9 consumers hand out what they took
	c.Rule("R9", "a consumer entry point (Poll/Take/TakeWithTimeout) returns, whenever its error result can be nil, the very value its channel operation yielded - a value taken from the channel is never replaced (e.g. by the zero value of a shadowed named result) and thereby lost", 3)
	for _, name := range []string{"Poll", "Take", "TakeWithTimeout"} {
		f := p.Method(p.Fpgo, "BufferedChannelQueue", name)
		if f == nil || f.Signature.Results().Len() != 2 {
			c.Unknown("R9", "BufferedChannelQueue."+name, "-", "method not found")
			continue
		}
		f = c07consumerImpl(p, f)
		c.Analysed(core.FuncName(f))
		// the channel operations: calls of ChannelQueue methods (or direct receives) on the queue's item channel
		isTaken := func(v ssa.Value) bool {
			ex, isE := core.Resolve(v).(*ssa.Extract)
			if !isE || ex.Index != 0 {
				return false
			}
			switch t := ex.Tuple.(type) {
			case *ssa.Call:
				return len(t.Call.Args) > 0 && core.FieldKey(t.Call.Args[0]) == "BufferedChannelQueue.blockingQueue"
			case *ssa.UnOp:
				return t.Op == token.ARROW && core.FieldKey(t.X) == "BufferedChannelQueue.blockingQueue"
			case *ssa.Select:
				return true
			}
			return false
		}
		bad := ""
		for _, rc := range core.ReturnCases(f) {
			ev := core.Resolve(rc.Vals[1])
			if core.GlobalName(ev) != "" {
				continue // a sentinel error: the value does not matter
			}
			nonNil := false
			for _, m := range rc.Cmps() {
				if m.Op == token.NEQ && core.IsNilConst(m.Y) && core.Resolve(m.X) == ev {
					nonNil = true
				}
			}
			if nonNil {
				continue
			}
			if !isTaken(rc.Vals[0]) {
				bad = "the return at " + p.InstrPos(rc.Ret) + " can carry a nil error with a value that is not the one taken from the channel"
			}
		}
		c.Check(bad == "", "R9", "BufferedChannelQueue."+name, p.Pos(f.Pos()), "success returns carry the value taken from the channel", bad+": the item is consumed but the caller gets something else (a zero value is invented, the item is lost)")
	}
	// ---------------- R7 Count
	if f := p.Method(p.Fpgo, "BufferedChannelQueue", "Count"); f == nil {
		c.Unknown("R7", "BufferedChannelQueue.Count", "-", "method not found")
	} else {
		ok, detail := false, "no return of len(channel)+pool.Count() found"
		// the sum may be computed by an unexported helper called with the lock held (`return q.countLocked()`)
		core.Instrs(f, func(ins ssa.Instruction) {
			if r, isRet := ins.(*ssa.Return); isRet {
				if call, isC := liveValue(core.Resolve(core.RetVals(r)[0]), flagEdge(p, f.Params[0].Name(), "isClosed", true)).(*ssa.Call); isC {
					if h := core.Callee(&call.Call); h != nil && p.InRepo(h) && len(h.Blocks) > 0 && h.Object() != nil && !h.Object().Exported() && len(call.Call.Args) == 1 && core.Resolve(call.Call.Args[0]) == ssa.Value(f.Params[0]) && len(h.Params) == 1 {
						f = h
					}
				}
			}
		})
		base := f.Params[0].Name()
		core.Instrs(f, func(ins ssa.Instruction) {
			r, isRet := ins.(*ssa.Return)
			if !isRet {
				return
			}
			// the value returned on the not-closed path (a single return may merge it with the closed path's 0)
			b, isAdd := liveValue(core.Resolve(core.RetVals(r)[0]), flagEdge(p, base, "isClosed", true)).(*ssa.BinOp)
			if !isAdd || b.Op != token.ADD {
				return
			}
			var lenOp, cntOp ssa.Instruction
			for _, o := range []ssa.Value{core.Resolve(b.X), core.Resolve(b.Y)} {
				if call, isCall := o.(*ssa.Call); isCall {
					if core.IsBuiltin(&call.Call, "len") && core.FieldKey(call.Call.Args[0]) == "BufferedChannelQueue.blockingQueue" {
						lenOp = call
					}
					if g := core.Callee(&call.Call); g != nil && core.FuncName(g) == "fpgo.LinkedListQueue.Count" && core.FieldKey(call.Call.Args[0]) == "BufferedChannelQueue.pool" {
						cntOp = call
					}
				}
			}
			if lenOp == nil || cntOp == nil {
				detail = "Count does not add len(blockingQueue) and pool.Count()"
				return
			}
			if li.At[lenOp].HasAny(base+".lock") && li.At[cntOp].HasAny(base+".lock") && !unlockBetween(f, lenOp, cntOp, base+".lock") && !unlockBetween(f, cntOp, lenOp, base+".lock") {
				ok, detail = true, "len(channel) and pool.Count() read inside one lock hold"
			} else {
				detail = "the two operands are not read inside one hold of the queue lock: an item moving from pool to channel in between is counted twice or not at all"
			}
		})
		c.Check(ok, "R7", "BufferedChannelQueue.Count", p.Pos(f.Pos()), detail, detail)
	}
}

// chanSends: g performs a send on its receiver/first parameter (ChannelQueue.Offer/Put/PutWithTimeout).
func chanSends(g *ssa.Function) bool {
	if len(g.Params) == 0 {
		return false
	}
	if _, ok := g.Params[0].Type().Underlying().(*types.Chan); !ok {
		return false
	}
	found := false
	core.Instrs(g, func(ins ssa.Instruction) {
		switch x := ins.(type) {
		case *ssa.Send:
			if core.Unwrap(x.Chan) == ssa.Value(g.Params[0]) || chanOf(x.Chan) == ssa.Value(g.Params[0]) {
				found = true
			}
		case *ssa.Select:
			for _, st := range x.States {
				if st.Dir == types.SendOnly && chanOf(st.Chan) == ssa.Value(g.Params[0]) {
					found = true
				}
			}
		}
	})
	return found
}

func chanOf(v ssa.Value) ssa.Value {
	for {
		if ct, ok := v.(*ssa.ChangeType); ok {
			v = ct.X
			continue
		}
		return v
	}
}

// c07loader: the value polled from the pool is offered to the channel; on the failure edge the same value is Unshift-ed back.
func c07loader(p *core.Prog, f *ssa.Function) (bool, string) {
	var poll, offer *ssa.Call
	core.Instrs(f, func(ins ssa.Instruction) {
		if call, ok := ins.(*ssa.Call); ok && len(call.Call.Args) > 0 {
			if g := core.Callee(&call.Call); g != nil {
				if core.FieldKey(call.Call.Args[0]) == "BufferedChannelQueue.pool" && (g.Name() == "Poll" || g.Name() == "Shift" || g.Name() == "Take") {
					poll = call
				}
				if core.FieldKey(call.Call.Args[0]) == "BufferedChannelQueue.blockingQueue" && chanSends(g) {
					offer = call
				}
			}
		}
	})
	if poll == nil || offer == nil {
		return false, "loader does not poll the head of the pool and offer to the channel"
	}
	if g := core.Callee(&poll.Call); g.Name() == "Pop" {
		return false, "loader takes from the tail of the pool"
	}
	// the offered value is extract #0 of poll
	val := core.Resolve(offer.Call.Args[1])
	ex, ok := val.(*ssa.Extract)
	if !ok || ex.Tuple != ssa.Value(poll) || ex.Index != 0 {
		return false, "the value offered to the channel is not the value polled from the pool at " + p.InstrPos(offer)
	}
	if g := core.Callee(&offer.Call); g.Name() != "Offer" {
		return false, "loader uses a blocking channel operation (" + g.Name() + ") while holding the queue lock"
	}
	// find If on offer's error; failure edge must pass through pool.Unshift(val) before anything else touches the pool
	var failBlock *ssa.BasicBlock
	for _, r := range *offer.Referrers() {
		b, ok := r.(*ssa.BinOp)
		if !ok || !(core.IsNilConst(b.X) || core.IsNilConst(b.Y)) {
			continue
		}
		for _, rr := range *b.Referrers() {
			if iff, ok := rr.(*ssa.If); ok {
				switch b.Op {
				case token.NEQ:
					failBlock = iff.Block().Succs[0]
				case token.EQL:
					failBlock = iff.Block().Succs[1]
				}
			}
		}
	}
	if failBlock == nil {
		return false, "the result of the channel offer is not tested: a value polled from the pool is lost when the channel is full"
	}
	// must-pass: on every path from failBlock to a function exit or back to the poll, an Unshift(val) happens before any other pool mutation
	putBack := func(ins ssa.Instruction) int {
		if call, ok := ins.(*ssa.Call); ok && len(call.Call.Args) > 1 && core.FieldKey(call.Call.Args[0]) == "BufferedChannelQueue.pool" {
			if g := core.Callee(&call.Call); g != nil && g.Name() == "Unshift" && core.Resolve(call.Call.Args[1]) == val {
				return 1
			}
		}
		return 0
	}
	// first pool-touching instruction in failBlock must be the Unshift of val
	for _, ins := range failBlock.Instrs {
		if putBack(ins) == 1 {
			return true, "polled value flows into channel.Offer; on its failure edge the same value is Unshift-ed back to the head"
		}
		if call, ok := ins.(*ssa.Call); ok && len(call.Call.Args) > 0 && core.FieldKey(call.Call.Args[0]) == "BufferedChannelQueue.pool" {
			g := core.Callee(&call.Call)
			return false, fmt.Sprintf("on the failed hand-over the value is re-queued with pool.%s(): not at the head (FIFO broken) at %s", g.Name(), p.InstrPos(ins))
		}
	}
	return false, "on the failed hand-over edge the polled value is not put back (lost item) at " + p.Pos(failBlock.Instrs[0].Pos())
}

// c07wrappers checks the shapes of the ChannelQueue methods.
func c07wrappers(c *core.Ctx) {
	p := c.P
	type spec struct {
		name        string
		blocking    bool
		dir         types.ChanDir
		defaultErr  string // sentinel on the default arm (non-blocking selects)
		timeoutErr  string // sentinel on the time.After arm
		closedErr   string // sentinel on the !ok edge
		bareRecvOK  bool
	}
	specs := []spec{
		{name: "Offer", blocking: false, dir: types.SendOnly, defaultErr: "ErrQueueIsFull"},
		{name: "Poll", blocking: false, dir: types.RecvOnly, defaultErr: "ErrQueueIsEmpty"},
		{name: "Take", bareRecvOK: true, closedErr: "ErrQueueIsClosed"},
		{name: "TakeWithTimeout", blocking: true, dir: types.RecvOnly, timeoutErr: "ErrQueueTakeTimeout", closedErr: "ErrQueueIsClosed"},
		{name: "PutWithTimeout", blocking: true, dir: types.SendOnly, timeoutErr: "ErrQueuePutTimeout"},
		{name: "Put", bareRecvOK: true},
	}
	for _, s := range specs {
		f := p.Method(p.Fpgo, "ChannelQueue", s.name)
		key := "ChannelQueue." + s.name
		if f == nil {
			c.Unknown("R6", key, "-", "method not found")
			continue
		}
		c.Analysed(core.FuncName(f))
		ok, detail := c07wrapperShape(p, f, s.blocking, s.dir, s.defaultErr, s.timeoutErr, s.closedErr, s.bareRecvOK)
		c.Check(ok, "R6", key, p.Pos(f.Pos()), detail, detail)
	}
}

func c07wrapperShape(p *core.Prog, f *ssa.Function, blocking bool, dir types.ChanDir, defaultErr, timeoutErr, closedErr string, bare bool) (bool, string) {
	recv := ssa.Value(f.Params[0])
	// collect returns with the sentinel names of their error operand, and the conditions they sit under
	var rets []retInfo
	for _, rc := range core.ExpandReturnCases(p, f) {
		e := rc.Vals[len(rc.Vals)-1]
		name := core.GlobalName(e)
		if name == "" {
			if core.IsNilConst(e) {
				name = "nil"
			} else {
				name = "?"
			}
		}
		rets = append(rets, retInfo{rc.Ret, name, rc})
	}
	var sel *ssa.Select
	var bareOp ssa.Instruction
	scan := func(g *ssa.Function) {
		core.Instrs(g, func(ins ssa.Instruction) {
			switch x := ins.(type) {
			case *ssa.Select:
				sel = x
			case *ssa.Send:
				if chanOf(x.Chan) == recv {
					bareOp = ins
				}
			case *ssa.UnOp:
				if x.Op == token.ARROW && chanOf(x.X) == recv {
					bareOp = ins
				}
			}
		})
	}
	scan(f)
	// the operation may be written once in an unexported helper that is handed the queue, the value and an expiry channel
	// (`sendOrExpire(val, time.After(timeout), ErrQueuePutTimeout)`, the untimed variant passing a nil expiry channel,
	// whose arm never fires): the helper is read with its parameters standing for the arguments
	upv := func(v ssa.Value) ssa.Value { return v }
	timeoutPrm := ssa.Value(nil)
	if len(f.Params) >= 2 {
		timeoutPrm = f.Params[len(f.Params)-1]
	}
	if sel == nil && bareOp == nil {
		var hc *ssa.Call
		core.Instrs(f, func(ins ssa.Instruction) {
			if call, ok := ins.(*ssa.Call); ok {
				if g := core.Callee(&call.Call); g != nil && p.InRepo(g) && len(g.Blocks) > 0 && g.Object() != nil && !g.Object().Exported() && len(call.Call.Args) > 0 && core.Resolve(call.Call.Args[0]) == recv {
					hc = call
				}
			}
		})
		if hc != nil {
			h := core.Callee(&hc.Call)
			recv = h.Params[0]
			upv = func(v ssa.Value) ssa.Value {
				if q2, isP := core.Resolve(v).(*ssa.Parameter); isP && q2.Parent() == h {
					for i, hp := range h.Params {
						if hp == q2 && i < len(hc.Call.Args) {
							return hc.Call.Args[i]
						}
					}
				}
				return v
			}
			scan(h)
		}
	}
	nilArm := -1
	if sel != nil {
		for i, st := range sel.States {
			if st.Dir == types.RecvOnly && core.IsNilConst(core.Resolve(upv(st.Chan))) {
				nilArm = i
			}
		}
	}
	if bare && sel != nil && nilArm >= 0 && len(sel.States) == 2 && sel.Blocking {
		// a blocking select whose other arm waits on a nil channel is the bare operation
		other := sel.States[1-nilArm]
		wantDir := types.SendOnly
		if closedErr != "" {
			wantDir = types.RecvOnly
		}
		if chanOf(other.Chan) != recv || other.Dir != wantDir {
			return false, "expected a single bare channel operation on the receiver"
		}
		for _, r := range rets {
			if r.err != "nil" && r.err != closedErr {
				// the return of the arm that never fires
				onNil := false
				for _, m := range r.rc.Cmps() {
					if ex, ok := m.X.(*ssa.Extract); ok && ex.Tuple == ssa.Value(sel) && ex.Index == 0 {
						if k, isK := m.Y.(*ssa.Const); isK && (m.Op == token.EQL && int(k.Int64()) == nilArm || m.Op == token.NEQ && int(k.Int64()) == 1-nilArm) {
							onNil = true
						}
					}
				}
				if !onNil {
					return false, "unexpected error result " + r.err
				}
			}
		}
		if closedErr != "" {
			okClosed := false
			for _, r := range rets {
				if r.err == closedErr {
					for _, cnd := range r.rc.Facts {
						n := core.Normalize(cnd)
						if ex, ok := n.V.(*ssa.Extract); ok && ex.Tuple == ssa.Value(sel) && ex.Index == 1 && !n.True {
							okClosed = true
						}
					}
				}
			}
			if !okClosed {
				return false, "the !ok edge of the receive does not return " + closedErr
			}
		}
		return true, "blocking select whose only other arm waits on a nil channel (never ready): the bare channel operation; closed channel mapped to " + closedErr
	}
	if bare {
		if bareOp == nil || sel != nil {
			return false, "expected a single bare channel operation on the receiver"
		}
		if closedErr != "" {
			u := bareOp.(*ssa.UnOp)
			if !u.CommaOk {
				return false, "receive without comma-ok: a closed channel yields a zero value with a nil error"
			}
			if !retUnderOk(rets, u, 1, closedErr) {
				return false, "the !ok edge of the receive does not return " + closedErr
			}
		}
		for _, r := range rets {
			if r.err != "nil" && r.err != closedErr {
				return false, "unexpected error result " + r.err
			}
		}
		return true, "bare channel operation; closed channel mapped to " + closedErr
	}
	if sel == nil {
		return false, "no select statement found"
	}
	if sel.Blocking != blocking {
		if blocking {
			return false, "select has a default arm: the timeout variant returns immediately"
		}
		return false, "select without default: the non-blocking variant can block"
	}
	// arm on the receiver channel with the right direction
	chanArm, timerArm := -1, -1
	for i, st := range sel.States {
		if chanOf(st.Chan) == recv && st.Dir == dir {
			chanArm = i
		} else if call, ok := core.Resolve(upv(st.Chan)).(*ssa.Call); ok && core.StdCallee(&call.Call) == "time.After" && st.Dir == types.RecvOnly {
			if timeoutPrm != nil && call.Call.Args[0] == timeoutPrm {
				timerArm = i
			}
		}
	}
	if chanArm < 0 {
		return false, "no select arm operating on the receiver channel in the expected direction"
	}
	if blocking && timerArm < 0 {
		return false, "no select arm on time.After(timeout) with the timeout parameter"
	}
	if len(sel.States) != map[bool]int{true: 2, false: 1}[blocking] {
		return false, fmt.Sprintf("unexpected number of select arms: %d", len(sel.States))
	}
	// returns by arm: find `extract sel #0 == k` conditions
	armOf := func(rc core.RetCase) int {
		arm := -2
		for _, m := range rc.Cmps() {
			ex, ok := m.X.(*ssa.Extract)
			if !ok || ex.Tuple != ssa.Value(sel) || ex.Index != 0 {
				continue
			}
			k, isK := m.Y.(*ssa.Const)
			if !isK {
				continue
			}
			if m.Op == token.EQL {
				arm = int(k.Int64())
			}
		}
		if arm == -2 {
			// not on any ==k edge: default (non-blocking) or last arm (blocking)
			neq := map[int]bool{}
			for _, m := range rc.Cmps() {
				if ex, ok := m.X.(*ssa.Extract); ok && ex.Tuple == ssa.Value(sel) && ex.Index == 0 && m.Op == token.NEQ {
					if k, isK := m.Y.(*ssa.Const); isK {
						neq[int(k.Int64())] = true
					}
				}
			}
			if !blocking && neq[0] {
				return -1
			}
			if blocking {
				for i := range sel.States {
					if !neq[i] {
						arm = i
					}
				}
			}
		}
		return arm
	}
	for _, r := range rets {
		arm := armOf(r.rc)
		switch {
		case arm == chanArm:
			if r.err != "nil" && r.err != closedErr {
				return false, "the channel arm returns " + r.err
			}
		case arm == timerArm && blocking:
			if r.err != timeoutErr {
				return false, "the time.After arm returns " + r.err + ", expected " + timeoutErr
			}
		case arm == -1 && !blocking:
			if r.err != defaultErr {
				return false, "the default arm returns " + r.err + ", expected " + defaultErr
			}
		default:
			return false, "cannot attribute a return to a select arm at " + p.InstrPos(r.r)
		}
	}
	if closedErr != "" {
		// recvOk of the channel arm: extract index 1 must guard the success return
		okClosed := false
		for _, r := range rets {
			if r.err == closedErr {
				for _, cnd := range r.rc.Facts {
					n := core.Normalize(cnd)
					if ex, ok := n.V.(*ssa.Extract); ok && ex.Tuple == ssa.Value(sel) && ex.Index == 1 && !n.True {
						okClosed = true
					}
				}
			}
		}
		if !okClosed {
			return false, "the receive arm does not map !ok (closed channel) to " + closedErr
		}
	}
	return true, "select shape and sentinel results as documented"
}

type retInfo struct {
	r   *ssa.Return
	err string // global name, "nil", or "?"
	rc  core.RetCase
}

// retUnderOk: some return with sentinel err sits on the false edge of extract #idx of tuple-producing instruction t.
func retUnderOk(rets []retInfo, t ssa.Value, idx int, err string) bool {
	for _, r := range rets {
		if r.err != err {
			continue
		}
		for _, cnd := range r.rc.Facts {
			n := core.Normalize(cnd)
			if ex, ok := n.V.(*ssa.Extract); ok && ex.Tuple == t && ex.Index == idx && !n.True {
				return true
			}
		}
	}
	return false
}

// chanReceives: g receives from its receiver/first parameter (ChannelQueue.Poll/Take/TakeWithTimeout).
func chanReceives(g *ssa.Function) bool {
	if len(g.Params) == 0 {
		return false
	}
	if _, ok := g.Params[0].Type().Underlying().(*types.Chan); !ok {
		return false
	}
	found := false
	core.Instrs(g, func(ins ssa.Instruction) {
		switch x := ins.(type) {
		case *ssa.UnOp:
			if x.Op == token.ARROW && chanOf(x.X) == ssa.Value(g.Params[0]) {
				found = true
			}
		case *ssa.Select:
			for _, st := range x.States {
				if st.Dir == types.RecvOnly && chanOf(st.Chan) == ssa.Value(g.Params[0]) {
					found = true
				}
			}
		}
	})
	return found
}

// c07wakeups (R11).
func c07wakeups(c *core.Ctx) {
	p := c.P
	isWake := func(v ssa.Value) bool {
		if core.FieldKey(v) == "BufferedChannelQueue.loadWorkerCh" {
			return true
		}
		// the loader may be handed its channel (`go q.loadFromPool(q.loadWorkerCh)`): a channel parameter for which
		// every call site passes the wake-up channel
		prm, isP := core.Resolve(v).(*ssa.Parameter)
		if !isP {
			return false
		}
		f := prm.Parent()
		idx := -1
		for i, q2 := range f.Params {
			if q2 == prm {
				idx = i
			}
		}
		sites, complete := core.CallSites(p, f)
		if idx < 0 || !complete || len(sites) == 0 {
			return false
		}
		for _, st := range sites {
			ci, isCI := st.Instr.(ssa.CallInstruction)
			if !isCI || idx >= len(ci.Common().Args) || core.FieldKey(ci.Common().Args[idx]) != "BufferedChannelQueue.loadWorkerCh" {
				return false
			}
		}
		return true
	}
	type consumer struct {
		fn  *ssa.Function
		ins ssa.Instruction
	}
	var cons []consumer
	for _, f := range p.Funcs {
		if !p.InRepo(f) {
			continue
		}
		core.Instrs(f, func(ins ssa.Instruction) {
			switch x := ins.(type) {
			case *ssa.UnOp:
				if x.Op == token.ARROW && isWake(chanOf(x.X)) {
					cons = append(cons, consumer{f, ins})
				}
			case *ssa.Select:
				for _, st := range x.States {
					if st.Dir == types.RecvOnly && isWake(chanOf(st.Chan)) {
						cons = append(cons, consumer{f, ins})
					}
				}
			case *ssa.Call:
				if len(x.Call.Args) > 0 && isWake(x.Call.Args[0]) {
					if g := core.Callee(&x.Call); g != nil && chanReceives(g) {
						cons = append(cons, consumer{f, ins})
					}
				}
			}
		})
	}
	// a loading pass: a read of the overflow list's size / head (pool.Count, pool.Poll), here or in a function called
	reach := map[*ssa.Function]bool{}
	var isPass func(g *ssa.Function, depth int) bool
	isPoolRead := func(ins ssa.Instruction) bool {
		call, ok := ins.(*ssa.Call)
		if !ok || len(call.Call.Args) == 0 || core.FieldKey(call.Call.Args[0]) != "BufferedChannelQueue.pool" {
			return false
		}
		g := core.Callee(&call.Call)
		return g != nil && (g.Name() == "Count" || g.Name() == "Poll" || g.Name() == "Shift")
	}
	isPass = func(g *ssa.Function, depth int) bool {
		if g == nil || !p.InRepo(g) || len(g.Blocks) == 0 || depth > 3 {
			return false
		}
		if v, ok := reach[g]; ok {
			return v
		}
		reach[g] = false
		found := false
		core.Instrs(g, func(ins ssa.Instruction) {
			if isPoolRead(ins) {
				found = true
			}
			if call, ok := ins.(*ssa.Call); ok && isPass(core.Callee(&call.Call), depth+1) {
				found = true
			}
		})
		reach[g] = found
		return found
	}
	if len(cons) == 0 {
		c.Unknown("R11", "loader-wakeups", "-", "no consumer of the loader wake-up channel found")
		return
	}
	isCons := map[ssa.Instruction]bool{}
	for _, k := range cons {
		isCons[k.ins] = true
	}
	for i, k := range cons {
		c.Analysed(core.FuncName(k.fn))
		key := fmt.Sprintf("%s/take#%d", core.FuncName(k.fn), i+1)
		base := ""
		if len(k.fn.Params) > 0 {
			base = k.fn.Params[0].Name()
		}
		closed := flagEdge(p, base, "isClosed", true)
		skip := func(b, s2 *ssa.BasicBlock) bool {
			if closed(b, s2) {
				return true
			}
			// the channel-closed edge of `_, ok := <-ch` (the end of `for range ch`)
			if iff, ok := b.Instrs[len(b.Instrs)-1].(*ssa.If); ok && len(b.Succs) == 2 {
				if ex, isE := iff.Cond.(*ssa.Extract); isE && ex.Index == 1 && ex.Tuple == k.ins.(ssa.Value) && b.Succs[1] == s2 {
					return true
				}
			}
			return false
		}
		ok, bad := core.MustPassBefore(k.ins, func(ins ssa.Instruction) bool {
			if isPoolRead(ins) {
				return true
			}
			call, isC := ins.(*ssa.Call)
			return isC && isPass(core.Callee(&call.Call), 0)
		}, func(ins ssa.Instruction) bool { return isCons[ins] }, skip)
		where := ""
		if bad != nil {
			where = p.InstrPos(bad)
		}
		c.Check(ok, "R11", key, p.InstrPos(k.ins), "the wake-up taken here is followed by a loading pass before the next take / the end of the loader", "a loader wake-up taken here can be dropped: "+where+" is reached without a loading pass - it may be the one posted by the consumer that just made room in the channel, whose next Take then waits forever although items are parked in the overflow list")
	}
}

// c07consumerImpl: f itself when it touches the item channel; otherwise the unexported function of the repository f only
// forwards to (with its receiver first), where the common part of the consumer entry points then lives.
func c07consumerImpl(p *core.Prog, f *ssa.Function) *ssa.Function {
	touches := false
	core.Instrs(f, func(ins ssa.Instruction) {
		for _, op := range ins.Operands(nil) {
			if *op != nil && core.FieldKey(*op) == "BufferedChannelQueue.blockingQueue" {
				touches = true
			}
		}
	})
	if touches {
		return f
	}
	tgt, call := core.ThinTarget(p, f)
	if tgt == nil || tgt.Object() == nil || tgt.Object().Exported() || len(call.Call.Args) == 0 || len(f.Params) == 0 || core.Resolve(call.Call.Args[0]) != ssa.Value(f.Params[0]) {
		return f
	}
	return tgt
}
