package rules

import "sort"

func sortStrings(s []string) { sort.Strings(s) }
