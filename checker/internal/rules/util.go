package rules

import (
	"fmt"
	"go/token"
	"go/types"
	"strings"
	"sort"

	"fpcheck/internal/core"

	"golang.org/x/tools/go/ssa"
)

func sortStrings(s []string) { sort.Strings(s) }

// edgeStart returns the successor block taken when the first branch whose (normalised) condition
// satisfies isFlag evaluates to want; nil if there is no such branch.
func edgeStart(f *ssa.Function, isFlag func(ssa.Value) bool, want bool) *ssa.BasicBlock {
	for _, b := range f.Blocks {
		if len(b.Instrs) == 0 {
			continue
		}
		iff, ok := b.Instrs[len(b.Instrs)-1].(*ssa.If)
		if !ok {
			continue
		}
		n := core.Normalize(core.Cond{V: iff.Cond, True: true})
		if !isFlag(n.V) {
			continue
		}
		// cond == n.True ⇔ flag true
		if n.True == want {
			return b.Succs[0]
		}
		return b.Succs[1]
	}
	return nil
}

// flagEdge returns an edge predicate: the CFG edge b→s is the one taken when the boolean flag `flag` of
// the object named base was read as `want` by the test ending b (directly or through negations and
// decided short-circuit operands).
func flagEdge(p *core.Prog, base, flag string, want bool) func(b, s *ssa.BasicBlock) bool {
	return func(b, s *ssa.BasicBlock) bool {
		if len(b.Instrs) == 0 || len(b.Succs) != 2 || b.Succs[0] == b.Succs[1] {
			return false
		}
		iff, ok := b.Instrs[len(b.Instrs)-1].(*ssa.If)
		if !ok {
			return false
		}
		taken := b.Succs[0] == s
		for _, cnd := range core.ExpandCond(core.Cond{V: iff.Cond, True: taken, If: iff}) {
			n := core.Normalize(cnd)
			if n.True == want && flagRead(p, n.V, base, flag, 0) {
				return true
			}
		}
		return false
	}
}

// liveValue looks through a phi that merges the result of the live path with the result of the paths
// that left on a skipped edge (e.g. the zero value returned when the closed flag was set): it returns the
// single value arriving over the non-skipped edges, or v itself.
func liveValue(v ssa.Value, skipEdge func(b, s *ssa.BasicBlock) bool) ssa.Value {
	phi, ok := v.(*ssa.Phi)
	if !ok {
		return v
	}
	var live ssa.Value
	for i, e := range phi.Edges {
		pred := phi.Block().Preds[i]
		if skipEdge(pred, phi.Block()) || onlyViaSkipped(pred, skipEdge) {
			continue
		}
		e = core.Resolve(e)
		if live != nil && live != e {
			return v
		}
		live = e
	}
	if live == nil {
		return v
	}
	return live
}

// onlyViaSkipped: every path from the entry to b traverses a skipped edge.
func onlyViaSkipped(b *ssa.BasicBlock, skipEdge func(b, s *ssa.BasicBlock) bool) bool {
	f := b.Parent()
	seen := map[*ssa.BasicBlock]bool{f.Blocks[0]: true}
	work := []*ssa.BasicBlock{f.Blocks[0]}
	for len(work) > 0 {
		x := work[len(work)-1]
		work = work[:len(work)-1]
		if x == b {
			return false
		}
		for _, s := range x.Succs {
			if !seen[s] && !skipEdge(x, s) {
				seen[s] = true
				work = append(work, s)
			}
		}
	}
	return true
}

// unlockBetweenIP generalises unlockBetween to an instruction b that may sit in a helper extracted from
// root (a is in root): the lock <receiver>+suffix must not be released between a and the call that leads
// to b, nor between the entry of each helper on the way and the next call / b itself.
func unlockBetweenIP(p *core.Prog, root *ssa.Function, a, b ssa.Instruction, suffix string) bool {
	if a.Parent() != root {
		// a itself sits in a helper: only the same-function case is supported beyond root
		if a.Parent() == b.Parent() {
			return unlockBetween(a.Parent(), a, b, a.Parent().Params[0].Name()+suffix)
		}
		// b further down, in a helper of the helper a sits in: the same question with that helper as the root
		if len(a.Parent().Params) == 0 || core.SiteChain(p, a.Parent(), b) == nil {
			return true
		}
		root = a.Parent()
	}
	chain := core.SiteChain(p, root, b)
	if chain == nil {
		return true
	}
	top := chain[len(chain)-1]
	if unlockBetween(root, a, top, root.Params[0].Name()+suffix) {
		return true
	}
	for _, at := range chain[:len(chain)-1] {
		fn := at.Parent()
		if len(fn.Blocks) == 0 || len(fn.Blocks[0].Instrs) == 0 || len(fn.Params) == 0 {
			return true
		}
		entry := fn.Blocks[0].Instrs[0]
		if entry != at && unlockBetween(fn, entry, at, fn.Params[0].Name()+suffix) {
			return true
		}
	}
	return false
}

// returnedToRoot: the value returned by r (last result) is what root returns - r is in root, or in a helper
// whose call is itself returned directly by its caller, up to root.
func returnedToRoot(p *core.Prog, root *ssa.Function, r *ssa.Return) bool {
	f := r.Parent()
	for depth := 0; f != root && depth < 6; depth++ {
		site := core.SingleSite(p, f)
		if site == nil {
			return false
		}
		direct := false
		core.Instrs(site.Parent(), func(ins ssa.Instruction) {
			r2, ok := ins.(*ssa.Return)
			if !ok || r2.Block() == site.Parent().Recover {
				return
			}
			rv := core.RetVals(r2)
			if len(rv) == 0 {
				return
			}
			last := core.Resolve(rv[len(rv)-1])
			if last == ssa.Value(site) {
				direct = true
			}
			if ex, isE := last.(*ssa.Extract); isE && ex.Tuple == ssa.Value(site) && ex.Index == f.Signature.Results().Len()-1 {
				direct = true
			}
		})
		if !direct {
			return false
		}
		f = site.Parent()
	}
	return f == root
}

// callTarget returns the repo function started/deferred/called by a call: the closure's function or the static callee.
func callTarget(p *core.Prog, cc *ssa.CallCommon) *ssa.Function {
	if mc, ok := cc.Value.(*ssa.MakeClosure); ok {
		return mc.Fn.(*ssa.Function)
	}
	if g := core.Callee(cc); g != nil && p.InRepo(g) {
		return g
	}
	return nil
}

// insideLoop: block b executes as part of a loop iteration - it lies on a cycle, or (a block that leaves
// the function from inside the body lies on no cycle) its nearest dominator on a cycle is a body block, or
// is the loop header and b is reached through the header's edge into the body rather than its exit edge.
func insideLoop(b *ssa.BasicBlock) bool {
	if core.InLoop(b) {
		return true
	}
	for d := b.Idom(); d != nil; d = d.Idom() {
		if !core.InLoop(d) {
			continue
		}
		isHeader := false
		for _, pr := range d.Preds {
			if d.Dominates(pr) {
				isHeader = true
			}
		}
		if !isHeader {
			return true
		}
		for _, s := range d.Succs {
			if core.InLoop(s) && (s == b || s.Dominates(b)) {
				return true
			}
		}
		return false
	}
	return false
}

// lockBalance checks, for every given function (and its closures), that each lock it acquires itself is
// released again on every return path: by an explicit unlock of the same mode, or by a deferred one.
// Locks already held on entry (lock wrappers' callees, helpers called under the lock) are the caller's.
func lockBalance(c *core.Ctx, li *core.LockInfo, rule string, fns []*ssa.Function) {
	p := c.P
	for _, f := range fns {
		acquires := false
		core.Instrs(f, func(ins ssa.Instruction) {
			if call, ok := ins.(*ssa.Call); ok {
				if op, _, ok2 := core.LockOp(&call.Call); ok2 && (op == "Lock" || op == "RLock") {
					acquires = true
				}
			}
		})
		if !acquires {
			continue
		}
		key := core.FuncName(f) + "/lock-balance"
		bad := ""
		mayAll := core.LocksInMay(f, li.Entry[f])
		core.Instrs(f, func(ins ssa.Instruction) {
			r, ok := ins.(*ssa.Return)
			if !ok || r.Block() == f.Recover {
				return
			}
			// "may be held": a path that skips its unlock (an early exit out of a locked region) counts
			ls := mayAll[ins].Clone()
			applyDefers(f, ls)
			for k := range li.Entry[f] {
				delete(ls, k)
			}
			if len(ls) > 0 {
				bad = fmt.Sprintf("can return at %s with %s still held (a path lacks the matching unlock of the same mode and no deferred one covers it): the next operation on the object blocks forever / the runtime aborts on a mismatched unlock", p.InstrPos(ins), ls)
			}
		})
		// a deferred or explicit unlock of a mode that is not held is a runtime fatal error
		core.Instrs(f, func(ins ssa.Instruction) {
			ci, ok := ins.(ssa.CallInstruction)
			if !ok {
				return
			}
			op, path, ok2 := core.LockOp(ci.Common())
			if !ok2 || (op != "Unlock" && op != "RUnlock") {
				return
			}
			if _, isDefer := ins.(*ssa.Defer); isDefer {
				// the matching lock must have been taken before the defer was registered
				mode := map[string]string{"Unlock": "W", "RUnlock": "R"}[op]
				if !li.At[ins].Has(path, mode) {
					bad = fmt.Sprintf("defers %s of %s at %s although that mode is not held there (held=%s): fatal error at function exit", op, path, p.InstrPos(ins), li.At[ins])
				}
				return
			}
			mode := map[string]string{"Unlock": "W", "RUnlock": "R"}[op]
			if !li.At[ins].Has(path, mode) {
				bad = fmt.Sprintf("%s of %s at %s although that mode is not held there (held=%s): fatal error", op, path, p.InstrPos(ins), li.At[ins])
			}
		})
		// taking a lock that is already held by the same goroutine deadlocks (sync mutexes are not reentrant);
		// this is also how a missing unlock shows in a loop that never returns
		may := core.LocksInMay(f, li.Entry[f])
		core.Instrs(f, func(ins ssa.Instruction) {
			call, ok := ins.(*ssa.Call)
			if !ok {
				return
			}
			if op, path, ok2 := core.LockOp(&call.Call); ok2 && (op == "Lock" || op == "RLock") {
				if may[ins].Has(path, "W") || op == "Lock" && may[ins].Has(path, "R") {
					bad = fmt.Sprintf("%s of %s at %s can be reached while it is still held (may-held=%s): self-deadlock (an unlock is missing on a path that comes back here)", op, path, p.InstrPos(ins), may[ins])
				}
			}
		})
		c.Check(bad == "", rule, key, p.Pos(f.Pos()), "every lock taken here is released (same mode) on every return path and never re-acquired while held", bad)
	}
}

// funcsOfType returns the methods of the named type of a package and their closures.
func funcsOfType(p *core.Prog, pkg *ssa.Package, typ string) []*ssa.Function {
	var out []*ssa.Function
	for _, f := range p.Funcs {
		root := f
		for root.Parent() != nil {
			root = root.Parent()
		}
		if root.Pkg == pkg && root.Signature.Recv() != nil && core.TypeName(root.Signature.Recv().Type()) == typ {
			out = append(out, f)
		} else if root.Pkg == pkg && root.Signature.Recv() == nil && root.Object() != nil && !root.Object().Exported() && len(root.Params) > 0 && core.TypeName(root.Params[0].Type()) == typ {
			// an unexported helper taking the object as first argument counts as one of its methods
			out = append(out, f)
		}
	}
	return out
}

// condFlag: the decided condition cnd implies that the boolean flag `flag` of the object named base reads as
// want - directly, through negations and decided short-circuit operands, or through a predicate helper of the
// same receiver whose result is such a combination (`func (x) isDoneOrStarted() bool { return a || b }`).
func condFlag(p *core.Prog, cnd core.Cond, base, flag string, want bool, depth int) bool {
	for _, c2 := range core.ExpandCond(cnd) {
		n := core.Normalize(c2)
		if n.True == want && flagRead(p, n.V, base, flag, 0) {
			return true
		}
		if depth >= 2 {
			continue
		}
		call, ok := n.V.(*ssa.Call)
		if !ok || len(call.Call.Args) == 0 || core.Path(call.Call.Args[0]) != base {
			continue
		}
		h := core.Callee(&call.Call)
		if h == nil || !p.InRepo(h) || len(h.Params) == 0 || len(h.Blocks) == 0 {
			continue
		}
		cases := core.ReturnCases(h)
		if len(cases) == 0 {
			continue
		}
		// the helper returned n.True: on every return case that can yield that value the flag must read as want
		all := true
		for _, rc := range cases {
			v := rc.Vals[0]
			if k, isK := v.(*ssa.Const); isK && k.Value != nil {
				if isTrueConst(k) != n.True {
					continue // this case returns the other truth value
				}
				// constant result: the facts of the case must imply the flag value
				okc := false
				for _, f := range rc.Facts {
					if condFlag(p, f, h.Params[0].Name(), flag, want, depth+1) {
						okc = true
					}
				}
				if !okc {
					all = false
				}
				continue
			}
			if !condFlag(p, core.Cond{V: v, True: n.True}, h.Params[0].Name(), flag, want, depth+1) {
				okc := false
				for _, f := range rc.Facts {
					if condFlag(p, f, h.Params[0].Name(), flag, want, depth+1) {
						okc = true
					}
				}
				if !okc {
					all = false
				}
			}
		}
		if all {
			return true
		}
	}
	return false
}

// poolEscapes (use-after-release): f hands a value back to a pool (`Put`, directly or deferred) and a value derived from
// it - the value itself, or the pointer-like result of a call that takes it (buffer.Bytes(), bytes.NewReader(…)) - is
// returned by f although the Put is executed on the way to that return. Returns the offending Put calls.
func poolEscapes(f *ssa.Function, isPut func(*ssa.CallCommon) bool) []ssa.Instruction {
	var out []ssa.Instruction
	core.Instrs(f, func(ins ssa.Instruction) {
		ci, ok := ins.(ssa.CallInstruction)
		if !ok || !isPut(ci.Common()) {
			return
		}
		args := ci.Common().Args
		if len(args) == 0 {
			return
		}
		root := core.Unwrap(core.Resolve(args[len(args)-1]))
		taint := map[ssa.Value]bool{root: true}
		ptrLike := func(t types.Type) bool {
			switch t.Underlying().(type) {
			case *types.Pointer, *types.Slice, *types.Map, *types.Interface, *types.Chan:
				return true
			}
			return false
		}
		for changed := true; changed; {
			changed = false
			core.Instrs(f, func(i2 ssa.Instruction) {
				v, isV := i2.(ssa.Value)
				if !isV || taint[v] {
					return
				}
				t := false
				switch x := i2.(type) {
				case *ssa.Call:
					if !ptrLike(x.Type()) || isPut(&x.Call) {
						return
					}
					if x.Call.IsInvoke() && taint[core.Unwrap(core.Resolve(x.Call.Value))] {
						t = true
					}
					for _, a := range x.Call.Args {
						if taint[core.Unwrap(core.Resolve(a))] {
							t = true
						}
					}
				case *ssa.Slice:
					t = taint[core.Unwrap(core.Resolve(x.X))]
				case *ssa.ChangeType:
					t = taint[core.Unwrap(core.Resolve(x.X))]
				case *ssa.MakeInterface:
					t = taint[core.Unwrap(core.Resolve(x.X))]
				case *ssa.ChangeInterface:
					t = taint[core.Unwrap(core.Resolve(x.X))]
				case *ssa.TypeAssert:
					t = taint[core.Unwrap(core.Resolve(x.X))]
				case *ssa.Phi:
					for _, e := range x.Edges {
						if taint[core.Unwrap(core.Resolve(e))] {
							t = true
						}
					}
				case *ssa.Extract:
					t = taint[x.Tuple]
				}
				if t {
					taint[v] = true
					changed = true
				}
			})
		}
		_, deferred := ins.(*ssa.Defer)
		core.Instrs(f, func(i2 ssa.Instruction) {
			r, isR := i2.(*ssa.Return)
			if !isR || r.Block() == f.Recover {
				return
			}
			if !deferred && !core.Reaches(ins, r) {
				return
			}
			for _, v := range core.RetVals(r) {
				if taint[core.Unwrap(core.Resolve(v))] {
					out = append(out, ins)
					return
				}
			}
		})
	})
	return out
}


// sameOrNilAlias: in the return case rc the value v is want - either the very value, or the nil constant returned where
// want is known to be nil (`if x == nil { return nil }` returns x).
func sameOrNilAlias(rc core.RetCase, v ssa.Value, want ssa.Value) bool {
	r := core.Resolve(v)
	if r == want {
		return true
	}
	if !core.IsNilConst(r) {
		return false
	}
	for _, m := range rc.Cmps() {
		if m.Op == token.EQL && core.IsNilConst(m.Y) && core.Resolve(m.X) == want {
			return true
		}
	}
	return false
}


// flagSetOf: the call raises a boolean flag field of some object: directly (AtomBool.Set(&x.f, true), the marker of a
// private state type on &x.f), or through an unexported one-block helper of x that does only that (`x.markClosed()`).
// Returns the flag's field name (canonical) and the path of the object.
func flagSetOf(p *core.Prog, call *ssa.Call) (field, owner string, ok bool) {
	direct := func(c *ssa.CallCommon) (*ssa.FieldAddr, bool) {
		if g := core.Callee(c); g == nil || !core.FlagSetTrue(c) || len(c.Args) == 0 {
			return nil, false
		}
		fa, isFA := c.Args[0].(*ssa.FieldAddr)
		return fa, isFA
	}
	if fa, isD := direct(&call.Call); isD {
		return core.FieldName(fa.X.Type(), fa.Field), core.Path(core.FieldOwner(fa)), true
	}
	g := core.Callee(&call.Call)
	if g == nil || !p.InRepo(g) || len(g.Blocks) != 1 || g.Object() == nil || g.Object().Exported() || g.Signature.Recv() == nil || len(call.Call.Args) == 0 {
		return "", "", false
	}
	var fa *ssa.FieldAddr
	n := 0
	pure := true
	core.Instrs(g, func(ins ssa.Instruction) {
		switch x := ins.(type) {
		case *ssa.Call:
			n++
			if f2, isD := direct(&x.Call); isD && core.Resolve(core.FieldOwner(f2)) == ssa.Value(g.Params[0]) {
				fa = f2
			} else {
				pure = false
			}
		case *ssa.Store:
			// a plain bool flag: x.f = true
			if f2, isFA := x.Addr.(*ssa.FieldAddr); isFA && isTrueConst(x.Val) && core.Resolve(core.FieldOwner(f2)) == ssa.Value(g.Params[0]) {
				fa = f2
				n++
			} else if _, isAl := x.Addr.(*ssa.Alloc); !isAl {
				pure = false
			}
		case *ssa.Send, *ssa.Go, *ssa.Defer, *ssa.MapUpdate:
			pure = false
		}
	})
	if fa == nil || n != 1 || !pure {
		return "", "", false
	}
	return core.FieldName(fa.X.Type(), fa.Field), core.Path(call.Call.Args[0]), true
}


// sharedOrigin: some origin of v (followed through helpers, phis and callback results) is read out of package-level
// state - a global variable, or a field / element reached from one through loads. A constructor that stores such a value
// (a channel, a client, a settings object) into the object it builds makes all instances built that way share it.
func sharedOrigin(p *core.Prog, v ssa.Value) string {
	rooted := func(x ssa.Value) string {
		for depth := 0; depth < 8; depth++ {
			switch y := x.(type) {
			case *ssa.Global:
				return y.Name()
			case *ssa.UnOp:
				if y.Op != token.MUL {
					return ""
				}
				x = y.X
			case *ssa.FieldAddr:
				x = y.X
			case *ssa.Field:
				x = y.X
			case *ssa.IndexAddr:
				x = y.X
			case *ssa.ChangeType:
				x = y.X
			case *ssa.MakeInterface:
				x = y.X
			default:
				return ""
			}
		}
		return ""
	}
	seen := map[ssa.Value]bool{}
	var walk func(v ssa.Value, depth int) string
	walk = func(v ssa.Value, depth int) string {
		if depth > 4 {
			return ""
		}
		for _, lf := range core.Origins(p, v, nil) {
			lv := lf.Val
			if seen[lv] {
				continue
			}
			seen[lv] = true
			switch x := lv.(type) {
			case *ssa.UnOp:
				if x.Op != token.MUL {
					continue
				}
				if g := rooted(x); g != "" {
					return g
				}
				// a field of (or the whole of) a local variable: what was stored into the variable, in particular a
				// by-value copy of a package-level struct, whose reference-typed members stay shared
				base := x.X
				if fa, isFA := base.(*ssa.FieldAddr); isFA {
					base = fa.X
				}
				if a, isA := base.(*ssa.Alloc); isA {
					for _, ref := range *a.Referrers() {
						if st, isS := ref.(*ssa.Store); isS && st.Addr == ssa.Value(a) {
							if g := walk(st.Val, depth+1); g != "" {
								return g
							}
						}
					}
				}
			case *ssa.Parameter:
				// what callers pass for it
				fn := x.Parent()
				idx := -1
				for i, q := range fn.Params {
					if q == x {
						idx = i
					}
				}
				if idx < 0 || fn.Parent() != nil {
					continue
				}
				for _, f := range p.Funcs {
					var hit string
					core.Instrs(f, func(ins ssa.Instruction) {
						call, isC := ins.(*ssa.Call)
						if !isC || hit != "" || call.Call.IsInvoke() || core.Callee(&call.Call) != fn || idx >= len(call.Call.Args) {
							return
						}
						hit = walk(call.Call.Args[idx], depth+1)
					})
					if hit != "" {
						return hit
					}
				}
			}
		}
		return ""
	}
	return walk(v, 0)
}

// onceInitialised: v is a load of an unexported package-level variable whose only write in the program is the one in
// the package initialiser (and whose address goes nowhere else): the value stored there; nil otherwise.
func onceInitialised(v ssa.Value) ssa.Value {
	u, ok := core.Unwrap(v).(*ssa.UnOp)
	if !ok || u.Op != token.MUL {
		return nil
	}
	g, ok := u.X.(*ssa.Global)
	if !ok || g.Object() == nil || g.Object().Exported() || g.Pkg == nil {
		return nil
	}
	var val ssa.Value
	n := 0
	var scan func(f *ssa.Function)
	bad := false
	scan = func(f *ssa.Function) {
		for _, b := range f.Blocks {
			for _, ins := range b.Instrs {
				for _, op := range ins.Operands(nil) {
					if *op != ssa.Value(g) {
						continue
					}
					switch x := ins.(type) {
					case *ssa.Store:
						if x.Addr == ssa.Value(g) && x.Val != ssa.Value(g) {
							n++
							val = x.Val
							if f.Synthetic == "" || !strings.HasPrefix(f.Synthetic, "package init") {
								bad = true
							}
							continue
						}
						bad = true
					case *ssa.UnOp:
						if x.Op != token.MUL {
							bad = true
						}
					default:
						bad = true
					}
				}
			}
		}
		for _, a := range f.AnonFuncs {
			scan(a)
		}
	}
	for _, m := range g.Pkg.Members {
		switch x := m.(type) {
		case *ssa.Function:
			scan(x)
		case *ssa.Type:
			if named, isN := x.Type().(*types.Named); isN {
				for i := 0; i < named.NumMethods(); i++ {
					if mf := g.Pkg.Prog.FuncValue(named.Method(i)); mf != nil {
						scan(mf)
					}
				}
			}
		}
	}
	if bad || n != 1 {
		return nil
	}
	return val
}
