package rules

import (
	"sort"

	"fpcheck/internal/core"

	"golang.org/x/tools/go/ssa"
)

func sortStrings(s []string) { sort.Strings(s) }

// edgeStart returns the successor block taken when the first branch whose (normalised) condition
// satisfies isFlag evaluates to want; nil if there is no such branch.
func edgeStart(f *ssa.Function, isFlag func(ssa.Value) bool, want bool) *ssa.BasicBlock {
	for _, b := range f.Blocks {
		if len(b.Instrs) == 0 {
			continue
		}
		iff, ok := b.Instrs[len(b.Instrs)-1].(*ssa.If)
		if !ok {
			continue
		}
		n := core.Normalize(core.Cond{V: iff.Cond, True: true})
		if !isFlag(n.V) {
			continue
		}
		// cond == n.True ⇔ flag true
		if n.True == want {
			return b.Succs[0]
		}
		return b.Succs[1]
	}
	return nil
}
