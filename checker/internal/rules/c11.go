package rules

import (
	"fmt"
	"go/token"
	"go/types"

	"fpcheck/internal/core"

	"golang.org/x/tools/go/ssa"
)

func init() {
	register(&Prop{
		ID: "C11",
		Explanation: "MonadIO shapes decided on SSA: (R1) laziness - the own body of every builder (Just, New, FlatMap, ObserveOn, SubscribeOn and their generic forms) contains no dynamic call and no call of an evaluator, so building runs no user code for any program; builders never overwrite the effect of an existing MonadIO (composition returns a new value); " +
			"(R2) once per evaluation - the effect field is invoked exactly once on every path of the evaluator, Eval delegates once, FlatMap's closure evaluates the receiver once, applies fn once to that result and evaluates fn's result once, returning its value (data dependence fixes the order), Just's closure returns its captured argument; with these shapes the monad laws follow by unfolding; " +
			"(R3) subscribe routing - nothing runs without OnNext; exactly one of {Post to the observe handler, direct call} then exactly one of {Post to the subscribe handler, direct call}, OnNext called once with the evaluated value. Not decided: on which goroutine a Handler runs what it is posted (C12).",
		Trusted: commonTrusted,
		Run:     runC11,
		Relies: []Dep{
			{Prop: "C17", Rule: "R2", Floor: 8, Why: "the SimpleAPI constructors are the library's own MonadIO producers: nothing may be serialised or sent before Subscribe/Eval"},
			{Prop: "C12", Rule: "R1", Keys: []string{"HandlerDef/"}, Floor: 2, Why: "ObserveOn/SubscribeOn run the effect and OnNext through a Handler: one consumer goroutine"},
			{Prop: "C12", Rule: "R2", Keys: []string{"HandlerDef/"}, Floor: 1, Why: "ObserveOn/SubscribeOn run the effect and OnNext through a Handler: each posted function runs once, in order"},
			{Prop: "C12", Rule: "R3", Keys: []string{"HandlerDef.Post"}, Floor: 1, Why: "ObserveOn/SubscribeOn run the effect and OnNext through a Handler: Post enqueues exactly once"},
			{Prop: "C12", Rule: "R5", Keys: []string{"HandlerDef/own-channel"}, Floor: 1, Why: "'on h1's goroutine': a handler whose channel is shared with other handlers has its work run by whichever of their goroutines receives it"},
		},
	})
}

const c11effect = "MonadIODef.effect"

// callsEffectField: ins is a call of the MonadIODef.effect field value.
func callsEffectField(ins ssa.Instruction) bool {
	call, ok := ins.(*ssa.Call)
	return ok && !call.Call.IsInvoke() && core.FieldKey(call.Call.Value) == c11effect
}

func runC11(c *core.Ctx) {
	p := c.P
	c.Rule("R1", "builders are lazy: no dynamic call and no evaluator call in the own body of any function that constructs or configures a MonadIO", 7)
	c.Rule("R1b", "the effect of an existing MonadIO is never overwritten: the effect field is only initialised inside a freshly allocated MonadIODef", 1)
	c.Rule("R2", "once per evaluation: evaluator calls the effect exactly once on every path and returns it; Eval delegates once; FlatMap's closure = eval(receiver) → fn(result) → eval(fn's result), each exactly once; Just's closure returns its captured value", 4)
	c.Rule("R3", "Subscribe routing: everything under OnNext != nil; exactly one of {obOn.Post(doOb), doOb()} chosen by obOn != nil; inside, one evaluation then exactly one of {subOn.Post(doSub), doSub()}; doSub calls OnNext once with the evaluated value", 4)
	// evaluation: a call of the effect field of a MonadIO, or of a wrapper - a top-level function that calls the effect of
	// its own receiver exactly once on every path and returns that value (doEffect, Eval). Everything from which an
	// evaluation is reachable is an evaluator.
	var direct []*ssa.Function
	for _, f := range p.Funcs {
		found := false
		core.Instrs(f, func(ins ssa.Instruction) {
			if callsEffectField(ins) {
				found = true
			}
		})
		if found {
			direct = append(direct, f)
		}
	}
	if len(direct) == 0 {
		c.Unknown("R2", "evaluator", "-", "no function invokes the effect field of a MonadIO")
		return
	}
	ev := &c11evals{wrappers: map[*ssa.Function]bool{}}
	for changed := true; changed; {
		changed = false
		for _, f := range p.Funcs {
			if ev.wrappers[f] || f.Parent() != nil || f.Pkg != p.Fpgo || len(f.Params) != 1 || f.Signature.Results().Len() != 1 {
				continue
			}
			min, max := core.PathCount(f, func(ins ssa.Instruction) int {
				if ev.is(ins) {
					return 1
				}
				return 0
			}, nil)
			retOK := true
			core.Instrs(f, func(ins ssa.Instruction) {
				if r, ok := ins.(*ssa.Return); ok && r.Block() != f.Recover {
					call, isC := core.Resolve(core.RetVals(r)[0]).(*ssa.Call)
					if !isC || !ev.is(call) || core.Resolve(ev.subject(call)) != ssa.Value(f.Params[0]) {
						retOK = false
					}
				}
			})
			if min == 1 && max == 1 && retOK {
				ev.wrappers[f] = true
				changed = true
			}
		}
	}
	evaluators := map[*ssa.Function]bool{}
	for _, f := range p.Funcs {
		for _, d := range direct {
			if f == d || core.Reachable(p, f)[d] {
				evaluators[f] = true
			}
		}
	}
	// builders: functions (top-level) of package fpgo that allocate a MonadIODef or store to its handler fields, and return *MonadIODef
	var builders []*ssa.Function
	for _, f := range p.Funcs {
		if f.Parent() != nil || f.Pkg != p.Fpgo {
			continue
		}
		res := f.Signature.Results()
		if res.Len() != 1 || core.TypeName(res.At(0).Type()) != "MonadIODef" {
			continue
		}
		builders = append(builders, f)
	}
	for _, f := range builders {
		c.Analysed(core.FuncName(f))
		key := core.FuncName(f)
		bad := ""
		core.Instrs(f, func(ins ssa.Instruction) {
			ci, ok := ins.(ssa.CallInstruction)
			if !ok {
				return
			}
			cc := ci.Common()
			if _, isB := cc.Value.(*ssa.Builtin); isB {
				return
			}
			g := core.Callee(cc)
			if g == nil {
				bad = "dynamic call of " + core.Path(cc.Value) + " at " + p.InstrPos(ins) + ": user code may run while building"
				return
			}
			if evaluators[g] {
				bad = "calls evaluator " + core.FuncName(g) + " at " + p.InstrPos(ins) + ": the effect runs at build time"
			}
			// callee must itself be a lazy builder or effect-free constructor
			if p.InRepo(g) && !evaluators[g] {
				for h := range core.Reachable(p, g) {
					core.Instrs(h, func(i2 ssa.Instruction) {
						if c2, ok := i2.(ssa.CallInstruction); ok && h.Parent() == nil {
							if _, isB := c2.Common().Value.(*ssa.Builtin); !isB && core.Callee(c2.Common()) == nil && !c2.Common().IsInvoke() {
								bad = "reaches a dynamic call in " + core.FuncName(h) + " at " + p.InstrPos(i2)
							}
						}
					})
				}
			}
		})
		c.Check(bad == "", "R1", key, p.Pos(f.Pos()), "own body makes no dynamic call and calls no evaluator", bad)
	}
	// R1b: stores to the effect field
	n1b := 0
	for _, f := range p.Funcs {
		core.Instrs(f, func(ins ssa.Instruction) {
			st, ok := ins.(*ssa.Store)
			if !ok || core.FieldKey(st.Addr) != c11effect {
				return
			}
			n1b++
			fa := st.Addr.(*ssa.FieldAddr)
			_, fresh := fa.X.(*ssa.Alloc)
			c.Check(fresh, "R1b", core.FuncName(f)+"/store-effect", p.InstrPos(ins), "initialises a freshly allocated MonadIODef", "overwrites the effect of an existing MonadIO ("+core.Path(core.FieldOwner(fa))+"): a value already handed out changes its meaning (evaluating the original now runs the composed chain)")
		})
	}
	if n1b == 0 {
		c.Unknown("R1b", "anchor", "-", "no initialisation of the effect field found")
	}
	// R2 evaluator
	// every top-level function that invokes the effect field itself must be such a wrapper
	for _, d := range direct {
		if d.Parent() != nil {
			continue // closures (FlatMap's effect, the observe closure) are judged by their own rules below
		}
		c.Analysed(core.FuncName(d))
		c.Check(ev.wrappers[d], "R2", core.FuncName(d), p.Pos(d.Pos()), "calls the receiver's effect exactly once and returns its value", "this function invokes the effect of a MonadIO but is not a once-and-return evaluator of its receiver (cached/duplicated evaluation, or the value is dropped)")
	}
	if evm := p.Method(p.Fpgo, "MonadIODef", "Eval"); evm == nil {
		c.Unknown("R2", "MonadIODef.Eval", "-", "method not found")
	} else {
		c.Analysed(core.FuncName(evm))
		c.Check(ev.wrappers[evm], "R2", "MonadIODef.Eval", p.Pos(evm.Pos()), "evaluates the receiver once and returns the value", "Eval does not evaluate its receiver exactly once on every path and return that value")
	}
	// the effect closure of a builder: the closure it hands to the MonadIO constructor
	monadCtor := func(cc *ssa.CallCommon) bool {
		g := core.Callee(cc)
		return g != nil && g.Signature.Results().Len() == 1 && core.TypeName(g.Signature.Results().At(0).Type()) == "MonadIODef"
	}
	if fm := p.Method(p.Fpgo, "MonadIODef", "FlatMap"); fm == nil || c11effectClosure(p, fm, monadCtor) == nil {
		c.Unknown("R2", "MonadIODef.FlatMap", "-", "method or its effect closure not found")
	} else {
		cl := c11effectClosure(p, fm, monadCtor)
		c.Analysed(core.FuncName(cl))
		ok, detail := c11flatMapClosure(p, fm, cl, ev)
		c.Check(ok, "R2", "MonadIODef.FlatMap/closure", p.Pos(cl.Pos()), detail, detail)
	}
	if j := p.Func(p.Fpgo, "MonadIOJustGenerics"); j == nil || c11effectClosure(p, j, monadCtor) == nil {
		c.Unknown("R2", "MonadIOJustGenerics", "-", "function or its effect closure not found")
	} else {
		cl := c11effectClosure(p, j, monadCtor)
		ncalls := 0
		retOK := false
		core.Instrs(cl, func(ins ssa.Instruction) {
			if _, ok := ins.(ssa.CallInstruction); ok {
				ncalls++
			}
			if r, ok := ins.(*ssa.Return); ok && len(r.Results) == 1 {
				if core.Path(r.Results[0]) == j.Params[0].Name() {
					retOK = true
				}
			}
		})
		c.Check(ncalls == 0 && retOK, "R2", "MonadIOJustGenerics/closure", p.Pos(cl.Pos()), "returns the captured value, calls nothing", "Just's effect does not simply return the given value")
	}
	// R3
	ds := p.Method(p.Fpgo, "MonadIODef", "doSubscribe")
	if ds == nil {
		// role-based fallback: the evaluator's caller that takes a *Subscription
		for f := range evaluators {
			if f.Parent() == nil && !ev.wrappers[f] && len(f.Params) == 4 {
				ds = f
			}
		}
	}
	if ds == nil {
		// folded into its caller: the one function that evaluates the effect (in its own closures) and delivers to OnNext
		cands := map[*ssa.Function]bool{}
		for f := range evaluators {
			root := f
			for root.Parent() != nil {
				root = root.Parent()
			}
			if ev.wrappers[root] {
				continue
			}
			delivers := false
			core.InstrsDeep(root, func(_ *ssa.Function, ins ssa.Instruction) {
				if call, ok := ins.(*ssa.Call); ok && core.FieldKey(call.Call.Value) == "Subscription.OnNext" {
					delivers = true
				}
			})
			if delivers {
				cands[root] = true
			}
		}
		if len(cands) == 1 {
			for f := range cands {
				ds = f
			}
		}
	}
	if ds == nil {
		c.Unknown("R3", "doSubscribe", "-", "subscribe routine not found")
		return
	}
	c.Analysed(core.FuncName(ds))
	c11subscribe(c, ds, ev)
	// the handlers a subscription runs on are the ones configured when Subscribe was called: the handler fields of the
	// MonadIO are read in the subscribing call itself, never inside a closure that runs later (on a handler's goroutine,
	// after the effect) - a SubscribeOn / ObserveOn made meanwhile on the same MonadIO would redirect a subscription
	// that is already in flight
	late := ""
	for _, f := range p.Funcs {
		if f.Parent() == nil || f.Pkg != p.Fpgo && !p.InRepo(f) {
			continue
		}
		core.Instrs(f, func(ins ssa.Instruction) {
			ld, ok := ins.(*ssa.UnOp)
			if !ok || ld.Op != token.MUL {
				return
			}
			if k := core.FieldKey(ld.X); k == "MonadIODef.subOn" || k == "MonadIODef.obOn" {
				if _, isFA := ld.X.(*ssa.FieldAddr); isFA {
					late = core.FuncName(f) + " reads " + k + " at " + p.InstrPos(ins)
				}
			}
		})
	}
	c.Check(late == "", "R3", "Subscribe/handler-snapshot", p.Pos(ds.Pos()), "the handler fields are read by the subscribing call itself, not by the closures it posts", "a closure that runs later "+late+": a SubscribeOn / ObserveOn made on the same MonadIO after Subscribe was called changes the goroutine a subscription already in flight delivers on")
}

func c11flatMapClosure(p *core.Prog, fm, cl *ssa.Function, ev *c11evals) (bool, string) {
	// a closure that only defers a call to a helper: analyse the helper, reading its parameters as the arguments
	ren := map[string]string{}
	if tgt, call := core.ThinTarget(p, cl); tgt != nil && !ev.wrappers[tgt] {
		for i, prm := range tgt.Params {
			if i < len(call.Call.Args) {
				ren[prm.Name()] = core.Path(call.Call.Args[i])
			}
		}
		cl = tgt
	}
	pathOf := func(v ssa.Value) string {
		s := core.Path(v)
		if r, ok := ren[s]; ok {
			return r
		}
		return s
	}
	// find calls
	var evals []*ssa.Call
	var fnCalls []*ssa.Call
	core.Instrs(cl, func(ins ssa.Instruction) {
		call, ok := ins.(*ssa.Call)
		if !ok {
			return
		}
		if ev.is(call) {
			evals = append(evals, call)
		} else if core.Callee(&call.Call) == nil && !call.Call.IsInvoke() {
			fnCalls = append(fnCalls, call)
		}
	})
	total := func(pred func(ssa.Instruction) bool) (int, int) {
		return core.PathCount(cl, func(ins ssa.Instruction) int {
			if pred(ins) {
				return 1
			}
			return 0
		}, nil)
	}
	emin, emax := total(func(i ssa.Instruction) bool {
		call, ok := i.(*ssa.Call)
		return ok && ev.is(call)
	})
	fmin, fmax := total(func(i ssa.Instruction) bool {
		call, ok := i.(*ssa.Call)
		return ok && !ev.is(call) && core.Callee(&call.Call) == nil && !call.Call.IsInvoke()
	})
	if emin != 2 || emax != 2 || fmin != 1 || fmax != 1 || len(evals) != 2 || len(fnCalls) != 1 {
		return false, fmt.Sprintf("FlatMap's effect evaluates %d..%d times (want 2: receiver and fn's result) and applies fn %d..%d times (want 1)", emin, emax, fmin, fmax)
	}
	fnCall := fnCalls[0]
	// fn is the captured parameter fn of FlatMap
	if pathOf(fnCall.Call.Value) != fm.Params[1].Name() {
		return false, "the function applied is not FlatMap's argument"
	}
	var first, second *ssa.Call
	for _, e := range evals {
		if len(fnCall.Call.Args) == 1 && core.Resolve(fnCall.Call.Args[0]) == ssa.Value(e) {
			first = e
		} else {
			second = e
		}
	}
	if first == nil || second == nil {
		return false, "fn is not applied to the value of the receiver's evaluation"
	}
	if pathOf(ev.subject(first)) != fm.Params[0].Name() {
		return false, "the first evaluation is not of the receiver"
	}
	if core.Resolve(ev.subject(second)) != ssa.Value(fnCall) {
		return false, "the second evaluation is not of the MonadIO returned by fn"
	}
	retOK := false
	core.Instrs(cl, func(ins ssa.Instruction) {
		if r, ok := ins.(*ssa.Return); ok && len(r.Results) == 1 && core.Resolve(core.RetVals(r)[0]) == ssa.Value(second) {
			retOK = true
		}
	})
	if !retOK {
		return false, "the closure does not return the value of evaluating fn's result"
	}
	return true, "eval(receiver) → fn(result) → eval(fn's result), each exactly once, value returned"
}

// c11clo is a closure found from some root function: where it is created and the helper calls leading there.
type c11clo struct {
	mc    *ssa.MakeClosure
	stack []*ssa.Call
	// when the closure only defers a call to a helper (func() { x.helper(a, b) }), body is that helper and
	// thin the call; otherwise body is the closure's own function
	body *ssa.Function
	thin *ssa.Call
}

func newC11clo(p *core.Prog, mc *ssa.MakeClosure, stack []*ssa.Call) *c11clo {
	k := &c11clo{mc: mc, stack: stack, body: mc.Fn.(*ssa.Function)}
	if tgt, call := core.ThinTarget(p, k.body); tgt != nil {
		k.body, k.thin = tgt, call
	}
	return k
}

// site: the value that denotes the closure in the root function (the MakeClosure, or the call of the
// factory helper that returns it).
func (k *c11clo) site() ssa.Value {
	if len(k.stack) == 0 {
		return k.mc
	}
	return k.stack[0]
}

// outer expresses a value read inside the closure in the frame of the root function where possible.
func (k *c11clo) outer(v ssa.Value) ssa.Value {
	v = core.Resolve(v)
	if prm, isP := v.(*ssa.Parameter); isP && k.thin != nil && prm.Parent() == k.body {
		for i, q := range k.body.Params {
			if q == prm && i < len(k.thin.Call.Args) {
				v = core.Resolve(k.thin.Call.Args[i])
			}
		}
	}
	fn := k.mc.Fn.(*ssa.Function)
	var fv *ssa.FreeVar
	switch x := v.(type) {
	case *ssa.UnOp:
		if f, ok := x.X.(*ssa.FreeVar); ok && x.Op == token.MUL {
			fv = f
		}
	case *ssa.FreeVar:
		fv = x
	}
	if fv == nil {
		return v
	}
	for i, f := range fn.FreeVars {
		if f == fv && i < len(k.mc.Bindings) {
			b := k.mc.Bindings[i]
			if _, isLoad := v.(*ssa.UnOp); isLoad {
				if a, isA := b.(*ssa.Alloc); isA {
					if st := core.Stores(a); len(st) == 1 {
						b = st[0].Val
					} else {
						return a
					}
				}
			}
			r, _ := core.Up(b, k.stack)
			return r
		}
	}
	return v
}

func c11findClo(p *core.Prog, root *ssa.Function, pred func(*ssa.Function) bool) *c11clo {
	var out *c11clo
	for _, f := range core.DeepFind(p, root, func(ins ssa.Instruction) bool {
		mc, ok := ins.(*ssa.MakeClosure)
		return ok && pred(mc.Fn.(*ssa.Function))
	}) {
		out = newC11clo(p, f.Ins.(*ssa.MakeClosure), f.Stack)
	}
	return out
}

func c11subscribe(c *core.Ctx, ds *ssa.Function, ev *c11evals) {
	p := c.P
	// closures: doSub (calls OnNext) and doOb (evaluates); they may be built by factory helpers
	bodyOf := func(a *ssa.Function) *ssa.Function {
		if tgt, _ := core.ThinTarget(p, a); tgt != nil && !ev.wrappers[tgt] {
			return tgt
		}
		return a
	}
	evaluates := func(a *ssa.Function) bool {
		found := false
		core.Instrs(bodyOf(a), func(ins ssa.Instruction) {
			if ev.is(ins) {
				found = true
			}
		})
		return found
	}
	delivers := func(a *ssa.Function) bool {
		on := false
		core.Instrs(bodyOf(a), func(ins ssa.Instruction) {
			if call, ok := ins.(*ssa.Call); ok && core.FieldKey(call.Call.Value) == "Subscription.OnNext" {
				on = true
			}
		})
		return on && !evaluates(a)
	}
	ob := c11findClo(p, ds, evaluates)
	if ob == nil {
		c.Unknown("R3", "doSubscribe/closures", p.Pos(ds.Pos()), "expected one closure evaluating the effect and one calling OnNext")
		return
	}
	doOb := ob.body
	obParent := ob.mc.Parent()
	sub := c11findClo(p, obParent, delivers)
	if sub == nil {
		// the delivery closure is built inside the observe closure (next to the result it delivers), or inside the helper
		// that closure defers to
		sub = c11findClo(p, ob.body, delivers)
	}
	if sub == nil {
		c.Unknown("R3", "doSubscribe/closures", p.Pos(ds.Pos()), "expected one closure evaluating the effect and one calling OnNext")
		return
	}
	doSub := sub.body
	// routing count: in function `in`, the closure value `isClosure` is either called directly or posted to a handler
	route := func(in *ssa.Function, isClosure func(ssa.Value) bool, start *ssa.BasicBlock, after ssa.Instruction) (int, int, ssa.Value) {
		var chosenBy ssa.Value
		min, max := core.PathCountFrom(start, after, func(ins ssa.Instruction) int {
			switch x := ins.(type) {
			case *ssa.Call:
				if isClosure(x.Call.Value) {
					return 1
				}
				for ai, a := range x.Call.Args {
					if isClosure(a) {
						g := core.Callee(&x.Call)
						if g != nil && core.FuncName(g) == "fpgo.HandlerDef.Post" {
							// the handler must be known non-nil here
							for _, m := range core.EdgeCmps(ins.Block()) {
								if m.Op == token.NEQ && core.IsNilConst(m.Y) && core.Path(m.X) == core.Path(x.Call.Args[0]) {
									chosenBy = x.Call.Args[0]
								}
							}
							return 1
						}
						// a helper that itself does "Post to the handler if non-nil, else call" with its own parameters
						if g != nil && p.InRepo(g) {
							if hi, ok := c11postOrRun(p, g, ai); ok && hi < len(x.Call.Args) {
								chosenBy = x.Call.Args[hi]
								return 1
							}
						}
						return 100
					}
				}
			case *ssa.Go:
				if isClosure(x.Call.Value) {
					return 100
				}
			case *ssa.Select:
				for _, st := range x.States {
					if st.Send != nil && isClosure(st.Send) {
						return 0 // a send that may not happen is not a delivery
					}
				}
			}
			return 0
		}, nil)
		return min, max, chosenBy
	}
	// (a) everything under OnNext != nil, one of {obOn.Post(doOb), doOb()}
	obSite, isI := ob.site().(ssa.Instruction)
	if !isI {
		c.Unknown("R3", "doSubscribe/observe-route", p.Pos(ds.Pos()), "closure creation not found")
		return
	}
	guarded := false
	for _, m := range core.EdgeCmps(obSite.Block()) {
		if m.Op == token.NEQ && core.IsNilConst(m.Y) && core.FieldKey(m.X) == "Subscription.OnNext" {
			guarded = true
		}
	}
	min, max, byV := route(ds, func(v ssa.Value) bool { return core.Resolve(v) == ob.site() }, obSite.Block(), obSite)
	by := ""
	if byV != nil {
		by = core.Path(byV)
	}
	// which handler is which: the field written by ObserveOn (resp. SubscribeOn) and the parameter of the
	// subscribe routine that receives it at the call sites
	obNames, subNames := c11handlerNames(p, ds, "ObserveOn"), c11handlerNames(p, ds, "SubscribeOn")
	// the latest setter call wins for every argument, nil included: the store of the parameter is on every path
	for _, setter := range []string{"ObserveOn", "SubscribeOn"} {
		if m := p.Method(p.Fpgo, "MonadIODef", setter); m != nil && len(m.Params) >= 2 {
			var store *ssa.Store
			core.Instrs(m, func(ins ssa.Instruction) {
				if st, ok := ins.(*ssa.Store); ok && core.Resolve(st.Val) == ssa.Value(m.Params[1]) {
					if _, isFA := st.Addr.(*ssa.FieldAddr); isFA {
						store = st
					}
				}
			})
			if store == nil {
				continue // handler-roles below reports the missing store
			}
			always := true
			for _, b := range m.Blocks {
				if len(b.Instrs) == 0 {
					continue
				}
				if _, isRet := b.Instrs[len(b.Instrs)-1].(*ssa.Return); isRet && !store.Block().Dominates(b) {
					always = false
				}
			}
			c.Check(always, "R3", setter+"/latest-wins", p.InstrPos(store), "the handler argument is stored on every path", setter+" keeps the previous handler for some argument (the store of the parameter is conditional): "+setter+"(h1) followed by "+setter+"(nil) still routes through h1, so the effect / OnNext does not run where the latest call says")
		}
	}
	if len(obNames) == 0 || len(subNames) == 0 {
		c.Unknown("R3", "doSubscribe/handler-roles", p.Pos(ds.Pos()), "cannot tell which handler of the subscribe routine was set by ObserveOn and which by SubscribeOn")
	} else if by != "" && !obNames[by] {
		c.Fail("R3", "doSubscribe/handler-roles", p.InstrPos(obSite), "the evaluation of the effect is routed to handler "+by+", which is not the one set by ObserveOn: the effect runs on the wrong goroutine")
		by = ""
	}
	c.Check(guarded && min == 1 && max == 1 && by != "", "R3", "doSubscribe/observe-route", p.InstrPos(obSite), "under OnNext != nil exactly one of {Post to "+by+", direct call}", fmt.Sprintf("observe routing runs the evaluation %d..%d times per Subscribe (must be 1), guardedByOnNext=%v, handler nil-check=%q", min, max, guarded, by))
	// without OnNext nothing runs: no call outside the guarded region
	stray := ""
	core.Instrs(ds, func(ins ssa.Instruction) {
		if ci, ok := ins.(ssa.CallInstruction); ok {
			if _, isB := ci.Common().Value.(*ssa.Builtin); isB {
				return
			}
			if !(obSite.Block() == ins.Block() || obSite.Block().Dominates(ins.Block())) {
				stray = p.InstrPos(ins)
			}
		}
	})
	c.Check(stray == "", "R3", "doSubscribe/nothing-without-OnNext", p.Pos(ds.Pos()), "every call is dominated by the OnNext != nil edge", "a call at "+stray+" runs even when the Subscription has no OnNext")
	// (b) inside doOb: one evaluation, stored into the shared result, then one of {subOn.Post(doSub), doSub()}
	isDoSub := func(v ssa.Value) bool {
		v = core.Unwrap(v)
		if mc, ok := v.(*ssa.MakeClosure); ok {
			return mc == sub.mc
		}
		if core.Resolve(v) == sub.site() {
			return true
		}
		// the delivery closure as seen from the creator of doOb
		obInParent := &c11clo{mc: ob.mc, body: ob.body, thin: ob.thin}
		return core.Resolve(obInParent.outer(v)) == sub.site()
	}
	emin, emax := core.PathCount(doOb, func(ins ssa.Instruction) int {
		if ev.is(ins) {
			return 1
		}
		return 0
	}, nil)
	smin, smax, sbyV := route(doOb, isDoSub, doOb.Blocks[0], nil)
	sby := ""
	if sbyV != nil {
		sby = core.Path(ob.outer(sbyV)) // the handler expressed in the subscribe routine's frame
	}
	if sby != "" && len(subNames) > 0 && !subNames[sby] {
		c.Fail("R3", "doSubscribe/handler-roles", p.Pos(doOb.Pos()), "OnNext is routed to handler "+sby+", which is not the one set by SubscribeOn: the subscriber is called on the wrong goroutine")
		sby = ""
	} else if len(obNames) > 0 && len(subNames) > 0 && by != "" && sby != "" {
		c.Pass("R3", "doSubscribe/handler-roles", p.Pos(ds.Pos()), "effect → handler set by ObserveOn ("+by+"), OnNext → handler set by SubscribeOn ("+sby+")")
	}
	// the evaluation result is stored to the variable doSub reads: identify the cell in the frame that owns it
	var storedCell ssa.Value
	stored := ""
	obInParent := &c11clo{mc: ob.mc, body: ob.body, thin: ob.thin}
	core.Instrs(doOb, func(ins ssa.Instruction) {
		if st, ok := ins.(*ssa.Store); ok {
			if call, isC := core.Resolve(st.Val).(*ssa.Call); isC && ev.is(call) {
				stored = core.Path(st.Addr)
				storedCell = obInParent.outer(st.Addr)
			}
		}
	})
	c.Check(emin == 1 && emax == 1 && smin == 1 && smax == 1 && sby != "" && stored != "", "R3", "doSubscribe/subscribe-route", p.Pos(doOb.Pos()),
		"one evaluation stored to "+stored+", then exactly one of {Post to "+sby+", direct call} of the OnNext closure",
		fmt.Sprintf("inside the observe closure: evaluations %d..%d (want 1), deliveries %d..%d (want 1), handler nil-check=%q, result stored=%q", emin, emax, smin, smax, sby, stored))
	// (c) doSub: OnNext once with the stored value
	omin, omax := core.PathCount(doSub, func(ins ssa.Instruction) int {
		if call, ok := ins.(*ssa.Call); ok && core.FieldKey(call.Call.Value) == "Subscription.OnNext" {
			return 1
		}
		return 0
	}, nil)
	argOK := false
	core.Instrs(doSub, func(ins ssa.Instruction) {
		if call, ok := ins.(*ssa.Call); ok && core.FieldKey(call.Call.Value) == "Subscription.OnNext" && len(call.Call.Args) == 1 {
			// the argument is a read of the cell the evaluation was stored into
			arg := call.Call.Args[0]
			if prm, isP := arg.(*ssa.Parameter); isP && sub.thin != nil {
				for i, q := range sub.body.Params {
					if q == prm && i < len(sub.thin.Call.Args) {
						arg = sub.thin.Call.Args[i]
					}
				}
			}
			if ld, isLd := arg.(*ssa.UnOp); isLd && ld.Op == token.MUL && storedCell != nil {
				if sub.outer(ld.X) == storedCell {
					argOK = true
				}
			}
		}
	})
	c.Check(omin == 1 && omax == 1 && argOK, "R3", "doSubscribe/onnext", p.Pos(doSub.Pos()), "OnNext called exactly once with the evaluated value", fmt.Sprintf("OnNext is called %d..%d times or not with the evaluated value (argOK=%v)", omin, omax, argOK))
}

// c11postOrRun: g invokes its function parameter fi exactly once on every path - by Post on its handler
// parameter (returned index) where that is known non-nil, by a direct call otherwise.
func c11postOrRun(p *core.Prog, g *ssa.Function, fi int) (int, bool) {
	if fi >= len(g.Params) {
		return 0, false
	}
	fn := g.Params[fi]
	hidx := -1
	min, max := core.PathCount(g, func(ins ssa.Instruction) int {
		call, ok := ins.(*ssa.Call)
		if !ok {
			if gi, isGo := ins.(*ssa.Go); isGo && (gi.Call.Value == ssa.Value(fn)) {
				return 100
			}
			return 0
		}
		if call.Call.Value == ssa.Value(fn) {
			return 1
		}
		for _, a := range call.Call.Args {
			if a == ssa.Value(fn) {
				if h := core.Callee(&call.Call); h != nil && core.FuncName(h) == "fpgo.HandlerDef.Post" {
					for i, prm := range g.Params {
						if call.Call.Args[0] == ssa.Value(prm) {
							for _, m := range core.EdgeCmps(ins.Block()) {
								if m.Op == token.NEQ && core.IsNilConst(m.Y) && m.X == ssa.Value(prm) {
									hidx = i
								}
							}
						}
					}
					return 1
				}
				return 100
			}
		}
		return 0
	}, nil)
	return hidx, min == 1 && max == 1 && hidx >= 0
}

// c11handlerNames returns the access paths under which the handler installed by the exported setter
// (ObserveOn / SubscribeOn) is visible inside the subscribe routine ds: the receiver field itself and
// every parameter of ds that is bound to a read of that field at all call sites.
func c11handlerNames(p *core.Prog, ds *ssa.Function, setter string) map[string]bool {
	out := map[string]bool{}
	m := p.Method(p.Fpgo, "MonadIODef", setter)
	if m == nil || len(m.Params) < 2 {
		return out
	}
	field := ""
	core.Instrs(m, func(ins ssa.Instruction) {
		if st, ok := ins.(*ssa.Store); ok && core.Resolve(st.Val) == ssa.Value(m.Params[1]) {
			if fa, isFA := st.Addr.(*ssa.FieldAddr); isFA {
				field = core.FieldName(fa.X.Type(), fa.Field)
			}
		}
	})
	if field == "" {
		return out
	}
	out[ds.Params[0].Name()+"."+field] = true
	sites, complete := core.CallSites(p, ds)
	if !complete || len(sites) == 0 {
		return out
	}
	for i, prm := range ds.Params {
		if i == 0 {
			continue
		}
		all := true
		for _, s := range sites {
			call, ok := s.Instr.(*ssa.Call)
			if !ok || i >= len(call.Call.Args) {
				all = false
				break
			}
			argv := core.Resolve(call.Call.Args[i])
			// a nil-preserving conversion helper (`posterOf(h)`: h as an interface, nil stays nil) passes its argument on
			if hc, isHC := argv.(*ssa.Call); isHC && len(hc.Call.Args) == 1 {
				if h := core.Callee(&hc.Call); h != nil && p.InRepo(h) && len(h.Blocks) > 0 && len(h.Params) == 1 {
					pass := true
					for _, rc := range core.ReturnCases(h) {
						rv := core.Unwrap(core.Resolve(rc.Vals[0]))
						if rv != ssa.Value(h.Params[0]) && !core.IsNilConst(rv) {
							pass = false
						}
					}
					if pass {
						argv = core.Resolve(hc.Call.Args[0])
					}
				}
			}
			fa, isLoad := argv.(*ssa.UnOp)
			if !isLoad {
				all = false
				break
			}
			f2, isFA := fa.X.(*ssa.FieldAddr)
			if !isFA || core.FieldName(f2.X.Type(), f2.Field) != field {
				all = false
				break
			}
		}
		if all {
			out[prm.Name()] = true
		}
		// the handlers bundled into a value struct parameter: field k of the bundle gets the setter's field at every call
		if st, isSt := prm.Type().Underlying().(*types.Struct); isSt {
			for k := 0; k < st.NumFields(); k++ {
				allK := true
				for _, s := range sites {
					call, ok := s.Instr.(*ssa.Call)
					if !ok || i >= len(call.Call.Args) {
						allK = false
						break
					}
					lit := c16lit(call.Call.Args[i])
					if lit == nil || lit[k] == nil {
						allK = false
						break
					}
					ld, isLoad := core.Resolve(lit[k]).(*ssa.UnOp)
					if !isLoad {
						allK = false
						break
					}
					f2, isFA := ld.X.(*ssa.FieldAddr)
					if !isFA || core.FieldName(f2.X.Type(), f2.Field) != field {
						allK = false
						break
					}
				}
				if allK {
					out[prm.Name()+"."+st.Field(k).Name()] = true
				}
			}
		}
	}
	return out
}


// c11evals recognises evaluations of a MonadIO: a call of its effect field, or of a wrapper function that does exactly
// that for its receiver.
type c11evals struct {
	wrappers map[*ssa.Function]bool
}

func (e *c11evals) is(ins ssa.Instruction) bool {
	call, ok := ins.(*ssa.Call)
	if !ok {
		return false
	}
	if callsEffectField(call) {
		return true
	}
	g := core.Callee(&call.Call)
	return g != nil && e.wrappers[g]
}

// subject: the MonadIO an evaluation evaluates.
func (e *c11evals) subject(call *ssa.Call) ssa.Value {
	if callsEffectField(call) {
		v := core.Unwrap(call.Call.Value)
		if ld, ok := v.(*ssa.UnOp); ok {
			if fa, isFA := ld.X.(*ssa.FieldAddr); isFA {
				return core.FieldOwner(fa)
			}
		}
		return nil
	}
	if len(call.Call.Args) > 0 {
		return call.Call.Args[0]
	}
	return nil
}


// c11effectClosure: the closure of builder f that becomes the effect of the MonadIO it builds - stored into the effect
// field of a fresh MonadIODef, or handed to a MonadIO constructor. nil if there is none or it is not unique.
func c11effectClosure(p *core.Prog, f *ssa.Function, isCtor func(*ssa.CallCommon) bool) *ssa.Function {
	var out *ssa.Function
	n := 0
	core.Instrs(f, func(ins ssa.Instruction) {
		st, ok := ins.(*ssa.Store)
		if !ok || core.FieldKey(st.Addr) != c11effect {
			return
		}
		if fv := core.ResolveFuncValue(p, core.Unwrap(st.Val)); fv != nil && fv.Fn.Parent() == f {
			if out != fv.Fn {
				n++
			}
			out = fv.Fn
		}
	})
	if n == 1 {
		return out
	}
	if n == 0 {
		return core.ClosureArgOf(p, f, isCtor)
	}
	return nil
}
