package rules

import (
	"fmt"
	"go/token"
	"go/types"
	"strings"

	"fpcheck/internal/core"

	"golang.org/x/tools/go/ssa"
)

func init() {
	register(&Prop{
		ID: "C01",
		Explanation: "Maybe's single notion of absence decided structurally: (R1) the absence flags are written only when a Maybe is constructed, as (isNil: IsNil(v), isPresent: !IsNil(v)) of the same v, or as the constant absent value None; Maybe.Just returns None exactly on IsNil(in) and otherwise JustGenerics(in); (R2) IsNil(obj) is val.IsNil() for pointers and !val.IsValid() otherwise (absent = untyped nil or nil pointer, nothing else); " +
			"(R3) every observer reads the wrapped value and calls the callback only on the present edge of a flag test and returns the prescribed absent result on the other (fallback / \"<nil>\" / (zero, ErrConversionNil) / nil / TypeOf(nil) / no call / itself); IsPresent and IsNil return the two flags; (R4) every method None overrides returns the same result as the absent edge of the generic implementation; " +
			"(R5) FlatMap calls f exactly once on the wrapped value and returns its result unchanged (the monad laws then follow by unfolding); ToMaybe unwraps at most one level (no recursion, no loop); (R6) totality - every unchecked type assertion is dominated by a successful comma-ok assertion of the same value to the same type (type-switch clause) or is the reflect round trip of a value of that type, and every reflect call with a precondition is discharged by a dominating guard from an explicit table; an unlisted reflect call is undecided.",
		Trusted: append([]string{"package reflect's documented preconditions (Elem, IsNil, Interface, Set)"}, commonTrusted...),
		Run:     runC01,
	})
}

// c01flag classifies a condition as a test of the absence flags of receiver copy `self` (alloc holding the value receiver).
// Returns (absentWhenTrue, ok).
func c01flag(v ssa.Value, f *ssa.Function) (bool, bool) {
	v = core.Unwrap(v)
	isSelf := func(x ssa.Value) bool {
		x = core.Unwrap(x)
		if x == ssa.Value(f.Params[0]) {
			return true
		}
		if u, ok := x.(*ssa.UnOp); ok && u.Op == token.MUL {
			if a, ok := u.X.(*ssa.Alloc); ok {
				for _, st := range core.Stores(a) {
					if st.Val == ssa.Value(f.Params[0]) {
						return true
					}
				}
			}
		}
		return false
	}
	switch x := v.(type) {
	case *ssa.Call:
		g := core.Callee(&x.Call)
		if g != nil && len(x.Call.Args) == 1 && isSelf(x.Call.Args[0]) {
			switch core.FuncName(g) {
			case "fpgo.someDef.IsNil":
				return true, true
			case "fpgo.someDef.IsPresent":
				return false, true
			}
		}
	case *ssa.UnOp:
		if x.Op == token.MUL {
			switch core.FieldKey(x.X) {
			case "someDef.isNil":
				return true, true
			case "someDef.isPresent":
				return false, true
			}
		}
	}
	return false, false
}

// presentAt: block b is dominated by the present edge of a flag test; absentAt: by the absent edge.
func c01edge(b *ssa.BasicBlock, f *ssa.Function) (present, absent bool) {
	return c01edgeOf(core.EdgeFacts(b), f)
}

// c01edgeOf classifies a set of facts: do they include the present / the absent outcome of a flag test?
func c01edgeOf(facts []core.Cond, f *ssa.Function) (present, absent bool) {
	for _, cnd := range facts {
		n := core.Normalize(cnd)
		if absentWhenTrue, ok := c01flag(n.V, f); ok {
			if absentWhenTrue == n.True {
				absent = true
			} else {
				present = true
			}
		}
	}
	return
}

// describe renders a returned value position-free.
func c01describe(v ssa.Value, f *ssa.Function) string {
	v = core.Resolve(v)
	switch x := v.(type) {
	case *ssa.Const:
		if x.Value == nil {
			return "nil"
		}
		return x.Value.ExactString()
	case *ssa.Parameter:
		for i, prm := range f.Params {
			if prm == x {
				if i == 0 {
					return "recv"
				}
				return fmt.Sprintf("param#%d", i)
			}
		}
	case *ssa.UnOp:
		if g := core.GlobalName(x); g != "" {
			return "global:" + g
		}
		if x.Op == token.MUL {
			if _, isAlloc := x.X.(*ssa.Alloc); isAlloc {
				return "zero" // load of a never-assigned local / *new(T)
			}
		}
	case *ssa.Call:
		if core.StdCallee(&x.Call) == "reflect.TypeOf" && core.IsNilConst(x.Call.Args[0]) {
			return "reflect.TypeOf(nil)"
		}
	case *ssa.MakeInterface:
		return c01describe(x.X, f)
	}
	return "?" + core.Path(v)
}

func isTrueConstV(v ssa.Value) bool {
	k, ok := v.(*ssa.Const)
	return ok && isTrueConst(k)
}

// c01zeroInit: addr is a field (possibly of an embedded struct) of an object that is all-zero before the stores of f run:
// a local the function allocates, or a package-level variable written by the package initialiser.
func c01zeroInit(f *ssa.Function, addr ssa.Value) bool {
	for {
		fa, ok := addr.(*ssa.FieldAddr)
		if !ok {
			break
		}
		addr = fa.X
	}
	switch addr.(type) {
	case *ssa.Alloc:
		return true
	case *ssa.Global:
		return f.Name() == "init" && f.Parent() == nil
	}
	return false
}

// c01flagConstructor: f is an unexported function writing (ref: pV, isNil: pX, isPresent: !pX) from two of its parameters,
// and every call site passes (v, IsNil(v)) or (nil, true). Returns the number of call sites.
func c01flagConstructor(p *core.Prog, f *ssa.Function, isNilSt, isPresSt *ssa.Store) (int, bool, string) {
	if f.Parent() != nil || f.Object() == nil || f.Object().Exported() {
		return 0, false, ""
	}
	pX, isP := core.Resolve(isNilSt.Val).(*ssa.Parameter)
	if !isP {
		return 0, false, ""
	}
	not, isNot := core.Resolve(isPresSt.Val).(*ssa.UnOp)
	if !isNot || not.Op != token.NOT || core.Resolve(not.X) != ssa.Value(pX) {
		return 0, false, "isPresent is not the negation of the flag parameter stored as isNil"
	}
	base := isNilSt.Addr.(*ssa.FieldAddr).X
	var pV *ssa.Parameter
	core.Instrs(f, func(ins ssa.Instruction) {
		if st, isS := ins.(*ssa.Store); isS && core.FieldKey(st.Addr) == "someDef.ref" && st.Addr.(*ssa.FieldAddr).X == base {
			if prm, isPrm := core.Unwrap(core.Resolve(st.Val)).(*ssa.Parameter); isPrm {
				pV = prm
			}
		}
	})
	if pV == nil {
		return 0, false, "the wrapped value is not the constructor's parameter"
	}
	iX, iV := -1, -1
	for i, prm := range f.Params {
		if prm == pX {
			iX = i
		}
		if prm == pV {
			iV = i
		}
	}
	sites, complete := core.CallSites(p, f)
	if !complete || len(sites) == 0 || iX < 0 || iV < 0 {
		return 0, false, ""
	}
	for _, s := range sites {
		ci, isCI := s.Instr.(ssa.CallInstruction)
		if !isCI || s.Kind != "call" || len(ci.Common().Args) <= iX || len(ci.Common().Args) <= iV {
			return 0, false, "the flag constructor is not only called directly"
		}
		ax, av := core.Resolve(ci.Common().Args[iX]), core.Unwrap(core.Resolve(ci.Common().Args[iV]))
		if call, isC := ax.(*ssa.Call); isC {
			if g := core.Callee(&call.Call); g != nil && core.FuncName(g) == "fpgo.IsNil" && core.Unwrap(core.Resolve(call.Call.Args[0])) == av {
				continue
			}
		}
		if isTrueConst(ax) && core.IsNilConst(av) {
			continue
		}
		return 0, false, "a call of " + f.Name() + " at " + p.InstrPos(s.Instr) + " does not pass (v, IsNil(v)) or the absent constant (nil, true)"
	}
	return len(sites), true, "private constructor (ref: v, isNil: flag, isPresent: !flag); every call site passes (v, IsNil(v)) or (nil, true)"
}

func runC01(c *core.Ctx) {
	p := c.P
	c.Rule("R1", "absence flags are only written at construction, consistently: (IsNil(v), !IsNil(v)) of the wrapped v, or the constant absent value; Maybe.Just returns None exactly on IsNil(in)", 2)
	c.Rule("R2", "IsNil(obj) = val.IsNil() when Kind is Ptr, else !val.IsValid()", 1)
	c.Rule("R3", "observers touch the wrapped value / call the callback only on the present edge and return the prescribed absent result on the absent edge", 20)
	c.Rule("R4", "None's overrides equal the absent-edge results of the generic implementation", 15)
	c.Rule("R5", "FlatMap = f(wrapped value), once, result unchanged; ToMaybe unwraps at most one level", 2)
	c.Rule("R6", "totality: unchecked assertions dominated by the matching comma-ok success (or reflect round trip); reflect calls with preconditions discharged by table guards", 10)
	some := p.Methods(p.Fpgo, "someDef")
	byName := map[string]*ssa.Function{}
	for _, m := range some {
		byName[m.Name()] = m
	}
	// ---------------- R1
	nFlagStores := 0
	for _, f := range p.Funcs {
		var isNilSt, isPresSt *ssa.Store
		core.Instrs(f, func(ins ssa.Instruction) {
			st, ok := ins.(*ssa.Store)
			if !ok {
				return
			}
			switch core.FieldKey(st.Addr) {
			case "someDef.isNil":
				isNilSt = st
			case "someDef.isPresent":
				isPresSt = st
			}
		})
		if isNilSt == nil && isPresSt == nil {
			continue
		}
		nFlagStores++
		c.Analysed(core.FuncName(f))
		key := core.FuncName(f) + "/flags"
		if isNilSt != nil && isPresSt == nil && isTrueConstV(isNilSt.Val) && c01zeroInit(f, isNilSt.Addr) {
			// the absent constant with `isPresent: false` left to the zero value of a freshly created object
			c.Pass("R1", key, p.InstrPos(isNilSt), "constant absent value (isNil: true, isPresent left at its zero value false)")
			continue
		}
		if isNilSt == nil || isPresSt == nil {
			c.Fail("R1", key, p.Pos(f.Pos()), "only one of the two absence flags is written: IsPresent and IsNil can disagree")
			continue
		}
		// constant absent value
		if k1, ok1 := isNilSt.Val.(*ssa.Const); ok1 {
			k2, ok2 := isPresSt.Val.(*ssa.Const)
			// the constant form is only allowed for the absent singleton (no wrapped value stored)
			okC := ok2 && isTrueConst(k1) && !isTrueConst(k2)
			c.Check(okC, "R1", key, p.InstrPos(isNilSt), "constant absent value (isNil: true, isPresent: false)", "a constant Maybe is not the absent value (isNil: true, isPresent: false): None would report present or both flags equal")
			continue
		}
		// computed form: isNil = IsNil(v); isPresent = !isNil; ref = v
		okF, detail := false, "flags are not (IsNil(v), !IsNil(v)) of the wrapped value"
		if call, ok := core.Resolve(isNilSt.Val).(*ssa.Call); ok {
			if g := core.Callee(&call.Call); g != nil && core.FuncName(g) == "fpgo.IsNil" {
				not, isNot := core.Resolve(isPresSt.Val).(*ssa.UnOp)
				if isNot && not.Op == token.NOT && core.Resolve(not.X) == ssa.Value(call) {
					// same v stored into ref of the same struct
					wrapped := core.Unwrap(call.Call.Args[0])
					sameV := false
					base := isNilSt.Addr.(*ssa.FieldAddr).X
					core.Instrs(f, func(ins ssa.Instruction) {
						if st, isS := ins.(*ssa.Store); isS && core.FieldKey(st.Addr) == "someDef.ref" && st.Addr.(*ssa.FieldAddr).X == base && core.Unwrap(st.Val) == wrapped {
							sameV = true
						}
					})
					if sameV {
						okF, detail = true, "isNil = IsNil(v), isPresent = !isNil, ref = the same v"
					} else {
						detail = "the flags are computed from a different value than the one wrapped"
					}
				}
			}
		}
		if !okF {
			// a private constructor that is handed the absence flag: (ref: v, isNil: flag, isPresent: !flag); every call
			// site passes IsNil(v) for the v it passes, or the absent constant (nil, true)
			if n, ok2, d2 := c01flagConstructor(p, f, isNilSt, isPresSt); ok2 {
				okF, detail = true, d2
				nFlagStores += n - 1
			} else if d2 != "" {
				detail = d2
			}
		}
		c.Check(okF, "R1", key, p.InstrPos(isNilSt), detail, detail)
	}
	if nFlagStores < 2 {
		c.Unknown("R1", "flag-writers", "-", fmt.Sprintf("expected the constructor and the None initialiser to write the flags, found %d writers", nFlagStores))
	}
	if just := byName["Just"]; just == nil {
		c.Unknown("R1", "someDef.Just", "-", "method not found")
	} else {
		c.Analysed(core.FuncName(just))
		okJ := true
		n := 0
		core.Instrs(just, func(ins ssa.Instruction) {
			r, isR := ins.(*ssa.Return)
			if !isR {
				return
			}
			n++
			isNilEdge, known := false, false
			for _, cnd := range core.EdgeFacts(r.Block()) {
				nrm := core.Normalize(cnd)
				if call, isC := nrm.V.(*ssa.Call); isC {
					if g := core.Callee(&call.Call); g != nil && core.FuncName(g) == "fpgo.IsNil" && core.Unwrap(call.Call.Args[0]) == ssa.Value(just.Params[1]) {
						isNilEdge, known = nrm.True, true
					}
				}
			}
			v := core.Resolve(core.RetVals(r)[0])
			if !known {
				okJ = false
				return
			}
			if isNilEdge {
				if core.GlobalName(v) != "None" {
					okJ = false
				}
			} else {
				call, isC := v.(*ssa.Call)
				if !isC || core.Callee(&call.Call) == nil || core.Callee(&call.Call).Name() != "JustGenerics" || core.Unwrap(call.Call.Args[0]) != ssa.Value(just.Params[1]) {
					okJ = false
				}
			}
		})
		c.Check(okJ && n == 2, "R1", "someDef.Just", p.Pos(just.Pos()), "None exactly on IsNil(in), otherwise JustGenerics(in)", "Maybe.Just does not return None exactly when IsNil(in) and JustGenerics(in) otherwise")
	}
	// ---------------- R2
	if f := p.Func(p.Fpgo, "IsNil"); f == nil {
		c.Unknown("R2", "IsNil", "-", "function not found")
	} else {
		c.Analysed(core.FuncName(f))
		ok, detail := func() (bool, string) {
			// Decided over the three classes of reflect kinds the definition distinguishes: Ptr, Invalid (the zero
			// Value: exactly the values for which IsValid() is false) and every other kind. Each return case is
			// placed in the classes its path conditions leave possible and must give: Ptr → ValueOf(obj).IsNil(),
			// Invalid → true, other → false (`!val.IsValid()` is true exactly on Invalid).
			const (
				kPtr = iota
				kInvalid
				kOther
			)
			valueOfObj := func(x ssa.Value) bool {
				call, isC := core.Resolve(x).(*ssa.Call)
				return isC && core.StdCallee(&call.Call) == "reflect.ValueOf" && core.Unwrap(call.Call.Args[0]) == ssa.Value(f.Params[0])
			}
			kindOfObj := func(x ssa.Value) bool {
				call, isC := core.Resolve(x).(*ssa.Call)
				if !isC || len(call.Call.Args) != 1 {
					return false
				}
				if g := core.Callee(&call.Call); g != nil && core.FuncName(g) == "fpgo.Kind" && core.Unwrap(call.Call.Args[0]) == ssa.Value(f.Params[0]) {
					return true
				}
				return core.StdCallee(&call.Call) == "reflect.(Value).Kind" && valueOfObj(call.Call.Args[0])
			}
			covered := [3]bool{}
			for _, rcase := range core.ReturnCases(f) {
				possible := [3]bool{true, true, true}
				keep := func(only ...int) {
					var nw [3]bool
					for _, k := range only {
						nw[k] = possible[k]
					}
					possible = nw
				}
				for _, cnd := range rcase.Facts {
					if ip, subj, kn := c01kindIsPtrFact(p, cnd, 0); kn && (subj == nil || core.Resolve(subj) == ssa.Value(f.Params[0])) {
						if ip {
							keep(kPtr)
						} else {
							possible[kPtr] = false
						}
					}
					n := core.Normalize(cnd)
					if call, isC := n.V.(*ssa.Call); isC && core.StdCallee(&call.Call) == "reflect.(Value).IsValid" && valueOfObj(call.Call.Args[0]) {
						if n.True {
							possible[kInvalid] = false
						} else {
							keep(kInvalid)
						}
					}
				}
				for _, m := range rcase.Cmps() {
					k, isK := m.Y.(*ssa.Const)
					if !isK || !kindOfObj(m.X) || (m.Op != token.EQL && m.Op != token.NEQ) || k.Value == nil {
						continue
					}
					class := kOther
					switch k.Int64() {
					case 22:
						class = kPtr
					case 0:
						class = kInvalid
					}
					if m.Op == token.EQL {
						keep(class)
					} else if class != kOther {
						possible[class] = false
					}
				}
				v := core.Resolve(rcase.Vals[0])
				for class, poss := range possible {
					if !poss {
						continue
					}
					covered[class] = true
					// the value of the result in this class
					got := "?"
					switch x := v.(type) {
					case *ssa.Const:
						if isTrueConst(x) {
							got = "true"
						} else {
							got = "false"
						}
					case *ssa.Call:
						if core.StdCallee(&x.Call) == "reflect.(Value).IsNil" && valueOfObj(x.Call.Args[0]) {
							got = "isnil"
						}
					case *ssa.UnOp:
						if x.Op == token.NOT {
							if call, isC := core.Resolve(x.X).(*ssa.Call); isC && core.StdCallee(&call.Call) == "reflect.(Value).IsValid" && valueOfObj(call.Call.Args[0]) {
								if class == kInvalid {
									got = "true"
								} else {
									got = "false"
								}
							}
						}
					}
					want := map[int]string{kPtr: "isnil", kInvalid: "true", kOther: "false"}[class]
					if got != want {
						name := map[int]string{kPtr: "pointers", kInvalid: "the untyped nil (invalid reflect.Value)", kOther: "non-pointer kinds (nil slices/maps/chans/funcs included)"}[class]
						return false, fmt.Sprintf("for %s IsNil yields %s, expected %s (Ptr → ValueOf(obj).IsNil(); otherwise !ValueOf(obj).IsValid())", name, got, want)
					}
				}
			}
			if !(covered[kPtr] && covered[kInvalid] && covered[kOther]) {
				return false, "IsNil does not return on every kind class"
			}
			return true, "Ptr → val.IsNil(); otherwise !val.IsValid()"
		}()
		c.Check(ok, "R2", "IsNil", p.Pos(f.Pos()), detail, detail)
	}
	// ---------------- R3
	absentResult := map[string][]string{} // method → described absent tuple
	want := func(name string, m *ssa.Function) []string {
		switch {
		case name == "Or":
			return []string{"param#1"}
		case name == "ToString":
			return []string{`"<nil>"`}
		case name == "UnwrapInterface":
			return []string{"nil"}
		case name == "Type":
			return []string{"reflect.TypeOf(nil)"}
		case name == "ToMaybe":
			return []string{"recv"}
		case name == "Let":
			return []string{}
		case strings.HasPrefix(name, "To") && m.Signature.Results().Len() == 2:
			z := "0"
			if b, ok := m.Signature.Results().At(0).Type().Underlying().(*types.Basic); ok && b.Kind() == types.Bool {
				z = "false"
			}
			return []string{z, "global:ErrConversionNil"}
		}
		return nil
	}
	for _, m := range some {
		name := m.Name()
		w := want(name, m)
		if w == nil {
			continue
		}
		if len(m.Blocks) == 1 && strings.HasPrefix(name, "To") {
			// whole-method delegation (ToUint8 → ToByte): returns another conversion's tuple unchanged
			deleg := false
			if r, ok := m.Blocks[0].Instrs[len(m.Blocks[0].Instrs)-1].(*ssa.Return); ok && len(r.Results) == 2 {
				if e0, ok0 := r.Results[0].(*ssa.Extract); ok0 {
					if call, isC := e0.Tuple.(*ssa.Call); isC {
						if g := core.Callee(&call.Call); g != nil && strings.HasPrefix(core.FuncName(g), "fpgo.someDef.To") {
							deleg = true
						}
					}
				}
			}
			if deleg {
				continue
			}
		}
		c.Analysed(core.FuncName(m))
		key := "someDef." + name
		bad := ""
		// every use of the wrapped value (beyond copying/boxing it) and every dynamic call is on the present edge
		for _, ins := range c01refConsumers(m) {
			if pres, _ := c01edge(ins.Block(), m); !pres {
				bad = "the wrapped value is used / the callback called at " + p.InstrPos(ins) + " without being on the present edge of the absence test"
			}
		}
		// absent edge result
		var got []string
		nAbsent := 0
		for _, rc := range core.ReturnCases(m) {
			if _, abs := c01edgeOf(rc.Facts, m); abs {
				nAbsent++
				got = []string{}
				for _, v := range rc.Vals {
					got = append(got, c01describe(v, m))
				}
			}
		}
		if name == "Let" {
			// absent edge: no call at all (single return shared by both edges is fine as long as the call is on the present edge)
			if bad == "" {
				c.Pass("R3", key, p.Pos(m.Pos()), "callback only on the present edge")
			} else {
				c.Fail("R3", key, p.Pos(m.Pos()), bad)
			}
			min, max := core.PathCount(m, func(ins ssa.Instruction) int {
				if call, ok := ins.(*ssa.Call); ok && call.Call.Value == ssa.Value(m.Params[1]) {
					return 1
				}
				return 0
			}, func(b *ssa.BasicBlock) bool { _, abs := c01edge(b, m); return abs })
			_ = min
			if max > 1 {
				c.Fail("R3", key+"/once", p.Pos(m.Pos()), "Let may call its callback more than once")
			}
			continue
		}
		if bad == "" && nAbsent != 1 {
			bad = fmt.Sprintf("expected exactly one return on the absent edge, found %d", nAbsent)
		}
		if bad == "" && strings.Join(got, ",") != strings.Join(w, ",") {
			bad = fmt.Sprintf("the absent edge returns (%s), prescribed (%s)", strings.Join(got, ", "), strings.Join(w, ", "))
		}
		absentResult[name] = got
		c.Check(bad == "", "R3", key, p.Pos(m.Pos()), "present-guarded; absent edge returns ("+strings.Join(w, ", ")+")", bad)
	}
	// Or / UnwrapInterface present branch returns ref itself
	for _, name := range []string{"Or", "UnwrapInterface"} {
		m := byName[name]
		if m == nil {
			continue
		}
		ok := false
		for _, rc := range core.ReturnCases(m) {
			if pres, _ := c01edgeOf(rc.Facts, m); pres && core.FieldKey(core.Unwrap(core.Resolve(rc.Vals[0]))) == "someDef.ref" {
				ok = true
			}
		}
		c.Check(ok, "R3", "someDef."+name+"/present", p.Pos(m.Pos()), "present edge returns the wrapped value itself", name+" does not return the wrapped value itself when present")
	}
	for name, field := range map[string]string{"IsPresent": "someDef.isPresent", "IsNil": "someDef.isNil"} {
		m := byName[name]
		if m == nil {
			c.Unknown("R3", "someDef."+name, "-", "method not found")
			continue
		}
		ok := true
		core.Instrs(m, func(ins ssa.Instruction) {
			if r, isR := ins.(*ssa.Return); isR && core.FieldKey(core.RetVals(r)[0]) != field {
				ok = false
			}
		})
		c.Check(ok, "R3", "someDef."+name, p.Pos(m.Pos()), "returns the flag decided at construction", name+" does not return the "+field+" flag")
	}
	// ---------------- R4
	for _, nm := range p.Methods(p.Fpgo, "noneDef") {
		name := nm.Name()
		c.Analysed(core.FuncName(nm))
		key := "noneDef." + name
		var got []string
		nRet, calls := 0, 0
		core.Instrs(nm, func(ins ssa.Instruction) {
			if r, isR := ins.(*ssa.Return); isR {
				nRet++
				got = []string{}
				for _, v := range core.RetVals(r) {
					got = append(got, c01describe(v, nm))
				}
			}
			if call, isC := ins.(*ssa.Call); isC && core.Callee(&call.Call) == nil {
				if _, isB := call.Call.Value.(*ssa.Builtin); !isB {
					calls++
				}
			}
		})
		var w []string
		if a, ok := absentResult[name]; ok {
			w = a
		} else if name == "Let" {
			w = []string{}
		} else {
			fixed := map[string][]string{"IsPresent": {"false"}, "IsNil": {"true"}, "IsPtr": {"false"}, "Unwrap": {"nil"}, "Clone": {"global:None"}, "CloneTo": {"global:None"}, "ToPtr": {"nil"}, "Kind": {"0"}}
			w = fixed[name]
		}
		if w == nil {
			c.Unknown("R4", key, p.Pos(nm.Pos()), "no reference result for this override")
			continue
		}
		okN := nRet == 1 && calls == 0 && strings.Join(got, ",") == strings.Join(w, ",")
		c.Check(okN, "R4", key, p.Pos(nm.Pos()), "returns ("+strings.Join(w, ", ")+") like the absent edge", fmt.Sprintf("None.%s returns (%s) but an absent Maybe returns (%s): the two representations of absence disagree", name, strings.Join(got, ", "), strings.Join(w, ", ")))
	}
	// ---------------- R5
	if fm := byName["FlatMap"]; fm == nil {
		c.Unknown("R5", "someDef.FlatMap", "-", "method not found")
	} else {
		c.Analysed(core.FuncName(fm))
		min, max := core.PathCount(fm, func(ins ssa.Instruction) int {
			if call, ok := ins.(*ssa.Call); ok && call.Call.Value == ssa.Value(fm.Params[1]) {
				return 1
			}
			return 0
		}, nil)
		shape := false
		core.Instrs(fm, func(ins ssa.Instruction) {
			if r, isR := ins.(*ssa.Return); isR {
				if call, isC := core.RetVals(r)[0].(*ssa.Call); isC && call.Call.Value == ssa.Value(fm.Params[1]) && len(call.Call.Args) == 1 && core.FieldKey(call.Call.Args[0]) == "someDef.ref" {
					shape = true
				}
			}
		})
		c.Check(min == 1 && max == 1 && shape, "R5", "someDef.FlatMap", p.Pos(fm.Pos()), "returns fn(ref), fn called exactly once", fmt.Sprintf("FlatMap is not exactly fn(wrapped value) (calls fn %d..%d times, shape ok=%v): left identity Just(x).FlatMap(f) = f(x) fails", min, max, shape))
	}
	if tm := byName["ToMaybe"]; tm == nil {
		c.Unknown("R5", "someDef.ToMaybe", "-", "method not found")
	} else {
		c.Analysed(core.FuncName(tm))
		bad := ""
		core.Instrs(tm, func(ins ssa.Instruction) {
			if core.InLoop(ins.Block()) {
				bad = "contains a loop"
			}
			if call, ok := ins.(*ssa.Call); ok {
				if call.Call.IsInvoke() && call.Call.Method.Name() == "ToMaybe" {
					bad = "calls ToMaybe on the inner value"
				}
				if g := core.Callee(&call.Call); g != nil && g.Name() == "ToMaybe" {
					bad = "calls ToMaybe on the inner value"
				}
			}
		})
		// returns: receiver, or an assertion of ref
		core.Instrs(tm, func(ins ssa.Instruction) {
			if r, isR := ins.(*ssa.Return); isR && r.Block() != tm.Recover {
				v := core.Resolve(core.RetVals(r)[0])
				if x := core.AssertOf(core.Unwrap(v)); x != nil {
					if core.FieldKey(core.Resolve(x.X)) != "someDef.ref" {
						bad = "returns an assertion of something other than the wrapped value"
					}
				} else if c01describe(v, tm) != "recv" {
					bad = "returns neither the receiver nor the wrapped Maybe"
				}
			}
		})
		c.Check(bad == "", "R5", "someDef.ToMaybe", p.Pos(tm.Pos()), "returns the receiver or the wrapped Maybe, without iterating", "ToMaybe "+bad+": nesting deeper than one level is collapsed")
	}
	// ---------------- R6
	subjects := append([]*ssa.Function{}, some...)
	for _, n := range []string{"CloneTo", "IsNil", "IsPtr", "Kind"} {
		if f := p.Func(p.Fpgo, n); f != nil {
			subjects = append(subjects, f)
		}
	}
	subjects = append(subjects, core.HelpersOf(p, subjects)...)
	for _, f := range subjects {
		c.Analysed(core.FuncName(f))
		core.Instrs(f, func(ins ssa.Instruction) {
			switch x := ins.(type) {
			case *ssa.TypeAssert:
				if x.CommaOk {
					return
				}
				key := fmt.Sprintf("%s/assert:%s", core.FuncName(f), c02typeName(x.AssertedType))
				ok := false
				for _, cnd := range core.EdgeFacts(x.Block()) {
					n := core.Normalize(cnd)
					if ex, isE := n.V.(*ssa.Extract); isE && ex.Index == 1 && n.True {
						if ta, isTA := ex.Tuple.(*ssa.TypeAssert); isTA && ta.CommaOk && core.Resolve(ta.X) == core.Resolve(x.X) && types.Identical(ta.AssertedType, x.AssertedType) {
							ok = true
						}
					}
				}
				// reflect round trip: reflect.ValueOf(v:T).Interface().(T)
			if !ok {
				// isValueOf: v is reflect.ValueOf(<value of static type want>), directly or as the argument
				// bound to a helper's parameter at every call site (want translated through the instantiation)
				var isValueOf func(v ssa.Value, want types.Type, d int) bool
				isValueOf = func(v ssa.Value, want types.Type, d int) bool {
					v = core.Resolve(v)
					if vo, isVO := v.(*ssa.Call); isVO && core.StdCallee(&vo.Call) == "reflect.ValueOf" {
						return types.Identical(core.Unwrap(vo.Call.Args[0]).Type(), want)
					}
					if prm, isP := v.(*ssa.Parameter); isP && d < 4 {
						acts := core.ParamActuals(p, prm)
						if len(acts) == 0 {
							return false
						}
						for _, a := range acts {
							w := want
							if tp, isTP := want.(*types.TypeParam); isTP && a.Callee != nil && tp.Index() < len(a.Callee.TypeArgs()) {
								w = a.Callee.TypeArgs()[tp.Index()]
							}
							if !isValueOf(a.Arg, w, d+1) {
								return false
							}
						}
						return true
					}
					return false
				}
				if call, isC := core.Resolve(x.X).(*ssa.Call); isC && core.StdCallee(&call.Call) == "reflect.(Value).Interface" {
					if isValueOf(call.Call.Args[0], x.AssertedType, 0) {
						ok = true
					}
					// converted pointer: y.Convert(x.Type()).Interface().(T) with x = ValueOf(v:T)
					if cv, isCv := core.Resolve(call.Call.Args[0]).(*ssa.Call); isCv && core.StdCallee(&cv.Call) == "reflect.(Value).Convert" {
						if ty, isTy := core.Resolve(cv.Call.Args[1]).(*ssa.Call); isTy && core.StdCallee(&ty.Call) == "reflect.(Value).Type" {
							if isValueOf(ty.Call.Args[0], x.AssertedType, 0) {
								ok = true
							}
						}
					}
				}
			}
			c.Check(ok, "R6", key, p.InstrPos(ins), "dominated by the matching comma-ok success / reflect round trip", "unchecked type assertion to "+x.AssertedType.String()+" is not dominated by a successful check of the same value: panics for other dynamic types")
			case *ssa.Call:
				name := core.StdCallee(&x.Call)
				if !strings.HasPrefix(name, "reflect.(Value).") && !strings.HasPrefix(name, "reflect.(Type).") && !(x.Call.IsInvoke() && strings.HasPrefix(name, "reflect.")) {
					return
				}
				method := name[strings.LastIndex(name, ".")+1:]
				switch method {
				case "Kind", "IsValid", "Type", "Convert":
					if method == "Type" || method == "Convert" {
						// Type/Convert panic on the zero Value: require a kind guard
						break
					}
					return // no precondition
				}
				key := fmt.Sprintf("%s/reflect:%s", core.FuncName(f), method)
				ok, why := c01reflectGuard(p, f, x, method)
				c.Check(ok, "R6", key, p.InstrPos(ins), why, "reflect."+method+" at this site can panic: "+why)
			}
		})
	}
}

// c01reflectGuard discharges the precondition of a reflect call through an explicit table.
func c01reflectGuard(p *core.Prog, f *ssa.Function, call *ssa.Call, method string) (bool, string) {
	// guards are looked up at the call and, for extracted helpers, at every call site of the helper
	inCtx := func(pred func(*ssa.BasicBlock) bool) bool { return core.HoldsInCtx(p, call.Block(), pred) }
	kindIsPtr := func(b *ssa.BasicBlock) bool {
		for _, cnd := range core.EdgeFacts(b) {
			if isPtr, _, known := c01kindIsPtrFact(p, cnd, 0); known && isPtr {
				return true
			}
		}
		for _, m := range core.EdgeCmps(b) {
			if m.Op == token.EQL && core.IsIntConst(m.Y, 22) {
				if k, ok := core.Resolve(m.X).(*ssa.Call); ok {
					n := core.StdCallee(&k.Call)
					if n == "reflect.(Value).Kind" {
						return true
					}
					if g := core.Callee(&k.Call); g != nil && core.FuncName(g) == "fpgo.Kind" {
						return true
					}
				}
			}
		}
		return false
	}
	notNilEdge := func(what func(*ssa.Call) bool) func(*ssa.BasicBlock) bool {
		return func(b *ssa.BasicBlock) bool {
			for _, cnd := range core.EdgeFacts(b) {
				n := core.Normalize(cnd)
				if k, ok := n.V.(*ssa.Call); ok && !n.True && what(k) {
					return true
				}
			}
			return false
		}
	}
	root := core.HelperRoot(p, f)
	switch core.FuncName(root) + "/" + method {
	case "fpgo.IsNil/IsNil":
		return inCtx(kindIsPtr), "Value.IsNil needs a nillable kind: guarded by Kind(obj) == reflect.Ptr"
	case "fpgo.CloneTo/Elem", "fpgo.CloneTo/Set", "fpgo.CloneTo/Interface", "fpgo.CloneTo/Type", "fpgo.CloneTo/Convert":
		// the source Maybe is present (IsNil() false) on this path
		present := inCtx(notNilEdge(func(k *ssa.Call) bool { return k.Call.IsInvoke() && k.Call.Method.Name() == "IsNil" }))
		if !present {
			return false, "not on the path where the source Maybe is present"
		}
		if len(call.Call.Args) == 0 {
			return false, "reflect call through a method value: its receiver cannot be related to the guards"
		}
		recv := core.Resolve(call.Call.Args[0])
		// calls on ValueOf(dest).Elem(): need !IsNil(dest), dest being a parameter of the enclosing function
		var dest *ssa.Parameter
		var walk func(v ssa.Value, d int)
		walk = func(v ssa.Value, d int) {
			if d > 6 {
				return
			}
			if k, ok := core.Resolve(v).(*ssa.Call); ok {
				if core.StdCallee(&k.Call) == "reflect.ValueOf" {
					if prm, isP := core.Resolve(core.Unwrap(k.Call.Args[0])).(*ssa.Parameter); isP {
						dest = prm
					}
				}
				for _, a := range k.Call.Args {
					walk(a, d+1)
				}
			}
		}
		walk(recv, 0)
		if dest != nil {
			okDest := notNilEdge(func(k *ssa.Call) bool {
				g := core.Callee(&k.Call)
				return g != nil && core.FuncName(g) == "fpgo.IsNil" && core.Resolve(core.Unwrap(k.Call.Args[0])) == ssa.Value(dest)
			})(call.Block())
			return okDest, "writes through reflect.ValueOf(dest).Elem(): dest must be known non-nil (IsNil(dest) false)"
		}
		if method == "Elem" || method == "Set" || method == "Type" || method == "Convert" {
			return inCtx(kindIsPtr), "needs the pointer kind: guarded by x.Kind() == reflect.Ptr on a present (non-nil) value"
		}
		return true, "value of a present Maybe is valid"
	case "fpgo.someDef.ToPtr/Interface":
		pres := inCtx(func(b *ssa.BasicBlock) bool { pr, _ := c01edge(b, b.Parent()); return pr })
		isPtr := inCtx(func(b *ssa.BasicBlock) bool {
			for _, cnd := range core.EdgeFacts(b) {
				n := core.Normalize(cnd)
				if k, ok := n.V.(*ssa.Call); ok && n.True {
					if g := core.Callee(&k.Call); g != nil && g.Name() == "IsPtr" {
						return true
					}
				}
			}
			return false
		})
		return pres && isPtr, "Indirect(ValueOf(ref)).Interface() needs a non-nil pointer: guarded by IsPresent() && IsPtr()"
	}
	return false, "reflect call with a precondition that has no entry in the discharge table"
}

// c01refConsumers returns the instructions of m that consume the wrapped value (someDef.ref) -
// anything other than loading, boxing, copying it into a private local or merging it in a phi -
// plus all dynamic calls (callback invocations). Returning it is judged by the absent-edge result check.
func c01refConsumers(m *ssa.Function) []ssa.Instruction {
	derived := map[ssa.Value]bool{}
	var work []ssa.Value
	add := func(v ssa.Value) {
		if v != nil && !derived[v] {
			derived[v] = true
			work = append(work, v)
		}
	}
	consumers := map[ssa.Instruction]bool{}
	core.Instrs(m, func(ins ssa.Instruction) {
		switch x := ins.(type) {
		case *ssa.FieldAddr:
			if core.FieldKey(x) == "someDef.ref" {
				add(x)
			}
		case *ssa.Field:
			if core.FieldKey(x) == "someDef.ref" {
				add(x)
			}
		case *ssa.Call:
			if core.Callee(&x.Call) == nil && !x.Call.IsInvoke() {
				if _, isB := x.Call.Value.(*ssa.Builtin); !isB {
					consumers[ins] = true
				}
			}
		}
	})
	for len(work) > 0 {
		v := work[len(work)-1]
		work = work[:len(work)-1]
		if v.Referrers() == nil {
			continue
		}
		for _, r := range *v.Referrers() {
			switch x := r.(type) {
			case *ssa.DebugRef, *ssa.Return:
			case *ssa.MakeInterface:
				add(x)
			case *ssa.ChangeType:
				add(x)
			case *ssa.ChangeInterface:
				add(x)
			case *ssa.Phi:
				add(x)
			case *ssa.UnOp:
				if x.Op == token.MUL {
					add(x) // load through the field address / of the local copy
				} else {
					consumers[r] = true
				}
			case *ssa.Store:
				if a, isA := x.Addr.(*ssa.Alloc); isA && x.Val == v && !a.Heap {
					add(a)
				} else if a, isA := x.Addr.(*ssa.Alloc); isA && x.Val == v && c01localOnly(a) {
					add(a)
				} else if _, isCell := v.(*ssa.Alloc); isCell && x.Addr == v {
					// another store into the local copy
				} else {
					consumers[r] = true
				}
			default:
				consumers[r] = true
			}
		}
	}
	var out []ssa.Instruction
	core.Instrs(m, func(ins ssa.Instruction) {
		if consumers[ins] {
			out = append(out, ins)
		}
	})
	return out
}

// c01localOnly: a heap-allocated local (captured) cell that is only stored, loaded or captured.
func c01localOnly(a *ssa.Alloc) bool {
	for _, r := range *a.Referrers() {
		switch r.(type) {
		case *ssa.Store, *ssa.UnOp, *ssa.DebugRef, *ssa.MakeClosure:
		default:
			return false
		}
	}
	return true
}


// c01kindIsPtrFact: the decided condition says whether the reflect kind of some value is reflect.Ptr - a comparison
// `Kind(x) == reflect.Ptr` / `reflect.ValueOf(x).Kind() == reflect.Ptr`, or a predicate of the package that returns
// exactly such a comparison of its own parameter (IsPtr). Returns (isPtr, the tested value as seen by the caller, known).
func c01kindIsPtrFact(p *core.Prog, cnd core.Cond, depth int) (bool, ssa.Value, bool) {
	if m, ok := core.AsCmp(cnd); ok && (m.Op == token.EQL || m.Op == token.NEQ) && core.IsIntConst(m.Y, int64(22)) {
		if k, isC := core.Resolve(m.X).(*ssa.Call); isC {
			if g := core.Callee(&k.Call); g != nil && core.FuncName(g) == "fpgo.Kind" && len(k.Call.Args) == 1 {
				return m.Op == token.EQL, core.Unwrap(k.Call.Args[0]), true
			}
			if core.StdCallee(&k.Call) == "reflect.(Value).Kind" && len(k.Call.Args) == 1 {
				var subj ssa.Value
				if vo, isVO := core.Resolve(k.Call.Args[0]).(*ssa.Call); isVO && core.StdCallee(&vo.Call) == "reflect.ValueOf" {
					subj = core.Unwrap(vo.Call.Args[0])
				}
				return m.Op == token.EQL, subj, true
			}
		}
	}
	n := core.Normalize(cnd)
	call, isC := n.V.(*ssa.Call)
	if !isC || depth > 1 {
		return false, nil, false
	}
	g := core.Callee(&call.Call)
	if g == nil || !p.InRepo(g) || len(g.Blocks) == 0 || g.Signature.Results().Len() != 1 {
		return false, nil, false
	}
	cases := core.ReturnCases(g)
	if len(cases) != 1 {
		return false, nil, false
	}
	isPtr, subj, known := c01kindIsPtrFact(p, core.Cond{V: core.Resolve(cases[0].Vals[0]), True: true}, depth+1)
	if !known || subj == nil {
		return false, nil, false
	}
	for i, prm := range g.Params {
		if ssa.Value(prm) == core.Resolve(subj) && i < len(call.Call.Args) {
			if !n.True {
				isPtr = !isPtr
			}
			return isPtr, core.Unwrap(call.Call.Args[i]), true
		}
	}
	return false, nil, false
}
