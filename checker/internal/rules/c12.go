package rules

import (
	"fmt"
	"go/token"
	"go/types"

	"fpcheck/internal/core"

	"golang.org/x/tools/go/ssa"
)

func init() {
	register(&Prop{
		ID: "C12",
		Explanation: "Mailbox structure of Handler and Actor decided on SSA: (R1) the only receive operations on the mailbox channel are in the run-loop method, exactly one `go run()` is started on every path of the constructor and nowhere else (single consumer); (R2) in the loop body the received item is invoked (Handler) / passed to the effect (Actor) exactly once per iteration on every path by a direct synchronous call, and nothing else is received there; " +
			"(R3) the effect's first argument is the actor itself; Post/Send perform exactly one synchronous send of their argument on every path that passed the not-closed test (no goroutine, no select that can skip or defer it); (R4) Spawn builds the child through the constructor (own channel, own goroutine), registers parent/children only on the parent-open edge and returns the unregistered child otherwise. " +
			"One consumer goroutine + FIFO channels + synchronous sends give serial, exactly-once, per-sender-ordered processing for every schedule. Not decided: uniqueness of time.Now() ids; liveness; the close race (C15).",
		Trusted: append([]string{"Go channels deliver the values of one sender in send order", "a caller-supplied mailbox channel (NewByCh/NewByOptions) is not received from by the caller"}, commonTrusted...),
		Run:     runC12,
		Relies: []Dep{
			{Prop: "C13", Rule: "R1", Keys: []string{"AskDef.AskChannel"}, Floor: 1, Why: "an ask is a message of its sender: AskChannel must hand it to the mailbox synchronously to keep per-sender order"},
		},
	})
}

type c12box struct {
	typ, field           string
	ctor                 *ssa.Function // function that starts the run loop
	send                 string        // Post / Send
}

func runC12(c *core.Ctx) {
	p := c.P
	c.Rule("R1", "single consumer: receives on the mailbox only in the run-loop method; exactly one `go run()` per constructed object, started only by the constructor", 4)
	c.Rule("R2", "per received item exactly one synchronous invocation on every path of the loop body; no other receive in the body; the loop ends only when the mailbox is found closed", 4)
	c.Rule("R3", "actor identity (effect gets the receiver) and Post/Send = exactly one synchronous send of the argument on the not-closed path", 3)
	c.Rule("R4", "Spawn: child built by the constructor; parent/children registered exactly on the parent-open edge", 1)
	c.Rule("R5", "every mailbox object is built with its own state: the channel stored at construction is not read out of package-level state (shared between instances), and every constructor path of an actor installs a children map", 2)
	c12ownState(c)
	ops := core.ChanOps(p)
	for _, box := range []c12box{{typ: "HandlerDef", field: "HandlerDef.ch", send: "Post"}, {typ: "ActorDef", field: "ActorDef.ch", send: "Send"}} {
		// run-role: method that receives from the field
		var run *ssa.Function
		nRecvElsewhere := ""
		for _, o := range ops {
			if o.Kind == "recv" && o.Field == box.field {
				if run == nil || run == o.Fn {
					run = o.Fn
				} else {
					nRecvElsewhere = core.FuncName(o.Fn) + " at " + p.InstrPos(o.Instr)
				}
			}
		}
		if run == nil {
			c.Unknown("R1", box.typ+"/run", "-", "no function receiving from "+box.field)
			continue
		}
		c.Analysed(core.FuncName(run))
		c.Check(nRecvElsewhere == "", "R1", box.typ+"/sole-receiver", p.Pos(run.Pos()), "only "+core.FuncName(run)+" receives from "+box.field, "a second receiver on the mailbox: "+nRecvElsewhere+" (two consumers process items concurrently and out of order)")
		// who spawns run
		var spawners []string
		okSpawn := true
		detail := ""
		for _, f := range p.Funcs {
			nGo := 0
			core.Instrs(f, func(ins ssa.Instruction) {
				if g, ok := ins.(*ssa.Go); ok && core.Callee(&g.Call) == run {
					nGo++
				}
				if call, ok := ins.(*ssa.Call); ok && core.Callee(&call.Call) == run {
					okSpawn, detail = false, "run loop called synchronously in "+core.FuncName(f)
				}
			})
			if nGo == 0 {
				continue
			}
			spawners = append(spawners, core.FuncName(f))
			min, max := core.PathCount(f, func(ins ssa.Instruction) int {
				if g, ok := ins.(*ssa.Go); ok && core.Callee(&g.Call) == run {
					return 1
				}
				return 0
			}, nil)
			if min != 1 || max != 1 {
				okSpawn, detail = false, fmt.Sprintf("%s starts the run loop %d..%d times per call", core.FuncName(f), min, max)
			}
			// the goroutine is started on the object being constructed (a fresh allocation), not on the receiver
			core.Instrs(f, func(ins ssa.Instruction) {
				if g, ok := ins.(*ssa.Go); ok && core.Callee(&g.Call) == run {
					// (a loop bound to the channel alone: the argument is the channel stored into the object being built,
					// which is what made the parameter read as the field)
					if len(run.Params) > 0 && core.FieldKey(run.Params[0]) == box.field {
						return
					}
					if _, fresh := g.Call.Args[0].(*ssa.Alloc); !fresh {
						okSpawn, detail = false, core.FuncName(f)+" starts a second run loop on an existing object"
					}
				}
			})
			box.ctor = f
		}
		if len(spawners) != 1 {
			okSpawn, detail = false, fmt.Sprintf("run loop is started from %d functions %v (expected only the constructor)", len(spawners), spawners)
		}
		c.Check(okSpawn, "R1", box.typ+"/one-consumer-goroutine", p.Pos(run.Pos()), fmt.Sprintf("exactly one `go run()` per object, in %v", spawners), detail)
		// R2 loop body
		var recv *ssa.UnOp
		core.Instrs(run, func(ins ssa.Instruction) {
			if u, ok := ins.(*ssa.UnOp); ok && u.Op == token.ARROW {
				recv = u
			}
		})
		var item ssa.Value
		var body *ssa.BasicBlock
		if recv != nil {
			for _, r := range *recv.Referrers() {
				if ex, ok := r.(*ssa.Extract); ok && ex.Index == 0 {
					item, body = ex, ex.Block()
				}
			}
			if !recv.CommaOk {
				item, body = recv, recv.Block()
			}
		}
		if item == nil {
			c.Unknown("R2", box.typ+"/loop-body", p.Pos(run.Pos()), "received item not found")
		} else {
			weight := func(ins ssa.Instruction) int {
				switch x := ins.(type) {
				case *ssa.Call:
					if core.Resolve(x.Call.Value) == item { // Handler: fn()
						return 1
					}
					for _, a := range x.Call.Args { // Actor: effect(self, msg)
						if core.Resolve(a) == item {
							if core.FieldKey(x.Call.Value) == box.typ+".effect" {
								return 1
							}
							return 100
						}
					}
				case *ssa.Go:
					if core.Resolve(x.Call.Value) == item {
						return 100
					}
					for _, a := range x.Call.Args {
						if core.Resolve(a) == item {
							return 100
						}
					}
				case *ssa.Defer:
					return 100
				}
				return 0
			}
			// count along one iteration: from the body block until the loop header is re-entered
			// the edge taken when the channel was found closed (`v, ok := <-ch; if !ok { break }`) carries no item
			closedCh := func(b, s2 *ssa.BasicBlock) bool {
				if len(b.Succs) != 2 {
					return false
				}
				iff, isIf := b.Instrs[len(b.Instrs)-1].(*ssa.If)
				if !isIf {
					return false
				}
				n := core.Normalize(core.Cond{V: iff.Cond, True: b.Succs[0] == s2})
				ex, isE := n.V.(*ssa.Extract)
				return isE && ex.Tuple == ssa.Value(recv) && ex.Index == 1 && !n.True
			}
			// the loop ends only because the mailbox was closed and drained: no return is reachable without taking the
			// "channel closed" edge (a loop that also stops on a flag drops what is still queued)
			drains, early := core.MustPassBefore(run.Blocks[0].Instrs[0], func(ssa.Instruction) bool { return false }, func(ssa.Instruction) bool { return false }, closedCh)
			where := ""
			if early != nil {
				where = p.InstrPos(early)
			}
			c.Check(drains, "R2", box.typ+"/drains-until-closed", p.Pos(run.Pos()), "the run loop returns only on the closed-channel edge of its receive", "the run loop can end ("+where+") without the mailbox having been found closed: messages accepted before Close that are still queued are never handled")
			min, max := core.PathCountIterEdges(body, item.(ssa.Instruction), weight, closedCh)
			c.Check(min == 1 && max == 1, "R2", box.typ+"/loop-body", p.InstrPos(item.(ssa.Instruction)), "received item processed exactly once per iteration by a direct call",
				fmt.Sprintf("a received item is processed %d..%d times per iteration (0 = dropped on some path; >1 or 100 = duplicated or handed to a goroutine: not serial)", min, max))
		}
		// R3 send side
		sm := p.Method(p.Fpgo, box.typ, box.send)
		if sm == nil {
			c.Unknown("R3", box.typ+"."+box.send, "-", "method not found")
		} else {
			c.Analysed(core.FuncName(sm))
			bad := ""
			core.InstrsDeep(sm, func(f *ssa.Function, ins ssa.Instruction) {
				switch x := ins.(type) {
				case *ssa.Go:
					bad = "starts a goroutine at " + p.InstrPos(ins) + ": sends of one sender can overtake each other"
				case *ssa.Select:
					bad = "uses select at " + p.InstrPos(ins) + ": the send may be skipped or deferred"
					_ = x
				}
			})
			// the method may only forward to an unexported helper that is handed the flag value, the channel and the item
			// (`sendUnlessClosed(x.isClosed, x.ch, item)`): the helper's body is then the body that is decided, with its
			// parameters read as the values the method passes
			body, up := sm, func(v ssa.Value) ssa.Value { return v }
			if tgt, tc := core.ThinTarget(p, sm); tgt != nil && tgt.Object() != nil && !tgt.Object().Exported() {
				body = tgt
				up = func(v ssa.Value) ssa.Value {
					for i, prm := range tgt.Params {
						if core.Resolve(v) == ssa.Value(prm) && i < len(tc.Call.Args) {
							return tc.Call.Args[i]
						}
					}
					return v
				}
			}
			isSend := func(ins ssa.Instruction) int {
				if s, ok := ins.(*ssa.Send); ok && core.FieldKey(up(s.Chan)) == box.field && core.FieldBase(up(s.Chan)) == sm.Params[0].Name() && core.Resolve(up(s.X)) == ssa.Value(sm.Params[1]) {
					return 1
				}
				return 0
			}
			isFlag := func(v ssa.Value) bool { return flagRead(p, up(v), sm.Params[0].Name(), "isClosed", 0) }
			// count on the not-closed edge of the closed-flag test (whichever way the guard is written)
			start := edgeStart(body, isFlag, false)
			min, max := 0, 0
			if start != nil {
				min, max = core.PathCountFrom(start, nil, isSend, nil)
				// and nothing is sent on the closed edge
				if cs := edgeStart(body, isFlag, true); cs != nil {
					if _, cmax := core.PathCountFrom(cs, nil, isSend, func(b *ssa.BasicBlock) bool { return b == start || start.Dominates(b) }); cmax > 0 {
						max = 100
					}
				}
			} else {
				min, max = core.PathCount(body, isSend, nil)
			}
			if bad == "" && !(min == 1 && max == 1) {
				bad = fmt.Sprintf("sends its argument %d..%d times on the not-closed path (must be exactly 1)", min, max)
			}
			c.Check(bad == "", "R3", box.typ+"."+box.send, p.Pos(sm.Pos()), "exactly one synchronous send of the argument on the not-closed path", box.send+" "+bad)
		}
	}
	// R3 actor identity
	// the mailbox loop: the method of ActorDef that calls the effect field (whatever it is named)
	var run *ssa.Function
	for _, m := range p.Methods(p.Fpgo, "ActorDef") {
		core.Instrs(m, func(ins ssa.Instruction) {
			if call, isC := ins.(*ssa.Call); isC && core.FieldKey(call.Call.Value) == "ActorDef.effect" {
				run = m
			}
		})
	}
	if run != nil {
		ok := false
		core.Instrs(run, func(ins ssa.Instruction) {
			if call, isC := ins.(*ssa.Call); isC && core.FieldKey(call.Call.Value) == "ActorDef.effect" && core.FieldBase(call.Call.Value) == run.Params[0].Name() && len(call.Call.Args) == 2 && call.Call.Args[0] == ssa.Value(run.Params[0]) {
				ok = true
			}
		})
		c.Check(ok, "R3", "ActorDef/effect-gets-self", p.Pos(run.Pos()), "effect(actorSelf, message)", "the effect is not called with the actor itself as first argument (replies/Spawn from inside the effect act on another object)")
	} else {
		// role based: the receiving method
		c.Unknown("R3", "ActorDef/effect-gets-self", "-", "no method of ActorDef calls the effect")
	}
	// R4 Spawn
	if sp := p.Method(p.Fpgo, "ActorDef", "Spawn"); sp == nil {
		c.Unknown("R4", "ActorDef.Spawn", "-", "method not found")
	} else {
		c.Analysed(core.FuncName(sp))
		ok, detail := c12spawn(p, core.SameParamsImpl(p, sp))
		c.Check(ok, "R4", "ActorDef.Spawn", p.Pos(sp.Pos()), detail, detail)
	}
	_ = types.Typ
}

func c12spawn(p *core.Prog, sp *ssa.Function) (bool, string) {
	recv := sp.Params[0]
	// child: result of a call that reaches the constructor that starts a run loop
	var child *ssa.Call
	core.Instrs(sp, func(ins ssa.Instruction) {
		if call, ok := ins.(*ssa.Call); ok {
			if g := core.Callee(&call.Call); g != nil && p.InRepo(g) && g.Signature.Results().Len() > 0 && core.TypeName(g.Signature.Results().At(0).Type()) == "ActorDef" {
				for h := range core.Reachable(p, g) {
					core.Instrs(h, func(i2 ssa.Instruction) {
						if _, isGo := i2.(*ssa.Go); isGo {
							child = call
						}
					})
				}
			}
		}
	})
	if child == nil {
		return false, "Spawn does not create the child through the constructor that starts its own mailbox goroutine"
	}
	// every return returns the child
	retOK := true
	for _, rcase := range core.ReturnCases(sp) {
		if !sameOrNilAlias(rcase, rcase.Vals[0], child) {
			retOK = false
		}
	}
	if !retOK {
		return false, "Spawn does not return the newly created child on every path"
	}
	// registration stores
	var parentStore *ssa.Store
	var childInsert *ssa.MapUpdate
	// in Spawn itself or in a helper extracted from it (its parameters are then read as the arguments)
	core.InstrsGroup(p, sp, func(_ *ssa.Function, ins ssa.Instruction) {
		switch x := ins.(type) {
		case *ssa.Store:
			if core.FieldKey(x.Addr) == "ActorDef.parent" {
				parentStore = x
			}
		case *ssa.MapUpdate:
			if core.FieldKey(x.Map) == "ActorDef.children" {
				childInsert = x
			}
		}
	})
	if parentStore == nil || childInsert == nil {
		return false, "Spawn does not record parent and children"
	}
	if fa := parentStore.Addr.(*ssa.FieldAddr); core.ResolveIP(p, core.FieldOwner(fa)) != ssa.Value(child) || core.ResolveIP(p, parentStore.Val) != ssa.Value(recv) {
		return false, "parent link is not child.parent = receiver"
	}
	mapBase := ssa.Value(nil)
	if ld, isLd := core.Unwrap(childInsert.Map).(*ssa.UnOp); isLd {
		if fa, isFA := ld.X.(*ssa.FieldAddr); isFA {
			mapBase = core.ResolveIP(p, core.FieldOwner(fa))
		}
	}
	if mapBase != ssa.Value(recv) || core.ResolveIP(p, childInsert.Value) != ssa.Value(child) {
		return false, "children map insertion is not receiver.children[...] = child"
	}
	keyLd, isKL := childInsert.Key.(*ssa.UnOp)
	if !isKL || core.FieldKey(childInsert.Key) != "ActorDef.id" {
		return false, "child is not registered under its own id"
	}
	if kfa, isFA := keyLd.X.(*ssa.FieldAddr); !isFA || core.ResolveIP(p, core.FieldOwner(kfa)) != ssa.Value(child) {
		return false, "child is not registered under its own id"
	}
	// both on the not-closed edge (at the store or at the call that leads to it)
	for _, ins := range []ssa.Instruction{parentStore, childInsert} {
		open := false
		var facts []core.Cond
		for _, at := range core.SiteChain(p, sp, ins) {
			facts = append(facts, core.EdgeFacts(at.Block())...)
		}
		for _, cnd := range facts {
			n := core.Normalize(cnd)
			if !n.True && flagRead(p, n.V, recv.Name(), "isClosed", 0) {
				open = true
			}
		}
		if !open {
			return false, "registration at " + p.InstrPos(ins) + " is not restricted to the parent-open edge: a closed parent still registers children"
		}
	}
	// closed edge returns without registering: implied by dominance above (registration only under !closed)
	return true, "child from the constructor; parent/children registered only when the parent is open; child returned on every path"
}


// c12ownState (R5): independence of mailboxes at construction.
func c12ownState(c *core.Ctx) {
	p := c.P
	for _, box := range []struct{ typ, field string }{{"HandlerDef", "HandlerDef.ch"}, {"ActorDef", "ActorDef.ch"}} {
		n, bad := 0, ""
		for _, f := range p.Funcs {
			core.Instrs(f, func(ins ssa.Instruction) {
				st, ok := ins.(*ssa.Store)
				if !ok || core.FieldKey(st.Addr) != box.field {
					return
				}
				n++
				if g := sharedOrigin(p, st.Val); g != "" {
					bad = core.FuncName(f) + " stores a channel taken from the package-level " + g + " (" + p.InstrPos(ins) + ")"
				}
			})
		}
		if n == 0 {
			c.Unknown("R5", box.typ+"/own-channel", "-", "no store of the mailbox channel found")
			continue
		}
		c.Check(bad == "", "R5", box.typ+"/own-channel", p.Pos(p.Named(p.Fpgo, box.typ).Obj().Pos()), fmt.Sprintf("%d construction sites, none takes the channel from package-level state", n), bad+": objects built this way share one mailbox - work runs on another object's goroutine and closing one closes all")
	}
	// a writer of the children map that installs the map itself when it is missing makes construction-time
	// allocation unnecessary
	mkChildren := func(ins ssa.Instruction) bool {
		st, ok := ins.(*ssa.Store)
		if !ok || core.FieldKey(st.Addr) != "ActorDef.children" {
			return false
		}
		return c12freshMap(p, st.Val, 0)
	}
	writers, lazy := 0, 0
	for _, f := range p.Funcs {
		upd := false
		core.Instrs(f, func(ins ssa.Instruction) {
			if mu, ok := ins.(*ssa.MapUpdate); ok && core.FieldKey(mu.Map) == "ActorDef.children" {
				upd = true
			}
		})
		if upd {
			writers++
			if _, mx := core.DeepCount(p, f, mkChildren, nil); mx >= 1 {
				lazy++
			}
		}
	}
	lazyChildren := writers > 0 && lazy == writers
	// children map: every function that builds an actor (allocates one and stores its channel) installs a map on every path
	for _, f := range p.Funcs {
		if f.Parent() != nil {
			continue
		}
		var alloc *ssa.Alloc
		core.Instrs(f, func(ins ssa.Instruction) {
			if a, ok := ins.(*ssa.Alloc); ok {
				if pt, isP := a.Type().Underlying().(*types.Pointer); isP {
					if _, isN := pt.Elem().(*types.Named); isN && core.TypeName(pt.Elem()) == "ActorDef" {
						alloc = a
					}
				}
			}
		})
		if alloc == nil {
			continue
		}
		c.Analysed(core.FuncName(f))
		min := core.DeepMin(p, f, mkChildren, nil)
		c.Check(min >= 1 || lazyChildren, "R5", core.FuncName(f)+"/children-map", p.Pos(f.Pos()), "every path installs a children map (or every writer of the map installs it on demand)", "a path of "+core.FuncName(f)+" builds an actor without a children map: Spawn on that actor panics (assignment to entry in nil map) before the child is registered")
	}
}

// c12freshMap: v is a map made on the spot, or a parameter of an unexported function for which every caller
// passes one.
func c12freshMap(p *core.Prog, v ssa.Value, depth int) bool {
	v = core.Resolve(v)
	if _, isMk := v.(*ssa.MakeMap); isMk {
		return true
	}
	par, isP := v.(*ssa.Parameter)
	if !isP || depth > 3 {
		return false
	}
	fn := par.Parent()
	if fn.Parent() != nil || fn.Object() == nil || fn.Object().Exported() {
		return false
	}
	idx := -1
	for i, q := range fn.Params {
		if q == par {
			idx = i
		}
	}
	sites, ok := 0, true
	for _, f := range p.Funcs {
		core.Instrs(f, func(ins ssa.Instruction) {
			cc, isC := ins.(ssa.CallInstruction)
			if !isC || cc.Common().IsInvoke() || core.Callee(cc.Common()) != fn {
				return
			}
			sites++
			if idx < 0 || idx >= len(cc.Common().Args) || !c12freshMap(p, cc.Common().Args[idx], depth+1) {
				ok = false
			}
		})
	}
	return ok && sites > 0
}
