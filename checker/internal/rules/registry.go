// Package rules holds one file per property: anchor resolution + rule instances.
package rules

import (
	"sort"
	"strings"

	"fpcheck/internal/core"
)

type Prop struct {
	ID          string
	Explanation string
	Trusted     []string
	Run         func(c *core.Ctx)
	// Relies: rule instances of other properties this property's behaviour rests on (a shared helper or a component it
	// is built from). They are decided again as part of this property's check, under the rule id "dep:<prop>/<rule>".
	Relies []Dep
}

// Dep names rule instances of another property: all instances of Rule whose key starts with one of Keys (all when empty).
type Dep struct {
	Prop, Rule string
	Keys       []string
	Floor      int // instances that must be found (0 for rules that have no instance on the unchanged tree)
	Why        string
}

// RunAll runs the property's own rules and then the rule instances it relies on.
func RunAll(r *Prop, c *core.Ctx, verifDir string) {
	r.Run(c)
	subs := map[string]*core.Ctx{}
	for _, d := range r.Relies {
		src := Get(d.Prop)
		if src == nil {
			panic("unknown dependency " + d.Prop)
		}
		sub := subs[d.Prop]
		if sub == nil {
			sub = core.NewCtx(d.Prop, c.Tier, c.P)
			src.Run(sub)
			subs[d.Prop] = sub
		}
		ruleIDs := []string{d.Rule}
		if d.Rule == "*" {
			ruleIDs = sub.RuleIDs()
		}
		for _, rid := range ruleIDs {
			as := "dep:" + d.Prop + "/" + rid
			c.Rule(as, "relied-on rule of "+d.Prop+" ("+d.Why+"): "+sub.RuleDoc(rid), d.Floor)
			keys := d.Keys
			c.Import(sub, rid, as, func(key string) bool {
				if len(keys) == 0 {
					return true
				}
				for _, k := range keys {
					if strings.HasPrefix(key, k) {
						return true
					}
				}
				return false
			}, verifDir)
		}
	}
}

var registry = map[string]*Prop{}

func register(p *Prop) { registry[p.ID] = p }

func Get(id string) *Prop { return registry[id] }

func IDs() []string {
	var out []string
	for k := range registry {
		out = append(out, k)
	}
	sort.Strings(out)
	return out
}

var commonTrusted = []string{
	"go/types type checker and go/ssa builder (golang.org/x/tools v0.29.0)",
	"semantics of sync.Mutex/RWMutex, channels, defer as modelled by the analyses in internal/core",
	"the rule tables in internal/rules (each rule names the behaviour that breaks when it is violated)",
}
