// Package rules holds one file per property: anchor resolution + rule instances.
package rules

import (
	"sort"

	"fpcheck/internal/core"
)

type Prop struct {
	ID          string
	Explanation string
	Trusted     []string
	Run         func(c *core.Ctx)
}

var registry = map[string]*Prop{}

func register(p *Prop) { registry[p.ID] = p }

func Get(id string) *Prop { return registry[id] }

func IDs() []string {
	var out []string
	for k := range registry {
		out = append(out, k)
	}
	sort.Strings(out)
	return out
}

var commonTrusted = []string{
	"go/types type checker and go/ssa builder (golang.org/x/tools v0.29.0)",
	"semantics of sync.Mutex/RWMutex, channels, defer as modelled by the analyses in internal/core",
	"the rule tables in internal/rules (each rule names the behaviour that breaks when it is violated)",
}
