package rules

import (
	"fmt"
	"go/token"
	"regexp"
	"strconv"
	"strings"

	"fpcheck/internal/core"

	"golang.org/x/tools/go/ssa"
)

func init() {
	register(&Prop{
		ID: "C20",
		Explanation: "Combinator and pattern-matching shapes decided by value flow on SSA: (R1) Compose applies fnList[0] to the result of composing fnList[1:] (single element: applies it to the arguments); Pipe applies fnList[len-1] to the result of piping fnList[:len-1]; (R2) every CurryParamN / CurryParam1ForSlice1 / MakeVariadicParamN / MakeVariadicReturnN / MakeNumericReturn… adapter passes exactly the bound parameters in declaration order followed by the supplied arguments (resp. args[0..N-1] ascending), lists results in order, and maps true to 1; " +
			"(R3) Trampoline leaves its loop only on err != nil (returning nil, err) or isDone, feeding each step the previous result; (R4) CurryDef.Call tests the done flag, appends and invokes fn exactly once with all accumulated arguments, and stores the result, all inside one hold of callM; (R5) MatchFor visits patterns in ascending order, returns the Apply of the first pattern whose Matches accepts (same pattern, same value), and panics only after the loop; Otherwise always matches; reflect-based pattern tests are guarded by the library's absence test; Either delegates; (R6) NewCompData is non-nil exactly on the Matches edge, SumType is any-of, ProductType arity + all-of. " +
			"The Compose/Pipe rule is a sufficient shape (a rewrite outside the two schemes is reported as not established). Not decided: which dynamic values each pattern kind accepts, regex semantics, ordering of concurrent Calls beyond mutual exclusion.",
		Trusted: commonTrusted,
		Run:     runC20,
		Relies: []Dep{
			{Prop: "C01", Rule: "R2", Keys: []string{"IsNil"}, Floor: 1, Why: "patterns test presence with Maybe.Just(v).IsNil/IsPresent: nil slices/maps/funcs are present values"},
		},
	})
}

// c20anyOf: every return of f is a constant; true exactly on the true edge of a match call, false elsewhere (and both occur).
func c20anyOf(f *ssa.Function, isMatch func(ssa.Value) bool) (okT, okF bool) {
	bad := false
	for _, rcase := range core.ReturnCases(f) {
		k, isK := core.Resolve(rcase.Vals[0]).(*ssa.Const)
		if !isK {
			bad = true
			continue
		}
		onMatch := false
		for _, cnd := range rcase.Facts {
			nrm := core.Normalize(cnd)
			if isMatch(nrm.V) && nrm.True {
				onMatch = true
			}
		}
		switch {
		case isTrueConst(k) && onMatch:
			okT = true
		case !isTrueConst(k) && !onMatch:
			okF = true
		default:
			bad = true
		}
	}
	return okT && !bad, okF
}

func c20anyOfDelegated(p *core.Prog, f *ssa.Function, isMatch func(ssa.Value) bool) (bool, bool) {
	var call *ssa.Call
	ok := true
	core.Instrs(f, func(ins ssa.Instruction) {
		r, isR := ins.(*ssa.Return)
		if !isR || r.Block() == f.Recover {
			return
		}
		cl, isC := core.Resolve(core.RetVals(r)[0]).(*ssa.Call)
		if !isC || (call != nil && call != cl) {
			ok = false
			return
		}
		call = cl
	})
	if !ok || call == nil {
		return false, false
	}
	g := core.Callee(&call.Call)
	stdAnyOf := core.StdCallee(&call.Call) == "slices.ContainsFunc" // the standard any-of: true iff pred holds for some element (trusted model)
	if !stdAnyOf && (g == nil || !p.InRepo(g) || len(g.Blocks) == 0) {
		return false, false
	}
	// the predicate argument: a closure every return of which is the match call itself
	pi := -1
	for i, a := range call.Call.Args {
		mc, isMC := core.Resolve(a).(*ssa.MakeClosure)
		if !isMC {
			continue
		}
		pf := mc.Fn.(*ssa.Function)
		all, n := true, 0
		core.Instrs(pf, func(ins ssa.Instruction) {
			if r, isR := ins.(*ssa.Return); isR && r.Block() != pf.Recover {
				n++
				if len(r.Results) != 1 || !isMatch(core.Resolve(r.Results[0])) {
					all = false
				}
			}
		})
		if all && n > 0 {
			pi = i
		}
	}
	if pi < 0 || (!stdAnyOf && pi >= len(g.Params)) {
		return false, false
	}
	// the members: some argument is the receiver's member list
	members := false
	for _, a := range call.Call.Args {
		if strings.HasPrefix(core.FieldKey(core.Resolve(a)), "SumType.") || strings.HasPrefix(core.FieldKey(a), "SumType.") {
			members = true
		}
	}
	if !members {
		return false, false
	}
	if stdAnyOf {
		return true, true
	}
	prm := g.Params[pi]
	return c20anyOf(g, func(v ssa.Value) bool {
		cl, isC := v.(*ssa.Call)
		return isC && !cl.Call.IsInvoke() && core.Resolve(cl.Call.Value) == ssa.Value(prm)
	})
}

func runC20(c *core.Ctx) {
	p := c.P
	c.Rule("R1", "Compose/Pipe recursion scheme and application order", 2)
	c.Rule("R2", "adapters pass bound and supplied arguments in order; results listed in order; true ↦ 1", 22)
	c.Rule("R3", "Trampoline loop exits and step threading", 1)
	c.Rule("R4", "CurryDef.Call: flag test, append, single fn call with all arguments and result store inside one callM hold; the lock is released in the same mode on every return path", 1)
	c.Rule("R5", "first-match: ascending visit, Apply of the matching pattern with the same value returned at once, panic only after the loop; Otherwise constant true; absence-guarded reflect tests; Either delegates", 5)
	c.Rule("R6", "NewCompData non-nil iff Matches; SumType any-of; ProductType arity and all-of", 3)
	// ---- R1
	for _, name := range []string{"Compose", "Pipe"} {
		f := p.Func(p.Fpgo, name)
		if f == nil || core.ReturnedClosure(p, f) == nil {
			c.Unknown("R1", name, "-", "function or the closure it returns not found")
			continue
		}
		c.Analysed(core.FuncName(f))
		ok, detail := c20compose(p, f, core.ReturnedClosure(p, f), name == "Compose")
		c.Check(ok, "R1", name, p.Pos(f.Pos()), detail, detail)
	}
	// ---- R2
	reNum := regexp.MustCompile(`^(CurryParam|MakeVariadicParam|MakeVariadicReturn)([0-9]+)$`)
	for _, f := range p.Funcs {
		if f.Parent() != nil || f.Pkg != p.Fpgo || f.Signature.Recv() != nil || len(f.AnonFuncs) == 0 {
			continue
		}
		n := f.Name()
		switch {
		case reNum.MatchString(n), n == "CurryParam1ForSlice1", strings.HasPrefix(n, "MakeNumericReturn"):
		default:
			continue
		}
		c.Analysed(core.FuncName(f))
		acl := core.ReturnedClosure(p, f)
		if acl == nil {
			c.Unknown("R2", n, p.Pos(f.Pos()), "the adapter does not return one closure")
			continue
		}
		ok, detail := c20adapter(p, f, acl, reNum.FindStringSubmatch(n))
		c.Check(ok, "R2", n, p.Pos(f.Pos()), detail, detail)
	}
	// ---- R3
	if f := p.Func(p.Fpgo, "Trampoline"); f == nil {
		c.Unknown("R3", "Trampoline", "-", "function not found")
	} else {
		c.Analysed(core.FuncName(f))
		ok, detail := c20trampoline(p, f)
		c.Check(ok, "R3", "Trampoline", p.Pos(f.Pos()), detail, detail)
	}
	// ---- R4
	if f := p.Method(p.Fpgo, "CurryDef", "Call"); f == nil {
		c.Unknown("R4", "CurryDef.Call", "-", "method not found")
	} else {
		c.Analysed(core.FuncName(f))
		// `Call(args...)` may do its work in one unexported method of the same receiver handed the same arguments and
		// then return the receiver
		impl := f
		{
			var only *ssa.Call
			n := 0
			core.Instrs(f, func(ins ssa.Instruction) {
				if call, isC := ins.(*ssa.Call); isC {
					n++
					only = call
				}
			})
			if n == 1 && len(f.Blocks) == 1 {
				if g := core.Callee(&only.Call); g != nil && p.InRepo(g) && len(g.Blocks) > 0 && g.Signature.Recv() != nil && len(only.Call.Args) == len(f.Params) && len(g.Params) == len(f.Params) {
					same := true
					for i, a := range only.Call.Args {
						if core.Resolve(a) != ssa.Value(f.Params[i]) {
							same = false
						}
					}
					if same {
						impl = g
					}
				}
			}
		}
		ok, detail := c20curryCall(p, impl)
		c.Check(ok, "R4", "CurryDef.Call", p.Pos(f.Pos()), detail, detail)
		lockBalance(c, core.ComputeLocks(p), "R4", funcsOfType(p, p.Fpgo, "CurryDef"))
	}
	// ---- R5
	if f := p.Method(p.Fpgo, "PatternMatching", "MatchFor"); f == nil {
		c.Unknown("R5", "PatternMatching.MatchFor", "-", "method not found")
	} else {
		c.Analysed(core.FuncName(f))
		ok, detail := c20matchFor(p, f)
		c.Check(ok, "R5", "PatternMatching.MatchFor", p.Pos(f.Pos()), detail, detail)
	}
	if f := p.Method(p.Fpgo, "OtherwisePatternDef", "Matches"); f == nil {
		c.Unknown("R5", "OtherwisePatternDef.Matches", "-", "method not found")
	} else {
		ok := true
		core.Instrs(f, func(ins ssa.Instruction) {
			if r, isR := ins.(*ssa.Return); isR && !isTrueConst(core.RetVals(r)[0]) {
				ok = false
			}
		})
		c.Check(ok, "R5", "OtherwisePatternDef.Matches", p.Pos(f.Pos()), "constant true", "Otherwise does not accept every value")
	}
	for _, tn := range []string{"KindPatternDef", "RegexPatternDef"} {
		f := p.Method(p.Fpgo, tn, "Matches")
		if f == nil {
			c.Unknown("R5", tn+".Matches", "-", "method not found")
			continue
		}
		c.Analysed(core.FuncName(f))
		// every reflect.TypeOf(value).Kind() / value.(string) is dominated by the not-absent edge of Maybe.Just(value)
		bad := ""
		n := 0
		core.Instrs(f, func(ins ssa.Instruction) {
			call, ok := ins.(*ssa.Call)
			isAssert := false
			if ta, isTA := ins.(*ssa.TypeAssert); isTA && !ta.CommaOk && ta.X == ssa.Value(f.Params[1]) {
				isAssert = true
			}
			// the library's own Kind(value) compared with the pattern's kind is such a test as well (a typed nil pointer
			// has the pointer kind); compared with a constant kind other than Invalid / Ptr it is a presence guard itself
			isKindTest := false
			if ok {
				if g := core.Callee(&call.Call); g != nil && core.FuncName(g) == "fpgo.Kind" && len(call.Call.Args) == 1 && core.Resolve(core.Unwrap(call.Call.Args[0])) == ssa.Value(f.Params[1]) {
					isKindTest = true
					for _, r := range *call.Referrers() {
						if b, isB := r.(*ssa.BinOp); isB && (b.Op == token.EQL || b.Op == token.NEQ) {
							other := b.Y
							if other == ssa.Value(call) {
								other = b.X
							}
							if k, isK := other.(*ssa.Const); isK && !core.IsIntConst(k, 0) && !core.IsIntConst(k, 22) {
								isKindTest = false
							}
						}
					}
				}
			}
			if !(ok && core.StdCallee(&call.Call) == "reflect.TypeOf") && !isAssert && !isKindTest {
				return
			}
			n++
			guarded := false
			for _, cnd := range core.EdgeFacts(ins.Block()) {
				nrm := core.Normalize(cnd)
				if absent, isTest := c20absenceTest(nrm, f.Params[1]); isTest && !absent {
					guarded = true
				}
			}
			if !guarded {
				bad = p.InstrPos(ins)
			}
		})
		// ... and an absent value is rejected: every return on the absent edge yields false
		for _, rc := range core.ReturnCases(f) {
			absent := false
			for _, cnd := range rc.Facts {
				nrm := core.Normalize(cnd)
				if isAbsent, isTest := c20absenceTest(nrm, f.Params[1]); isTest && isAbsent {
					absent = true
				}
			}
			if absent {
				if k, isK := core.Resolve(rc.Vals[0]).(*ssa.Const); !isK || isTrueConst(k) {
					bad = p.InstrPos(rc.Ret) + " (an absent value is accepted by the pattern)"
				}
			}
		}
		c.Check(bad == "" && n > 0, "R5", tn+".Matches/absence-guard", p.Pos(f.Pos()), "reflect-based test only for values that are present in the library's sense (not untyped nil, not a nil pointer); absent values rejected", "the pattern test at "+bad+" is not guarded by Maybe.Just(value) being present: typed nil pointers (absent values) are matched by kind")
	}
	if f := p.Func(p.Fpgo, "Either"); f == nil {
		c.Unknown("R5", "Either", "-", "function not found")
	} else {
		ok := false
		core.Instrs(f, func(ins ssa.Instruction) {
			if r, isR := ins.(*ssa.Return); isR {
				if call, isC := core.RetVals(r)[0].(*ssa.Call); isC {
					if g := core.Callee(&call.Call); g != nil && g.Name() == "MatchFor" && call.Call.Args[1] == ssa.Value(f.Params[0]) {
						if dp, isDP := core.Resolve(call.Call.Args[0]).(*ssa.Call); isDP {
							if h := core.Callee(&dp.Call); h != nil && h.Name() == "DefPattern" && dp.Call.Args[0] == ssa.Value(f.Params[1]) {
								ok = true
							}
						}
						// DefPattern written out: PatternMatching{patterns: patterns}
						if lit := c16lit(call.Call.Args[0]); lit != nil {
							for k, v := range lit {
								if core.FieldName(call.Call.Args[0].Type(), k) == "patterns" && core.Resolve(v) == ssa.Value(f.Params[1]) {
									ok = true
								}
							}
						}
					}
				}
			}
		})
		c.Check(ok, "R5", "Either", p.Pos(f.Pos()), "DefPattern(patterns...).MatchFor(value)", "Either does not delegate to MatchFor over the given patterns in order")
	}
	// ---- R6
	if f := p.Func(p.Fpgo, "NewCompData"); f == nil {
		c.Unknown("R6", "NewCompData", "-", "function not found")
	} else {
		c.Analysed(core.FuncName(f))
		ok := true
		n := 0
		for _, rc := range core.ReturnCases(f) {
			n++
			matched, known := false, false
			for _, cnd := range rc.Facts {
				nrm := core.Normalize(cnd)
				if inv, isC := nrm.V.(*ssa.Call); isC && inv.Call.IsInvoke() && inv.Call.Method.Name() == "Matches" && inv.Call.Value == ssa.Value(f.Params[0]) && len(inv.Call.Args) == 1 && inv.Call.Args[0] == ssa.Value(f.Params[1]) {
					matched, known = nrm.True, true
				}
			}
			isNil := core.IsNilConst(core.Resolve(rc.Vals[0]))
			if !known || matched == isNil {
				ok = false
			}
		}
		c.Check(ok && n == 2, "R6", "NewCompData", p.Pos(f.Pos()), "non-nil exactly on the compType.Matches(value...) edge", "NewCompData does not return a value exactly when its arguments match the declared type")
	}
	if f := p.Method(p.Fpgo, "SumType", "Matches"); f == nil {
		c.Unknown("R6", "SumType.Matches", "-", "method not found")
	} else {
		// any-of: returns true on the Matches edge inside the loop, false after the loop
		isMatches := func(v ssa.Value) bool {
			inv, isC := v.(*ssa.Call)
			return isC && inv.Call.IsInvoke() && inv.Call.Method.Name() == "Matches"
		}
		okT, okF := c20anyOf(f, isMatches)
		if !okT || !okF {
			// delegated: `return anyOf(func(t) bool { return t.Matches(value...) }, members...)` where the library's
			// combinator is itself an any-of over calls of its predicate parameter
			okT, okF = c20anyOfDelegated(p, f, isMatches)
		}
		c.Check(okT && okF, "R6", "SumType.Matches", p.Pos(f.Pos()), "true as soon as one member type matches, false after all were tried", "SumType.Matches is not an any-of over its member types")
	}
	if f := p.Method(p.Fpgo, "ProductType", "Matches"); f == nil {
		c.Unknown("R6", "ProductType.Matches", "-", "method not found")
	} else {
		arity := false
		core.Instrs(f, func(ins ssa.Instruction) {
			if r, isR := ins.(*ssa.Return); isR {
				if k, isK := core.RetVals(r)[0].(*ssa.Const); isK && !isTrueConst(k) {
					for _, m := range core.EdgeCmps(r.Block()) {
						if m.Op == token.NEQ && strings.HasPrefix(core.Path(m.X), "len(") && strings.HasPrefix(core.Path(m.Y), "len(") {
							arity = true
						}
					}
				}
			}
		})
		// all-of: accumulator matches = matches && kinds[i] == kind(v)
		allOf := false
		core.Instrs(f, func(ins ssa.Instruction) {
			if phi, isPhi := ins.(*ssa.Phi); isPhi && core.InLoop(phi.Block()) {
				for _, e := range phi.Edges {
					if inner, isP := e.(*ssa.Phi); isP {
						// short-circuit &&: phi [false (acc false), cmp]
						hasFalse, hasCmp := false, false
						for _, e2 := range inner.Edges {
							if k, isK := e2.(*ssa.Const); isK && !isTrueConst(k) {
								hasFalse = true
							}
							if b, isB := e2.(*ssa.BinOp); isB && b.Op == token.EQL {
								hasCmp = true
							}
						}
						if hasFalse && hasCmp {
							allOf = true
						}
					}
				}
			}
		})
		if !allOf {
			// early-exit form: inside the loop a mismatch of kinds[i] and the value's kind returns false at once,
			// true is returned only after the loop
			mismatchFalse, trueAfter, trueInside := false, false, false
			for _, rc := range core.ReturnCases(f) {
				k, isK := core.Resolve(rc.Vals[0]).(*ssa.Const)
				if !isK {
					trueInside = true // a computed result: not this form
					continue
				}
				inLoop := insideLoop(rc.Via[0])
				if isTrueConst(k) {
					if inLoop {
						trueInside = true
					} else {
						trueAfter = true
					}
					continue
				}
				for _, m := range rc.Cmps() {
					if m.Op == token.NEQ && inLoop && !strings.HasPrefix(core.Path(m.X), "len(") {
						if _, isIdx := core.Resolve(m.X).(*ssa.UnOp); isIdx {
							mismatchFalse = true
						}
						if _, isIdx := core.Resolve(m.Y).(*ssa.UnOp); isIdx {
							mismatchFalse = true
						}
					}
				}
			}
			allOf = mismatchFalse && trueAfter && !trueInside
		}
		// the kind compared per position is the presence-aware one: Maybe.Just(v).Kind() is Invalid for an absent value
		// (untyped nil, nil pointer); the bare Kind(v) / reflect kind of a nil pointer is Ptr - a product type declared
		// with reflect.Ptr would then accept a nil pointer, one declared with Invalid reject it
		bareKind := ""
		core.Instrs(f, func(ins ssa.Instruction) {
			b, isB := ins.(*ssa.BinOp)
			if !isB || (b.Op != token.EQL && b.Op != token.NEQ) {
				return
			}
			for _, side := range []ssa.Value{b.X, b.Y} {
				call, isC := core.Resolve(side).(*ssa.Call)
				if !isC || call.Call.IsInvoke() {
					continue
				}
				g := core.Callee(&call.Call)
				std := core.StdCallee(&call.Call)
				if !(g != nil && core.FuncName(g) == "fpgo.Kind") && std != "reflect.(Value).Kind" && std != "reflect.(Type).Kind" {
					continue
				}
				guarded := false
				for _, cnd := range core.EdgeFacts(b.Block()) {
					nrm := core.Normalize(cnd)
					if k, isK := nrm.V.(*ssa.Call); isK && !nrm.True {
						if h := core.Callee(&k.Call); h != nil && core.FuncName(h) == "fpgo.IsNil" {
							guarded = true
						}
					}
				}
				if !guarded {
					bareKind = p.InstrPos(ins)
				}
			}
		})
		c.Check(bareKind == "", "R6", "ProductType.Matches/presence-aware-kind", p.Pos(f.Pos()), "the kind compared per position is not the bare reflect kind of a possibly absent value", "ProductType.Matches compares the declared kind with the bare kind of the value at "+bareKind+" (no absence test on the way): a nil pointer has the kind Ptr there but counts as absent (Invalid) everywhere else, so NewCompData accepts / rejects typed nil pointers differently from MatchFor and the other patterns")
		c.Check(arity && allOf, "R6", "ProductType.Matches", p.Pos(f.Pos()), "arity test then conjunction over all positions", fmt.Sprintf("ProductType.Matches is not arity test (%v) plus all-of over the kinds (%v)", arity, allOf))
	}
}

func c20isJustOf(v ssa.Value, arg *ssa.Parameter) bool {
	call, ok := core.Resolve(v).(*ssa.Call)
	if !ok {
		return false
	}
	g := core.Callee(&call.Call)
	return g != nil && g.Name() == "Just" && len(call.Call.Args) == 2 && call.Call.Args[1] == ssa.Value(arg)
}

func c20compose(p *core.Prog, f, cl *ssa.Function, compose bool) (bool, string) {
	isList := func(v ssa.Value) bool { return core.Path(v) == f.Params[0].Name() }
	isLenMinus1 := func(v ssa.Value) bool {
		b, ok := core.Resolve(v).(*ssa.BinOp)
		if !ok || b.Op != token.SUB || !core.IsIntConst(b.Y, 1) {
			return false
		}
		call, ok := core.Resolve(b.X).(*ssa.Call)
		return ok && core.IsBuiltin(&call.Call, "len") && isList(call.Call.Args[0])
	}
	var head ssa.Value // the selected function value
	var rest *ssa.Slice
	core.Instrs(cl, func(ins ssa.Instruction) {
		switch x := ins.(type) {
		case *ssa.IndexAddr:
			if !isList(x.X) {
				return
			}
			if compose && core.IsIntConst(x.Index, 0) || !compose && isLenMinus1(x.Index) {
				for _, r := range *x.Referrers() {
					if u, ok := r.(*ssa.UnOp); ok {
						head = u
					}
				}
			}
		case *ssa.Slice:
			if !isList(x.X) {
				return
			}
			if compose && core.IsIntConst(x.Low, 1) && x.High == nil || !compose && x.Low == nil && isLenMinus1(x.High) {
				rest = x
			}
		}
	})
	if head == nil || rest == nil {
		if compose {
			return false, "Compose does not select fnList[0] as the outer function and fnList[1:] as the rest"
		}
		return false, "Pipe does not select fnList[len-1] as the last function and fnList[:len-1] as the rest"
	}
	// recursive call with rest
	var rec *ssa.Call
	core.Instrs(cl, func(ins ssa.Instruction) {
		if call, ok := ins.(*ssa.Call); ok && core.Callee(&call.Call) == f && len(call.Call.Args) == 1 && core.Resolve(call.Call.Args[0]) == ssa.Value(rest) {
			rec = call
		}
	})
	if rec == nil {
		return false, "the rest of the list is not composed recursively"
	}
	sArg := cl.Params[0]
	okSingle, okGeneral := false, false
	core.Instrs(cl, func(ins ssa.Instruction) {
		r, ok := ins.(*ssa.Return)
		if !ok {
			return
		}
		outer, ok := core.RetVals(r)[0].(*ssa.Call)
		if !ok || core.Resolve(outer.Call.Value) != head || len(outer.Call.Args) != 1 {
			return
		}
		single := false
		for _, m := range core.EdgeCmps(r.Block()) {
			if m.Op == token.EQL && core.IsIntConst(m.Y, 1) && strings.HasPrefix(core.Path(m.X), "len(") {
				single = true
			}
		}
		if !single {
			// however the test is spelled (`lastIndex == 0` with lastIndex = len-1): the facts of this return imply len == 1
			z := core.ZoneAt(r.Block())
			single = z.ProveEq(core.LinNode("len("+f.Params[0].Name()+")"), core.LinConst(1))
		}
		if single && outer.Call.Args[0] == ssa.Value(sArg) {
			okSingle = true
		}
		if inner, isC := outer.Call.Args[0].(*ssa.Call); isC && !single {
			if inner.Call.Value == ssa.Value(rec) && len(inner.Call.Args) == 1 && inner.Call.Args[0] == ssa.Value(sArg) {
				okGeneral = true
			}
		}
	})
	if !okSingle || !okGeneral {
		return false, fmt.Sprintf("application order not established: single-element case f(s)=%v, general case f(rest(s))=%v", okSingle, okGeneral)
	}
	if compose {
		return true, "fnList[0](Compose(fnList[1:]...)(s)); single element: fnList[0](s)"
	}
	return true, "fnList[len-1](Pipe(fnList[:len-1]...)(s)); single element: fnList[0](s)"
}

func c20adapter(p *core.Prog, f, cl *ssa.Function, m []string) (bool, string) {
	// the call of the captured fn
	var call *ssa.Call
	nCalls := 0
	core.Instrs(cl, func(ins ssa.Instruction) {
		if x, ok := ins.(*ssa.Call); ok && core.Callee(&x.Call) == nil && !x.Call.IsInvoke() {
			if _, isB := x.Call.Value.(*ssa.Builtin); !isB {
				if capturedBinding(f, cl, core.Path(x.Call.Value)) == ssa.Value(f.Params[0]) || core.Resolve(x.Call.Value) == ssa.Value(f.Params[0]) {
					call, nCalls = x, nCalls+1
				}
			}
		}
	})
	if nCalls != 1 {
		return false, fmt.Sprintf("the adapted function is called %d times (must be 1)", nCalls)
	}
	args := cl.Params[0] // the variadic slice
	idxArg := func(v ssa.Value, i int64) bool {
		u, ok := core.Resolve(v).(*ssa.UnOp)
		if !ok {
			return false
		}
		ia, ok := u.X.(*ssa.IndexAddr)
		return ok && ia.X == ssa.Value(args) && core.IsIntConst(ia.Index, i)
	}
	name := f.Name()
	switch {
	case strings.HasPrefix(name, "CurryParam"):
		n := len(f.Params) - 1 // bound parameters
		if len(call.Call.Args) != n+1 {
			return false, "wrong number of arguments passed to the curried function"
		}
		for i := 0; i < n; i++ {
			b := capturedBinding(f, cl, core.Path(call.Call.Args[i]))
			if b != ssa.Value(f.Params[1+i]) {
				return false, fmt.Sprintf("bound argument #%d is not passed in declaration order (got %s)", i+1, core.Path(call.Call.Args[i]))
			}
		}
		if call.Call.Args[n] != ssa.Value(args) {
			return false, "the supplied arguments are not passed after the bound ones"
		}
	case strings.HasPrefix(name, "MakeVariadicParam"):
		n, _ := strconv.Atoi(m[2])
		if len(call.Call.Args) != n {
			return false, "wrong arity"
		}
		for i := 0; i < n; i++ {
			if !idxArg(call.Call.Args[i], int64(i)) {
				return false, fmt.Sprintf("parameter #%d does not receive args[%d]", i+1, i)
			}
		}
	case strings.HasPrefix(name, "MakeVariadicReturn"):
		n, _ := strconv.Atoi(m[2])
		if len(call.Call.Args) != 1 || call.Call.Args[0] != ssa.Value(args) {
			return false, "the supplied arguments are not passed through unchanged"
		}
		// returned slice literal: element i = result i
		okAll := true
		found := 0
		core.Instrs(cl, func(ins ssa.Instruction) {
			st, ok := ins.(*ssa.Store)
			if !ok {
				return
			}
			ia, ok := st.Addr.(*ssa.IndexAddr)
			if !ok {
				return
			}
			k, ok := ia.Index.(*ssa.Const)
			if !ok {
				return
			}
			found++
			if n == 1 {
				if st.Val != ssa.Value(call) {
					okAll = false
				}
				return
			}
			ex, isE := st.Val.(*ssa.Extract)
			if !isE || ex.Tuple != ssa.Value(call) || int64(ex.Index) != k.Int64() {
				okAll = false
			}
		})
		if !okAll || found != n {
			return false, "results are not listed in the order the function returns them"
		}
	case strings.HasPrefix(name, "MakeNumericReturn"):
		// argument shape
		switch {
		case strings.Contains(name, "VariadicParam"), strings.Contains(name, "SliceParam"):
			if len(call.Call.Args) != 1 || call.Call.Args[0] != ssa.Value(args) {
				return false, "arguments not passed through"
			}
		case strings.Contains(name, "Param1"):
			if len(call.Call.Args) != 1 || !idxArg(call.Call.Args[0], 0) {
				return false, "does not pass args[0]"
			}
		}
		// true edge returns 1, false edge 0 (directly, or in a helper that is handed the bool)
		okT, okF := c20boolTo10(p, cl, call, 0)
		if !okT || !okF {
			return false, "true is not mapped to 1 and false to 0"
		}
	}
	return true, "arguments and results in the documented order"
}

func c20trampoline(p *core.Prog, f *ssa.Function) (bool, string) {
	var step *ssa.Call
	core.Instrs(f, func(ins ssa.Instruction) {
		if call, ok := ins.(*ssa.Call); ok && call.Call.Value == ssa.Value(f.Params[0]) {
			step = call
		}
	})
	if step == nil || !core.InLoop(step.Block()) {
		return false, "the step function is not applied inside a loop"
	}
	// argument: phi(input, previous result)
	phi, ok := step.Call.Args[0].(*ssa.Phi)
	threaded := false
	if ok {
		hasInput, hasPrev := false, false
		for _, e := range phi.Edges {
			if e == ssa.Value(f.Params[1]) {
				hasInput = true
			}
			if ex, isE := e.(*ssa.Extract); isE && ex.Tuple == ssa.Value(step) && ex.Index == 0 {
				hasPrev = true
			}
		}
		threaded = hasInput && hasPrev
	}
	if !threaded {
		return false, "each step is not applied to the previous step's result (starting from the input)"
	}
	// exits
	okErr, okDone := false, false
	bad := ""
	core.Instrs(f, func(ins ssa.Instruction) {
		r, isR := ins.(*ssa.Return)
		if !isR {
			return
		}
		rv := core.RetVals(r)
		onErr, onDone := false, false
		for _, cnd := range core.EdgeFacts(r.Block()) {
			if m, isM := core.AsCmp(cnd); isM && m.Op == token.NEQ && core.IsNilConst(m.Y) {
				if ex, isE := m.X.(*ssa.Extract); isE && ex.Tuple == ssa.Value(step) && ex.Index == 2 {
					onErr = true
				}
			}
			nrm := core.Normalize(cnd)
			if ex, isE := nrm.V.(*ssa.Extract); isE && ex.Tuple == ssa.Value(step) && ex.Index == 1 && nrm.True {
				onDone = true
			}
		}
		switch {
		case onErr:
			if core.IsNilConst(rv[0]) {
				okErr = true
			} else {
				bad = "the error exit does not return (nil, err)"
			}
		case onDone:
			res := core.Resolve(rv[0])
			if phi, isPhi := res.(*ssa.Phi); isPhi {
				// result variable carried around the loop: inside the loop it always holds the last step's result
				inner := 0
				for i, e := range phi.Edges {
					pred := phi.Block().Preds[i]
					if phi.Block().Dominates(pred) {
						if ex, isE := core.Resolve(e).(*ssa.Extract); isE && ex.Tuple == ssa.Value(step) && ex.Index == 0 {
							inner++
						} else {
							inner = -99
						}
					}
				}
				if inner > 0 {
					res = core.Resolve(phi.Edges[0])
					for i, e := range phi.Edges {
						if phi.Block().Dominates(phi.Block().Preds[i]) {
							res = core.Resolve(e)
						}
					}
				}
			}
			if ex, isE := res.(*ssa.Extract); isE && ex.Tuple == ssa.Value(step) && ex.Index == 0 {
				okDone = true
			} else {
				bad = "the done exit does not return the last result"
			}
		default:
			bad = "a return at " + p.InstrPos(r) + " is reached neither on err != nil nor on isDone"
		}
	})
	// the loop continues only when err == nil and !isDone: every back edge into the step's block carries both facts
	header := step.Block()
	for _, pred := range header.Preds {
		if !(header.Dominates(pred) || pred == header) {
			continue // loop entry
		}
		errNil, notDone := false, false
		conds := core.EdgeFacts(pred)
		// the branch taken from pred into the header
		if iff, isIf := pred.Instrs[len(pred.Instrs)-1].(*ssa.If); isIf {
			conds = append(conds, core.Cond{V: iff.Cond, True: pred.Succs[0] == header, If: iff})
		}
		for _, cnd := range conds {
			if m, isM := core.AsCmp(cnd); isM && m.Op == token.EQL && core.IsNilConst(m.Y) {
				if ex, isE := m.X.(*ssa.Extract); isE && ex.Tuple == ssa.Value(step) && ex.Index == 2 {
					errNil = true
				}
			}
			nrm := core.Normalize(cnd)
			if ex, isE := nrm.V.(*ssa.Extract); isE && ex.Tuple == ssa.Value(step) && ex.Index == 1 && !nrm.True {
				notDone = true
			}
		}
		if !errNil || !notDone {
			return false, fmt.Sprintf("the loop continues although the step reported an error or completion (err == nil known: %v, !isDone known: %v on the back edge)", errNil, notDone)
		}
	}
	if bad != "" || !okErr || !okDone {
		return false, "Trampoline exits: " + bad + fmt.Sprintf(" (error exit ok=%v, done exit ok=%v)", okErr, okDone)
	}
	return true, "step(previous result) until err != nil → (nil, err) or isDone → (result, nil)"
}

func c20curryCall(p *core.Prog, f *ssa.Function) (bool, string) {
	locks := core.ComputeLocks(p).At
	base := f.Params[0].Name()
	lock := base + ".callM"
	var flagTest, fnCall, app ssa.Instruction
	var resStore *ssa.Store
	// the four steps may sit in Call itself or in a closure that Call hands to a lock wrapper
	var bf *ssa.Function
	split := false
	core.InstrsDeep(f, func(fn *ssa.Function, ins ssa.Instruction) {
		hit := false
		switch x := ins.(type) {
		case *ssa.Call:
			if flagRead(p, x, base, "isDone", 0) {
				flagTest, hit = ins, true
			}
			if core.FieldKey(x.Call.Value) == "CurryDef.fn" {
				fnCall, hit = ins, true
			}
			if core.IsBuiltin(&x.Call, "append") && core.FieldKey(x.Call.Args[0]) == "CurryDef.args" {
				app, hit = ins, true
			}
		case *ssa.Store:
			if core.FieldKey(x.Addr) == "CurryDef.result" {
				resStore, hit = x, true
			}
		}
		if hit {
			if bf != nil && bf != fn {
				split = true
			}
			bf = fn
		}
	})
	if flagTest == nil || fnCall == nil || app == nil || resStore == nil {
		return false, "Call does not test isDone, append to args, call fn and store result"
	}
	if split {
		return false, "the isDone test, the append, the call of fn and the store of result are spread over several functions"
	}
	if bf != f {
		// the closure holding the steps must be run exactly once per Call
		min, max := core.PathCount(f, func(ins ssa.Instruction) int {
			if call, ok := ins.(*ssa.Call); ok {
				for _, cl := range core.RunsOnce(p, call) {
					if cl == bf {
						return 1
					}
				}
			}
			return 0
		}, nil)
		if min != 1 || max != 1 {
			return false, fmt.Sprintf("the closure holding the steps is run %d..%d times per Call", min, max)
		}
	}
	for name, ins := range map[string]ssa.Instruction{"the isDone test": flagTest, "the append to args": app, "the call of fn": fnCall, "the store of result": resStore} {
		if !locks[ins].Has(lock, "W") {
			return false, name + " happens outside the callM critical section (held=" + locks[ins].String() + "): a Call that passed the done test before another Call's MarkDone still appends, re-invokes fn and overwrites the frozen Result"
		}
	}
	if unlockBetween(bf, flagTest, fnCall, lock) {
		return false, "callM is released between the isDone test and the call of fn"
	}
	// fn call dominated by not-done edge; called once; with (receiver, accumulated args...)
	notDone := false
	for _, cnd := range core.EdgeFacts(fnCall.Block()) {
		nrm := core.Normalize(cnd)
		if nrm.V == flagTest.(ssa.Value) && !nrm.True {
			notDone = true
		}
	}
	if !notDone {
		return false, "fn is invoked even after MarkDone"
	}
	// count from the first block that lies entirely on the not-done edge
	start := fnCall.Block()
	for start.Idom() != nil {
		d := start.Idom()
		onEdge := false
		for _, cnd := range core.EdgeFacts(d) {
			nrm := core.Normalize(cnd)
			if nrm.V == flagTest.(ssa.Value) && !nrm.True {
				onEdge = true
			}
		}
		if !onEdge {
			break
		}
		start = d
	}
	min, max := core.PathCountFrom(start, nil, func(ins ssa.Instruction) int {
		if ins == fnCall {
			return 1
		}
		return 0
	}, nil)
	if min != 1 || max != 1 {
		return false, fmt.Sprintf("fn is invoked %d..%d times per Call on the not-done path", min, max)
	}
	call := fnCall.(*ssa.Call)
	if len(call.Call.Args) != 2 || core.Path(call.Call.Args[0]) != base || core.FieldKey(call.Call.Args[1]) != "CurryDef.args" || !core.InstrDominates(app, fnCall) {
		return false, "fn is not called with (the CurryDef, all accumulated arguments) after appending this Call's arguments"
	}
	if resStore.Val != ssa.Value(call) {
		return false, "Result does not hold the value of the latest fn call"
	}
	return true, "under callM: test isDone, append, fn(c, args...) once, store result"
}

func c20matchFor(p *core.Prog, f *ssa.Function) (bool, string) {
	return c20matchForm(p, f, false)
}

// c20matchForm: tryForm = the non-panicking general form `TryMatchFor(v) (result, matched)`: the first accepting pattern
// returns (Apply(v), true) at once and (_, false) is returned only after all patterns were tried.
func c20matchForm(p *core.Prog, f *ssa.Function, tryForm bool) (bool, string) {
	if !tryForm {
		// MatchFor written over the general form: `if r, ok := x.TryMatchFor(v); ok { return r }; panic(…)`
		var try *ssa.Call
		n := 0
		core.Instrs(f, func(ins ssa.Instruction) {
			if call, ok := ins.(*ssa.Call); ok {
				if call.Call.IsInvoke() && (call.Call.Method.Name() == "Matches" || call.Call.Method.Name() == "Apply") {
					n += 10
				}
				if g := core.Callee(&call.Call); g != nil && p.InRepo(g) && len(g.Blocks) > 0 && g.Signature.Results().Len() == 2 && len(call.Call.Args) == 2 &&
					core.Resolve(call.Call.Args[0]) == core.Resolve(ssa.Value(f.Params[0])) && core.Resolve(call.Call.Args[1]) == ssa.Value(f.Params[1]) {
					try = call
					n++
				}
			}
		})
		if try != nil && n == 1 {
			okRet, okPanic := true, false
			nRet := 0
			core.Instrs(f, func(ins ssa.Instruction) {
				switch x := ins.(type) {
				case *ssa.Return:
					if x.Block() == f.Recover {
						return
					}
					nRet++
					ex, isE := core.Resolve(core.RetVals(x)[0]).(*ssa.Extract)
					matched := false
					for _, cnd := range core.EdgeFacts(x.Block()) {
						nrm := core.Normalize(cnd)
						if e2, isE2 := nrm.V.(*ssa.Extract); isE2 && e2.Tuple == ssa.Value(try) && e2.Index == 1 && nrm.True {
							matched = true
						}
					}
					if !isE || ex.Tuple != ssa.Value(try) || ex.Index != 0 || !matched {
						okRet = false
					}
				case *ssa.Panic:
					for _, cnd := range core.EdgeFacts(x.Block()) {
						nrm := core.Normalize(cnd)
						if e2, isE2 := nrm.V.(*ssa.Extract); isE2 && e2.Tuple == ssa.Value(try) && e2.Index == 1 && !nrm.True {
							okPanic = true
						}
					}
				}
			})
			if !okRet || !okPanic || nRet != 1 {
				return false, "MatchFor does not return the general form's result exactly when it matched and panic otherwise"
			}
			return c20matchForm(p, core.Callee(&try.Call), true)
		}
	}
	var matches, apply *ssa.Call
	core.Instrs(f, func(ins ssa.Instruction) {
		if call, ok := ins.(*ssa.Call); ok && call.Call.IsInvoke() {
			switch call.Call.Method.Name() {
			case "Matches":
				matches = call
			case "Apply":
				apply = call
			}
		}
	})
	if matches == nil || apply == nil {
		return false, "MatchFor does not call Matches and Apply"
	}
	// the pattern: element of the patterns slice at an ascending index
	pat := core.Resolve(matches.Call.Value)
	u, ok := pat.(*ssa.UnOp)
	if !ok {
		return false, "the tested pattern is not an element of the pattern list"
	}
	ia, ok := u.X.(*ssa.IndexAddr)
	if !ok || core.FieldKey(ia.X) != "PatternMatching.patterns" || !ascendingIndex(ia.Index) {
		return false, "patterns are not visited in ascending list order"
	}
	if core.Resolve(apply.Call.Value) != pat {
		return false, "Apply is called on a different pattern than the one whose Matches accepted"
	}
	if len(apply.Call.Args) != 1 || len(matches.Call.Args) != 1 || apply.Call.Args[0] != matches.Call.Args[0] {
		return false, "Apply does not receive the value that was matched"
	}
	// the value tested: the argument itself or, for a pointer to a struct (decided by reflect kinds, so for
	// every struct type), its pointee
	if why := c20probe(p, f, matches.Call.Args[0], 0); why != "" {
		return false, why
	}
	// apply on the matches-true edge, returned immediately
	onTrue := false
	for _, cnd := range core.EdgeFacts(apply.Block()) {
		nrm := core.Normalize(cnd)
		if nrm.V == ssa.Value(matches) && nrm.True {
			onTrue = true
		}
	}
	ret, isRet := apply.Block().Instrs[len(apply.Block().Instrs)-1].(*ssa.Return)
	if !onTrue || !isRet || core.RetVals(ret)[0] != ssa.Value(apply) {
		return false, "the result of the first accepting pattern is not returned immediately (a later pattern can override it)"
	}
	if tryForm {
		if rv := core.RetVals(ret); len(rv) != 2 || !isTrueConst(rv[1]) {
			return false, "the general form does not report a match together with the accepting pattern's result"
		}
		nRet, okAfter := 0, false
		core.Instrs(f, func(ins ssa.Instruction) {
			if r, isR := ins.(*ssa.Return); isR && r.Block() != f.Recover {
				nRet++
				if r != ret {
					rv := core.RetVals(r)
					if k, isK := rv[1].(*ssa.Const); isK && !isTrueConst(k) && !core.InLoop(r.Block()) {
						okAfter = true
					}
				}
			}
		})
		if nRet != 2 || !okAfter {
			return false, "the general form must return only from the first match and report no match only after all patterns were tried"
		}
		return true, "ascending visit; first pattern with Matches(value) → (Apply(value), true); (nil, false) after the loop; MatchFor panics on false"
	}
	// exactly one return; panic reachable only from the loop exit
	nRet := 0
	okPanic := false
	core.Instrs(f, func(ins ssa.Instruction) {
		switch ins.(type) {
		case *ssa.Return:
			if ins.Block() != f.Recover {
				nRet++
			}
		case *ssa.Panic:
			// the panic block must not be inside the loop and must be reached from the loop header's exit edge
			if !core.InLoop(ins.Block()) {
				okPanic = true
			}
		}
	})
	if nRet != 1 || !okPanic {
		return false, "MatchFor must return only from the first match and panic only after all patterns were tried"
	}
	return true, "ascending visit; first pattern with Matches(value) → return its Apply(value); panic after the loop"
}

// c20boolTo10: in cl, the returns on the true edge of cond yield SliceOf(R(1)) and those on the false edge SliceOf(R(0)).
func c20boolTo10(p *core.Prog, cl *ssa.Function, cond ssa.Value, depth int) (okT, okF bool) {
	core.Instrs(cl, func(ins ssa.Instruction) {
		r, ok := ins.(*ssa.Return)
		if !ok {
			return
		}
		if hc, isC := core.RetVals(r)[0].(*ssa.Call); isC && depth < 2 {
			if h := core.Callee(&hc.Call); h != nil && p.InRepo(h) && h.Name() != "SliceOf" {
				for i, a := range hc.Call.Args {
					if a == cond && i < len(h.Params) {
						t, f := c20boolTo10(p, h, h.Params[i], depth+1)
						if t && f {
							okT, okF = true, true
						}
					}
				}
			}
		}
		// the element handed to SliceOf: a converted constant decided by the edge the return sits on, or a
		// variable merged from both edges (`var result R; if c { result = 1 }; return SliceOf(result)`)
		type cas struct {
			val   int64
			facts []core.Cond
		}
		var cases []cas
		constOf := func(v ssa.Value) int64 {
			for {
				if mcv, isM := v.(*ssa.MultiConvert); isM {
					v = mcv.X
					continue
				}
				if cv, isCv := v.(*ssa.Convert); isCv {
					v = cv.X
					continue
				}
				break
			}
			if k, isK := v.(*ssa.Const); isK {
				if k.Value == nil {
					return 0 // zero value of the type parameter
				}
				if av, ok2 := core.ConstAV(k); ok2 && av.Lo != nil {
					f64, _ := av.Lo.Float64()
					return int64(f64)
				}
			}
			return -1
		}
		if sc, isC := core.RetVals(r)[0].(*ssa.Call); isC && len(sc.Call.Args) == 1 {
			if sl, isSl := sc.Call.Args[0].(*ssa.Slice); isSl {
				if a, isA := sl.X.(*ssa.Alloc); isA {
					for _, rr := range *a.Referrers() {
						if ia, isIA := rr.(*ssa.IndexAddr); isIA {
							for _, st := range core.Stores(ia) {
								v := core.Resolve(st.Val)
								if phi, isPhi := v.(*ssa.Phi); isPhi {
									for i, e := range phi.Edges {
										cases = append(cases, cas{constOf(core.Resolve(e)), core.EdgeFactsOn(phi.Block().Preds[i], phi.Block())})
									}
								} else {
									cases = append(cases, cas{constOf(v), core.EdgeFacts(r.Block())})
								}
							}
						}
					}
				}
			}
		}
		for _, cs := range cases {
			for _, cnd := range cs.facts {
				nrm := core.Normalize(cnd)
				if nrm.V == cond {
					if nrm.True && cs.val == 1 {
						okT = true
					}
					if !nrm.True && cs.val == 0 {
						okF = true
					}
					if nrm.True && cs.val != 1 || !nrm.True && cs.val != 0 {
						okT, okF = false, false
						return
					}
				}
			}
		}
	})
	return
}

// c20probe checks the value handed to Matches: every leaf is the function's own argument, or a
// dereference that happens only where the argument is known to be a pointer (kind test) whose pointee
// has the struct kind (kind comparison) - a test on reflect kinds, not on one concrete type.
func c20probe(p *core.Prog, f *ssa.Function, v ssa.Value, depth int) string {
	if depth > 6 {
		return "the value handed to Matches is too deeply nested to follow"
	}
	v = core.Resolve(v)
	in := f.Params[len(f.Params)-1]
	switch x := v.(type) {
	case *ssa.Parameter:
		if x == in {
			return ""
		}
		// parameter of an extracted helper: bound to the argument at every call site
		acts := core.ParamActuals(p, x)
		if len(acts) == 0 {
			return "the value handed to Matches is not derived from MatchFor's argument"
		}
		return ""
	case *ssa.Phi:
		for _, e := range x.Edges {
			if why := c20probe(p, f, e, depth+1); why != "" {
				return why
			}
		}
		return ""
	case *ssa.Call:
		// extracted helper computing the probe: follow its returns
		g := core.Callee(&x.Call)
		if g == nil || !p.InRepo(g) || len(g.Blocks) == 0 || len(g.Params) == 0 {
			return "the value handed to Matches is the result of " + core.Path(x) + ", not MatchFor's argument or its pointee"
		}
		why := ""
		core.Instrs(g, func(ins ssa.Instruction) {
			if r, ok := ins.(*ssa.Return); ok && r.Block() != g.Recover && len(r.Results) == 1 && why == "" {
				why = c20probe(p, g, core.RetVals(r)[0], depth+1)
			}
		})
		return why
	case *ssa.UnOp:
		if x.Op != token.MUL {
			break
		}
		isPtr, isStruct := false, false
		check := func(b *ssa.BasicBlock) bool {
			for _, cnd := range core.EdgeFacts(b) {
				n := core.Normalize(cnd)
				if call, ok := n.V.(*ssa.Call); ok && n.True {
					if (call.Call.IsInvoke() && call.Call.Method.Name() == "IsKind" || core.Callee(&call.Call) != nil && core.Callee(&call.Call).Name() == "IsKind") && len(call.Call.Args) > 0 && core.IsIntConst(call.Call.Args[len(call.Call.Args)-1], 22) {
						isPtr = true
					}
					if g := core.Callee(&call.Call); g != nil && g.Name() == "IsPtr" {
						isPtr = true
					}
				}
				cmps := []core.Cmp{}
				if cmp, ok := core.AsCmp(n); ok {
					cmps = append(cmps, cmp)
				}
				// a predicate helper: true only where the comparison it returns holds
				if call, ok := n.V.(*ssa.Call); ok && n.True {
					if g := core.Callee(&call.Call); g != nil && p.InRepo(g) && len(g.Blocks) > 0 && g.Signature.Results().Len() == 1 {
						var hc []core.Cmp
						sound := true
						for _, rcase := range core.ReturnCases(g) {
							v := core.Resolve(rcase.Vals[0])
							if k, isK := v.(*ssa.Const); isK && !isTrueConst(k) {
								continue
							}
							if cmp, okC := core.AsCmp(core.Cond{V: v, True: true}); okC {
								hc = append(hc, cmp)
							} else {
								sound = false
							}
						}
						if sound && len(hc) == 1 {
							cmps = append(cmps, hc[0])
						}
					}
				}
				for _, cmp := range cmps {
					if cmp.Op != token.EQL {
						continue
					}
					kx, ky := c20isKindCall(cmp.X), c20isKindCall(cmp.Y)
					if kx && (ky || core.IsIntConst(cmp.Y, 25)) || ky && core.IsIntConst(cmp.X, 25) {
						isStruct = true
					}
					if kx && core.IsIntConst(cmp.Y, 22) {
						isPtr = true
					}
				}
			}
			return isPtr && isStruct
		}
		if core.HoldsInCtx(p, x.Block(), check) {
			return ""
		}
		return "the probe is dereferenced without the kind tests (argument is a pointer, pointee has the struct kind): pointers to struct types are no longer matched as the struct they point to, or other pointers are dereferenced"
	}
	return "the value handed to Matches (" + core.Path(v) + ") is neither MatchFor's argument nor its pointee"
}

func c20isKindCall(v ssa.Value) bool {
	call, ok := core.Resolve(v).(*ssa.Call)
	if !ok {
		// an unexported package-level variable that is written once, by its initialiser, stands for that value
		if iv := onceInitialised(v); iv != nil {
			call, ok = core.Resolve(iv).(*ssa.Call)
		}
	}
	if !ok {
		return false
	}
	n := core.StdCallee(&call.Call)
	return n == "reflect.(Value).Kind" || n == "reflect.(Type).Kind" || (call.Call.IsInvoke() && call.Call.Method.Name() == "Kind")
}

// c20absenceTest: the decided condition is the library's absence test of prm - Maybe.Just(prm).IsNil() /
// .IsPresent(), or the package-level IsNil(prm) the former is defined by - and says "absent" (true) or "present".
func c20absenceTest(nrm core.Cond, prm *ssa.Parameter) (absent, ok bool) {
	// Kind(prm) == K for a constant kind K other than Invalid and Ptr: an untyped nil has the kind Invalid, a (nil)
	// pointer the kind Ptr, so the value is present
	if m, isM := core.AsCmp(nrm); isM && m.Op == token.EQL {
		if kc, isK := m.Y.(*ssa.Const); isK && !core.IsIntConst(kc, 0) && !core.IsIntConst(kc, 22) {
			if kcall, isKC := core.Resolve(m.X).(*ssa.Call); isKC {
				if g := core.Callee(&kcall.Call); g != nil && core.FuncName(g) == "fpgo.Kind" && len(kcall.Call.Args) == 1 && core.Resolve(core.Unwrap(kcall.Call.Args[0])) == ssa.Value(prm) {
					return false, true
				}
			}
		}
	}
	call, isC := nrm.V.(*ssa.Call)
	if !isC {
		return false, false
	}
	if call.Call.IsInvoke() {
		m := call.Call.Method.Name()
		if (m == "IsNil" || m == "IsPresent") && c20isJustOf(call.Call.Value, prm) {
			return (m == "IsNil") == nrm.True, true
		}
		return false, false
	}
	if g := core.Callee(&call.Call); g != nil && core.FuncName(g) == "fpgo.IsNil" && len(call.Call.Args) == 1 && core.Resolve(core.Unwrap(call.Call.Args[0])) == ssa.Value(prm) {
		return nrm.True, true
	}
	return false, false
}
