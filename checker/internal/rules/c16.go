package rules

import (
	"fmt"
	"go/token"
	"go/types"

	"fpcheck/internal/core"

	"golang.org/x/tools/go/ssa"
)

func init() {
	register(&Prop{
		ID: "C16",
		Explanation: "PMap protocol decided on SSA for both order modes: (R1, ordered mode) index round trip - the producer tags each job with the range index of its element, the worker sends the result under the key it received and applies f to the job's element, the collector stores each result under its key and fills slot i from key i; " +
			"(R2) once per element - the producer performs exactly one send per iteration and closes the job channel exactly once after the loop; a worker performs, per received element, exactly one call of f and exactly one send; (R3) termination protocol - wg.Add(1) precedes each worker `go` in the same iteration, each worker defers wg.Done(), the result channel is closed exactly once, by a goroutine that first waits on the WaitGroup and sends nothing, every sender on the result channel is a counted worker, and the caller drains the result channel until it is closed before returning; " +
			"(R4) the worker count is len(list), lowered to FixedPool only on the edge 0 < FixedPool < len(list), and it is the bound of the spawn loop. Not decided: equality with Map(f, list) when f is impure or racy; actual parallelism.",
		Trusted: append([]string{"sync.WaitGroup and channel close semantics"}, commonTrusted...),
		Run:     runC16,
	})
}

func runC16(c *core.Ctx) {
	p := c.P
	c.Rule("R1", "ordered mode: job key = element index; result key = job key; f applied to the job's element; output slot i filled from key i", 1)
	c.Rule("R2", "producer: one send per element, one close after the loop; worker: per element one call of f and one send", 4)
	c.Rule("R3", "Add(1) before each worker go; deferred Done in every worker; single close of the result channel after Wait by a non-sending goroutine; only counted workers send; caller drains until closed", 2)
	c.Rule("R4", "worker count = len(list), lowered only when 0 < FixedPool < len(list); spawn loops bounded by it", 3)
	pm := p.Func(p.Fpgo, "PMap")
	if pm == nil {
		c.Unknown("R4", "PMap", "-", "function not found")
		return
	}
	c.Analysed(core.FuncName(pm))
	// ---- R4 in PMap
	var impls []*ssa.Function
	{
		ok, detail := true, ""
		core.Instrs(pm, func(ins ssa.Instruction) {
			call, isC := ins.(*ssa.Call)
			if !isC {
				return
			}
			g := core.Callee(&call.Call)
			if g == nil || !p.InRepo(g) || !c16isImplCall(call) {
				return
			}
			dup := false
			for _, h := range impls {
				if h == g {
					dup = true
				}
			}
			if !dup {
				impls = append(impls, g)
			}
			if len(call.Call.Args) == 3 {
				// worker argument
				w := call.Call.Args[2]
				if !c16workerOK(pm, w) {
					ok, detail = false, "the worker count passed to "+g.Name()+" is not len(list) lowered only when 0 < FixedPool < len(list)"
				} else if why := c16clampTaken(pm, w, call.Block()); why != "" {
					ok, detail = false, "the worker count passed to "+g.Name()+" is still len(list) "+why+": with 0 < FixedPool < len(list) more than FixedPool goroutines apply f at a time"
				}
				if call.Call.Args[0] != ssa.Value(pm.Params[0]) || call.Call.Args[1] != ssa.Value(pm.Params[2]) {
					ok, detail = false, "f/list are not passed through unchanged"
				}
				return
			}
			// (f, list, worker) bundled into one struct value built in PMap: every store into its fields is judged
			if why := c16bundleOK(pm, call.Call.Args[0]); why != "" {
				ok, detail = false, why
			}
		})
		if len(impls) != 2 {
			ok, detail = false, fmt.Sprintf("expected the ordered and unordered implementations, found %d", len(impls))
		}
		// mode selection: the implementation that does not carry indices (unordered) is called only where
		// option.RandomOrder is known to be true
		core.Instrs(pm, func(ins ssa.Instruction) {
			call, isC := ins.(*ssa.Call)
			if !isC {
				return
			}
			g := core.Callee(&call.Call)
			if g == nil || !p.InRepo(g) || !c16isImplCall(call) {
				return
			}
			if c16carriesIndex(g) {
				return
			}
			idx := false
			for _, h := range core.HelpersOf(p, []*ssa.Function{g}) {
				if c16carriesIndex(h) {
					idx = true
				}
			}
			if idx {
				return
			}
			random := false
			for _, cnd := range core.EdgeFacts(ins.Block()) {
				n := core.Normalize(cnd)
				if n.True && core.FieldKey(n.V) == "PMapOption.RandomOrder" {
					random = true
				}
				if m, isM := core.AsCmp(n); isM {
					if core.FieldKey(m.X) == "PMapOption.RandomOrder" {
						if k, isK := m.Y.(*ssa.Const); isK && (m.Op == token.EQL && isTrueConst(k) || m.Op == token.NEQ && !isTrueConst(k)) {
							random = true
						}
					}
				}
			}
			if !random {
				ok, detail = false, "the unordered implementation ("+g.Name()+") is used where RandomOrder is not known to be set: results come back in completion order in the default (ordered) mode"
			}
		})
		c.Check(ok, "R4", "PMap/worker-count", p.Pos(pm.Pos()), "worker = len(list), or FixedPool when 0 < FixedPool < len(list)", detail+": a non-positive or oversized pool size changes how many goroutines run (0 workers = f never applied, results all zero)")
	}
	for _, im := range impls {
		c.Analysed(core.FuncName(im))
		c16impl(c, im)
	}
}

// c16workerOK: w = phi(len(list), option.FixedPool) with the FixedPool edge guarded by FixedPool > 0 && FixedPool < len(list).
func c16workerOK(pm *ssa.Function, w ssa.Value) bool {
	isLen := func(v ssa.Value) bool {
		call, ok := core.Resolve(v).(*ssa.Call)
		return ok && core.IsBuiltin(&call.Call, "len") && call.Call.Args[0] == ssa.Value(pm.Params[2])
	}
	var check func(v ssa.Value, depth int) bool
	check = func(v ssa.Value, depth int) bool {
		if depth > 5 {
			return false
		}
		if isLen(v) {
			return true
		}
		switch x := v.(type) {
		case *ssa.Phi:
			for i, e := range x.Edges {
				if check(e, depth+1) {
					continue
				}
				// a defensive clamp that can never fire: the edge is taken only where a value W that is itself a proper
				// worker count (0 <= W <= len(list)) was found negative or above len(list)
				infeasible := false
				pred := x.Block().Preds[i]
				for _, m := range core.EdgeCmps(pred) {
					if m.X == ssa.Value(x) || !check(m.X, depth+1) {
						continue
					}
					if m.Op == token.LSS && core.IsIntConst(m.Y, 0) || m.Op == token.LEQ && core.IsIntConst(m.Y, -1) || m.Op == token.GTR && isLen(m.Y) {
						infeasible = true
					}
				}
				if !infeasible {
					return false
				}
			}
			return true
		case *ssa.UnOp:
			if core.FieldKey(x) != "PMapOption.FixedPool" {
				return false
			}
			pos, lt := false, false
			for _, m := range core.EdgeCmps(x.Block()) {
				if core.FieldKey(m.X) == "PMapOption.FixedPool" {
					if m.Op == token.GTR && core.IsIntConst(m.Y, 0) {
						pos = true
					}
					if m.Op == token.LSS && (isLen(m.Y) || c16isWorkerLen(pm, m.Y)) {
						lt = true
					}
				}
			}
			return pos && lt
		}
		return false
	}
	if w == nil {
		c16lastCheck = check
		return false
	}
	return check(w, 0)
}

// c16lastCheck: the worker-count recogniser of the last c16workerOK(pm, nil) call (lets c16clampTaken reuse it).
var c16lastCheck func(ssa.Value, int) bool

// c16clampTaken: wherever the worker count handed to an implementation is the unclamped len(list), the path is one on
// which the pool-size clamp cannot apply: option == nil, FixedPool <= 0 or FixedPool >= len(list). Returns "" when that
// holds, else a description of the offending path.
func c16clampTaken(pm *ssa.Function, w ssa.Value, at *ssa.BasicBlock) string {
	isLen := func(v ssa.Value) bool {
		call, ok := core.Resolve(v).(*ssa.Call)
		return ok && core.IsBuiltin(&call.Call, "len") && call.Call.Args[0] == ssa.Value(pm.Params[2])
	}
	excluded := func(facts []core.Cond) bool {
		for _, f := range facts {
			m, ok := core.AsCmp(f)
			if !ok {
				continue
			}
			for _, c := range []core.Cmp{m, {X: m.Y, Y: m.X, Op: c16mirror(m.Op)}} {
				if c.Op == token.EQL && core.IsNilConst(c.Y) && core.Resolve(c.X) == ssa.Value(pm.Params[1]) {
					return true
				}
				if core.FieldKey(c.X) != "PMapOption.FixedPool" {
					continue
				}
				if (c.Op == token.LEQ && core.IsIntConst(c.Y, 0)) || (c.Op == token.LSS && core.IsIntConst(c.Y, 1)) || (c.Op == token.GEQ && isLen(c.Y)) {
					return true
				}
			}
		}
		return false
	}
	c16workerOK(pm, nil)
	isWorkerCount := func(v ssa.Value) bool { return c16lastCheck != nil && c16lastCheck(v, 0) }
	bad := ""
	var walk func(v ssa.Value, facts []core.Cond, depth int)
	walk = func(v ssa.Value, facts []core.Cond, depth int) {
		if depth > 5 || bad != "" {
			return
		}
		if phi, isPhi := v.(*ssa.Phi); isPhi {
			for i, e := range phi.Edges {
				// a defensive clamp that can never fire (a proper worker count found negative or above len(list))
				infeasible := false
				for _, m := range core.EdgeCmps(phi.Block().Preds[i]) {
					if m.X == ssa.Value(phi) || !isWorkerCount(m.X) {
						continue
					}
					if m.Op == token.LSS && core.IsIntConst(m.Y, 0) || m.Op == token.LEQ && core.IsIntConst(m.Y, -1) || m.Op == token.GTR && isLen(m.Y) {
						infeasible = true
					}
				}
				if infeasible {
					continue
				}
				walk(e, append(append([]core.Cond{}, facts...), core.EdgeFactsOn(phi.Block().Preds[i], phi.Block())...), depth+1)
			}
			return
		}
		if isLen(v) && !excluded(facts) {
			bad = "on a path where neither option == nil nor FixedPool <= 0 nor FixedPool >= len(list) is known"
		}
	}
	walk(w, core.EdgeFacts(at), 0)
	return bad
}

func c16mirror(op token.Token) token.Token {
	switch op {
	case token.LSS:
		return token.GTR
	case token.GTR:
		return token.LSS
	case token.LEQ:
		return token.GEQ
	case token.GEQ:
		return token.LEQ
	}
	return op
}

func c16isWorkerLen(pm *ssa.Function, v ssa.Value) bool {
	// `worker` variable holding len(list)
	call, ok := core.Resolve(v).(*ssa.Call)
	return ok && core.IsBuiltin(&call.Call, "len") && call.Call.Args[0] == ssa.Value(pm.Params[2])
}

func c16impl(c *core.Ctx, im *ssa.Function) {
	p := c.P
	name := im.Name()
	fParam, list, worker, okRoles := c16roles(im)
	if !okRoles {
		c.Unknown("R2", name, p.Pos(im.Pos()), "the implementation does not take (f, list, worker), separately or bundled in one struct")
		return
	}
	// classify closures
	var producer, workerFn, closer *ssa.Function
	// goroutine bodies started by the implementation: closures, or named helpers (their parameters are
	// then read as the arguments of the `go` statement)
	goOf := map[*ssa.Function]*ssa.Go{}
	var targets []*ssa.Function
	// the implementation may be split into unexported helpers that run only on its behalf (one call site each):
	// the frames of the group are analysed together, values are identified across them by ipv
	frames := []*ssa.Function{im}
	inGroup := map[*ssa.Function]bool{im: true}
	// siteOf: the one call of helper h made from inside the group (h may serve other implementations too)
	siteOf := map[*ssa.Function]*ssa.Call{}
	for changed := true; changed; {
		changed = false
		for _, h := range core.HelpersOf(p, []*ssa.Function{im}) {
			if inGroup[h] {
				continue
			}
			sites, complete := core.CallSites(p, h)
			if !complete {
				continue
			}
			var inside []*ssa.Call
			for _, st := range sites {
				caller := st.Caller
				for caller.Parent() != nil {
					caller = caller.Parent()
				}
				if !inGroup[caller] {
					continue
				}
				call, isCall := st.Instr.(*ssa.Call)
				if !isCall || st.Kind != "call" {
					inside = append(inside, nil, nil) // started asynchronously / deferred: not a synchronous frame
					continue
				}
				inside = append(inside, call)
			}
			if len(inside) == 1 && inside[0] != nil {
				inGroup[h], changed = true, true
				siteOf[h] = inside[0]
				frames = append(frames, h)
			}
		}
	}
	ipv := func(v ssa.Value) ssa.Value {
		for i := 0; i < 8 && v != nil; i++ {
			v = core.Resolve(v)
			if prm, isP := v.(*ssa.Parameter); isP {
				h := prm.Parent()
				site := siteOf[h]
				if h == im || !inGroup[h] || site == nil {
					return v
				}
				idx := -1
				for k, q := range h.Params {
					if q == prm {
						idx = k
					}
				}
				if idx < 0 || idx >= len(site.Call.Args) {
					return v
				}
				v = site.Call.Args[idx]
				continue
			}
			call, isC := v.(*ssa.Call)
			if !isC {
				return v
			}
			g := core.Callee(&call.Call)
			if g == nil || !inGroup[g] || g.Signature.Results().Len() != 1 {
				return v
			}
			var one ssa.Value
			for _, rcase := range core.ReturnCases(g) {
				r := core.Resolve(rcase.Vals[0])
				if one == nil {
					one = r
				} else if one != r {
					return v
				}
			}
			if one == nil {
				return v
			}
			v = one
		}
		return v
	}
	// isWorker: v is the worker count the implementation was given - the parameter itself, or what a clamp helper returns
	// for it when every other return case of the helper is excluded by 0 <= worker <= len(list), which PMap guarantees (R4)
	isWorker := func(v ssa.Value) bool {
		v = ipv(v)
		if c16same(v, worker) {
			return true
		}
		call, isC := v.(*ssa.Call)
		if !isC {
			return false
		}
		h := core.Callee(&call.Call)
		if h == nil || !p.InRepo(h) || len(h.Blocks) == 0 || h.Signature.Results().Len() != 1 {
			return false
		}
		wIdx, lIdx := -1, -1
		for i, a := range call.Call.Args {
			if c16same(ipv(a), worker) {
				wIdx = i
			}
			if lc, isL := core.Resolve(a).(*ssa.Call); isL && core.IsBuiltin(&lc.Call, "len") && c16same(ipv(lc.Call.Args[0]), list) {
				lIdx = i
			}
		}
		if wIdx < 0 || wIdx >= len(h.Params) {
			return false
		}
		w := core.LinNode(core.Path(h.Params[wIdx]))
		identity := false
		for _, rcase := range core.ReturnCases(h) {
			z := core.NewZone()
			for _, m := range rcase.Cmps() {
				z.AddCmp(m)
			}
			z.AddLin(core.LinConst(0).Add(w, -1), 0) // 0 <= worker
			if lIdx >= 0 && lIdx < len(h.Params) {
				z.AddLin(w.Add(core.LinNode(core.Path(h.Params[lIdx])), -1), 0) // worker <= len(list)
			}
			if !z.Consistent() {
				continue
			}
			if core.Resolve(rcase.Vals[0]) != ssa.Value(h.Params[wIdx]) {
				return false
			}
			identity = true
		}
		return identity
	}
	instrsFrames := func(fn func(ssa.Instruction)) {
		for _, f := range frames {
			core.Instrs(f, fn)
		}
	}
	instrsFrames(func(ins ssa.Instruction) {
		g, isG := ins.(*ssa.Go)
		if !isG {
			return
		}
		var fn *ssa.Function
		if mc, isMC := g.Call.Value.(*ssa.MakeClosure); isMC {
			fn = mc.Fn.(*ssa.Function)
		} else if h := core.Callee(&g.Call); h != nil && p.InRepo(h) {
			fn = h
		}
		if fn != nil && goOf[fn] == nil {
			goOf[fn] = g
			targets = append(targets, fn)
		}
	})
	// binding: what a value used inside a goroutine body denotes in the implementation's frame
	binding := func(fn *ssa.Function, v ssa.Value) ssa.Value {
		if prm, isP := core.Resolve(v).(*ssa.Parameter); isP && goOf[fn] != nil {
			for i, q := range fn.Params {
				if q == prm && i < len(goOf[fn].Call.Args) {
					return ipv(goOf[fn].Call.Args[i])
				}
			}
		}
		if fn.Parent() != nil && inGroup[fn.Parent()] {
			return ipv(capturedBinding(fn.Parent(), fn, core.Path(v)))
		}
		return nil
	}
	// chanName identifies a channel used in fn by the value it denotes in the implementation's frame
	chanName := func(fn *ssa.Function, v ssa.Value) string {
		var d ssa.Value
		if inGroup[fn] {
			d = ipv(v)
		} else {
			d = binding(fn, v)
		}
		if d == nil {
			return "?" + core.FuncName(fn) + ":" + core.Path(v)
		}
		if mk, isMk := d.(*ssa.MakeChan); isMk {
			return "chan@" + p.InstrPos(mk)
		}
		return core.Path(d)
	}
	for _, a := range targets {
		sendsJob, callsF, waits := false, false, false
		core.Instrs(a, func(ins ssa.Instruction) {
			switch x := ins.(type) {
			case *ssa.Call:
				if core.StdCallee(&x.Call) == "sync.(WaitGroup).Wait" {
					waits = true
				}
				if core.Callee(&x.Call) == nil && !x.Call.IsInvoke() {
					if _, isB := x.Call.Value.(*ssa.Builtin); !isB {
						callsF = true
					}
				}
			case *ssa.Send:
				sendsJob = true
			}
		})
		switch {
		case waits:
			closer = a
		case callsF:
			workerFn = a
		case sendsJob:
			producer = a
		}
	}
	if producer == nil || workerFn == nil || closer == nil {
		c.Unknown("R2", name, p.Pos(im.Pos()), "producer / worker / closer goroutines not identified")
		return
	}
	c.Analysed(core.FuncName(producer), core.FuncName(workerFn), core.FuncName(closer))
	// channels: the two MakeChan in im
	var chans []*ssa.MakeChan
	instrsFrames(func(ins ssa.Instruction) {
		if mk, ok := ins.(*ssa.MakeChan); ok {
			chans = append(chans, mk)
		}
	})
	// ---- R2 producer
	{
		var send *ssa.Send
		var closeIns ssa.Instruction
		core.Instrs(producer, func(ins ssa.Instruction) {
			if s, ok := ins.(*ssa.Send); ok {
				send = s
			}
			// close(ch) after the loop, or `defer close(ch)` registered once (it runs when the producer returns, after the loop)
			if ci, ok := ins.(ssa.CallInstruction); ok && core.IsBuiltin(ci.Common(), "close") {
				if _, isGo := ins.(*ssa.Go); !isGo {
					closeIns = ins
				}
			}
		})
		ok, detail := false, "producer does not send each element once and then close the job channel"
		if send != nil && closeIns != nil && core.InLoop(send.Block()) && !core.InLoop(closeIns.Block()) {
			min, max := core.PathCountIter(send.Block(), nil, func(ins ssa.Instruction) int {
				if _, isS := ins.(*ssa.Send); isS {
					return 1
				}
				return 0
			}, nil)
			cmin, cmax := core.PathCount(producer, func(ins ssa.Instruction) int {
				if ins == closeIns {
					return 1
				}
				return 0
			}, nil)
			sameCh := core.Path(send.Chan) == core.Path(closeIns.(ssa.CallInstruction).Common().Args[0])
			// the loop ranges over the captured list
			overList := false
			core.Instrs(producer, func(ins ssa.Instruction) {
				if ia, isIA := ins.(*ssa.IndexAddr); isIA && c16same(binding(producer, ia.X), list) && ascendingIndex(ia.Index) {
					overList = true
				}
			})
			if min == 1 && max == 1 && cmin == 1 && cmax == 1 && sameCh && overList {
				ok, detail = true, "one send per element of list, then exactly one close of the job channel"
			} else {
				detail = fmt.Sprintf("producer sends %d..%d times per element, closes %d..%d times (same channel=%v, ranges over list=%v)", min, max, cmin, cmax, sameCh, overList)
			}
		}
		c.Check(ok, "R2", name+"/producer", p.Pos(producer.Pos()), detail, detail)
	}
	// ---- R2 worker
	var resultSend *ssa.Send
	{
		var fcall *ssa.Call
		core.Instrs(workerFn, func(ins ssa.Instruction) {
			if s, ok := ins.(*ssa.Send); ok {
				resultSend = s
			}
			if call, ok := ins.(*ssa.Call); ok && core.Callee(&call.Call) == nil && !call.Call.IsInvoke() {
				if _, isB := call.Call.Value.(*ssa.Builtin); !isB {
					fcall = call
				}
			}
		})
		ok, detail := false, "worker does not call f and send once per element"
		if fcall != nil && resultSend != nil {
			isF := c16same(binding(workerFn, fcall.Call.Value), fParam)
			start := fcall.Block()
			fmin, fmax := core.PathCountIter(start, nil, func(ins ssa.Instruction) int {
				if ins == ssa.Instruction(fcall) {
					return 1
				}
				return 0
			}, nil)
			smin, smax := core.PathCountIter(start, nil, func(ins ssa.Instruction) int {
				if _, isS := ins.(*ssa.Send); isS {
					return 1
				}
				return 0
			}, nil)
			if isF && fmin == 1 && fmax == 1 && smin == 1 && smax == 1 && core.InLoop(start) {
				ok, detail = true, "per received element exactly one f(v) and one send of its result"
			} else {
				detail = fmt.Sprintf("per element f is called %d..%d times and %d..%d results are sent (f is the given function: %v)", fmin, fmax, smin, smax, isF)
			}
		}
		c.Check(ok, "R2", name+"/worker", p.Pos(workerFn.Pos()), detail, detail)
	}
	// ---- R3
	{
		ok, detail := func() (bool, string) {
			// spawn loop: go workerFn in a loop bounded by worker, preceded by wg.Add(1) in the same block
			var goW *ssa.Go
			instrsFrames(func(ins ssa.Instruction) {
				if g, isG := ins.(*ssa.Go); isG && goOf[workerFn] == g {
					goW = g
				}
			})
			if goW == nil || !core.InLoop(goW.Block()) {
				return false, "workers are not spawned in a loop"
			}
			nAdd := 0
			instrsFrames(func(ins ssa.Instruction) {
				if call, isC := ins.(ssa.CallInstruction); isC && core.StdCallee(call.Common()) == "sync.(WaitGroup).Add" {
					nAdd++
				}
			})
			if nAdd != 1 {
				return false, fmt.Sprintf("the WaitGroup is incremented at %d places: its counter would not equal the number of workers (Wait returns early or never)", nAdd)
			}
			addOK := false
			for _, ins := range goW.Block().Instrs {
				if ins == ssa.Instruction(goW) {
					break
				}
				if call, isC := ins.(*ssa.Call); isC && core.StdCallee(&call.Call) == "sync.(WaitGroup).Add" && core.IsIntConst(call.Call.Args[1], 1) {
					addOK = true
				}
			}
			if !addOK {
				// one Add(worker) for all workers, before the spawn loop (the loop spawns exactly `worker` goroutines: R4;
				// 0 <= worker holds at this point: PMap's clamp)
				var adds []*ssa.Call
				instrsFrames(func(ins ssa.Instruction) {
					if call, isC := ins.(*ssa.Call); isC && core.StdCallee(&call.Call) == "sync.(WaitGroup).Add" {
						adds = append(adds, call)
					}
				})
				if len(adds) == 1 && adds[0].Parent() == goW.Parent() && !core.InLoop(adds[0].Block()) && core.InstrDominates(adds[0], goW) && isWorker(adds[0].Call.Args[1]) {
					addOK = true
				}
			}
			if !addOK {
				return false, "wg.Add(1) does not precede each worker spawn in the same iteration: Wait can return before a worker started (result channel closed under a sender → panic) or never"
			}
			// loop bound: i < worker
			bound := false
			for _, m := range core.EdgeCmps(goW.Block()) {
				if m.Op == token.LSS && isWorker(m.Y) {
					bound = true
				}
			}
			if !bound {
				return false, "the spawn loop is not bounded by the worker count"
			}
			// worker: defer wg.Done() at entry
			doneOK := false
			for _, ins := range workerFn.Blocks[0].Instrs {
				if d, isD := ins.(*ssa.Defer); isD && core.StdCallee(&d.Call) == "sync.(WaitGroup).Done" {
					doneOK = true
				}
			}
			if !doneOK {
				return false, "workers do not `defer wg.Done()` at entry: a panicking or early-returning f leaves Wait (and PMap) hanging"
			}
			// closer: Wait then close(result channel), once, no sends
			var wait, cl ssa.Instruction
			sends := false
			core.Instrs(closer, func(ins ssa.Instruction) {
				switch x := ins.(type) {
				case *ssa.Call:
					if core.StdCallee(&x.Call) == "sync.(WaitGroup).Wait" {
						wait = ins
					}
					if core.IsBuiltin(&x.Call, "close") {
						cl = ins
					}
				case *ssa.Send:
					sends = true
				}
			})
			if wait == nil || cl == nil || sends || !core.InstrDominates(wait, cl) {
				return false, "the result channel is not closed by a dedicated goroutine after wg.Wait()"
			}
			// all closes of the result channel in the whole implementation: exactly this one
			resName := ""
			if resultSend != nil {
				resName = chanName(workerFn, resultSend.Chan)
			}
			nClose := 0
			deep := func(fn func(*ssa.Function, ssa.Instruction)) {
				for _, f := range frames {
					core.InstrsDeep(f, fn)
				}
				for _, t := range targets {
					if t.Parent() == nil || !inGroup[t.Parent()] {
						core.InstrsDeep(t, fn)
					}
				}
			}
			deep(func(f *ssa.Function, ins ssa.Instruction) {
				if ci, isC := ins.(ssa.CallInstruction); isC && core.IsBuiltin(ci.Common(), "close") {
					if chanName(f, ci.Common().Args[0]) == resName {
						nClose++
						if f != closer {
							nClose += 10
						}
					}
				}
			})
			if nClose != 1 {
				return false, "the result channel can be closed more than once or by a goroutine that did not wait for all workers (close of closed channel / send on closed channel panics in a library goroutine)"
			}
			// only workers send on it
			badSender := ""
			deep(func(f *ssa.Function, ins ssa.Instruction) {
				if s, isS := ins.(*ssa.Send); isS && chanName(f, s.Chan) == resName && f != workerFn {
					badSender = core.FuncName(f)
				}
			})
			if badSender != "" {
				return false, "an uncounted goroutine (" + badSender + ") sends on the result channel"
			}
			// caller drains until closed: a receive loop on the result channel in im whose exit is the !ok edge, and every return is after it
			// (the loop may sit in an unexported helper the caller runs synchronously with the channel as argument)
			var drain *ssa.UnOp
			var drainStack []*ssa.Call
			for _, fd := range core.DeepFind(p, im, func(ins ssa.Instruction) bool {
				u, isU := ins.(*ssa.UnOp)
				return isU && u.Op == token.ARROW && u.CommaOk && core.InLoop(u.Block())
			}) {
				if chanName(im, fd.Ins.(*ssa.UnOp).X) == resName {
					drain, drainStack = fd.Ins.(*ssa.UnOp), fd.Stack
				}
			}
			if drain == nil || len(drainStack) > 1 {
				return false, "the caller does not drain the result channel until it is closed"
			}
			okRet := true
			drainFn := drain.Parent()
			core.Instrs(drainFn, func(ins ssa.Instruction) {
				if r, isR := ins.(*ssa.Return); isR && r.Block() != drainFn.Recover {
					after := false
					for _, cnd := range core.EdgeFacts(r.Block()) {
						n := core.Normalize(cnd)
						if ex, isE := n.V.(*ssa.Extract); isE && ex.Tuple == ssa.Value(drain) && ex.Index == 1 && !n.True {
							after = true
						}
					}
					if !after {
						okRet = false
					}
				}
			})
			if len(drainStack) == 1 {
				core.Instrs(im, func(ins ssa.Instruction) {
					if r, isR := ins.(*ssa.Return); isR && r.Block() != im.Recover && !core.InstrDominates(drainStack[0], r) {
						okRet = false
					}
				})
			}
			if !okRet {
				return false, "PMap can return before the result channel was closed (not all applications finished)"
			}
			return true, "Add(1) per spawn; deferred Done; close after Wait by a non-sending goroutine; only workers send; caller drains until closed"
		}()
		c.Check(ok, "R3", name+"/termination", p.Pos(im.Pos()), detail, detail)
	}
	// ---- R4 spawn loop bound by worker, both loops
	{
		ok := false
		instrsFrames(func(ins ssa.Instruction) {
			if g, isG := ins.(*ssa.Go); isG && core.InLoop(g.Block()) {
				for _, m := range core.EdgeCmps(g.Block()) {
					if m.Op == token.LSS && isWorker(m.Y) && ascendingFromZero(m.X) {
						ok = true
					}
				}
			}
		})
		c.Check(ok, "R4", name+"/spawn-bound", p.Pos(im.Pos()), "workers spawned for i = 0 .. worker-1", "the number of spawned workers is not exactly the worker count")
	}
	// ---- R1 ordered mode only (jobs are maps keyed by index)
	if _, isMap := chans[0].Type().Underlying().(*types.Chan).Elem().Underlying().(*types.Map); isMap {
		ok, detail := c16ordered(p, im, producer, workerFn, list, fParam, binding)
		c.Check(ok, "R1", name+"/index-round-trip", p.Pos(im.Pos()), detail, detail)
	} else if _, isSt := chans[0].Type().Underlying().(*types.Chan).Elem().Underlying().(*types.Struct); isSt {
		// jobs and results are {index, value} structs
		ok, detail := c16orderedStruct(p, im, producer, workerFn, list, fParam, binding)
		c.Check(ok, "R1", name+"/index-round-trip", p.Pos(im.Pos()), detail, detail)
	}
}

// c16lit: v is a struct value built field by field in a local cell (composite literal) and loaded; returns the value
// stored into each field.
func c16lit(v ssa.Value) map[int]ssa.Value {
	ld, ok := core.Unwrap(v).(*ssa.UnOp)
	if !ok {
		return nil
	}
	al, ok := ld.X.(*ssa.Alloc)
	if !ok {
		return nil
	}
	out := map[int]ssa.Value{}
	for _, r := range *al.Referrers() {
		if fa, isFA := r.(*ssa.FieldAddr); isFA {
			for _, st := range core.Stores(fa) {
				out[fa.Field] = st.Val
			}
		}
	}
	return out
}

// c16fieldRead: v reads field #k of a struct; holder is the struct value read from (a cell holding one stored value is
// replaced by that value).
func c16fieldRead(v ssa.Value) (holder ssa.Value, k int, ok bool) {
	switch x := core.Resolve(v).(type) {
	case *ssa.Field:
		return core.Resolve(x.X), x.Field, true
	case *ssa.UnOp:
		if fa, isFA := x.X.(*ssa.FieldAddr); isFA {
			h := ssa.Value(fa.X)
			if al, isAl := fa.X.(*ssa.Alloc); isAl {
				if st := core.Stores(al); len(st) == 1 {
					h = core.Resolve(st[0].Val)
				}
			}
			return h, fa.Field, true
		}
	}
	return nil, 0, false
}

// c16keyField: the index of the only int-typed field of a two-field struct type (the element index), and of the other.
func c16keyField(t types.Type) (key, val int, ok bool) {
	st, isSt := t.Underlying().(*types.Struct)
	if !isSt || st.NumFields() != 2 {
		return 0, 0, false
	}
	key = -1
	for i := 0; i < 2; i++ {
		if b, isB := st.Field(i).Type().Underlying().(*types.Basic); isB && b.Kind() == types.Int {
			if key >= 0 {
				return 0, 0, false
			}
			key = i
		}
	}
	if key < 0 {
		return 0, 0, false
	}
	return key, 1 - key, true
}

// c16orderedStruct is the index round trip for {index, value} carriers.
func c16orderedStruct(p *core.Prog, im, producer, workerFn *ssa.Function, list, fParam ssa.Value, binding func(*ssa.Function, ssa.Value) ssa.Value) (bool, string) {
	received := func(v ssa.Value) bool {
		v = core.Resolve(v)
		if ex, isE := v.(*ssa.Extract); isE && ex.Index == 0 {
			v = ex.Tuple
		}
		u, isU := v.(*ssa.UnOp)
		return isU && u.Op == token.ARROW
	}
	// producer: {index: i, value: list[i]}
	okP := false
	core.Instrs(producer, func(ins ssa.Instruction) {
		snd, ok := ins.(*ssa.Send)
		if !ok {
			return
		}
		lit := c16lit(snd.X)
		k, v, okK := c16keyField(snd.X.Type())
		if lit == nil || !okK || lit[k] == nil || lit[v] == nil {
			return
		}
		if ld, isLd := core.Resolve(lit[v]).(*ssa.UnOp); isLd {
			if ia, isIA := ld.X.(*ssa.IndexAddr); isIA && ia.Index == core.Resolve(lit[k]) && ascendingIndex(ia.Index) && c16same(binding(producer, ia.X), list) {
				okP = true
			}
		}
	})
	if !okP {
		return false, "jobs are not tagged with the index of their element in the input list"
	}
	// worker: {index: job.index, value: f(job.value)}
	okW := false
	core.Instrs(workerFn, func(ins ssa.Instruction) {
		snd, ok := ins.(*ssa.Send)
		if !ok {
			return
		}
		lit := c16lit(snd.X)
		k, v, okK := c16keyField(snd.X.Type())
		if lit == nil || !okK || lit[k] == nil || lit[v] == nil {
			return
		}
		hk, fk, ok1 := c16fieldRead(lit[k])
		call, isC := core.Resolve(lit[v]).(*ssa.Call)
		if !ok1 || !isC || len(call.Call.Args) != 1 || !received(hk) {
			return
		}
		hv, fv, ok2 := c16fieldRead(call.Call.Args[0])
		jk, jv, okJ := c16keyField(hk.Type())
		if ok2 && okJ && hv == hk && fk == jk && fv == jv {
			okW = true
		}
	})
	if !okW {
		return false, "a worker does not send f(element) under the index it received with that element"
	}
	// collector: byIndex[r.index] = r.value (then slot i = byIndex[i]), or slot r.index = r.value directly
	okC1, okC2 := false, false
	var collected []core.Leaf
	fromResult := func(kv, vv ssa.Value) bool {
		hk, fk, ok1 := c16fieldRead(kv)
		hv, fv, ok2 := c16fieldRead(vv)
		if !ok1 || !ok2 || hk != hv || !received(hk) {
			return false
		}
		jk, jv, okJ := c16keyField(hk.Type())
		return okJ && fk == jk && fv == jv
	}
	for _, fd := range core.DeepFind(p, im, func(ins ssa.Instruction) bool {
		switch x := ins.(type) {
		case *ssa.MapUpdate:
			return fromResult(x.Key, x.Value)
		case *ssa.Store:
			ia, isIA := x.Addr.(*ssa.IndexAddr)
			return isIA && fromResult(ia.Index, x.Val)
		}
		return false
	}) {
		okC1 = true
		if mu, isMU := fd.Ins.(*ssa.MapUpdate); isMU {
			collected = append(collected, core.Origins(p, mu.Map, fd.Stack)...)
		} else {
			okC2 = true // written straight into its slot
		}
	}
	for _, fd := range core.DeepFind(p, im, func(ins ssa.Instruction) bool {
		x, isSt := ins.(*ssa.Store)
		if !isSt {
			return false
		}
		ia, isIA := x.Addr.(*ssa.IndexAddr)
		lk, isLk := x.Val.(*ssa.Lookup)
		return isIA && isLk && ia.Index == lk.Index && !lk.CommaOk
	}) {
		for _, src := range core.Origins(p, fd.Ins.(*ssa.Store).Val.(*ssa.Lookup).X, fd.Stack) {
			for _, cl := range collected {
				if src.Val == cl.Val {
					okC2 = true
				}
			}
		}
	}
	if !okC1 && !okC2 {
		// direct placement: every entry (k, v) of a received map is stored at slot k of a slice made for the run
		for _, fd := range core.DeepFind(p, im, func(ins ssa.Instruction) bool {
			x, isSt := ins.(*ssa.Store)
			if !isSt {
				return false
			}
			ia, isIA := x.Addr.(*ssa.IndexAddr)
			if !isIA {
				return false
			}
			k, okK := ia.Index.(*ssa.Extract)
			v, okV := x.Val.(*ssa.Extract)
			if !okK || !okV || k.Tuple != v.Tuple || k.Index != 1 || v.Index != 2 {
				return false
			}
			_, isNext := k.Tuple.(*ssa.Next)
			return isNext
		}) {
			for _, src := range core.Origins(p, fd.Ins.(*ssa.Store).Addr.(*ssa.IndexAddr).X, fd.Stack) {
				if _, isMk := src.Val.(*ssa.MakeSlice); isMk {
					okC1, okC2 = true, true
				}
			}
		}
		if okC1 {
			return true, "job key = element index → result key = job key → slot k = value received under key k"
		}
	}
	if !okC1 || !okC2 {
		return false, "results are not re-assembled by index (collected under their index and slot i filled from index i): output order would follow arrival order"
	}
	return true, "job index = element index → result index = job index → slot i = result of index i"
}

func ascendingFromZero(v ssa.Value) bool {
	phi, ok := v.(*ssa.Phi)
	if !ok {
		return false
	}
	zero, inc := false, false
	for _, e := range phi.Edges {
		if core.IsIntConst(e, 0) {
			zero = true
		}
		if b, isB := e.(*ssa.BinOp); isB && b.Op == token.ADD && b.X == ssa.Value(phi) && core.IsIntConst(b.Y, 1) {
			inc = true
		}
	}
	return zero && inc
}

func c16ordered(p *core.Prog, im, producer, workerFn *ssa.Function, list, fParam ssa.Value, binding func(*ssa.Function, ssa.Value) ssa.Value) (bool, string) {
	// producer: map update key = range index of list, value = list[index]
	okP := false
	// (the tagged job may be built by a small constructor helper: its key/value parameters are read as the arguments)
	for _, fd := range core.DeepFind(p, producer, func(ins ssa.Instruction) bool {
		_, ok := ins.(*ssa.MapUpdate)
		return ok
	}) {
		mu := fd.Ins.(*ssa.MapUpdate)
		key, kst := core.Up(mu.Key, fd.Stack)
		val, vst := core.Up(mu.Value, fd.Stack)
		if len(kst) != 0 || len(vst) != 0 {
			continue
		}
		ld, ok := core.Resolve(val).(*ssa.UnOp)
		if !ok {
			continue
		}
		ia, ok := ld.X.(*ssa.IndexAddr)
		if ok && ia.Index == core.Resolve(key) && ascendingIndex(ia.Index) && c16same(binding(producer, ia.X), list) {
			okP = true
		}
	}
	if !okP {
		return false, "jobs are not tagged with the index of their element in the input list"
	}
	// worker: result map key = key of the job entry; value = f(entry value)
	okW := false
	for _, fd := range core.DeepFind(p, workerFn, func(ins ssa.Instruction) bool {
		_, ok := ins.(*ssa.MapUpdate)
		return ok
	}) {
		mu := fd.Ins.(*ssa.MapUpdate)
		kv, kst := core.Up(mu.Key, fd.Stack)
		vv, vst := core.Up(mu.Value, fd.Stack)
		if len(kst) != 0 || len(vst) != 0 {
			continue
		}
		k, okK := core.Resolve(kv).(*ssa.Extract)
		call, okC := core.Resolve(vv).(*ssa.Call)
		if !okK || !okC || k.Index != 1 || len(call.Call.Args) != 1 {
			continue
		}
		v, okV := call.Call.Args[0].(*ssa.Extract)
		if okV && v.Tuple == k.Tuple && v.Index == 2 {
			if _, isNext := k.Tuple.(*ssa.Next); isNext {
				okW = true
			}
		}
	}
	if !okW {
		return false, "a worker does not send f(element) under the key it received with that element"
	}
	// collector: newListMap[k] = v for entries of received maps; newList[i] = newListMap[i]
	// (the collecting loop may sit in an unexported helper that returns the map)
	okC1, okC2 := false, false
	var collected []core.Leaf
	for _, fd := range core.DeepFind(p, im, func(ins ssa.Instruction) bool {
		x, isMU := ins.(*ssa.MapUpdate)
		if !isMU {
			return false
		}
		k, okK := x.Key.(*ssa.Extract)
		v, okV := x.Value.(*ssa.Extract)
		return okK && okV && k.Tuple == v.Tuple && k.Index == 1 && v.Index == 2
	}) {
		okC1 = true
		collected = append(collected, core.Origins(p, fd.Ins.(*ssa.MapUpdate).Map, fd.Stack)...)
	}
	for _, fd := range core.DeepFind(p, im, func(ins ssa.Instruction) bool {
		x, isSt := ins.(*ssa.Store)
		if !isSt {
			return false
		}
		ia, isIA := x.Addr.(*ssa.IndexAddr)
		lk, isLk := x.Val.(*ssa.Lookup)
		return isIA && isLk && ia.Index == lk.Index && !lk.CommaOk
	}) {
		// the map read is the map collected into
		for _, src := range core.Origins(p, fd.Ins.(*ssa.Store).Val.(*ssa.Lookup).X, fd.Stack) {
			for _, cl := range collected {
				if src.Val == cl.Val {
					okC2 = true
				}
			}
		}
	}
	if !okC1 && !okC2 {
		// direct placement: every entry (k, v) of a received map is stored at slot k of a slice made for the run
		for _, fd := range core.DeepFind(p, im, func(ins ssa.Instruction) bool {
			x, isSt := ins.(*ssa.Store)
			if !isSt {
				return false
			}
			ia, isIA := x.Addr.(*ssa.IndexAddr)
			if !isIA {
				return false
			}
			k, okK := ia.Index.(*ssa.Extract)
			v, okV := x.Val.(*ssa.Extract)
			if !okK || !okV || k.Tuple != v.Tuple || k.Index != 1 || v.Index != 2 {
				return false
			}
			_, isNext := k.Tuple.(*ssa.Next)
			return isNext
		}) {
			for _, src := range core.Origins(p, fd.Ins.(*ssa.Store).Addr.(*ssa.IndexAddr).X, fd.Stack) {
				if _, isMk := src.Val.(*ssa.MakeSlice); isMk {
					okC1, okC2 = true, true
				}
			}
		}
		if okC1 {
			return true, "job key = element index → result key = job key → slot k = value received under key k"
		}
	}
	if !okC1 || !okC2 {
		return false, "results are not re-assembled by index (collected under their key and slot i filled from key i): output order would follow arrival order"
	}
	return true, "job key = element index → result key = job key → slot i = result[i]"
}

// c16carriesIndex: the implementation tags its jobs with the element index (its job channel carries maps keyed by int).
func c16carriesIndex(im *ssa.Function) bool {
	found := false
	core.InstrsDeep(im, func(_ *ssa.Function, ins ssa.Instruction) {
		if mk, ok := ins.(*ssa.MakeChan); ok {
			if ch, isCh := mk.Type().Underlying().(*types.Chan); isCh {
				if _, isMap := ch.Elem().Underlying().(*types.Map); isMap {
					found = true
				}
				if st, isSt := ch.Elem().Underlying().(*types.Struct); isSt && st.NumFields() >= 2 {
					found = true // {index, value} job struct
				}
			}
		}
	})
	for _, h := range im.AnonFuncs {
		_ = h
	}
	return found
}


// c16isImplCall: a call of PMap to one of its implementations - (f, list, worker) as three arguments, or bundled into one
// struct argument with a function, a slice and an int field.
func c16isImplCall(call *ssa.Call) bool {
	if len(call.Call.Args) == 3 {
		return true
	}
	if len(call.Call.Args) != 1 {
		return false
	}
	_, _, _, ok := c16bundleFields(call.Call.Args[0].Type())
	return ok
}

// c16bundleFields: the indices of the function, slice and int fields of a three-role bundle struct.
func c16bundleFields(t types.Type) (fi, li, wi int, ok bool) {
	if pt, isP := t.Underlying().(*types.Pointer); isP {
		t = pt.Elem()
	}
	st, isSt := t.Underlying().(*types.Struct)
	if !isSt {
		return 0, 0, 0, false
	}
	fi, li, wi = -1, -1, -1
	for i := 0; i < st.NumFields(); i++ {
		switch u := st.Field(i).Type().Underlying().(type) {
		case *types.Signature:
			if fi < 0 {
				fi = i
			}
		case *types.Slice:
			if li < 0 {
				li = i
			}
		case *types.Basic:
			if u.Kind() == types.Int && wi < 0 {
				wi = i
			}
		}
	}
	return fi, li, wi, fi >= 0 && li >= 0 && wi >= 0
}

// c16roles: the values that stand for f, list and worker inside an implementation: its three parameters (by type), or the
// reads of the corresponding fields of its one bundle parameter.
func c16roles(im *ssa.Function) (f, list, worker ssa.Value, ok bool) {
	if len(im.Params) == 3 {
		for _, prm := range im.Params {
			switch u := prm.Type().Underlying().(type) {
			case *types.Signature:
				f = prm
			case *types.Slice:
				list = prm
			case *types.Basic:
				if u.Kind() == types.Int {
					worker = prm
				}
			}
		}
		return f, list, worker, f != nil && list != nil && worker != nil
	}
	if len(im.Params) != 1 {
		return nil, nil, nil, false
	}
	fi, li, wi, okB := c16bundleFields(im.Params[0].Type())
	if !okB {
		return nil, nil, nil, false
	}
	core.Instrs(im, func(ins ssa.Instruction) {
		v, isV := ins.(ssa.Value)
		if !isV {
			return
		}
		if k, okK := c16bundleRead(v, im.Params[0]); okK {
			switch {
			case k == fi && f == nil:
				f = v
			case k == li && list == nil:
				list = v
			case k == wi && worker == nil:
				worker = v
			}
		}
	})
	return f, list, worker, f != nil && list != nil && worker != nil
}

// c16bundleRead: v reads field #k of the bundle parameter (directly, or through the cell the parameter was spilled into).
func c16bundleRead(v ssa.Value, prm *ssa.Parameter) (int, bool) {
	switch x := v.(type) {
	case *ssa.Field:
		if core.Resolve(x.X) == ssa.Value(prm) {
			return x.Field, true
		}
	case *ssa.UnOp:
		if fa, isFA := x.X.(*ssa.FieldAddr); isFA && x.Op == token.MUL {
			base := fa.X
			if al, isAl := base.(*ssa.Alloc); isAl {
				if st := core.Stores(al); len(st) == 1 && st[0].Val == ssa.Value(prm) {
					return fa.Field, true
				}
			}
			if core.Resolve(base) == ssa.Value(prm) {
				return fa.Field, true
			}
		}
	}
	return 0, false
}

// c16same: v is the role value, or another read of the same bundle field.
func c16same(v, role ssa.Value) bool {
	if v == nil || role == nil {
		return false
	}
	v = core.Resolve(v)
	if v == role {
		return true
	}
	ri, isRI := role.(ssa.Instruction)
	if !isRI || len(ri.Parent().Params) != 1 {
		return false
	}
	prm := ri.Parent().Params[0]
	k1, ok1 := c16bundleRead(role, prm)
	k2, ok2 := c16bundleRead(v, prm)
	return ok1 && ok2 && k1 == k2
}

// c16bundleOK: the bundle handed to an implementation was built in PMap with f and list passed through and a worker field
// that only ever receives len(list), or FixedPool where 0 < FixedPool < the field's current value.
func c16bundleOK(pm *ssa.Function, arg ssa.Value) string {
	ld, ok := core.Unwrap(arg).(*ssa.UnOp)
	if !ok {
		return "the bundle handed to the implementation is not a struct built in PMap"
	}
	al, ok := ld.X.(*ssa.Alloc)
	if !ok {
		return "the bundle handed to the implementation is not a struct built in PMap"
	}
	fi, li, wi, okB := c16bundleFields(al.Type())
	if !okB {
		return "the bundle does not carry (f, list, worker)"
	}
	isLen := func(v ssa.Value) bool {
		call, ok := core.Resolve(v).(*ssa.Call)
		return ok && core.IsBuiltin(&call.Call, "len") && call.Call.Args[0] == ssa.Value(pm.Params[2])
	}
	isWorkerRead := func(v ssa.Value) bool {
		u, isU := core.Unwrap(v).(*ssa.UnOp)
		if !isU {
			return false
		}
		fa, isFA := u.X.(*ssa.FieldAddr)
		return isFA && fa.X == ssa.Value(al) && fa.Field == wi
	}
	nW := 0
	for _, r := range *al.Referrers() {
		fa, isFA := r.(*ssa.FieldAddr)
		if !isFA {
			continue
		}
		for _, st := range core.Stores(fa) {
			v := core.Resolve(st.Val)
			switch fa.Field {
			case fi:
				if v != ssa.Value(pm.Params[0]) {
					return "f/list are not passed through unchanged"
				}
			case li:
				if v != ssa.Value(pm.Params[2]) {
					return "f/list are not passed through unchanged"
				}
			case wi:
				nW++
				if isLen(v) {
					continue
				}
				okFP := false
				if core.FieldKey(v) == "PMapOption.FixedPool" {
					pos, lt := false, false
					for _, m := range core.EdgeCmps(st.Block()) {
						if core.FieldKey(m.X) == "PMapOption.FixedPool" {
							if m.Op == token.GTR && core.IsIntConst(m.Y, 0) {
								pos = true
							}
							if m.Op == token.LSS && (isLen(m.Y) || isWorkerRead(m.Y)) {
								lt = true
							}
						}
					}
					okFP = pos && lt
				}
				if !okFP {
					return "the worker count handed to the implementation is not len(list) lowered only when 0 < FixedPool < len(list)"
				}
			}
		}
	}
	if nW == 0 {
		return "the worker count handed to the implementation is never set"
	}
	return ""
}
