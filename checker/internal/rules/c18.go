package rules

import (
	"fmt"
	"go/token"

	"fpcheck/internal/core"

	"golang.org/x/tools/go/ssa"
)

func init() {
	register(&Prop{
		ID: "C18",
		Explanation: "Interceptor chain decided on SSA: (R1) in the visitor reached from RoundTrip, the interceptor at the current index is called exactly once with the incoming request; on its non-nil error the function returns (nil, err) without any further call; otherwise it continues with index+1 and the same request; the wrapped transport is called only on the index >= Len() edge, with the same request value, and its result is returned unchanged; RoundTrip starts at index 0. " +
			"(R2) re-wrap guard: the wrapped-transport field is stored only on the edge client.Transport != lastTransport, from the client's current transport, and on that edge both client.Transport and lastTransport are set to the SimpleHTTP itself, so the wrapped transport is never the SimpleHTTP (no recursion, chain not doubled); requests go through client.Do of the stored client. " +
			"(R3) the interceptor list is only updated with persistent stream operations: Add appends per argument in order, Remove uses RemoveItem per argument, Clear assigns an empty stream. Not decided: Add/Remove histories with duplicates at value level; a hand-built SimpleHTTPDef{} without constructor.",
		Trusted: append([]string{"net/http calls the client's Transport.RoundTrip once per request attempt"}, commonTrusted...),
		Run:     runC18,
		Relies: []Dep{
			{Prop: "C05", Rule: "R2", Keys: []string{"StreamDef.RemoveItem~", "StreamDef.Append~", "StreamDef.Concat~"}, Floor: 3, Why: "the interceptor list is edited with Stream.Append/RemoveItem, whose element semantics are pinned by agreement with their interface{} twins"},
		},
	})
}

func runC18(c *core.Ctx) {
	p := c.P
	c.Rule("R1", "chain shape: interceptor[index] called once with the request; error aborts with (nil, err); else index+1 with the same request; transport only on index >= Len() with the same request, result returned unchanged; RoundTrip starts at 0", 2)
	c.Rule("R2", "re-wrap guard: clientTransport stored only under client.Transport != lastTransport from the client's transport; both client.Transport and lastTransport then set to the receiver; DoRequest uses the stored client", 2)
	c.Rule("R3", "interceptor list bookkeeping uses only persistent operations in argument order (Append / RemoveItem per argument; Clear = empty stream)", 3)
	rt := p.Method(p.Network, "SimpleHTTPDef", "RoundTrip")
	if rt == nil {
		c.Unknown("R1", "SimpleHTTPDef.RoundTrip", "-", "RoundTrip not found")
		return
	}
	// visitor = the repo function RoundTrip delegates to with (request, 0)
	var visit *ssa.Function
	startOK := false
	core.Instrs(rt, func(ins ssa.Instruction) {
		if call, ok := ins.(*ssa.Call); ok {
			if g := core.Callee(&call.Call); g != nil && p.InRepo(g) && len(call.Call.Args) == 3 {
				visit = g
				startOK = call.Call.Args[0] == ssa.Value(rt.Params[0]) && call.Call.Args[1] == ssa.Value(rt.Params[1]) && core.IsIntConst(call.Call.Args[2], 0)
			}
		}
	})
	if visit == nil {
		// RoundTrip may contain the loop itself
		visit = rt
		startOK = true
	}
	c.Analysed(core.FuncName(rt), core.FuncName(visit))
	retPass := true
	core.Instrs(rt, func(ins ssa.Instruction) {
		if r, ok := ins.(*ssa.Return); ok && visit != rt {
			for i, v := range core.RetVals(r) {
				ex, isE := v.(*ssa.Extract)
				if !isE || ex.Index != i {
					retPass = false
				}
			}
		}
	})
	c.Check(startOK && retPass, "R1", "SimpleHTTPDef.RoundTrip/start", p.Pos(rt.Pos()), "starts the visit at index 0 with the incoming request and returns its result", "RoundTrip does not start the chain at interceptor 0 with the incoming request (or alters the result)")
	ok, detail := c18visit(p, visit)
	c.Check(ok, "R1", core.FuncName(visit)+"/chain", p.Pos(visit.Pos()), detail, detail)
	// ---- R2
	if sh := p.Method(p.Network, "SimpleHTTPDef", "SetHTTPClient"); sh == nil {
		c.Unknown("R2", "SimpleHTTPDef.SetHTTPClient", "-", "method not found")
	} else {
		c.Analysed(core.FuncName(sh))
		ok, detail := c18guard(p, sh)
		if ok {
			// the given client becomes the one requests are sent through, on every path
			min, max := core.DeepCount(p, sh, func(ins ssa.Instruction) bool {
				st, isS := ins.(*ssa.Store)
				if !isS || core.FieldKey(st.Addr) != "SimpleHTTPDef.client" {
					return false
				}
				v, _ := core.Up(st.Val, nil)
				prm, isP := core.ResolveIP(p, v).(*ssa.Parameter)
				return isP && prm.Parent() == sh
			}, nil)
			if min != 1 || max != 1 {
				ok, detail = false, fmt.Sprintf("SetHTTPClient stores the given client as the active one %d..%d times on a path (must be exactly once): later requests keep going through the previous client", min, max)
			}
		}
		c.Check(ok, "R2", "SimpleHTTPDef.SetHTTPClient", p.Pos(sh.Pos()), detail, detail)
	}
	if dr := p.Method(p.Network, "SimpleHTTPDef", "DoRequest"); dr == nil {
		c.Unknown("R2", "SimpleHTTPDef.DoRequest", "-", "method not found")
	} else {
		c.Analysed(core.FuncName(dr))
		n, okDo := 0, false
		core.Instrs(dr, func(ins ssa.Instruction) {
			if call, isC := ins.(*ssa.Call); isC && core.StdCallee(&call.Call) == "net/http.(Client).Do" {
				n++
				okDo = core.FieldKey(call.Call.Args[0]) == "SimpleHTTPDef.client" && core.FieldBase(call.Call.Args[0]) == dr.Params[0].Name() && call.Call.Args[1] == ssa.Value(dr.Params[1])
			}
		})
		// the client field is only written by SetHTTPClient and the constructor literal
		writers := map[string]bool{}
		for _, f := range p.Funcs {
			core.Instrs(f, func(ins ssa.Instruction) {
				if st, isS := ins.(*ssa.Store); isS && core.FieldKey(st.Addr) == "SimpleHTTPDef.client" {
					// initialising the object a constructor is building is not a later rebinding of the client
					if fa, isFA := st.Addr.(*ssa.FieldAddr); isFA {
						if _, fresh := core.Resolve(core.FieldOwner(fa)).(*ssa.Alloc); fresh && f.Signature.Recv() == nil {
							return
						}
					}
					writers[core.FuncName(f)] = true
				}
			})
		}
		// per-instance client: a constructor must not install a client read out of package-level state (a shared
		// default object): every SimpleHTTP built that way wraps the same client, and each SetHTTPClient chains another
		// instance's interceptors in front of it
		nCl, badCl, posCl := 0, "", p.Pos(dr.Pos())
		for _, f := range p.Funcs {
			core.Instrs(f, func(ins ssa.Instruction) {
				if st, isS := ins.(*ssa.Store); isS && core.FieldKey(st.Addr) == "SimpleHTTPDef.client" {
					nCl++
					if g := sharedOrigin(p, st.Val); g != "" && badCl == "" {
						badCl, posCl = core.FuncName(f)+" installs a client taken from the package-level "+g+": all instances built this way share one http.Client, so their interceptor chains are stacked on each other and a request of one instance runs the interceptors of the others", p.InstrPos(ins)
					}
				}
			})
		}
		c.Check(badCl == "", "R2", "SimpleHTTPDef.client/per-instance", posCl, fmt.Sprintf("%d stores of the client, none takes it from package-level state", nCl), badCl)
		okW := true
		for w := range writers {
			if w != "network.SimpleHTTPDef.SetHTTPClient" && w != "network.NewSimpleHTTPWithClientAndInterceptors" {
				okW = false
			}
		}
		c.Check(n == 1 && okDo && okW, "R2", "SimpleHTTPDef.DoRequest", p.Pos(dr.Pos()), "one client.Do(request) on the stored client; client only set by SetHTTPClient/constructor", fmt.Sprintf("DoRequest does not send exactly once through the stored (wrapped) client (calls=%d, shape ok=%v, writers ok=%v): interceptors are bypassed or run twice", n, okDo, okW))
	}
	// ---- R3
	type spec struct{ name, op string }
	for _, s := range []spec{{"AddInterceptor", "Append"}, {"RemoveInterceptor", "RemoveItem"}} {
		f := p.Method(p.Network, "SimpleHTTPDef", s.name)
		key := "SimpleHTTPDef." + s.name
		if f == nil {
			c.Unknown("R3", key, "-", "method not found")
			continue
		}
		c.Analysed(core.FuncName(f))
		// a range loop over the variadic parameter; per element: interceptors = *interceptors.Op(elem)
		var st *ssa.Store
		nSt := 0
		core.Instrs(f, func(ins ssa.Instruction) {
			if x, isS := ins.(*ssa.Store); isS && core.FieldKey(x.Addr) == "SimpleHTTPDef.interceptors" {
				st, nSt = x, nSt+1
			}
		})
		ok, detail := false, "expected exactly one store to the interceptor list inside a loop over the arguments"
		if nSt == 1 && !core.InLoop(st.Block()) {
			// the whole batch at once: interceptors = *interceptors.Op(args...) with the variadic parameter itself
			if call, opName := c18listOp(p, core.Resolve(st.Val)); call != nil && opName == s.op && len(call.Call.Args) == 2 &&
				core.FieldKey(call.Call.Args[0]) == "SimpleHTTPDef.interceptors" && core.Resolve(call.Call.Args[1]) == ssa.Value(f.Params[1]) {
				ok, detail = true, "the whole argument list, in order: interceptors = *interceptors."+s.op+"(args...)"
			}
		}
		if nSt == 1 && core.InLoop(st.Block()) {
			call, opName := c18listOp(p, core.Resolve(st.Val))
			if call != nil {
				{
					g := core.Callee(&call.Call)
					if opName == s.op && core.FieldKey(call.Call.Args[0]) == "SimpleHTTPDef.interceptors" {
						// argument: a one-element slice holding the range element of the parameter, ascending index
						elemOK := false
						if len(call.Call.Args) == 2 {
							if sl, isSl := call.Call.Args[1].(*ssa.Slice); isSl {
								if a, isA := sl.X.(*ssa.Alloc); isA {
									for _, r := range *a.Referrers() {
										if ia, isIA := r.(*ssa.IndexAddr); isIA {
											for _, es := range core.Stores(ia) {
												if ld, isLd := es.Val.(*ssa.UnOp); isLd {
													if src, isSrc := ld.X.(*ssa.IndexAddr); isSrc && src.X == ssa.Value(f.Params[1]) && ascendingIndex(src.Index) {
														elemOK = true
													}
												}
											}
										}
									}
								}
							}
						}
						if elemOK {
							ok, detail = true, "per argument, in ascending order: interceptors = *interceptors."+s.op+"(arg)"
						} else {
							detail = "the element passed to " + s.op + " is not the current argument in ascending order"
						}
					} else if g != nil {
						detail = "the list is updated with " + g.Name() + ", expected persistent " + s.op
					}
				}
			} else {
				detail = "the interceptor list is assigned something other than the result of a persistent stream operation (e.g. an in-place append that shares the caller's array)"
			}
		}
		c.Check(ok, "R3", key, p.Pos(f.Pos()), detail, detail)
	}
	if f := p.Method(p.Network, "SimpleHTTPDef", "ClearInterceptor"); f == nil {
		c.Unknown("R3", "SimpleHTTPDef.ClearInterceptor", "-", "method not found")
	} else {
		ok := false
		core.Instrs(f, func(ins ssa.Instruction) {
			if x, isS := ins.(*ssa.Store); isS && core.FieldKey(x.Addr) == "SimpleHTTPDef.interceptors" {
				switch v := core.Resolve(x.Val).(type) {
				case *ssa.Const:
					ok = true
				case *ssa.Slice:
					if _, isA := v.X.(*ssa.Alloc); isA {
						ok = true
					}
				case *ssa.MakeSlice:
					ok = core.IsIntConst(v.Len, 0)
				}
			}
		})
		c.Check(ok, "R3", "SimpleHTTPDef.ClearInterceptor", p.Pos(f.Pos()), "assigns a new empty stream", "Clear does not assign a new empty stream")
	}
}

// c18listOp: v is the value stored into the interceptor list. Returns the call that produced it and the name of the
// persistent stream operation it stands for: `*list.Op(items...)`, or - one level lower - the library's slice helper that
// Op itself hands (*receiver, items) to on its non-identity path (`fpgo.Minus(list, items)` for RemoveItem).
func c18listOp(p *core.Prog, v ssa.Value) (*ssa.Call, string) {
	if u, isU := v.(*ssa.UnOp); isU && u.Op == token.MUL {
		if call, isC := core.Resolve(u.X).(*ssa.Call); isC {
			if g := core.Callee(&call.Call); g != nil && isStreamMethod(g) {
				return call, g.Name()
			}
		}
		return nil, ""
	}
	call, isC := v.(*ssa.Call)
	if !isC {
		return nil, ""
	}
	h := core.Callee(&call.Call)
	if h == nil || h.Pkg != p.Fpgo || h.Signature.Recv() != nil || len(call.Call.Args) != 2 {
		return nil, ""
	}
	name := ""
	for _, m := range p.Methods(p.Fpgo, "StreamDef") {
		if len(m.Params) != 2 {
			continue
		}
		core.Instrs(m, func(ins ssa.Instruction) {
			c2, ok := ins.(*ssa.Call)
			if !ok || core.Callee(&c2.Call) != h || len(c2.Call.Args) != 2 {
				return
			}
			if src := core.DerefSource(core.Resolve(c2.Call.Args[0])); src == nil || core.Resolve(src) != ssa.Value(m.Params[0]) {
				return
			}
			if core.Resolve(c2.Call.Args[1]) != ssa.Value(m.Params[1]) {
				return
			}
			if name == "" {
				name = m.Name()
			} else if name != m.Name() {
				name = "-"
			}
		})
	}
	if name == "" || name == "-" {
		return nil, ""
	}
	return call, name
}

// ascendingIndex: idx is the induction variable of a range loop counting up by one (phi of -1/0 and idx+1).
func ascendingIndex(idx ssa.Value) bool {
	b, ok := idx.(*ssa.BinOp)
	if ok && b.Op == token.ADD && core.IsIntConst(b.Y, 1) {
		if phi, isPhi := b.X.(*ssa.Phi); isPhi {
			for _, e := range phi.Edges {
				if e == ssa.Value(b) {
					return true
				}
			}
		}
	}
	if phi, isPhi := idx.(*ssa.Phi); isPhi {
		for _, e := range phi.Edges {
			if bb, isB := e.(*ssa.BinOp); isB && bb.Op == token.ADD && bb.X == ssa.Value(phi) && core.IsIntConst(bb.Y, 1) {
				return true
			}
		}
	}
	return false
}

func c18visit(p *core.Prog, v *ssa.Function) (bool, string) {
	if len(v.Params) != 3 && len(v.Params) != 2 {
		return false, "visitor does not have the shape (receiver, request, index)"
	}
	recv, req := v.Params[0], v.Params[1]
	var idx ssa.Value
	if len(v.Params) == 3 {
		idx = v.Params[2]
	}
	// loop formulation: the index is a phi of the parameter and itself + 1
	var loopStep *ssa.BinOp
	core.Instrs(v, func(ins ssa.Instruction) {
		if phi, ok := ins.(*ssa.Phi); ok && len(phi.Edges) == 2 {
			var hasParam bool
			var step *ssa.BinOp
			for _, e := range phi.Edges {
				if len(v.Params) == 3 && e == ssa.Value(v.Params[2]) {
					hasParam = true
				}
				// the loop written in the entry point itself starts at the constant 0
				if len(v.Params) == 2 && core.IsIntConst(e, 0) {
					hasParam = true
				}
				if b, isB := e.(*ssa.BinOp); isB && b.Op == token.ADD && b.X == ssa.Value(phi) && core.IsIntConst(b.Y, 1) {
					step = b
				}
			}
			if hasParam && step != nil {
				idx, loopStep = phi, step
			}
		}
	})
	var icall, tcall, rec *ssa.Call
	nDyn := 0
	core.Instrs(v, func(ins ssa.Instruction) {
		call, ok := ins.(*ssa.Call)
		if !ok {
			return
		}
		switch {
		case call.Call.IsInvoke() && call.Call.Method.Name() == "RoundTrip":
			tcall = call
		case core.Callee(&call.Call) == v:
			rec = call
		case core.Callee(&call.Call) == nil && !call.Call.IsInvoke():
			if _, isB := call.Call.Value.(*ssa.Builtin); !isB {
				icall = call
				nDyn++
			}
		}
	})
	if idx == nil {
		return false, "no index stepping from 0 by one found in the visiting loop"
	}
	if icall == nil || tcall == nil || (rec == nil && loopStep == nil) || nDyn != 1 {
		return false, "expected one interceptor call, one transport call and one step to the next index (recursion or loop)"
	}
	// interceptor call: *interceptors[index](request)
	fnv := core.Resolve(icall.Call.Value)
	okI := false
	if u, ok := fnv.(*ssa.UnOp); ok { // deref of *Interceptor
		if u2, ok := core.Resolve(u.X).(*ssa.UnOp); ok {
			if ia, ok := u2.X.(*ssa.IndexAddr); ok && ia.Index == idx && core.FieldKey(ia.X) == "SimpleHTTPDef.interceptors" && core.FieldBase(ia.X) == recv.Name() {
				okI = true
			}
		}
	}
	if !okI {
		return false, "the interceptor called is not interceptors[index] of the receiver (order or identity of the visited interceptor is wrong)"
	}
	if len(icall.Call.Args) != 1 || icall.Call.Args[0] != ssa.Value(req) {
		return false, "the interceptor is not called with the incoming request (header changes it makes do not reach the transport)"
	}
	// transport: field clientTransport of the receiver, same request, on index >= Len edge
	if core.FieldKey(tcall.Call.Value) != "SimpleHTTPDef.clientTransport" || core.FieldBase(tcall.Call.Value) != recv.Name() || len(tcall.Call.Args) != 1 || tcall.Call.Args[0] != ssa.Value(req) {
		return false, "the transport call is not clientTransport.RoundTrip(request) with the same request value"
	}
	edgeOK := false
	for _, m := range core.EdgeCmps(tcall.Block()) {
		if m.X == idx && m.Op == token.GEQ {
			// Len() of the interceptor list, len(list), or an accessor of the receiver that returns one of those
			var isCount func(v ssa.Value, depth int) bool
			isCount = func(v ssa.Value, depth int) bool {
				call, ok := core.Resolve(v).(*ssa.Call)
				if !ok || len(call.Call.Args) == 0 || depth > 2 {
					return false
				}
				g := core.Callee(&call.Call)
				if (g != nil && g.Name() == "Len" || core.IsBuiltin(&call.Call, "len")) && core.FieldKey(call.Call.Args[0]) == "SimpleHTTPDef.interceptors" {
					return true
				}
				if r := core.ThinReturn(g); r != nil {
					return isCount(r, depth+1)
				}
				return false
			}
			if isCount(m.Y, 0) {
				edgeOK = true
			}
		}
	}
	if !edgeOK {
		return false, "the transport is not restricted to the index >= Len() edge: it can run before all interceptors have been visited"
	}
	// the interceptor call must not be on the transport edge and must be on every other path exactly once
	weightI := func(ins ssa.Instruction) int {
		if ins == ssa.Instruction(icall) {
			return 1
		}
		return 0
	}
	skipT := func(b *ssa.BasicBlock) bool { return b == tcall.Block() }
	imin, imax := core.PathCount(v, weightI, skipT)
	if loopStep != nil {
		// per iteration: from the loop header, one traversal
		imin, imax = core.PathCountIter(idx.(*ssa.Phi).Block(), nil, weightI, skipT)
	}
	if imin != 1 || imax != 1 {
		return false, fmt.Sprintf("interceptor[index] is called %d..%d times before continuing", imin, imax)
	}
	// transport result returned unchanged
	passthrough := func(call *ssa.Call) bool {
		ok := false
		core.Instrs(v, func(ins ssa.Instruction) {
			if r, isR := ins.(*ssa.Return); isR && r.Block() == call.Block() || isR && call.Block().Dominates(r.Block()) {
				rv := core.RetVals(r)
				e0, ok0 := rv[0].(*ssa.Extract)
				e1, ok1 := rv[1].(*ssa.Extract)
				if ok0 && ok1 && e0.Tuple == ssa.Value(call) && e1.Tuple == ssa.Value(call) && e0.Index == 0 && e1.Index == 1 {
					ok = true
				}
			}
		})
		return ok
	}
	if !passthrough(tcall) {
		return false, "the transport's result is not returned unchanged"
	}
	// error edge
	errOK, contOK := false, false
	for _, r := range *icall.Referrers() {
		b, ok := r.(*ssa.BinOp)
		if !ok || !(core.IsNilConst(b.X) || core.IsNilConst(b.Y)) {
			continue
		}
		for _, rr := range *b.Referrers() {
			iff, ok := rr.(*ssa.If)
			if !ok {
				continue
			}
			errB, okB := iff.Block().Succs[0], iff.Block().Succs[1]
			if b.Op == token.EQL {
				errB, okB = okB, errB
			}
			if ret, ok := errB.Instrs[len(errB.Instrs)-1].(*ssa.Return); ok {
				rv := core.RetVals(ret)
				clean := true
				for _, i2 := range errB.Instrs {
					if _, isC := i2.(ssa.CallInstruction); isC {
						clean = false
					}
				}
				if clean && core.IsNilConst(rv[0]) && rv[1] == ssa.Value(icall) {
					errOK = true
				}
			}
			if rec != nil && (rec.Block() == okB || okB.Dominates(rec.Block())) {
				contOK = true
			}
			if rec == nil && loopStep != nil && (loopStep.Block() == okB || okB.Dominates(loopStep.Block())) {
				contOK = true
			}
		}
	}
	if !errOK {
		return false, "an interceptor error does not abort with (nil, err) before any further call"
	}
	if !contOK {
		return false, "the chain continues even when the interceptor failed"
	}
	if rec == nil {
		// loop: the request and receiver are the same values by construction; the step is index+1 on the no-error edge
		return true, "loop over index: interceptors[index](request) once → error aborts (nil, err) → else index+1 → transport only at index >= Len(), result passed through"
	}
	// recursion: same receiver, same request, index+1
	step, ok := rec.Call.Args[2].(*ssa.BinOp)
	if !(rec.Call.Args[0] == ssa.Value(recv) && rec.Call.Args[1] == ssa.Value(req) && ok && step.Op == token.ADD && step.X == ssa.Value(idx) && core.IsIntConst(step.Y, 1)) {
		return false, "the next step is not visit(request, index+1) with the same request"
	}
	if !passthrough(rec) {
		return false, "the result of the rest of the chain is not returned unchanged"
	}
	return true, "interceptors[index](request) once → error aborts (nil, err) → else index+1, same request → transport only at index >= Len(), result passed through"
}

func c18guard(p *core.Prog, sh *ssa.Function) (bool, string) {
	recv, client := sh.Params[0], sh.Params[1]
	var stCT, stLast *ssa.Store
	var stClientT []*ssa.Store
	core.Instrs(sh, func(ins ssa.Instruction) {
		st, ok := ins.(*ssa.Store)
		if !ok {
			return
		}
		switch core.FieldKey(st.Addr) {
		case "SimpleHTTPDef.clientTransport":
			stCT = st
		case "SimpleHTTPDef.lastTransport":
			stLast = st
		case "Client.Transport":
			stClientT = append(stClientT, st)
		}
	})
	if stCT == nil || stLast == nil {
		return false, "SetHTTPClient does not record the wrapped transport and the re-wrap guard value"
	}
	isClientTransport := func(v ssa.Value) bool {
		return core.FieldKey(v) == "Client.Transport" && core.FieldBase(v) == client.Name()
	}
	isSelf := func(v ssa.Value) bool {
		v = core.Unwrap(v)
		if v == ssa.Value(recv) {
			return true
		}
		// load of client.Transport right after it was set to the receiver in the same block
		if u, ok := v.(*ssa.UnOp); ok && isClientTransport(u) {
			var last ssa.Value
			for _, ins := range u.Block().Instrs {
				if ins == ssa.Instruction(u) {
					break
				}
				if st, ok := ins.(*ssa.Store); ok && isClientTransport(st.Addr) {
					last = core.Unwrap(st.Val)
				}
			}
			return last == ssa.Value(recv)
		}
		return false
	}
	// guard: client.Transport != receiver.lastTransport
	guarded := false
	for _, m := range core.EdgeCmps(stCT.Block()) {
		if m.Op == token.NEQ {
			a, b := m.X, m.Y
			if isClientTransport(b) {
				a, b = b, a
			}
			if isClientTransport(a) && core.FieldKey(b) == "SimpleHTTPDef.lastTransport" && core.FieldBase(b) == recv.Name() {
				guarded = true
			}
		}
	}
	if !guarded {
		return false, "the wrapped transport is (re)recorded without the guard client.Transport != lastTransport: calling SetHTTPClient again wraps the SimpleHTTP around itself (infinite recursion) or stops wrapping a client whose transport was replaced"
	}
	if !isClientTransport(stCT.Val) {
		return false, "the wrapped transport is not taken from the client's current transport"
	}
	// in the same branch: client.Transport = self and lastTransport = self
	selfSet := false
	for _, st := range stClientT {
		if st.Block() == stCT.Block() && core.Unwrap(st.Val) == ssa.Value(recv) {
			// must come after reading the old transport
			if core.InstrDominates(stCT, st) || true {
				selfSet = true
			}
		}
	}
	if !selfSet || stLast.Block() != stCT.Block() || !isSelf(stLast.Val) {
		return false, "on the wrapping edge client.Transport and lastTransport are not both set to the SimpleHTTP itself: the next call wraps again (chain runs twice / recursion)"
	}
	// the old transport must be read before client.Transport is overwritten
	for _, st := range stClientT {
		if st.Block() == stCT.Block() {
			if ld, ok := stCT.Val.(*ssa.UnOp); ok && !core.InstrDominates(ld, st) {
				return false, "the client's transport is overwritten before the old one is saved: the SimpleHTTP wraps itself"
			}
		}
	}
	return true, "clientTransport = client.Transport only when it differs from lastTransport; then client.Transport = lastTransport = self"
}
