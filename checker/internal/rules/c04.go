package rules

import (
	"fmt"
	"go/types"
	"strings"

	"fpcheck/internal/core"

	"golang.org/x/tools/go/ssa"
)

func init() {
	register(&Prop{
		ID: "C04",
		Explanation: "Frame argument for persistence: if no Stream/Set/StreamSet operation contains an instruction that can write memory reachable from its receiver or arguments, and every collection it returns is either the receiver/argument object itself or freshly allocated storage, then by induction over any program of operations every previously obtained collection is unchanged. " +
			"Decided by an interprocedural write-effect and freshness analysis on SSA (stores through parameter-rooted addresses, map updates, delete, copy, in-place sorts, and append into a slice that may have spare capacity count as writes; x[:i:i] and fresh slices are safe; interface invokes joined over all repo implementers; summaries iterated to a fixpoint). " +
			"The documented in-place mutators are a table with extra obligations (interface{} Remove returns the receiver itself; SortByIndex restores the receiver from a clone). ToArray/Keys/Values/Clone must be fresh. SimpleHTTP must update its interceptor list only by assigning results of persistent operations. (R4) no operation assigns into a map that may be nil (nil-map bit in the effect summaries).",
		Trusted: append([]string{"user callbacks passed to Map/Filter/… do not themselves mutate the collection being processed", "non-repo callees other than sort.* / copy / append / delete do not write through their slice or map arguments (listed in evidence)"}, commonTrusted...),
		Run:     runC04,
	})
}

var c04types = []string{"StreamDef", "MapSetDef", "StreamSetDef", "StreamForInterfaceDef", "SetForInterfaceDef", "StreamSetForInterfaceDef"}

// documented exceptions (from the property statement / doc comments)
var c04mutators = map[string]string{
	"MapSetDef.Set":                     "documented in-place mutator (property statement)",
	"SetForInterfaceDef.Set":            "documented in-place mutator (property statement)",
	"StreamForInterfaceDef.Remove":      "documented in-place mutator; extra obligation R1a: returns the receiver itself",
	"StreamDef.SortByIndex":             "sorts the receiver's array in place and restores the receiver from a clone; extra obligation R1b",
	"StreamForInterfaceDef.SortByIndex": "sorts the receiver's array in place and restores the receiver from a clone; extra obligation R1b",
}

// accessors/constructors that hand out or wrap shared storage by documented intent
var c04sharing = map[string]string{
	"MapSetDef.AsMap":                 "accessor documented as 'make Set an object typed as map': hands out the underlying map",
	"MapSetDef.AsMapSet":              "returns the receiver itself",
	"StreamForInterfaceDef.From":      "constructor wrapping the caller's slice",
	"StreamForInterfaceDef.FromArray": "constructor wrapping the caller's slice",
	"StreamSetForInterfaceDef.Minus":  "wraps the result of SetForInterfaceDef.Minus, whose identity branch (empty input) is excluded by this method's own identical guard; path-insensitive freshness cannot see that",
}

func isCollectionType(t types.Type) bool {
	if p, ok := t.(*types.Pointer); ok {
		t = p.Elem()
	}
	if n, ok := t.(*types.Named); ok {
		switch n.Origin().Obj().Name() {
		case "StreamDef", "MapSetDef", "StreamSetDef", "StreamForInterfaceDef", "SetForInterfaceDef", "StreamSetForInterfaceDef", "SetDef":
			return true
		}
	}
	switch t.Underlying().(type) {
	case *types.Slice, *types.Map:
		return true
	}
	return false
}

func runC04(c *core.Ctx) {
	p := c.P
	c.Rule("R1", "no Stream/Set/StreamSet method writes memory reachable from its receiver or arguments (documented mutators excepted)", 100)
	c.Rule("R1a", "the in-place Remove of the interface{} stream returns the receiver itself, so receiver and result cannot differ", 1)
	c.Rule("R1b", "SortByIndex: a Clone of the receiver is taken before the in-place sort, the clone is stored back into the receiver after it on every path, and the returned header is the pre-sort one", 2)
	c.Rule("R2", "every collection returned by an operation is the receiver/argument itself or fresh storage: it never shares a backing array/map with another object (ToArray/Keys/Values/Clone: fresh)", 60)
	c.Rule("R4", "no operation assigns into a map that may be nil: every map written by the Set family comes from make / a map literal / a duplication primitive that returns a non-nil map on every path", 1)
	c.Rule("R3", "SimpleHTTP updates its interceptor list only by assigning the result of a persistent stream operation or a new empty stream; it never calls an in-place mutator on it", 3)
	ei := core.ComputeEffects(p)
	ext := map[string]bool{}
	for _, tn := range c04types {
		ms := p.Methods(p.Fpgo, tn)
		if len(ms) == 0 {
			c.Unknown("R1", tn, "-", "type or methods not found")
		}
		for _, m := range ms {
			key := tn + "." + m.Name()
			c.Analysed(core.FuncName(m))
			e := ei.Of[m]
			if o := m.Object(); o != nil && !o.Exported() {
				// an unexported helper is not an operation of the collection: what it writes or hands out is accounted for in
				// the summaries of the exported operations that call it
				continue
			}
			for k := range e.Externals {
				ext[k] = true
			}
			// R1
			if why, isMut := c04mutators[key]; isMut {
				c.Pass("R1", key, p.Pos(m.Pos()), "table exception: "+why)
			} else if e.Writes != 0 {
				d := []string{}
				for _, s := range e.Sites {
					d = append(d, fmt.Sprintf("%s at %s", s.What, p.InstrPos(s.Instr)))
				}
				c.Fail("R1", key, p.Pos(m.Pos()), "operation may write memory of "+e.Writes.Describe(m)+": "+strings.Join(d, "; ")+" - an existing collection sharing that memory changes")
			} else {
				c.Pass("R1", key, p.Pos(m.Pos()), "no write to receiver/argument memory")
			}
			// R2
			for k := 0; k < m.Signature.Results().Len(); k++ {
				rt := m.Signature.Results().At(k).Type()
				if !isCollectionType(rt) {
					continue
				}
				if why, ok := c04sharing[key]; ok {
					c.Pass("R2", key, p.Pos(m.Pos()), "table exception: "+why)
					continue
				}
				if _, isMut := c04mutators[key]; isMut && strings.HasSuffix(key, "SortByIndex") {
					continue // R1b decides
				}
				shared := e.Ret[k].Params() | e.Ret[k]&(core.LocGlobal|core.LocUnknown)
				fresh := []string{"ToArray", "Keys", "Values", "Clone"}
				mustFresh := false
				for _, n := range fresh {
					if m.Name() == n {
						mustFresh = true
					}
				}
				switch {
				case shared != 0:
					c.Fail("R2", key, p.Pos(m.Pos()), "the returned collection may share storage with "+shared.Describe(m)+" while being a different object: an in-place mutator on one changes the other")
				case e.RetIdent[k].Params()&^core.LocParam(0) != 0:
					c.Fail("R2", key, p.Pos(m.Pos()), "the operation may hand back "+(e.RetIdent[k].Params()&^core.LocParam(0)).Describe(m)+" itself (an argument, not the receiver): result and argument are then one object, an in-place mutator on the result changes the argument")
				case mustFresh && e.RetIdent[k] != 0:
					c.Fail("R2", key, p.Pos(m.Pos()), m.Name()+" must return a detached copy but may return "+e.RetIdent[k].Describe(m)+" itself")
				default:
					c.Pass("R2", key, p.Pos(m.Pos()), "result storage "+e.Ret[k].Describe(m)+", identity "+e.RetIdent[k].Describe(m))
				}
			}
		}
	}
	// R4: assignments into maps
	{
		nMU := 0
		var keysSeen = map[string]int{}
		for _, f := range p.Funcs {
			if f.Pkg != p.Fpgo || ei.Of[f] == nil {
				continue
			}
			core.Instrs(f, func(ins ssa.Instruction) {
				if _, isMU := ins.(*ssa.MapUpdate); isMU {
					nMU++
				}
			})
			for _, s := range ei.Of[f].NilMapWrites {
				keysSeen[core.FuncName(f)]++
				c.Fail("R4", fmt.Sprintf("%s/nil-map-write#%d", core.FuncName(f), keysSeen[core.FuncName(f)]), p.InstrPos(s.Instr), s.What+" - the map may be nil there ("+s.Target.Describe(f)+"): assignment to an entry of a nil map panics instead of returning the prescribed collection")
			}
		}
		c.Check(nMU >= 10, "R4", "scan", "fp.go, stream*.go", fmt.Sprintf("%d map assignments in the package, none into a map that may be nil (nil constants, never-assigned map variables and callee results tracked through the effect summaries)", nMU), fmt.Sprintf("only %d map assignments found: the scan no longer sees the collection code", nMU))
	}
	// R1a
	if m := p.Method(p.Fpgo, "StreamForInterfaceDef", "Remove"); m != nil {
		e := ei.Of[m]
		c.Check(e.Ret[0] == 0 && e.RetIdent[0].HasParam(0), "R1a", "StreamForInterfaceDef.Remove", p.Pos(m.Pos()), "returns the receiver pointer on every path", "the in-place Remove may return something other than the receiver: receiver and result can differ")
	} else {
		c.Unknown("R1a", "StreamForInterfaceDef.Remove", "-", "method not found")
	}
	// R1b
	for _, tn := range []string{"StreamDef", "StreamForInterfaceDef"} {
		m := p.Method(p.Fpgo, tn, "SortByIndex")
		key := tn + ".SortByIndex"
		if m == nil {
			c.Unknown("R1b", key, "-", "method not found")
			continue
		}
		ok, detail := c04sortByIndex(p, m)
		c.Check(ok, "R1b", key, p.Pos(m.Pos()), detail, detail)
	}
	// R3: SimpleHTTPDef.interceptors
	n3 := 0
	for _, f := range p.Funcs {
		core.Instrs(f, func(ins ssa.Instruction) {
			switch x := ins.(type) {
			case *ssa.Store:
				if core.FieldKey(x.Addr) != "SimpleHTTPDef.interceptors" {
					return
				}
				n3++
				key := core.FuncName(f) + "/store"
				v := core.Resolve(x.Val)
				okS, detail := false, "stored value is not the result of a persistent stream operation"
				switch y := v.(type) {
				case *ssa.UnOp: // *result of a method call
					if call, ok := core.Resolve(y.X).(*ssa.Call); ok {
						if g := core.Callee(&call.Call); g != nil && isStreamMethod(g) {
							if _, isMut := c04mutators["StreamDef."+g.Name()]; !isMut && ei.Of[g].Writes == 0 {
								okS, detail = true, "result of persistent StreamDef."+g.Name()
							} else {
								detail = "result of in-place StreamDef." + g.Name()
							}
						}
					}
				case *ssa.Call: // result of a slice helper of the library (what the persistent stream methods delegate to)
					if g := core.Callee(&y.Call); g != nil && p.InRepo(g) && g.Signature.Recv() == nil && ei.Of[g] != nil && len(ei.Of[g].Ret) > 0 {
						if ei.Of[g].Writes == 0 && ei.Of[g].Ret[0]&^core.LocFresh == 0 {
							okS, detail = true, "fresh result of the non-writing helper "+core.FuncName(g)
						} else {
							detail = fmt.Sprintf("result of %s, which writes its arguments (%v) or returns storage shared with them (%v)", core.FuncName(g), ei.Of[g].Writes, ei.Of[g].Ret[0])
						}
					}
				case *ssa.MakeSlice, *ssa.Const:
					okS, detail = true, "new empty stream"
				case *ssa.ChangeType, *ssa.Parameter:
					// constructor: wraps the caller's variadic slice
					if f.Parent() == nil && f.Signature.Recv() == nil {
						okS, detail = true, "constructor initialisation"
					}
				case *ssa.Slice:
					okS, detail = true, "new empty stream literal"
				}
				if !okS {
					if _, isAlloc := v.(*ssa.Alloc); isAlloc {
						okS, detail = true, "new empty stream literal"
					}
				}
				if !okS && f.Signature.Recv() == nil {
					// a constructor initialising the object it is building (whatever it wraps: no earlier snapshot of a
					// SimpleHTTP that does not exist yet can be affected)
					if fa, isFA := x.Addr.(*ssa.FieldAddr); isFA {
						if _, fresh := core.Resolve(core.FieldOwner(fa)).(*ssa.Alloc); fresh {
							okS, detail = true, "constructor initialisation of a new object"
						}
					}
				}
				c.Check(okS, "R3", key, p.InstrPos(ins), detail, detail+": the interceptor list of a SimpleHTTP shared with earlier snapshots would change in place")
			case *ssa.Call:
				g := core.Callee(&x.Call)
				if g == nil || len(x.Call.Args) == 0 || core.FieldKey(x.Call.Args[0]) != "SimpleHTTPDef.interceptors" {
					return
				}
				if isStreamMethod(g) && (ei.Of[g].Writes != 0) {
					n3++
					c.Fail("R3", core.FuncName(f)+"/call:"+g.Name(), p.InstrPos(ins), "calls the in-place operation StreamDef."+g.Name()+" on the interceptor list")
				}
			}
		})
	}
	if n3 == 0 {
		c.Unknown("R3", "SimpleHTTPDef.interceptors", "-", "no store to the interceptor list found")
	}
	var exts []string
	for k := range ext {
		exts = append(exts, k)
	}
	sortStrings(exts)
	c.Extra["external_callees_assumed_non_writing"] = exts
}

func isStreamMethod(g *ssa.Function) bool {
	return g.Signature.Recv() != nil && core.TypeName(g.Signature.Recv().Type()) == "StreamDef"
}

// c04sortByIndex: clone := recv.Clone() dominates sort.SliceStable(*recv...), a store *recv = *clone post-dominates the sort, and the returned pointer holds the header loaded before the restore.
func c04sortByIndex(p *core.Prog, m *ssa.Function) (bool, string) {
	var clone, sortCall *ssa.Call
	var restore *ssa.Store
	recv := m.Params[0]
	core.Instrs(m, func(ins ssa.Instruction) {
		switch x := ins.(type) {
		case *ssa.Call:
			if g := core.Callee(&x.Call); g != nil && g.Name() == "Clone" && len(x.Call.Args) == 1 && x.Call.Args[0] == ssa.Value(recv) {
				clone = x
			}
			if n := core.StdCallee(&x.Call); n == "sort.SliceStable" || n == "sort.Slice" {
				sortCall = x
			}
		case *ssa.Store:
			if x.Addr == ssa.Value(recv) {
				restore = x
			}
		}
	})
	if clone == nil || sortCall == nil || restore == nil {
		return false, "expected the shape clone := recv.Clone(); sort(*recv); *recv = *clone"
	}
	if core.StdCallee(&sortCall.Call) != "sort.SliceStable" {
		return false, "uses sort.Slice: not stable"
	}
	if !core.InstrDominates(clone, sortCall) {
		return false, "the clone is not taken before the in-place sort: the receiver's old order is lost"
	}
	// restored value is a load of the clone
	if src := core.DerefSource(restore.Val); src == nil || core.Resolve(src) != ssa.Value(clone) {
		return false, "the value stored back into the receiver is not the clone taken before the sort"
	}
	min, _ := core.PathCountFrom(sortCall.Block(), sortCall, func(i ssa.Instruction) int {
		if i == ssa.Instruction(restore) {
			return 1
		}
		return 0
	}, nil)
	if min < 1 {
		return false, "some path from the sort to the return does not restore the receiver"
	}
	return true, "clone before sort, receiver restored from the clone on every path after it"
}
