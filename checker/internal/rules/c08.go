package rules

import (
	"fmt"
	"go/token"
	"go/types"

	"fpcheck/internal/core"

	"golang.org/x/tools/go/ssa"
)

func init() {
	register(&Prop{
		ID: "C08",
		Explanation: "Lockset analysis (must-held locks per SSA instruction) over every method of the wrapper types that hold a sync.RWMutex next to a wrapped Queue/Stack interface value: " +
			"each invoke of a wrapped-interface method must happen with the wrapper's lock held in exclusive (W) mode, the lock must be released on every exit, the wrapped value must not be reachable except through those methods, and (R3) every operation is a pure delegation: exactly one delegated call per path whose results are what the operation returns - an answer computed from side bookkeeping (a counter read outside the lock) is not linearizable with the wrapped structure. " +
			"Mutual exclusion of all delegated calls is what makes each call atomic w.r.t. the wrapped (non-thread-safe) structure; FIFO/LIFO correctness of the wrapped structure itself is not decided here.",
		Trusted: commonTrusted,
		Run:     runC08,
	})
}

// wrapperTypes finds struct types of package fpgo with a sync.RWMutex/Mutex field and a field of interface type Queue[T]/Stack[T].
func wrapperTypes(p *core.Prog) (out []*types.Named) {
	for _, name := range sortedMembers(p.Fpgo) {
		n := p.Named(p.Fpgo, name)
		if n == nil {
			continue
		}
		st, ok := n.Underlying().(*types.Struct)
		if !ok {
			continue
		}
		hasLock, hasIface := false, false
		for i := 0; i < st.NumFields(); i++ {
			ft := st.Field(i).Type()
			if isSyncLock(ft) {
				hasLock = true
			}
			if nn, ok := ft.(*types.Named); ok && types.IsInterface(nn) {
				on := nn.Origin().Obj().Name()
				if on == "Queue" || on == "Stack" {
					hasIface = true
				}
			}
		}
		if hasLock && hasIface {
			out = append(out, n)
		}
	}
	return
}

func isSyncLock(t types.Type) bool {
	n, ok := t.(*types.Named)
	if !ok || n.Obj().Pkg() == nil || n.Obj().Pkg().Path() != "sync" {
		return false
	}
	return n.Obj().Name() == "RWMutex" || n.Obj().Name() == "Mutex"
}

func sortedMembers(sp *ssa.Package) []string {
	var names []string
	for n := range sp.Members {
		names = append(names, n)
	}
	sortStrings(names)
	return names
}

func runC08(c *core.Ctx) {
	p := c.P
	c.Rule("R1", "every invoke of a wrapped Queue/Stack method happens with the wrapper's lock held in exclusive mode (RLock is not enough: all wrapped methods mutate or perform channel operations)", 6)
	c.Rule("R1b", "the lock taken by a wrapper method is released on every return path (defer Unlock or explicit unlock)", 6)
	c.Rule("R1c", "wrapper methods have pointer receivers: a value receiver copies the struct, so the method would lock a private copy of the mutex (no mutual exclusion, and a copied locked mutex never unlocks)", 6)
	c.Rule("R3", "pure delegation: every path through an operation of the wrapper performs exactly one delegated call on the wrapped structure and returns that call's results (no answer is produced from the wrapper's own bookkeeping, e.g. a lock-free emptiness shortcut)", 6)
	c.Rule("R2", "the wrapped queue/stack field is only read as the receiver of a delegated call inside the wrapper's own methods (never returned, stored elsewhere or passed on)", 2)
	c.Assume = append(c.Assume, "callers hand the wrapped queue/stack to the wrapper and do not keep using it directly",
		"a blocking wrapped implementation (ChannelQueue.Take) blocks inside the critical section: progress is not claimed")
	wts := wrapperTypes(p)
	li := core.ComputeLocks(p)
	if len(wts) == 0 {
		c.Unknown("R1", "anchor", "-", "no struct with a sync lock and a Queue/Stack interface field found")
		return
	}
	for _, wt := range wts {
		tn := wt.Obj().Name()
		st := wt.Underlying().(*types.Struct)
		lockField, ifaceField := "", ""
		for i := 0; i < st.NumFields(); i++ {
			if isSyncLock(st.Field(i).Type()) {
				lockField = st.Field(i).Name()
			} else if types.IsInterface(st.Field(i).Type()) {
				ifaceField = st.Field(i).Name()
			}
		}
		okR2 := true
		var r2detail string
		for _, m := range p.Methods(p.Fpgo, tn) {
			c.Analysed(core.FuncName(m))
			_, isPtr := m.Signature.Recv().Type().(*types.Pointer)
			c.Check(isPtr, "R1c", tn+"."+m.Name()+"/receiver", p.Pos(m.Pos()), "pointer receiver", "value receiver: "+tn+"."+m.Name()+" operates on a copy of the struct and therefore locks a copy of "+lockField+"; concurrent callers are not excluded and a copy taken while the lock is held stays locked forever")
			recv := m.Params[0].Name()
			lockPath := recv + "." + lockField
			// the method and the closures it builds (a delegated call may sit in a closure run by a lock wrapper:
			// its entry lockset is the intersection over the places where the closure is called)
			core.InstrsDeep(m, func(fn *ssa.Function, ins ssa.Instruction) {
				switch x := ins.(type) {
				case *ssa.Call:
					if x.Call.IsInvoke() && core.Path(x.Call.Value) == recv+"."+ifaceField {
						key := fmt.Sprintf("%s.%s/invoke:%s", tn, m.Name(), x.Call.Method.Name())
						ls := li.At[ins]
						if ls.Has(lockPath, "W") {
							c.Pass("R1", key, p.InstrPos(ins), "held "+ls.String())
						} else if ls.Has(lockPath, "R") {
							c.Fail("R1", key, p.InstrPos(ins), fmt.Sprintf("delegated call %s.%s() runs under the shared (read) lock only: concurrent callers mutate the wrapped structure simultaneously; held=%s", ifaceField, x.Call.Method.Name(), ls))
						} else {
							c.Fail("R1", key, p.InstrPos(ins), fmt.Sprintf("delegated call %s.%s() runs without %s held; held=%s", ifaceField, x.Call.Method.Name(), lockPath, ls))
						}
					}
				case *ssa.Return:
					if fn != m {
						return
					}
					key := fmt.Sprintf("%s.%s/return", tn, m.Name())
					// after rundefers the lock must be gone: emulate deferred unlocks
					ls := li.At[ins].Clone()
					applyDefers(m, ls)
					if li.Entry[m].HasAny(lockPath) {
						// a helper that every caller enters with the lock already held: the caller releases it
						c.Pass("R1b", key, p.InstrPos(ins), "entered with "+lockPath+" held by every caller; released by the caller")
					} else if ls.HasAny(lockPath) {
						c.Fail("R1b", key, p.InstrPos(ins), "returns with "+lockPath+" still held: the next caller deadlocks")
					} else {
						c.Pass("R1b", key, p.InstrPos(ins), "lock released at exit")
					}
				}
			})
		}
		ifaceMethods := map[string]bool{}
		for i := 0; i < st.NumFields(); i++ {
			if it, isI := st.Field(i).Type().Underlying().(*types.Interface); isI && st.Field(i).Name() == ifaceField {
				for k := 0; k < it.NumMethods(); k++ {
					ifaceMethods[it.Method(k).Name()] = true
				}
			}
		}
		for _, m := range p.Methods(p.Fpgo, tn) {
			if !m.Object().Exported() || m.Signature.Results().Len() == 0 || !ifaceMethods[m.Name()] {
				continue // lock helpers, setters, additions that are not operations of the wrapped interface
			}
			key := tn + "." + m.Name() + "/delegation"
			isDeleg := func(ins ssa.Instruction) bool {
				call, ok := ins.(*ssa.Call)
				return ok && call.Call.IsInvoke() && core.Path(call.Call.Value) == m.Params[0].Name()+"."+ifaceField
			}
			min, max := core.PathCount(m, core.DeepWeight(p, func(ins ssa.Instruction) int {
				if isDeleg(ins) {
					return 1
				}
				return 0
			}), nil)
			if min != 1 || max != 1 {
				c.Fail("R3", key, p.Pos(m.Pos()), fmt.Sprintf("a path through %s.%s performs %d..%d delegated calls (must be exactly 1): some answers do not come from the wrapped structure", tn, m.Name(), min, max))
				continue
			}
			// every returned value is a result of a delegated call (directly, or through a cell only such results are stored into)
			var fromDeleg func(v ssa.Value) bool
			// wrapperResult: v is (a component of) the result of a lock wrapper that returns what the closure it was
			// given returns, and that closure returns the delegated call's results
			wrapperResult := func(call *ssa.Call, idx int) bool {
				h := core.Callee(&call.Call)
				if h == nil || !p.InRepo(h) || len(h.Blocks) == 0 {
					return false
				}
				var cl *ssa.Function
				var prm *ssa.Parameter
				for i, a := range call.Call.Args {
					if mc, ok := core.Resolve(a).(*ssa.MakeClosure); ok && i < len(h.Params) {
						cl, prm = mc.Fn.(*ssa.Function), h.Params[i]
					}
				}
				if cl == nil {
					return false
				}
				// the wrapper returns the results of calling its parameter
				for _, rc := range core.ReturnCases(h) {
					if idx >= len(rc.Vals) {
						return false
					}
					rv := core.Resolve(rc.Vals[idx])
					var inner *ssa.Call
					switch x := rv.(type) {
					case *ssa.Call:
						inner = x
					case *ssa.Extract:
						if c2, ok := x.Tuple.(*ssa.Call); ok && x.Index == idx {
							inner = c2
						}
					}
					if inner == nil || inner.Call.Value != ssa.Value(prm) {
						return false
					}
				}
				// the closure returns the delegated call's results, position by position
				for _, rc := range core.ReturnCases(cl) {
					if idx >= len(rc.Vals) {
						return false
					}
					rv := core.Resolve(rc.Vals[idx])
					switch x := rv.(type) {
					case *ssa.Extract:
						c2, ok := x.Tuple.(*ssa.Call)
						if !ok || !isDeleg(c2) || x.Index != idx {
							return false
						}
					case *ssa.Call:
						if !isDeleg(x) {
							return false
						}
					default:
						return false
					}
				}
				return true
			}
			fromDeleg = func(v ssa.Value) bool {
				v = core.Resolve(v)
				switch x := v.(type) {
				case *ssa.Extract:
					if call, ok := x.Tuple.(*ssa.Call); ok {
						return isDeleg(call) || wrapperResult(call, x.Index)
					}
				case *ssa.Call:
					return isDeleg(x) || wrapperResult(x, 0)
				}
				return false
			}
			cellFromDeleg := func(v ssa.Value) bool {
				u, ok := v.(*ssa.UnOp)
				if !ok || u.Op != token.MUL {
					return false
				}
				a, ok := u.X.(*ssa.Alloc)
				if !ok {
					return false
				}
				n, good := 0, true
				var visit func(cell ssa.Value)
				visit = func(cell ssa.Value) {
					for _, r := range *cell.Referrers() {
						switch x := r.(type) {
						case *ssa.Store:
							if x.Addr == cell {
								if ld, isLd := x.Val.(*ssa.UnOp); isLd && ld.Op == token.MUL && ld.X == cell {
									continue // `return err` with a named result re-stores the cell's own value
								}
								n++
								if !fromDeleg(x.Val) {
									good = false
								}
							} else {
								good = false
							}
						case *ssa.MakeClosure:
							fn := x.Fn.(*ssa.Function)
							for k, b := range x.Bindings {
								if b == cell && k < len(fn.FreeVars) {
									visit(fn.FreeVars[k])
								}
							}
						case *ssa.UnOp, *ssa.DebugRef:
						default:
							good = false
						}
					}
				}
				visit(a)
				return good && n > 0
			}
			bad := ""
			core.Instrs(m, func(ins ssa.Instruction) {
				r, ok := ins.(*ssa.Return)
				if !ok || r.Block() == m.Recover {
					return
				}
				for i, v := range core.RetVals(r) {
					if !fromDeleg(v) && !cellFromDeleg(v) && !cellFromDeleg(r.Results[i]) {
						bad = fmt.Sprintf("result #%d returned at %s is not the result of the delegated call", i, p.InstrPos(r))
					}
				}
			})
			c.Check(bad == "", "R3", key, p.Pos(m.Pos()), "exactly one delegated call per path, its results returned", bad)
		}
		// R2: every use of the iface field, anywhere in the program
		for _, f := range p.Funcs {
			core.Instrs(f, func(ins ssa.Instruction) {
				fa, ok := ins.(*ssa.FieldAddr)
				if !ok || core.FieldName(fa.X.Type(), fa.Field) != ifaceField || !sameNamed(fa.X.Type(), wt) {
					return
				}
				for _, r := range *fa.Referrers() {
					switch u := r.(type) {
					case *ssa.Store:
						// initialisation in the constructor (composite literal) is fine
						if u.Addr == fa && f.Parent() == nil && f.Signature.Recv() == nil {
							continue
						}
						okR2 = false
						r2detail = "field stored outside a constructor at " + p.InstrPos(u)
					case *ssa.UnOp:
						for _, rr := range *u.Referrers() {
							if call, ok := rr.(*ssa.Call); ok && call.Call.IsInvoke() && call.Call.Value == u {
								continue
							}
							if _, ok := rr.(*ssa.DebugRef); ok {
								continue
							}
							okR2 = false
							r2detail = "wrapped value escapes at " + p.InstrPos(rr)
						}
					}
				}
			})
		}
		c.Check(okR2, "R2", tn+"."+ifaceField, p.Pos(wt.Obj().Pos()), "field only used as receiver of delegated calls", r2detail)
	}
}

// applyDefers removes from ls the locks released by deferred unlock calls of f.
func applyDefers(f *ssa.Function, ls core.Lockset) {
	core.Instrs(f, func(ins ssa.Instruction) {
		if d, ok := ins.(*ssa.Defer); ok {
			if op, path, ok := core.LockOp(&d.Call); ok {
				switch op {
				case "Unlock":
					delete(ls, path+":W")
				case "RUnlock":
					delete(ls, path+":R")
				}
			}
		}
	})
}

func sameNamed(t types.Type, n *types.Named) bool {
	if p, ok := t.Underlying().(*types.Pointer); ok {
		t = p.Elem()
	}
	if p, ok := t.(*types.Pointer); ok {
		t = p.Elem()
	}
	nn, ok := t.(*types.Named)
	return ok && nn.Origin().Obj() == n.Origin().Obj()
}
