package rules

import (
	"fmt"
	"go/types"

	"fpcheck/internal/core"

	"golang.org/x/tools/go/ssa"
)

func init() {
	register(&Prop{
		ID: "C08",
		Explanation: "Lockset analysis (must-held locks per SSA instruction) over every method of the wrapper types that hold a sync.RWMutex next to a wrapped Queue/Stack interface value: " +
			"each invoke of a wrapped-interface method must happen with the wrapper's lock held in exclusive (W) mode, the lock must be released on every exit, and the wrapped value must not be reachable except through those methods. " +
			"Mutual exclusion of all delegated calls is what makes each call atomic w.r.t. the wrapped (non-thread-safe) structure; FIFO/LIFO correctness of the wrapped structure itself is not decided here.",
		Trusted: commonTrusted,
		Run:     runC08,
	})
}

// wrapperTypes finds struct types of package fpgo with a sync.RWMutex/Mutex field and a field of interface type Queue[T]/Stack[T].
func wrapperTypes(p *core.Prog) (out []*types.Named) {
	for _, name := range sortedMembers(p.Fpgo) {
		n := p.Named(p.Fpgo, name)
		if n == nil {
			continue
		}
		st, ok := n.Underlying().(*types.Struct)
		if !ok {
			continue
		}
		hasLock, hasIface := false, false
		for i := 0; i < st.NumFields(); i++ {
			ft := st.Field(i).Type()
			if isSyncLock(ft) {
				hasLock = true
			}
			if nn, ok := ft.(*types.Named); ok && types.IsInterface(nn) {
				on := nn.Origin().Obj().Name()
				if on == "Queue" || on == "Stack" {
					hasIface = true
				}
			}
		}
		if hasLock && hasIface {
			out = append(out, n)
		}
	}
	return
}

func isSyncLock(t types.Type) bool {
	n, ok := t.(*types.Named)
	if !ok || n.Obj().Pkg() == nil || n.Obj().Pkg().Path() != "sync" {
		return false
	}
	return n.Obj().Name() == "RWMutex" || n.Obj().Name() == "Mutex"
}

func sortedMembers(sp *ssa.Package) []string {
	var names []string
	for n := range sp.Members {
		names = append(names, n)
	}
	sortStrings(names)
	return names
}

func runC08(c *core.Ctx) {
	p := c.P
	c.Rule("R1", "every invoke of a wrapped Queue/Stack method happens with the wrapper's lock held in exclusive mode (RLock is not enough: all wrapped methods mutate or perform channel operations)", 6)
	c.Rule("R1b", "the lock taken by a wrapper method is released on every return path (defer Unlock or explicit unlock)", 6)
	c.Rule("R1c", "wrapper methods have pointer receivers: a value receiver copies the struct, so the method would lock a private copy of the mutex (no mutual exclusion, and a copied locked mutex never unlocks)", 6)
	c.Rule("R2", "the wrapped queue/stack field is only read as the receiver of a delegated call inside the wrapper's own methods (never returned, stored elsewhere or passed on)", 2)
	c.Assume = append(c.Assume, "callers hand the wrapped queue/stack to the wrapper and do not keep using it directly",
		"a blocking wrapped implementation (ChannelQueue.Take) blocks inside the critical section: progress is not claimed")
	wts := wrapperTypes(p)
	li := core.ComputeLocks(p)
	if len(wts) == 0 {
		c.Unknown("R1", "anchor", "-", "no struct with a sync lock and a Queue/Stack interface field found")
		return
	}
	for _, wt := range wts {
		tn := wt.Obj().Name()
		st := wt.Underlying().(*types.Struct)
		lockField, ifaceField := "", ""
		for i := 0; i < st.NumFields(); i++ {
			if isSyncLock(st.Field(i).Type()) {
				lockField = st.Field(i).Name()
			} else if types.IsInterface(st.Field(i).Type()) {
				ifaceField = st.Field(i).Name()
			}
		}
		okR2 := true
		var r2detail string
		for _, m := range p.Methods(p.Fpgo, tn) {
			c.Analysed(core.FuncName(m))
			_, isPtr := m.Signature.Recv().Type().(*types.Pointer)
			c.Check(isPtr, "R1c", tn+"."+m.Name()+"/receiver", p.Pos(m.Pos()), "pointer receiver", "value receiver: "+tn+"."+m.Name()+" operates on a copy of the struct and therefore locks a copy of "+lockField+"; concurrent callers are not excluded and a copy taken while the lock is held stays locked forever")
			recv := m.Params[0].Name()
			lockPath := recv + "." + lockField
			// the method and the closures it builds (a delegated call may sit in a closure run by a lock wrapper:
			// its entry lockset is the intersection over the places where the closure is called)
			core.InstrsDeep(m, func(fn *ssa.Function, ins ssa.Instruction) {
				switch x := ins.(type) {
				case *ssa.Call:
					if x.Call.IsInvoke() && core.Path(x.Call.Value) == recv+"."+ifaceField {
						key := fmt.Sprintf("%s.%s/invoke:%s", tn, m.Name(), x.Call.Method.Name())
						ls := li.At[ins]
						if ls.Has(lockPath, "W") {
							c.Pass("R1", key, p.InstrPos(ins), "held "+ls.String())
						} else if ls.Has(lockPath, "R") {
							c.Fail("R1", key, p.InstrPos(ins), fmt.Sprintf("delegated call %s.%s() runs under the shared (read) lock only: concurrent callers mutate the wrapped structure simultaneously; held=%s", ifaceField, x.Call.Method.Name(), ls))
						} else {
							c.Fail("R1", key, p.InstrPos(ins), fmt.Sprintf("delegated call %s.%s() runs without %s held; held=%s", ifaceField, x.Call.Method.Name(), lockPath, ls))
						}
					}
				case *ssa.Return:
					if fn != m {
						return
					}
					key := fmt.Sprintf("%s.%s/return", tn, m.Name())
					// after rundefers the lock must be gone: emulate deferred unlocks
					ls := li.At[ins].Clone()
					applyDefers(m, ls)
					if ls.HasAny(lockPath) {
						c.Fail("R1b", key, p.InstrPos(ins), "returns with "+lockPath+" still held: the next caller deadlocks")
					} else {
						c.Pass("R1b", key, p.InstrPos(ins), "lock released at exit")
					}
				}
			})
		}
		// R2: every use of the iface field, anywhere in the program
		for _, f := range p.Funcs {
			core.Instrs(f, func(ins ssa.Instruction) {
				fa, ok := ins.(*ssa.FieldAddr)
				if !ok || core.FieldName(fa.X.Type(), fa.Field) != ifaceField || !sameNamed(fa.X.Type(), wt) {
					return
				}
				for _, r := range *fa.Referrers() {
					switch u := r.(type) {
					case *ssa.Store:
						// initialisation in the constructor (composite literal) is fine
						if u.Addr == fa && f.Parent() == nil && f.Signature.Recv() == nil {
							continue
						}
						okR2 = false
						r2detail = "field stored outside a constructor at " + p.InstrPos(u)
					case *ssa.UnOp:
						for _, rr := range *u.Referrers() {
							if call, ok := rr.(*ssa.Call); ok && call.Call.IsInvoke() && call.Call.Value == u {
								continue
							}
							if _, ok := rr.(*ssa.DebugRef); ok {
								continue
							}
							okR2 = false
							r2detail = "wrapped value escapes at " + p.InstrPos(rr)
						}
					}
				}
			})
		}
		c.Check(okR2, "R2", tn+"."+ifaceField, p.Pos(wt.Obj().Pos()), "field only used as receiver of delegated calls", r2detail)
	}
}

// applyDefers removes from ls the locks released by deferred unlock calls of f.
func applyDefers(f *ssa.Function, ls core.Lockset) {
	core.Instrs(f, func(ins ssa.Instruction) {
		if d, ok := ins.(*ssa.Defer); ok {
			if op, path, ok := core.LockOp(&d.Call); ok {
				switch op {
				case "Unlock":
					delete(ls, path+":W")
				case "RUnlock":
					delete(ls, path+":R")
				}
			}
		}
	})
}

func sameNamed(t types.Type, n *types.Named) bool {
	if p, ok := t.Underlying().(*types.Pointer); ok {
		t = p.Elem()
	}
	if p, ok := t.(*types.Pointer); ok {
		t = p.Elem()
	}
	nn, ok := t.(*types.Named)
	return ok && nn.Origin().Obj() == n.Origin().Obj()
}
