package core

import (
	"fmt"
	"go/token"
	"go/types"

	"golang.org/x/tools/go/ssa"
)

// ---------------------------------------------------------------- A9 ordering domain
//
// OrdVal is an abstract value in the three-point ordering domain: the two keys
// being compared (A, B), integer constants, booleans, or unknown.
type OrdVal struct {
	Kind string // "A", "B", "int", "bool", "top"
	I    int64
	B    bool
}

func (v OrdVal) String() string {
	switch v.Kind {
	case "int":
		return fmt.Sprint(v.I)
	case "bool":
		return fmt.Sprint(v.B)
	}
	return v.Kind
}

// Rel is the assumed relation between key A and key B: -1 (A<B), 0 (A=B), +1 (A>B).
type ordEval struct {
	p     *Prog
	rel   int
	depth int
	free  map[string]OrdVal // values of captured variables (by name) of the function evaluated
}

// EvalOrder evaluates function f, whose parameters are bound to args, under the assumption rel
// between the abstract keys A and B. Only straight-line/branching code over comparisons of the
// keys, integer constants and calls to other such functions is understood; anything else is top.
func EvalOrder(p *Prog, f *ssa.Function, args []OrdVal, rel int) OrdVal {
	e := &ordEval{p: p, rel: rel}
	return e.call(f, args)
}

// EvalOrderWith is EvalOrder for a closure whose captured variables (by name) have the given values.
func EvalOrderWith(p *Prog, f *ssa.Function, args []OrdVal, rel int, free map[string]OrdVal) OrdVal {
	e := &ordEval{p: p, rel: rel, free: free}
	return e.call(f, args)
}

func (e *ordEval) call(f *ssa.Function, args []OrdVal) OrdVal {
	f = Origin(f)
	if e.depth > 6 || len(f.Blocks) == 0 {
		return OrdVal{Kind: "top"}
	}
	e.depth++
	defer func() { e.depth-- }()
	env := map[ssa.Value]OrdVal{}
	for i, prm := range f.Params {
		if i < len(args) {
			env[prm] = args[i]
		}
	}
	// closures: free variables unknown
	b := f.Blocks[0]
	var prev *ssa.BasicBlock
	for steps := 0; steps < 200; steps++ {
		for _, ins := range b.Instrs {
			switch x := ins.(type) {
			case *ssa.Phi:
				for i, pb := range b.Preds {
					if pb == prev {
						env[x] = e.val(env, x.Edges[i])
					}
				}
			case *ssa.If:
				c := e.val(env, x.Cond)
				if c.Kind != "bool" {
					return OrdVal{Kind: "top"}
				}
				prev = b
				if c.B {
					b = b.Succs[0]
				} else {
					b = b.Succs[1]
				}
			case *ssa.Jump:
				prev = b
				b = b.Succs[0]
			case *ssa.Return:
				if len(x.Results) != 1 {
					return OrdVal{Kind: "top"}
				}
				return e.val(env, RetVals(x)[0])
			case ssa.Value:
				env[x] = e.val(env, x)
			}
		}
	}
	return OrdVal{Kind: "top"}
}

func (e *ordEval) val(env map[ssa.Value]OrdVal, v ssa.Value) OrdVal {
	if r, ok := env[v]; ok {
		if _, isPhi := v.(*ssa.Phi); isPhi {
			return r
		}
		if _, isPrm := v.(*ssa.Parameter); isPrm {
			return r
		}
	}
	top := OrdVal{Kind: "top"}
	switch x := v.(type) {
	case *ssa.Const:
		if x.Value == nil {
			return top
		}
		if b, ok := x.Type().Underlying().(*types.Basic); ok {
			if b.Info()&types.IsBoolean != 0 {
				return OrdVal{Kind: "bool", B: x.Value.String() == "true"}
			}
			if b.Info()&types.IsInteger != 0 {
				return OrdVal{Kind: "int", I: x.Int64()}
			}
		}
		return top
	case *ssa.Parameter:
		return top
	case *ssa.Alloc:
		if st := Stores(x); len(st) == 1 {
			return e.val(env, st[0].Val)
		}
		return top
	case *ssa.UnOp:
		switch x.Op {
		case token.MUL:
			if fv, ok := x.X.(*ssa.FreeVar); ok && e.depth == 1 {
				if r, known := e.free[fv.Name()]; known {
					return r
				}
			}
			// load: value receivers / locals spilled to a cell, or a field of a key
			if a, ok := x.X.(*ssa.Alloc); ok {
				st := Stores(a)
				if len(st) == 1 {
					return e.val(env, st[0].Val)
				}
				return top
			}
			return e.val(env, x.X)
		case token.NOT:
			c := e.val(env, x.X)
			if c.Kind == "bool" {
				return OrdVal{Kind: "bool", B: !c.B}
			}
		case token.SUB:
			c := e.val(env, x.X)
			if c.Kind == "int" {
				return OrdVal{Kind: "int", I: -c.I}
			}
		}
		return top
	case *ssa.FieldAddr: // projection of a key keeps the key's identity
		return e.val(env, x.X)
	case *ssa.Field:
		return e.val(env, x.X)
	case *ssa.TypeAssert:
		return e.val(env, x.X)
	case *ssa.ChangeType:
		return e.val(env, x.X)
	case *ssa.MakeInterface:
		return e.val(env, x.X)
	case *ssa.Convert:
		return e.val(env, x.X)
	case *ssa.BinOp:
		a, b := e.val(env, x.X), e.val(env, x.Y)
		cmp, ok := 0, false
		switch {
		case a.Kind == "A" && b.Kind == "B":
			cmp, ok = e.rel, true
		case a.Kind == "B" && b.Kind == "A":
			cmp, ok = -e.rel, true
		case a.Kind == "A" && b.Kind == "A", a.Kind == "B" && b.Kind == "B":
			cmp, ok = 0, true
		case a.Kind == "int" && b.Kind == "int":
			switch {
			case a.I < b.I:
				cmp = -1
			case a.I > b.I:
				cmp = 1
			}
			ok = true
		}
		if !ok {
			return top
		}
		switch x.Op {
		case token.LSS:
			return OrdVal{Kind: "bool", B: cmp < 0}
		case token.LEQ:
			return OrdVal{Kind: "bool", B: cmp <= 0}
		case token.GTR:
			return OrdVal{Kind: "bool", B: cmp > 0}
		case token.GEQ:
			return OrdVal{Kind: "bool", B: cmp >= 0}
		case token.EQL:
			return OrdVal{Kind: "bool", B: cmp == 0}
		case token.NEQ:
			return OrdVal{Kind: "bool", B: cmp != 0}
		}
		return top
	case *ssa.Call:
		if name := StdCallee(&x.Call); name == "strings.Compare" {
			a, b := e.val(env, x.Call.Args[0]), e.val(env, x.Call.Args[1])
			switch {
			case a.Kind == "A" && b.Kind == "B":
				return OrdVal{Kind: "int", I: int64(e.rel)}
			case a.Kind == "B" && b.Kind == "A":
				return OrdVal{Kind: "int", I: int64(-e.rel)}
			}
			return top
		}
		g := Callee(&x.Call)
		if g == nil || !e.p.InRepo(g) {
			return top
		}
		var args []OrdVal
		for _, a := range x.Call.Args {
			args = append(args, e.val(env, a))
		}
		return e.call(g, args)
	}
	return top
}
