package core

import (
	"go/token"
	"go/types"

	"golang.org/x/tools/go/ssa"
)

// Cmp is a comparison known to hold (polarity already applied).
type Cmp struct {
	Op   token.Token
	X, Y ssa.Value
	If   *ssa.If
}

func negOp(op token.Token) token.Token {
	switch op {
	case token.EQL:
		return token.NEQ
	case token.NEQ:
		return token.EQL
	case token.LSS:
		return token.GEQ
	case token.GEQ:
		return token.LSS
	case token.GTR:
		return token.LEQ
	case token.LEQ:
		return token.GTR
	}
	return token.ILLEGAL
}

// AsCmp interprets a condition as a comparison that holds.
func AsCmp(c Cond) (Cmp, bool) {
	c = Normalize(c)
	if call, isCall := c.V.(*ssa.Call); isCall && len(call.Call.Args) == 2 && StdCallee(&call.Call) == "errors.Is" {
		// errors.Is(err, Sentinel) reads as err == Sentinel (the library's sentinels are plain errors.New values that
		// are never wrapped; its negation implies err != Sentinel in any case)
		if c.True {
			return Cmp{token.EQL, call.Call.Args[0], call.Call.Args[1], c.If}, true
		}
		return Cmp{token.NEQ, call.Call.Args[0], call.Call.Args[1], c.If}, true
	}
	if call, isCall := c.V.(*ssa.Call); isCall && len(call.Call.Args) == 1 {
		// a private predicate that only compares its argument with one sentinel (`isQueueFullErr(err)` =
		// `errors.Is(err, ErrQueueIsFull)` / `err == ErrQueueIsFull`) reads as that comparison of the argument
		if g := Callee(&call.Call); g != nil && len(g.Blocks) == 1 && len(g.Params) == 1 && g.Object() != nil && !g.Object().Exported() {
			if ret, isRet := g.Blocks[0].Instrs[len(g.Blocks[0].Instrs)-1].(*ssa.Return); isRet && len(ret.Results) == 1 {
				if inner, okI := AsCmp(Cond{V: ret.Results[0], True: true}); okI && inner.Op == token.EQL {
					var other ssa.Value
					if Resolve(inner.X) == ssa.Value(g.Params[0]) {
						other = inner.Y
					} else if Resolve(inner.Y) == ssa.Value(g.Params[0]) {
						other = inner.X
					}
					if other != nil && GlobalName(other) != "" {
						if c.True {
							return Cmp{token.EQL, call.Call.Args[0], other, c.If}, true
						}
						return Cmp{token.NEQ, call.Call.Args[0], other, c.If}, true
					}
				}
			}
		}
	}
	b, ok := c.V.(*ssa.BinOp)
	if !ok {
		return Cmp{}, false
	}
	op := b.Op
	switch op {
	case token.EQL, token.NEQ, token.LSS, token.GEQ, token.GTR, token.LEQ:
	default:
		return Cmp{}, false
	}
	if !c.True {
		op = negOp(op)
	}
	// a constant operand is put on the right (`nil == x`, `0 >= n` read as `x == nil`, `n <= 0`)
	if _, xk := b.X.(*ssa.Const); xk {
		if _, yk := b.Y.(*ssa.Const); !yk {
			return Cmp{mirrorOp(op), b.Y, b.X, c.If}, true
		}
	}
	return Cmp{op, b.X, b.Y, c.If}, true
}

func mirrorOp(op token.Token) token.Token {
	switch op {
	case token.LSS:
		return token.GTR
	case token.GTR:
		return token.LSS
	case token.LEQ:
		return token.GEQ
	case token.GEQ:
		return token.LEQ
	}
	return op
}

// withMirror adds, for a comparison of two non-constant operands, the same fact written the other way round
// (`a < b` also as `b > a`), so that a rule finds it whichever way the source spells it.
func withMirror(out []Cmp, m Cmp) []Cmp {
	out = append(out, m)
	_, xk := m.X.(*ssa.Const)
	_, yk := m.Y.(*ssa.Const)
	if !xk && !yk {
		out = append(out, Cmp{mirrorOp(m.Op), m.Y, m.X, m.If})
	}
	return out
}

// EdgeCmps returns the comparisons known to hold on entry to b.
func EdgeCmps(b *ssa.BasicBlock) []Cmp {
	var out []Cmp
	for _, c := range EdgeFacts(b) {
		if m, ok := AsCmp(c); ok {
			out = withMirror(out, m)
			out = append(out, deriveCmps(m, 0)...)
		}
	}
	return out
}

// deriveCmps: `v != nil` where v merges nil (paths on which nothing was assigned) with one other value e
// implies `e != nil` - the variable was hoisted out of the branch that assigns it.
func deriveCmps(m Cmp, depth int) []Cmp {
	if depth > 2 || m.Op != token.NEQ || !IsNilConst(m.Y) {
		return nil
	}
	phi, ok := m.X.(*ssa.Phi)
	if !ok {
		return nil
	}
	var cand ssa.Value
	for _, e := range phi.Edges {
		if IsNilConst(e) || e == ssa.Value(phi) {
			continue
		}
		if cand != nil && cand != e {
			return nil
		}
		cand = e
	}
	if cand == nil {
		return nil
	}
	d := Cmp{m.Op, cand, m.Y, m.If}
	return append([]Cmp{d}, deriveCmps(d, depth+1)...)
}

// IsNilConst reports whether v is the nil constant.
func IsNilConst(v ssa.Value) bool {
	k, ok := v.(*ssa.Const)
	return ok && k.Value == nil
}

// IsIntConst reports whether v is the integer constant n.
func IsIntConst(v ssa.Value, n int64) bool {
	k, ok := v.(*ssa.Const)
	if !ok || k.Value == nil {
		return false
	}
	if i, ok := constInt64(k); ok {
		return i == n
	}
	return false
}

func constInt64(k *ssa.Const) (int64, bool) {
	if b, ok := k.Type().Underlying().(*types.Basic); ok && b.Info()&types.IsInteger != 0 {
		return k.Int64(), true
	}
	return 0, false
}

// GlobalName: if v is a load of a package-level variable, its name.
func GlobalName(v ssa.Value) string {
	v = Unwrap(v)
	if u, ok := v.(*ssa.UnOp); ok && u.Op == token.MUL {
		if g, ok := u.X.(*ssa.Global); ok {
			return g.Name()
		}
	}
	return ""
}

// CallsIn returns the plain calls in f (not nested closures) whose static callee has the given FuncName.
func CallsIn(f *ssa.Function, name string) []*ssa.Call {
	var out []*ssa.Call
	Instrs(f, func(ins ssa.Instruction) {
		if IsCallTo(ins, name) {
			out = append(out, ins.(*ssa.Call))
		}
	})
	return out
}

// Callees returns the repo functions f may transfer control to synchronously:
// static callees, closures it creates (conservatively), and for interface
// invokes every repo method of that name whose receiver has all the interface's methods.
// Functions started with `go` are not included unless withGo.
func Callees(p *Prog, f *ssa.Function, withGo bool) []*ssa.Function {
	seen := map[*ssa.Function]bool{}
	var out []*ssa.Function
	add := func(g *ssa.Function) {
		g = Origin(g)
		if g != nil && !seen[g] && p.InRepo(g) && len(g.Blocks) > 0 {
			seen[g] = true
			out = append(out, g)
		}
	}
	goFns := map[ssa.Value]bool{}
	Instrs(f, func(ins ssa.Instruction) {
		if g, ok := ins.(*ssa.Go); ok {
			goFns[g.Call.Value] = true
		}
	})
	Instrs(f, func(ins ssa.Instruction) {
		switch x := ins.(type) {
		case *ssa.MakeClosure:
			if goFns[x] && !withGo {
				return
			}
			add(x.Fn.(*ssa.Function))
		case ssa.CallInstruction:
			if _, isGo := ins.(*ssa.Go); isGo && !withGo {
				return
			}
			c := x.Common()
			if c.IsInvoke() {
				for _, g := range p.Funcs {
					if g.Parent() == nil && g.Signature.Recv() != nil && g.Name() == c.Method.Name() {
						add(g)
					}
				}
				return
			}
			if g := c.StaticCallee(); g != nil {
				add(g)
			}
		}
	})
	return out
}

// Reachable returns the set of repo functions synchronously reachable from roots.
func Reachable(p *Prog, roots ...*ssa.Function) map[*ssa.Function]bool {
	seen := map[*ssa.Function]bool{}
	var stack []*ssa.Function
	for _, r := range roots {
		if r != nil {
			stack = append(stack, Origin(r))
		}
	}
	for len(stack) > 0 {
		f := stack[len(stack)-1]
		stack = stack[:len(stack)-1]
		if seen[f] {
			continue
		}
		seen[f] = true
		stack = append(stack, Callees(p, f, false)...)
	}
	return seen
}

// BlockingOp describes why an instruction may block, or "" if it cannot (directly).
func BlockingOp(ins ssa.Instruction) string {
	switch x := ins.(type) {
	case *ssa.Send:
		return "channel send"
	case *ssa.UnOp:
		if x.Op == token.ARROW {
			return "channel receive"
		}
	case *ssa.Select:
		if x.Blocking {
			return "select without default"
		}
	case *ssa.Call:
		switch StdCallee(&x.Call) {
		case "time.Sleep":
			return "time.Sleep"
		case "sync.(WaitGroup).Wait":
			return "WaitGroup.Wait"
		case "sync.(Cond).Wait":
			return "Cond.Wait"
		}
	}
	return ""
}

// NonNilSource: for a value that merges nil with exactly one other value (a variable assigned on one
// branch only), the value it holds wherever it is known to be non-nil; otherwise v itself.
func NonNilSource(v ssa.Value) ssa.Value {
	for d := 0; d < 3; d++ {
		phi, ok := v.(*ssa.Phi)
		if !ok {
			return v
		}
		var cand ssa.Value
		for _, e := range phi.Edges {
			if IsNilConst(e) || e == ssa.Value(phi) {
				continue
			}
			if cand != nil && cand != e {
				return v
			}
			cand = e
		}
		if cand == nil {
			return v
		}
		v = cand
	}
	return v
}
