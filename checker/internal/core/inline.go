package core

import (
	"go/ast"
	"go/token"
	"go/types"

	"golang.org/x/tools/go/ast/astutil"
)

// InlinedAway: unexported one-line helpers every use of which was replaced by their body (inlineHelpers); they are
// dead code in the analysed program and are left out of Prog.Funcs.
var InlinedAway = map[types.Object]bool{}

// inlinedSites counts, per helper, the call sites inlineHelpers replaced.
var inlinedSites = map[types.Object]int{}

// inlineHelpers: an unexported function or method whose whole body is `return <expression>` - a named condition such
// as `func (op *CorOp[T]) hasSender() bool { return op != nil && op.cor != nil }`, a named access such as
// `func (c *chain) at(i int) *Interceptor { return c.list[i] }` - or one plain statement without a result
// (`func (c *chain) add(x *Interceptor) { c.list = *c.list.Append(x) }`) is, wherever it is called with plain operands
// (identifiers, field selections, literals), replaced in the syntax by a copy of that expression / statement with the
// parameters substituted, before the SSA form is built: the rules then see what the name stands for. Only operands
// without side effects are substituted (the body may evaluate them lazily or twice), and only where operand and
// parameter have the same type (a concrete pointer passed for an interface parameter compares differently with nil);
// an addressable value passed for a pointer receiver is substituted as `&value`, as the language does. Inside generic
// code a body that calls methods or generic functions is left alone (the call cannot be re-targeted to the caller's
// instantiation).
func inlineHelpers(fset *token.FileSet, tpkg *types.Package, info *types.Info, files []*ast.File) {
	type cand struct {
		expr    ast.Expr // `return expr`
		stmt    ast.Stmt // or the single statement of a function without results
		block   []ast.Stmt // or a short body of plain statements, guard clauses and loops (no result)
		params  []types.Object // receiver first for methods; nil entries for unnamed ones
		ptypes  []types.Type
		hasRecv bool
	}
	var pure func(e ast.Expr) bool
	pure = func(e ast.Expr) bool {
		switch x := e.(type) {
		case nil:
			return true
		case *ast.Ident, *ast.BasicLit:
			return true
		case *ast.ParenExpr:
			return pure(x.X)
		case *ast.SelectorExpr:
			return pure(x.X)
		case *ast.StarExpr:
			return pure(x.X)
		case *ast.UnaryExpr:
			return x.Op != token.AND && x.Op != token.ARROW && pure(x.X)
		case *ast.BinaryExpr:
			return pure(x.X) && pure(x.Y)
		case *ast.IndexExpr:
			return pure(x.X) && pure(x.Index)
		case *ast.SliceExpr:
			return pure(x.X) && pure(x.Low) && pure(x.High) && pure(x.Max)
		case *ast.CallExpr:
			if x.Ellipsis.IsValid() || !pure(x.Fun) {
				return false
			}
			for _, a := range x.Args {
				if !pure(a) {
					return false
				}
			}
			return true
		case *ast.CompositeLit:
			for _, el := range x.Elts {
				if kv, ok := el.(*ast.KeyValueExpr); ok {
					if !pure(kv.Value) {
						return false
					}
					continue
				}
				if !pure(el) {
					return false
				}
			}
			return true
		}
		return false
	}
	var simple func(e ast.Expr) bool
	simple = func(e ast.Expr) bool {
		switch x := e.(type) {
		case *ast.Ident, *ast.BasicLit:
			return true
		case *ast.ParenExpr:
			return simple(x.X)
		case *ast.SelectorExpr:
			return simple(x.X)
		case *ast.StarExpr:
			return simple(x.X)
		}
		return false
	}
	pureStmt := func(s ast.Stmt) bool {
		switch x := s.(type) {
		case *ast.AssignStmt:
			if x.Tok == token.DEFINE {
				return false
			}
			for _, e := range x.Lhs {
				if !pure(e) {
					return false
				}
			}
			for _, e := range x.Rhs {
				if !pure(e) {
					return false
				}
			}
			return true
		case *ast.IncDecStmt:
			return pure(x.X)
		case *ast.ExprStmt:
			_, isCall := x.X.(*ast.CallExpr)
			return isCall && pure(x.X)
		case *ast.SendStmt:
			return pure(x.Chan) && pure(x.Value)
		}
		return false
	}
	// a short procedure body: plain statements, local definitions, ifs and loops over them, guard clauses
	// (`if c { return }` at the top level) and a final bare return
	var plainList func(list []ast.Stmt, inLoop bool, depth int) bool
	plainStmt := func(st ast.Stmt, inLoop bool, depth int) bool {
		if depth > 3 {
			return false
		}
		switch x := st.(type) {
		case *ast.AssignStmt:
			for _, e := range x.Lhs {
				if !pure(e) {
					return false
				}
			}
			for _, e := range x.Rhs {
				if !pure(e) {
					return false
				}
			}
			return true
		case *ast.IncDecStmt, *ast.ExprStmt, *ast.SendStmt:
			return pureStmt(st)
		case *ast.BranchStmt:
			return inLoop && x.Label == nil && (x.Tok == token.BREAK || x.Tok == token.CONTINUE)
		case *ast.IfStmt:
			if x.Init != nil || !pure(x.Cond) || !plainList(x.Body.List, inLoop, depth+1) {
				return false
			}
			switch e := x.Else.(type) {
			case nil:
				return true
			case *ast.BlockStmt:
				return plainList(e.List, inLoop, depth+1)
			}
			return false
		case *ast.ForStmt:
			if x.Init != nil && !pureStmt(x.Init) {
				if as, isAs := x.Init.(*ast.AssignStmt); !isAs || as.Tok != token.DEFINE {
					return false
				}
			}
			if x.Post != nil && !pureStmt(x.Post) {
				return false
			}
			return pure(x.Cond) && plainList(x.Body.List, true, depth+1)
		case *ast.RangeStmt:
			for _, e := range []ast.Expr{x.Key, x.Value} {
				if e != nil {
					if _, isID := e.(*ast.Ident); !isID {
						return false
					}
				}
			}
			return pure(x.X) && plainList(x.Body.List, true, depth+1)
		}
		return false
	}
	plainList = func(list []ast.Stmt, inLoop bool, depth int) bool {
		for _, st := range list {
			if !plainStmt(st, inLoop, depth) {
				return false
			}
		}
		return true
	}
	isGuard := func(st ast.Stmt) bool {
		iff, ok := st.(*ast.IfStmt)
		if !ok || iff.Init != nil || iff.Else != nil || len(iff.Body.List) != 1 || !pure(iff.Cond) {
			return false
		}
		r, isR := iff.Body.List[0].(*ast.ReturnStmt)
		return isR && len(r.Results) == 0
	}
	procBody := func(list []ast.Stmt) bool {
		if n := len(list); n > 0 {
			if r, isR := list[n-1].(*ast.ReturnStmt); isR && len(r.Results) == 0 {
				list = list[:n-1]
			}
		}
		if len(list) < 1 || len(list) > 8 {
			return false
		}
		for _, st := range list {
			if isGuard(st) {
				continue
			}
			if !plainStmt(st, false, 0) {
				return false
			}
		}
		return true
	}
	components := map[*types.TypeName]bool{}
	for _, obj := range info.Defs {
		tn, isTN := obj.(*types.TypeName)
		if !isTN {
			continue
		}
		st, isSt := tn.Type().Underlying().(*types.Struct)
		if !isSt {
			continue
		}
		for i := 0; i < st.NumFields(); i++ {
			if n, isN := st.Field(i).Type().(*types.Named); isN && !n.Obj().Exported() && n.Obj().Pkg() == tn.Pkg() {
				if _, inner := n.Underlying().(*types.Struct); inner {
					components[n.Origin().Obj()] = true
				}
			}
		}
	}
	cands := map[*types.Func]*cand{}
	for _, f := range files {
		for _, d := range f.Decls {
			fd, ok := d.(*ast.FuncDecl)
			if !ok || fd.Body == nil || len(fd.Body.List) < 1 {
				continue
			}
			fo, isF := info.Defs[fd.Name].(*types.Func)
			if !isF || fo.Exported() || fd.Name.Name == "init" || fd.Name.Name == "main" {
				continue
			}
			sig, _ := fo.Type().(*types.Signature)
			if sig == nil || sig.Variadic() || sig.Results().Len() > 1 {
				continue
			}
			// the helpers of a private flag / state type (a named integer with load/store/isX/markX methods, raw
			// sync/atomic operations) are what the flag analyses recognise as such: left as calls
			if sig.Recv() != nil {
				rt := sig.Recv().Type()
				if pt, isP := rt.(*types.Pointer); isP {
					rt = pt.Elem()
				}
				if _, isBasic := rt.Underlying().(*types.Basic); isBasic {
					continue
				}
			}
			usesAtomic := false
			ast.Inspect(fd.Body, func(n ast.Node) bool {
				if id, isID := n.(*ast.Ident); isID {
					if pn, isPN := info.Uses[id].(*types.PkgName); isPN && pn.Imported().Path() == "sync/atomic" {
						usesAtomic = true
					}
				}
				return true
			})
			if usesAtomic {
				continue
			}
			cd := &cand{}
			var body ast.Node
			if len(fd.Body.List) > 1 || sig.Results().Len() == 0 && !pureStmt(fd.Body.List[0]) {
				// only the procedures of a component: an unexported struct type held by value as a field of another struct
				// (`inbox mailbox[T]`, an embedded `corState`) - its methods are pieces of the owner's methods
				if sig.Results().Len() != 0 || !procBody(fd.Body.List) || sig.Recv() == nil || !components[recvNamed(sig.Recv().Type())] {
					continue
				}
				cd.block, body = fd.Body.List, fd.Body
			} else if sig.Results().Len() == 1 {
				ret, isR := fd.Body.List[0].(*ast.ReturnStmt)
				if !isR || len(ret.Results) != 1 || !pure(ret.Results[0]) {
					continue
				}
				// the evaluator of a stored thunk (`func (m *M) doEffect() T { return m.effect() }`) is a named step of the
				// library's protocol (C11's rules are written in terms of it): kept as a call
				if ce, isCE := ret.Results[0].(*ast.CallExpr); isCE && len(ce.Args) == 0 {
					if sx, isSX := ce.Fun.(*ast.SelectorExpr); isSX {
						if sel, isSel := info.Selections[sx]; isSel && sel.Kind() == types.FieldVal {
							if _, isID := sx.X.(*ast.Ident); isID {
								continue
							}
						}
					}
				}
				cd.expr, body = ret.Results[0], ret.Results[0]
			} else {
				if !pureStmt(fd.Body.List[0]) {
					continue
				}
				// a marker (`x.closed = true`, `*state = lifecycleClosed`): the flag analyses read it as a call
				if as, isAs := fd.Body.List[0].(*ast.AssignStmt); isAs && len(as.Rhs) == 1 {
					if tv, okT := info.Types[as.Rhs[0]]; okT && tv.Value != nil {
						continue
					}
				}
				cd.stmt, body = fd.Body.List[0], fd.Body.List[0]
			}
			if fd.Recv != nil && len(fd.Recv.List) == 1 {
				cd.hasRecv = true
				var ro types.Object
				if len(fd.Recv.List[0].Names) == 1 {
					ro = info.Defs[fd.Recv.List[0].Names[0]]
				}
				cd.params = append(cd.params, ro)
				cd.ptypes = append(cd.ptypes, sig.Recv().Type())
			}
			i := 0
			for _, fl := range fd.Type.Params.List {
				if len(fl.Names) == 0 {
					cd.params = append(cd.params, nil)
					cd.ptypes = append(cd.ptypes, sig.Params().At(i).Type())
					i++
					continue
				}
				for _, nm := range fl.Names {
					cd.params = append(cd.params, info.Defs[nm])
					cd.ptypes = append(cd.ptypes, sig.Params().At(i).Type())
					i++
				}
			}
			// a statement working on a struct it received BY VALUE works on a copy (`func (l lifecycle) markDone()
			// { l.closed.Set(true) }` changes nothing): substituting the operand would make it work on the original
			if cd.stmt != nil || cd.block != nil {
				byValue := false
				for _, pt := range cd.ptypes {
					if _, isStruct := pt.Underlying().(*types.Struct); isStruct {
						byValue = true
					}
					if _, isArr := pt.Underlying().(*types.Array); isArr {
						byValue = true
					}
				}
				if byValue {
					continue
				}
			}
			isParam := func(o types.Object) bool {
				if o == nil {
					return false
				}
				for _, q := range cd.params {
					if q == o {
						return true
					}
				}
				return false
			}
			okBody := true
			ast.Inspect(body, func(n ast.Node) bool {
				switch x := n.(type) {
				case *ast.Ident:
					// not recursive
					if u, isFn := info.Uses[x].(*types.Func); isFn && u.Origin() == fo {
						okBody = false
					}
				case *ast.AssignStmt:
					// parameters are only read
					for _, l := range x.Lhs {
						if id, isID := l.(*ast.Ident); isID && isParam(info.Uses[id]) {
							okBody = false
						}
					}
				case *ast.IncDecStmt:
					if id, isID := x.X.(*ast.Ident); isID && isParam(info.Uses[id]) {
						okBody = false
					}
				}
				return true
			})
			if okBody {
				cands[fo] = cd
			}
		}
	}
	if len(cands) == 0 {
		return
	}
	// same type up to the instantiation of a generic type
	var sameShape func(a, b types.Type) bool
	sameShape = func(a, b types.Type) bool {
		if types.Identical(a, b) {
			return true
		}
		if pa, ok := a.(*types.Pointer); ok {
			pb, ok2 := b.(*types.Pointer)
			return ok2 && sameShape(pa.Elem(), pb.Elem())
		}
		na, ok1 := a.(*types.Named)
		nb, ok2 := b.(*types.Named)
		if ok1 && ok2 {
			return na.Origin() == nb.Origin()
		}
		if sa, ok := a.(*types.Slice); ok {
			sb, ok2 := b.(*types.Slice)
			return ok2 && sameShape(sa.Elem(), sb.Elem())
		}
		_, ta := a.(*types.TypeParam)
		_, tb := b.(*types.TypeParam)
		return ta && tb
	}
	var tsub map[*types.TypeParam]types.Type
	varMap := map[types.Object]*types.Var{}
	var clone func(e ast.Expr, subst map[types.Object]ast.Expr) ast.Expr
	cloneIdent := func(x *ast.Ident) *ast.Ident {
		n := *x
		if o, ok := info.Uses[x]; ok {
			info.Uses[&n] = o
		}
		if tv, ok := info.Types[x]; ok {
			tv.Type = substType(tv.Type, tsub)
			info.Types[&n] = tv
		}
		if inst, ok := info.Instances[x]; ok {
			info.Instances[&n] = inst
		}
		return &n
	}
	clone = func(e ast.Expr, subst map[types.Object]ast.Expr) ast.Expr {
		var out ast.Expr
		switch x := e.(type) {
		case nil:
			return nil
		case *ast.Ident:
			if o := info.Uses[x]; o != nil {
				if r, ok := subst[o]; ok {
					return r
				}
				if nv, ok := varMap[o]; ok {
					n := cloneIdent(x)
					info.Uses[n] = nv
					return n
				}
			}
			if d, isDef := info.Defs[x].(*types.Var); isDef && d != nil {
				// a local defined by the copied statement: a variable of its own, typed for this instantiation
				nv := types.NewVar(d.Pos(), d.Pkg(), d.Name(), substType(d.Type(), tsub))
				varMap[d] = nv
				n := cloneIdent(x)
				info.Defs[n] = nv
				return n
			}
			return cloneIdent(x)
		case *ast.BasicLit:
			n := *x
			out = &n
		case *ast.ParenExpr:
			n := *x
			n.X = clone(x.X, subst)
			out = &n
		case *ast.SelectorExpr:
			n := *x
			n.X = clone(x.X, subst)
			n.Sel = cloneIdent(x.Sel)
			if sel, ok := info.Selections[x]; ok {
				info.Selections[&n] = sel
			}
			out = &n
		case *ast.StarExpr:
			n := *x
			n.X = clone(x.X, subst)
			out = &n
		case *ast.UnaryExpr:
			n := *x
			n.X = clone(x.X, subst)
			out = &n
		case *ast.BinaryExpr:
			n := *x
			n.X = clone(x.X, subst)
			n.Y = clone(x.Y, subst)
			out = &n
		case *ast.IndexExpr:
			n := *x
			n.X = clone(x.X, subst)
			n.Index = clone(x.Index, subst)
			out = &n
		case *ast.SliceExpr:
			n := *x
			n.X = clone(x.X, subst)
			n.Low, n.High, n.Max = clone(x.Low, subst), clone(x.High, subst), clone(x.Max, subst)
			out = &n
		case *ast.CallExpr:
			n := *x
			n.Fun = clone(x.Fun, subst)
			n.Args = make([]ast.Expr, len(x.Args))
			for i, a := range x.Args {
				n.Args[i] = clone(a, subst)
			}
			out = &n
		case *ast.CompositeLit:
			n := *x
			n.Elts = make([]ast.Expr, len(x.Elts))
			for i, el := range x.Elts {
				if kv, ok := el.(*ast.KeyValueExpr); ok {
					k := *kv
					k.Value = clone(kv.Value, subst)
					n.Elts[i] = &k
					continue
				}
				n.Elts[i] = clone(el, subst)
			}
			out = &n
		default:
			return e
		}
		if tv, ok := info.Types[e]; ok {
			tv.Type = substType(tv.Type, tsub)
			info.Types[out] = tv
		}
		return out
	}
	var cloneStmt func(s ast.Stmt, subst map[types.Object]ast.Expr) ast.Stmt
	cloneList := func(list []ast.Stmt, subst map[types.Object]ast.Expr) []ast.Stmt {
		out := make([]ast.Stmt, 0, len(list))
		for _, st := range list {
			if c2 := cloneStmt(st, subst); c2 != nil {
				out = append(out, c2)
			}
		}
		return out
	}
	cloneStmt = func(s ast.Stmt, subst map[types.Object]ast.Expr) ast.Stmt {
		switch x := s.(type) {
		case *ast.BlockStmt:
			n := *x
			n.List = cloneList(x.List, subst)
			return &n
		case *ast.BranchStmt:
			n := *x
			return &n
		case *ast.IfStmt:
			n := *x
			n.Cond = clone(x.Cond, subst)
			n.Body = cloneStmt(x.Body, subst).(*ast.BlockStmt)
			if x.Else != nil {
				n.Else = cloneStmt(x.Else, subst)
			}
			return &n
		case *ast.ForStmt:
			n := *x
			if x.Init != nil {
				n.Init = cloneStmt(x.Init, subst)
			}
			n.Cond = clone(x.Cond, subst)
			if x.Post != nil {
				n.Post = cloneStmt(x.Post, subst)
			}
			n.Body = cloneStmt(x.Body, subst).(*ast.BlockStmt)
			return &n
		case *ast.RangeStmt:
			n := *x
			n.X = clone(x.X, subst)
			n.Key, n.Value = clone(x.Key, subst), clone(x.Value, subst)
			n.Body = cloneStmt(x.Body, subst).(*ast.BlockStmt)
			return &n
		case *ast.AssignStmt:
			n := *x
			n.Lhs = make([]ast.Expr, len(x.Lhs))
			for i, e := range x.Lhs {
				n.Lhs[i] = clone(e, subst)
			}
			n.Rhs = make([]ast.Expr, len(x.Rhs))
			for i, e := range x.Rhs {
				n.Rhs[i] = clone(e, subst)
			}
			return &n
		case *ast.IncDecStmt:
			n := *x
			n.X = clone(x.X, subst)
			return &n
		case *ast.ExprStmt:
			n := *x
			n.X = clone(x.X, subst)
			return &n
		case *ast.SendStmt:
			n := *x
			n.Chan, n.Value = clone(x.Chan, subst), clone(x.Value, subst)
			return &n
		}
		return nil
	}
	// a body that cannot be re-targeted to another instantiation: method calls, generic function calls, composite literals
	rigid := func(n ast.Node) bool {
		found := false
		ast.Inspect(n, func(n ast.Node) bool {
			switch x := n.(type) {
			case *ast.SelectorExpr:
				if sel, isSel := info.Selections[x]; isSel && sel.Kind() != types.FieldVal {
					found = true
				}
			case *ast.CompositeLit:
				found = true
			case *ast.Ident:
				if fo, isF := info.Uses[x].(*types.Func); isF {
					if sg, _ := fo.Type().(*types.Signature); sg != nil && (sg.TypeParams().Len() > 0 || fo.Origin() != fo) {
						found = true
					}
				}
			}
			return true
		})
		return found
	}
	// resolve the call: candidate, substitution of the parameters; nil when the site does not qualify
	var lastCallee *types.Func
	resolve := func(call *ast.CallExpr) (*cand, map[types.Object]ast.Expr) {
		if call.Ellipsis.IsValid() {
			return nil, nil
		}
		fun := call.Fun
		for {
			switch x := fun.(type) {
			case *ast.ParenExpr:
				fun = x.X
				continue
			case *ast.IndexExpr:
				fun = x.X
				continue
			case *ast.IndexListExpr:
				fun = x.X
				continue
			}
			break
		}
		var id *ast.Ident
		var recv ast.Expr
		switch x := fun.(type) {
		case *ast.Ident:
			id = x
		case *ast.SelectorExpr:
			id = x.Sel
			if sel, isSel := info.Selections[x]; isSel {
				if sel.Kind() != types.MethodVal {
					return nil, nil
				}
				recv = x.X
				if n := len(sel.Index()); n > 1 {
					// a method promoted from an embedded component: the receiver is the embedded field, written out
					// (`h.deliver(fn)` is `h.mailbox.deliver(fn)`); the new selection is type-checked in place
					if !simple(x.X) || fset == nil || tpkg == nil {
						return nil, nil
					}
					var fresh func(e ast.Expr) ast.Expr
					fresh = func(e ast.Expr) ast.Expr {
						switch y := e.(type) {
						case *ast.Ident:
							return &ast.Ident{NamePos: y.NamePos, Name: y.Name}
						case *ast.ParenExpr:
							return fresh(y.X)
						case *ast.SelectorExpr:
							return &ast.SelectorExpr{X: fresh(y.X), Sel: &ast.Ident{NamePos: y.Sel.NamePos, Name: y.Sel.Name}}
						case *ast.StarExpr:
							return &ast.StarExpr{Star: y.Star, X: fresh(y.X)}
						}
						return nil
					}
					cur := fresh(x.X)
					t := info.Types[x.X].Type
					for _, fi := range sel.Index()[:n-1] {
						if cur == nil || t == nil {
							return nil, nil
						}
						if pt, isP := t.Underlying().(*types.Pointer); isP {
							t = pt.Elem()
						}
						st, isSt := t.Underlying().(*types.Struct)
						if !isSt || fi >= st.NumFields() {
							return nil, nil
						}
						cur = &ast.SelectorExpr{X: cur, Sel: &ast.Ident{NamePos: x.Sel.NamePos, Name: st.Field(fi).Name()}}
						t = st.Field(fi).Type()
					}
					if cur == nil || types.CheckExpr(fset, tpkg, x.Pos(), cur, info) != nil {
						return nil, nil
					}
					recv = cur
				}
			}
		}
		if id == nil {
			return nil, nil
		}
		fo, _ := info.Uses[id].(*types.Func)
		if fo == nil {
			return nil, nil
		}
		cd := cands[fo.Origin()]
		if cd == nil || cd.hasRecv != (recv != nil) {
			return nil, nil
		}
		args := call.Args
		if recv != nil {
			args = append([]ast.Expr{recv}, args...)
		}
		if len(args) != len(cd.params) {
			return nil, nil
		}
		// type parameters of the helper read as the type arguments of this call
		tsub = map[*types.TypeParam]types.Type{}
		sig := fo.Origin().Type().(*types.Signature)
		if rtp := sig.RecvTypeParams(); rtp != nil && rtp.Len() > 0 && recv != nil {
			rt := info.Types[recv].Type
			if pt, isP := rt.(*types.Pointer); isP {
				rt = pt.Elem()
			}
			nt, isN := rt.(*types.Named)
			if !isN || nt.TypeArgs().Len() != rtp.Len() {
				return nil, nil
			}
			for i := 0; i < rtp.Len(); i++ {
				tsub[rtp.At(i)] = nt.TypeArgs().At(i)
			}
		}
		if tp := sig.TypeParams(); tp != nil && tp.Len() > 0 {
			inst, okI := info.Instances[id]
			if !okI || inst.TypeArgs.Len() != tp.Len() {
				return nil, nil
			}
			for i := 0; i < tp.Len(); i++ {
				tsub[tp.At(i)] = inst.TypeArgs.At(i)
			}
		}
		subst := map[types.Object]ast.Expr{}
		for i, a := range args {
			tv, okT := info.Types[a]
			if lit, isLit := a.(*ast.FuncLit); isLit && okT && cd.block != nil && cd.params[i] != nil {
				// a callback written on the spot for a parameter the body only calls: substituted as it is (creating a
				// closure has no effect of its own)
				onlyCalled := true
				calls := 0
				var visit func(n ast.Node, parent ast.Node)
				ast.Inspect(&ast.BlockStmt{List: cd.block}, func(n ast.Node) bool {
					if ce, isCE := n.(*ast.CallExpr); isCE {
						if id, isID := ce.Fun.(*ast.Ident); isID && info.Uses[id] == cd.params[i] {
							calls++
						}
					}
					return true
				})
				uses := 0
				ast.Inspect(&ast.BlockStmt{List: cd.block}, func(n ast.Node) bool {
					if id, isID := n.(*ast.Ident); isID && info.Uses[id] == cd.params[i] {
						uses++
					}
					return true
				})
				_ = visit
				if uses != calls {
					onlyCalled = false
				}
				if !onlyCalled {
					return nil, nil
				}
				subst[cd.params[i]] = lit
				continue
			}
			if !simple(a) || !okT || tv.Type == nil {
				return nil, nil
			}
			use := a
			if !sameShape(tv.Type, cd.ptypes[i]) && !types.Identical(tv.Type, substType(cd.ptypes[i], tsub)) {
				// the implicit & of a method call on an addressable value / the implicit * on a pointer
				pp, isPP := cd.ptypes[i].(*types.Pointer)
				ap, isAP := tv.Type.(*types.Pointer)
				switch {
				case i == 0 && recv != nil && isPP && sameShape(tv.Type, pp.Elem()) && tv.Addressable():
					u := &ast.UnaryExpr{OpPos: a.Pos(), Op: token.AND, X: a}
					info.Types[u] = types.TypeAndValue{Type: types.NewPointer(tv.Type)}
					use = u
				case i == 0 && recv != nil && isAP && sameShape(ap.Elem(), cd.ptypes[i]):
					u := &ast.StarExpr{Star: a.Pos(), X: a}
					info.Types[u] = types.TypeAndValue{Type: ap.Elem()}
					use = u
				default:
					return nil, nil
				}
			}
			if cd.params[i] != nil {
				subst[cd.params[i]] = use
			}
		}
		if len(tsub) > 0 {
			var body ast.Node = cd.expr
			if cd.expr == nil {
				body = cd.stmt
			}
			if cd.block != nil {
				body = &ast.BlockStmt{List: cd.block}
			}
			if rigid(body) {
				return nil, nil
			}
		}
		lastCallee = fo.Origin()
		return cd, subst
	}
	// the statements of a procedure body as one block: `if c { return }; rest…` becomes `if c { } else { rest… }`, a
	// final bare return is dropped
	var fold func(list []ast.Stmt, subst map[types.Object]ast.Expr) []ast.Stmt
	fold = func(list []ast.Stmt, subst map[types.Object]ast.Expr) []ast.Stmt {
		var out []ast.Stmt
		for i, st := range list {
			if r, isR := st.(*ast.ReturnStmt); isR && len(r.Results) == 0 {
				break
			}
			if isGuard(st) {
				iff := st.(*ast.IfStmt)
				n := &ast.IfStmt{If: iff.If, Cond: clone(iff.Cond, subst), Body: &ast.BlockStmt{Lbrace: iff.Body.Lbrace, Rbrace: iff.Body.Rbrace}}
				if rest := fold(list[i+1:], subst); len(rest) > 0 {
					n.Else = &ast.BlockStmt{Lbrace: iff.Body.Rbrace, List: rest, Rbrace: iff.Body.Rbrace}
				}
				return append(out, n)
			}
			if c2 := cloneStmt(st, subst); c2 != nil {
				out = append(out, c2)
			}
		}
		return out
	}
	for _, f := range files {
		astutil.Apply(f, func(c *astutil.Cursor) bool {
			switch x := c.Node().(type) {
			case *ast.GoStmt, *ast.DeferStmt:
				// the call of a go/defer statement stays a call; its operands are still visited
				var call *ast.CallExpr
				if g, ok := x.(*ast.GoStmt); ok {
					call = g.Call
				} else {
					call = x.(*ast.DeferStmt).Call
				}
				_ = call
				return true
			case *ast.ExprStmt:
				call, ok := x.X.(*ast.CallExpr)
				if !ok {
					return true
				}
				// a function literal called on the spot with plain operands (what a callback parameter becomes once the
				// helper taking it was inlined): its body
				if lit, isLit := unparen(call.Fun).(*ast.FuncLit); isLit && !call.Ellipsis.IsValid() {
					if lit.Type.Results == nil || len(lit.Type.Results.List) == 0 {
						var prms []types.Object
						for _, fl := range lit.Type.Params.List {
							for _, nm := range fl.Names {
								prms = append(prms, info.Defs[nm])
							}
						}
						okLit := len(prms) == len(call.Args) && (procBody(lit.Body.List) || len(lit.Body.List) == 1 && pureStmt(lit.Body.List[0]))
						subst := map[types.Object]ast.Expr{}
						for i, a := range call.Args {
							if !okLit || !simple(a) || prms[i] == nil {
								okLit = false
								break
							}
							subst[prms[i]] = a
						}
						// parameters are only read
						if okLit {
							ast.Inspect(lit.Body, func(n ast.Node) bool {
								if as, isAs := n.(*ast.AssignStmt); isAs {
									for _, l := range as.Lhs {
										if id, isID := l.(*ast.Ident); isID && subst[info.Uses[id]] != nil {
											okLit = false
										}
									}
								}
								if _, isFL := n.(*ast.FuncLit); isFL && n != ast.Node(lit) {
									okLit = false
								}
								return true
							})
						}
						if okLit {
							tsub = nil
							varMap = map[types.Object]*types.Var{}
							c.Replace(&ast.BlockStmt{Lbrace: call.Pos(), List: fold(lit.Body.List, subst), Rbrace: call.End()})
							return false
						}
					}
					return true
				}
				cd, subst := resolve(call)
				if cd != nil && cd.block != nil {
					varMap = map[types.Object]*types.Var{}
					c.Replace(&ast.BlockStmt{Lbrace: call.Pos(), List: fold(cd.block, subst), Rbrace: call.End()})
					inlinedSites[lastCallee]++
					return false
				}
				if cd == nil || cd.stmt == nil {
					return true // (a discarded result: left as it is)
				}
				varMap = map[types.Object]*types.Var{}
				if ns := cloneStmt(cd.stmt, subst); ns != nil {
					c.Replace(ns)
					inlinedSites[lastCallee]++
					return false
				}
				return true
			case *ast.CallExpr:
				switch par := c.Parent().(type) {
				case *ast.GoStmt:
					if par.Call == x {
						return true
					}
				case *ast.DeferStmt:
					if par.Call == x {
						return true
					}
				case *ast.ExprStmt:
					return true
				}
				cd, subst := resolve(x)
				if cd == nil || cd.expr == nil {
					return true
				}
				varMap = map[types.Object]*types.Var{}
				repl := &ast.ParenExpr{Lparen: x.Pos(), X: clone(cd.expr, subst), Rparen: x.End()}
				if tv, okT := info.Types[x]; okT {
					info.Types[repl] = tv
				}
				c.Replace(repl)
				inlinedSites[lastCallee]++
				return false
			}
			return true
		}, nil)
	}
}

// markInlinedAway records the inlining candidates no use of which is left in the syntax.
func markInlinedAway(info *types.Info, files []*ast.File) {
	used := map[types.Object]bool{}
	decl := map[types.Object]*ast.FuncDecl{}
	for _, f := range files {
		for _, d := range f.Decls {
			if fd, ok := d.(*ast.FuncDecl); ok && fd.Body != nil {
				if fo, isF := info.Defs[fd.Name].(*types.Func); isF && !fo.Exported() {
					decl[fo] = fd
				}
			}
		}
		ast.Inspect(f, func(n ast.Node) bool {
			if id, ok := n.(*ast.Ident); ok {
				if fo, isF := info.Uses[id].(*types.Func); isF {
					used[fo.Origin()] = true
				}
			}
			return true
		})
	}
	for fo, fd := range decl {
		if used[fo] || inlinedSites[fo] == 0 || fd.Name.Name == "init" || fd.Name.Name == "main" {
			continue
		}
		InlinedAway[fo] = true
	}
}

func unparen(e ast.Expr) ast.Expr {
	for {
		p, ok := e.(*ast.ParenExpr)
		if !ok {
			return e
		}
		e = p.X
	}
}

func recvNamed(t types.Type) *types.TypeName {
	if pt, ok := t.(*types.Pointer); ok {
		t = pt.Elem()
	}
	if n, ok := t.(*types.Named); ok {
		return n.Origin().Obj()
	}
	return nil
}
