package core

import (
	"fmt"
	"go/token"
	"go/types"
	"sort"
	"strings"

	"golang.org/x/tools/go/ssa"
)

// ---------------------------------------------------------------- A6 write effects / freshness
//
// LocSet abstracts "which memory may this value's storage be": bit 0 Fresh
// (allocated in this call), bit 1 Unknown, bit 2 Global, bit 3+i the memory
// reachable from parameter i (free variables of closures follow the parameters).
type LocSet uint64

const (
	LocFresh   LocSet = 1
	LocUnknown LocSet = 2
	LocGlobal  LocSet = 4
	// LocNil: the value may be (or hold) a nil map - a nil constant of map type, the content of a map variable
	// that is never assigned, or what a callee returns where it may return such a value
	LocNil    LocSet = 8
	locParam0        = 4
)

func LocParam(i int) LocSet { return 1 << uint(locParam0+i) }
func (l LocSet) Params() LocSet { return l &^ (LocFresh | LocUnknown | LocGlobal | LocNil) }
func (l LocSet) HasParam(i int) bool { return l&LocParam(i) != 0 }

func (l LocSet) Describe(f *ssa.Function) string {
	var s []string
	if l&LocFresh != 0 {
		s = append(s, "fresh")
	}
	if l&LocUnknown != 0 {
		s = append(s, "unknown")
	}
	if l&LocGlobal != 0 {
		s = append(s, "global")
	}
	if l&LocNil != 0 {
		s = append(s, "nil-map")
	}
	n := len(f.Params)
	for i := 0; i < n+len(f.FreeVars); i++ {
		if l.HasParam(i) {
			if i < n {
				s = append(s, "param:"+f.Params[i].Name())
			} else {
				s = append(s, "captured:"+f.FreeVars[i-n].Name())
			}
		}
	}
	return "{" + strings.Join(s, ",") + "}"
}

// WriteSite is one instruction that may write memory reachable from a parameter.
type WriteSite struct {
	Instr  ssa.Instruction
	Target LocSet
	What   string
}

// Effects is the summary of one function.
type Effects struct {
	Fn     *ssa.Function
	Writes LocSet      // parameters (and captured variables) whose reachable memory may be written
	Sites  []WriteSite // where
	// Ret[k]: storage the k-th result may share, with parameter identity separated:
	// RetIdent[k] = parameters that may be returned as the very same pointer/value.
	Ret      []LocSet
	RetIdent []LocSet
	// RetNil[k]: the k-th result may be (or hold) a nil map. MapWrites: parameters whose map is assigned into
	// (m[k] = v). NilMapWrites: map assignments whose map may be nil (they panic).
	RetNil       []bool
	MapWrites    LocSet
	NilMapWrites []WriteSite
	Externals map[string]bool // non-repo callees assumed not to write their arguments
}

type EffectsInfo struct {
	P  *Prog
	Of map[*ssa.Function]*Effects
}

func pointerLike(t types.Type) bool {
	if _, ok := t.(*types.TypeParam); ok {
		return false // elements of a generic collection are treated as values
	}
	switch u := t.Underlying().(type) {
	case *types.Pointer, *types.Slice, *types.Map, *types.Chan, *types.Interface, *types.Signature:
		return true
	case *types.Struct:
		for i := 0; i < u.NumFields(); i++ {
			if pointerLike(u.Field(i).Type()) {
				return true
			}
		}
	case *types.Array:
		return pointerLike(u.Elem())
	}
	return false
}

// capLimited: a slice expression whose capacity equals its length (x[:i:i], x[:0:0]): append must reallocate.
func capLimited(v ssa.Value) bool {
	s, ok := v.(*ssa.Slice)
	if !ok || s.Max == nil {
		return false
	}
	if s.High == s.Max {
		return true
	}
	kh, ok1 := s.High.(*ssa.Const)
	km, ok2 := s.Max.(*ssa.Const)
	return ok1 && ok2 && kh.Int64() == km.Int64()
}

// emptyPrefix: x[:0:0] (shares no element with x).
func emptyPrefix(v ssa.Value) bool {
	s, ok := v.(*ssa.Slice)
	if !ok || s.High == nil {
		return false
	}
	k, isK := s.High.(*ssa.Const)
	return isK && k.Int64() == 0
}

// appendsSomething: the variadic part of an append call is a literal list of at least one element.
func appendsSomething(c *ssa.CallCommon) bool {
	if len(c.Args) < 2 {
		return false
	}
	sl, ok := c.Args[1].(*ssa.Slice)
	if !ok {
		return false
	}
	a, ok := sl.X.(*ssa.Alloc)
	if !ok {
		return false
	}
	if pt, isP := a.Type().Underlying().(*types.Pointer); isP {
		if arr, isA := pt.Elem().Underlying().(*types.Array); isA {
			return arr.Len() >= 1
		}
	}
	return false
}

// ComputeEffects computes summaries for all repo functions to a fixpoint.
func ComputeEffects(p *Prog) *EffectsInfo {
	ei := &EffectsInfo{P: p, Of: map[*ssa.Function]*Effects{}}
	for _, f := range p.Funcs {
		nr := f.Signature.Results().Len()
		ei.Of[f] = &Effects{Fn: f, Ret: make([]LocSet, nr), RetIdent: make([]LocSet, nr), RetNil: make([]bool, nr), Externals: map[string]bool{}}
	}
	for round := 0; round < 30; round++ {
		changed := false
		for _, f := range p.Funcs {
			if ei.analyse(f) {
				changed = true
			}
		}
		if !changed {
			break
		}
	}
	return ei
}

// methodsNamed: repo methods with this name (CHA by name for interface invokes).
func (ei *EffectsInfo) methodsNamed(name string, nparams int) []*ssa.Function {
	var out []*ssa.Function
	for _, g := range ei.P.Funcs {
		if g.Parent() == nil && g.Signature.Recv() != nil && g.Name() == name && len(g.Params) == nparams {
			out = append(out, g)
		}
	}
	return out
}

func (ei *EffectsInfo) analyse(f *ssa.Function) bool {
	if len(f.Blocks) == 0 {
		return false
	}
	e := ei.Of[f]
	alias := map[ssa.Value]LocSet{}
	cell := map[ssa.Value]LocSet{} // content of local cells (Alloc)
	np := len(f.Params)
	for i, prm := range f.Params {
		if pointerLike(prm.Type()) {
			alias[prm] = LocParam(i)
		}
	}
	for k, fv := range f.FreeVars {
		alias[fv] = LocParam(np + k)
	}
	var sites []WriteSite
	writes := LocSet(0)
	mapWrites := LocSet(0)
	var nilSites []WriteSite
	seenNil := map[ssa.Instruction]bool{}
	mapWrite := func(ins ssa.Instruction, target LocSet, what string) {
		mapWrites |= target.Params()
		if target&LocNil != 0 && !seenNil[ins] {
			seenNil[ins] = true
			nilSites = append(nilSites, WriteSite{ins, target, what})
		}
	}
	seenSite := map[ssa.Instruction]bool{}
	write := func(ins ssa.Instruction, target LocSet, what string) {
		t := target.Params()
		if t == 0 {
			return
		}
		writes |= t
		if !seenSite[ins] {
			seenSite[ins] = true
			sites = append(sites, WriteSite{ins, t, what})
		}
	}
	get := func(v ssa.Value) LocSet {
		switch x := v.(type) {
		case *ssa.Const:
			if x.IsNil() {
				if _, isMap := x.Type().Underlying().(*types.Map); isMap {
					return LocNil
				}
			}
			return 0
		case *ssa.Global:
			return LocGlobal
		case *ssa.Function:
			return 0
		case *ssa.Alloc:
			return cell[x] | LocFresh
		}
		return alias[v]
	}
	// local cell reached through field/index addressing of an Alloc
	var cellOf func(v ssa.Value) *ssa.Alloc
	cellOf = func(v ssa.Value) *ssa.Alloc {
		switch x := v.(type) {
		case *ssa.Alloc:
			return x
		case *ssa.FieldAddr:
			if a := cellOf(x.X); a != nil {
				return a
			}
		}
		return nil
	}
	// element store into a freshly allocated array (composite literal): contents are not tracked
	freshElem := func(v ssa.Value) bool {
		ia, ok := v.(*ssa.IndexAddr)
		if !ok {
			return false
		}
		_, isAlloc := ia.X.(*ssa.Alloc)
		return isAlloc
	}
	applyCall := func(ins ssa.Instruction, c *ssa.CallCommon, res ssa.Value) LocSet {
		// returns alias of the (first) result
		if b, ok := c.Value.(*ssa.Builtin); ok {
			switch b.Name() {
			case "append":
				s := c.Args[0]
				as := get(s)
				if capLimited(s) {
					// append must reallocate as soon as it appends anything: nothing shared is written. The result is
					// fresh unless nothing is appended - then it IS its first argument (x[:n:n]) and shares x's array,
					// so it is fresh only for an empty prefix (x[:0:0]) or a provably non-empty appended part
					if emptyPrefix(s) || appendsSomething(c) {
						return LocFresh
					}
					return as | LocFresh
				}
				if as.Params()|as&(LocUnknown|LocGlobal) == 0 {
					return LocFresh
				}
				write(ins, as, "append into a slice that may have spare capacity in "+as.Describe(f)+" (writes the shared backing array beyond len)")
				return as | LocFresh
			case "copy":
				write(ins, get(c.Args[0]), "copy into "+get(c.Args[0]).Describe(f))
				return 0
			case "delete":
				write(ins, get(c.Args[0]), "delete from map "+get(c.Args[0]).Describe(f))
				return 0
			}
			return 0
		}
		var targets []*ssa.Function
		if c.IsInvoke() {
			targets = ei.methodsNamed(c.Method.Name(), c.Signature().Params().Len()+1)
			args := append([]ssa.Value{c.Value}, c.Args...)
			r := LocSet(0)
			for _, g := range targets {
				r |= ei.applySummary(f, ins, g, args, get, write)
				ei.applyMapWrites(f, ins, g, args, get, mapWrite)
			}
			if len(targets) == 0 {
				return LocUnknown
			}
			return r
		}
		g := Callee(c)
		if g == nil {
			// dynamic call of a function value: a user callback (assumed not to touch the collection) or a local closure (its effects were applied where it was created)
			return 0
		}
		if !ei.P.InRepo(g) || len(g.Blocks) == 0 {
			name := StdCallee(c)
			switch name {
			case "sort.Slice", "sort.SliceStable", "sort.Sort", "sort.Stable", "sort.Strings", "sort.Ints":
				write(ins, get(c.Args[0]), name+" sorts "+get(c.Args[0]).Describe(f)+" in place")
				return 0
			}
			switch name {
			case "slices.Sort", "slices.SortFunc", "slices.SortStableFunc", "slices.Reverse":
				write(ins, get(c.Args[0]), name+" reorders "+get(c.Args[0]).Describe(f)+" in place")
				return 0
			case "slices.Delete", "slices.DeleteFunc", "slices.Insert", "slices.Replace", "slices.Compact", "slices.CompactFunc":
				// shift the elements of their first argument in place and return a slice of the same array
				write(ins, get(c.Args[0]), name+" moves elements of "+get(c.Args[0]).Describe(f)+" in place")
				return get(c.Args[0])
			case "slices.Grow", "slices.Clip":
				return get(c.Args[0])
			case "maps.Clone":
				// a fresh map - but nil for a nil argument: unless the argument is known to be freshly made, the
				// result may be the nil map
				a := get(c.Args[0])
				if a&^LocFresh != 0 || a == 0 {
					return LocFresh | LocNil
				}
				return LocFresh
			case "maps.Copy", "maps.DeleteFunc":
				write(ins, get(c.Args[0]), name+" writes the map "+get(c.Args[0]).Describe(f))
				return 0
			}
			e.Externals[name] = true
			if res != nil && pointerLike(res.Type()) {
				// e.g. reflect, fmt, strings: results do not alias our collections
				return LocFresh
			}
			return 0
		}
		ei.applyMapWrites(f, ins, g, c.Args, get, mapWrite)
		return ei.applySummary(f, ins, g, c.Args, get, write)
	}
	for iter := 0; iter < 40; iter++ {
		stable := true
		set := func(v ssa.Value, l LocSet) {
			if alias[v]|l != alias[v] {
				alias[v] |= l
				stable = false
			}
		}
		setCell := func(a ssa.Value, l LocSet) {
			if cell[a]|l != cell[a] {
				cell[a] |= l
				stable = false
			}
		}
		Instrs(f, func(ins ssa.Instruction) {
			switch x := ins.(type) {
			case *ssa.Alloc:
				// a map variable that is never assigned holds the nil map (new(MapType), var m map[K]V whose address is taken)
				if _, isMap := x.Type().Underlying().(*types.Pointer).Elem().Underlying().(*types.Map); isMap && len(Stores(x)) == 0 {
					setCell(x, LocNil)
				}
			case *ssa.MakeSlice, *ssa.MakeMap, *ssa.MakeChan:
				set(x.(ssa.Value), LocFresh)
			case *ssa.FieldAddr:
				set(x, get(x.X))
			case *ssa.Field:
				set(x, get(x.X))
			case *ssa.IndexAddr:
				set(x, get(x.X))
			case *ssa.Index:
				set(x, get(x.X))
			case *ssa.Lookup:
				if pointerLike(x.Type()) {
					set(x, get(x.X))
				}
			case *ssa.Slice:
				set(x, get(x.X))
			case *ssa.ChangeType:
				set(x, get(x.X))
			case *ssa.ChangeInterface:
				set(x, get(x.X))
			case *ssa.Convert:
				if pointerLike(x.Type()) {
					set(x, get(x.X))
				}
			case *ssa.MakeInterface:
				set(x, get(x.X))
			case *ssa.TypeAssert:
				set(x, get(x.X))
			case *ssa.Extract:
				set(x, get(x.Tuple))
			case *ssa.Phi:
				for _, ed := range x.Edges {
					set(x, get(ed))
				}
			case *ssa.UnOp:
				if x.Op == token.MUL {
					if a := cellOf(x.X); a != nil {
						if pointerLike(x.Type()) {
							set(x, cell[a])
						}
					} else if pointerLike(x.Type()) {
						set(x, get(x.X)&^LocFresh|get(x.X)&LocFresh)
					}
				} else if x.Op == token.ARROW {
					set(x, LocUnknown)
				}
			case *ssa.Range:
				set(x, get(x.X))
			case *ssa.Next:
				if x.Iter != nil {
					set(x, get(x.Iter))
				}
			case *ssa.Store:
				if a := cellOf(x.Addr); a != nil {
					setCell(a, get(x.Val))
				} else if freshElem(x.Addr) {
					// nothing: element of a local array literal
				} else {
					write(ins, get(x.Addr), "store through "+Path(x.Addr)+" into "+get(x.Addr).Describe(f))
				}
			case *ssa.MapUpdate:
				write(ins, get(x.Map), "map update of "+get(x.Map).Describe(f))
				mapWrite(ins, get(x.Map), "assignment into the map "+Path(x.Map))
			case *ssa.MakeClosure:
				g := x.Fn.(*ssa.Function)
				ge := ei.Of[g]
				if ge != nil {
					gn := len(g.Params)
					for k, b := range x.Bindings {
						if ge.Writes.HasParam(gn + k) {
							// the closure writes through its captured variable
							if a := cellOf(b); a != nil {
								write(ins, cell[a], "closure "+FuncName(g)+" writes through captured "+g.FreeVars[k].Name())
							} else {
								write(ins, get(b), "closure "+FuncName(g)+" writes through captured "+g.FreeVars[k].Name())
							}
						}
					}
				}
			case *ssa.Call:
				r := applyCall(ins, &x.Call, x)
				if pointerLike(x.Type()) || x.Type().Underlying() != nil {
					set(x, r)
				}
			case *ssa.Go:
				applyCall(ins, &x.Call, nil)
			case *ssa.Defer:
				applyCall(ins, &x.Call, nil)
			case *ssa.Send:
			}
		})
		if stable {
			break
		}
	}
	// results
	nr := f.Signature.Results().Len()
	ret := make([]LocSet, nr)
	ident := make([]LocSet, nr)
	var leaves func(v ssa.Value, k int, depth int)
	leaves = func(v ssa.Value, k int, depth int) {
		if depth > 10 {
			ret[k] |= get(v)
			return
		}
		switch x := v.(type) {
		case *ssa.Phi:
			for _, ed := range x.Edges {
				leaves(ed, k, depth+1)
			}
		case *ssa.ChangeType:
			leaves(x.X, k, depth+1)
		case *ssa.MakeInterface:
			leaves(x.X, k, depth+1)
		case *ssa.ChangeInterface:
			leaves(x.X, k, depth+1)
		case *ssa.Parameter:
			for i, prm := range f.Params {
				if prm == x && pointerLike(x.Type()) {
					ident[k] |= LocParam(i)
				}
			}
		case *ssa.Call:
			// a callee that returns one of its parameters unchanged
			if g := Callee(&x.Call); g != nil && ei.Of[g] != nil && !x.Call.IsInvoke() && len(ei.Of[g].RetIdent) > 0 {
				ge := ei.Of[g]
				for i := range g.Params {
					if ge.RetIdent[0].HasParam(i) && i < len(x.Call.Args) {
						leaves(x.Call.Args[i], k, depth+1)
					}
				}
				if ge.Ret[0] != 0 {
					ret[k] |= mapLocs(ge.Ret[0], len(g.Params), x.Call.Args, get)
				}
				if ge.RetNil[0] {
					ret[k] |= LocNil
				}
				return
			}
			ret[k] |= get(v)
		default:
			if s := LoadSource(v); s != nil {
				leaves(s, k, depth+1)
				return
			}
			ret[k] |= get(v)
		}
	}
	Instrs(f, func(ins ssa.Instruction) {
		if r, ok := ins.(*ssa.Return); ok {
			for k, v := range RetVals(r) {
				if k < nr {
					leaves(v, k, 0)
				}
			}
		}
	})
	changed := writes != e.Writes || mapWrites != e.MapWrites || len(nilSites) != len(e.NilMapWrites)
	retNil := make([]bool, nr)
	for k := 0; k < nr; k++ {
		retNil[k] = ret[k]&LocNil != 0
		ret[k] &^= LocNil
		if ret[k] != e.Ret[k] || ident[k] != e.RetIdent[k] || retNil[k] != e.RetNil[k] {
			changed = true
		}
	}
	e.Writes, e.Sites, e.Ret, e.RetIdent, e.RetNil, e.MapWrites, e.NilMapWrites = writes, sites, ret, ident, retNil, mapWrites, nilSites
	sort.Slice(e.Sites, func(i, j int) bool { return e.Sites[i].Instr.Pos() < e.Sites[j].Instr.Pos() })
	return changed
}

// mapLocs translates a callee-side LocSet to the caller through the actual arguments.
func mapLocs(l LocSet, nparams int, args []ssa.Value, get func(ssa.Value) LocSet) LocSet {
	out := l &^ l.Params()
	for i := 0; i < nparams && i < len(args); i++ {
		if l.HasParam(i) {
			out |= get(args[i])
		}
	}
	// captured variables of a callee (only for closures called directly): unknown
	if l.Params()>>uint(locParam0+nparams) != 0 {
		out |= LocUnknown
	}
	return out
}

func (ei *EffectsInfo) applySummary(f *ssa.Function, ins ssa.Instruction, g *ssa.Function, args []ssa.Value, get func(ssa.Value) LocSet, write func(ssa.Instruction, LocSet, string)) LocSet {
	ge := ei.Of[Origin(g)]
	if ge == nil {
		return LocUnknown
	}
	g = ge.Fn
	for i := 0; i < len(g.Params) && i < len(args); i++ {
		if ge.Writes.HasParam(i) {
			write(ins, get(args[i]), fmt.Sprintf("call of %s, which writes through its parameter %s", FuncName(g), g.Params[i].Name()))
		}
	}
	if len(ge.Ret) == 0 {
		return 0
	}
	r := LocSet(0)
	for k := range ge.Ret {
		r |= mapLocs(ge.Ret[k]|ge.RetIdent[k], len(g.Params), args, get)
		if ge.RetNil[k] {
			r |= LocNil
		}
	}
	return r
}

// applyMapWrites: the callee assigns into the map reachable from some of its parameters; seen from the caller that is an
// assignment into the corresponding arguments.
func (ei *EffectsInfo) applyMapWrites(f *ssa.Function, ins ssa.Instruction, g *ssa.Function, args []ssa.Value, get func(ssa.Value) LocSet, mapWrite func(ssa.Instruction, LocSet, string)) {
	ge := ei.Of[Origin(g)]
	if ge == nil || ge.MapWrites == 0 {
		return
	}
	g = ge.Fn
	for i := 0; i < len(g.Params) && i < len(args); i++ {
		if ge.MapWrites.HasParam(i) {
			mapWrite(ins, get(args[i]), fmt.Sprintf("call of %s, which assigns into the map of its parameter %s", FuncName(g), g.Params[i].Name()))
		}
	}
}
