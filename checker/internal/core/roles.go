package core

import (
	"go/token"
	"go/types"
	"strings"

	"golang.org/x/tools/go/ssa"
)

// ---------------------------------------------------------------- roles
//
// The rules name unexported fields and helpers by the identifiers they have in
// the pinned tree ("canonical" names). A maintainer may rename any of them without
// changing behaviour, so when a canonical name no longer exists the field/helper is
// re-identified by its ROLE (its type, the exported accessor that returns it, the
// operation performed on it) and aliased back to the canonical name. If a role
// cannot be identified the rule that needs it reports an unresolved anchor.

var fieldAlias = map[string]string{} // "Type.actualField" → canonical field name
var typeAlias = map[string]string{}  // actual name of a renamed unexported type → canonical name

// canonType maps the actual name of a type to the name the rules use.
func canonType(actual string) string {
	if c, ok := typeAlias[actual]; ok {
		return c
	}
	return actual
}
var funcAlias = map[*ssa.Function]string{}

// fullAlias: an unexported helper that changed its form - a method rewritten as a plain function taking the former
// receiver as first argument, or a plain function rewritten as a method of an unexported carrier type - keeps its
// canonical name ("Type.method" resp. "function"); parameter and argument positions are the same in both forms.
var fullAlias = map[*ssa.Function]string{}

// canonicalField maps an actual field name of type tn to its canonical name.
func canonicalField(tn, actual string) string {
	if c, ok := fieldAlias[tn+"."+actual]; ok {
		return c
	}
	return actual
}

type roleCtx struct {
	p *Prog
}

func (r *roleCtx) structOf(pkg *ssa.Package, tn string) (*types.Named, *types.Struct) {
	n := r.p.Named(pkg, tn)
	if n == nil {
		return nil, nil
	}
	st, _ := n.Underlying().(*types.Struct)
	return n, st
}

// flatFields: the fields of st with the fields of its grouping structs (transparentStruct) in place of those.
func flatFields(st *types.Struct, depth int) []*types.Var {
	var out []*types.Var
	for i := 0; i < st.NumFields(); i++ {
		f := st.Field(i)
		if depth < 2 && transparentStruct(f.Type()) {
			if _, mapped := nestedOwner[rawTypeName(f.Type())]; mapped {
				out = append(out, flatFields(f.Type().Underlying().(*types.Struct), depth+1)...)
				continue
			}
		}
		out = append(out, f)
	}
	return out
}

func hasField(st *types.Struct, name string) bool {
	for _, f := range flatFields(st, 0) {
		if f.Name() == name {
			return true
		}
	}
	return false
}

// rawFieldKey is FieldKey without aliasing (used while resolving).
func rawFieldName(v ssa.Value) (string, string) {
	for i := 0; i < 20; i++ {
		switch x := v.(type) {
		case *ssa.UnOp:
			if x.Op == token.MUL {
				v = x.X
				continue
			}
			return "", ""
		case *ssa.ChangeType:
			v = x.X
			continue
		case *ssa.Convert:
			v = x.X
			continue
		case *ssa.MakeInterface:
			v = x.X
			continue
		case *ssa.BinOp:
			// `x.f.load() != pending`: the flag read of a private state type
			if addr, ok := StateLoadCmp(x); ok {
				v = addr
				continue
			}
			return "", ""
		case *ssa.Call:
			// AtomBool.Get(&x.f) → the field f
			if g := Callee(&x.Call); g != nil && (g.Name() == "Get" || IsAtomGet(g)) && len(x.Call.Args) == 1 {
				v = x.Call.Args[0]
				continue
			}
			// an unexported accessor of the same package that returns a field (`func (q *Q) closed() bool { return q.flag.Get() }`)
			if g := Callee(&x.Call); g != nil && len(g.Blocks) == 1 && g.Object() != nil && !g.Object().Exported() && g.Signature.Results().Len() == 1 {
				if ret, ok := g.Blocks[0].Instrs[len(g.Blocks[0].Instrs)-1].(*ssa.Return); ok && len(ret.Results) == 1 {
					v = ret.Results[0]
					continue
				}
			}
			return "", ""
		case *ssa.FieldAddr:
			return typeName(x.X.Type()), rawName(x.X.Type(), x.Field)
		case *ssa.Field:
			return typeName(x.X.Type()), rawName(x.X.Type(), x.Field)
		}
		return "", ""
	}
	return "", ""
}

func rawName(t types.Type, i int) string {
	if p, ok := t.Underlying().(*types.Pointer); ok {
		t = p.Elem()
	}
	if s, ok := t.Underlying().(*types.Struct); ok && i < s.NumFields() {
		return s.Field(i).Name()
	}
	return ""
}

// returnedBy: the field of type tn returned (possibly through AtomBool.Get) by exported method m.
func (r *roleCtx) returnedBy(pkg *ssa.Package, tn, m string) string {
	f := r.p.Method(pkg, tn, m)
	if f == nil {
		return ""
	}
	found := ""
	Instrs(f, func(ins ssa.Instruction) {
		if ret, ok := ins.(*ssa.Return); ok && len(ret.Results) >= 1 {
			if t, n := rawFieldName(RetVals(ret)[0]); t == tn {
				found = n
			}
		}
	})
	return found
}

// setBy: the field of type tn (or an embedded struct) stored by exported setter m.
func (r *roleCtx) setBy(pkg *ssa.Package, recvType, fieldType, m string) string {
	f := r.p.Method(pkg, recvType, m)
	if f == nil {
		return ""
	}
	found := ""
	Instrs(f, func(ins ssa.Instruction) {
		if st, ok := ins.(*ssa.Store); ok {
			if fa, ok := st.Addr.(*ssa.FieldAddr); ok && typeName(fa.X.Type()) == fieldType {
				found = rawName(fa.X.Type(), fa.Field)
			}
		}
	})
	return found
}

// uniqueByType: the only field of st (not in taken) whose type satisfies pred.
func uniqueByType(st *types.Struct, taken map[string]bool, pred func(types.Type) bool) string {
	found, n := "", 0
	for _, f := range flatFields(st, 0) {
		if taken[f.Name()] {
			continue
		}
		if pred(f.Type()) {
			found, n = f.Name(), n+1
		}
	}
	if n == 1 {
		return found
	}
	return ""
}

func isNamed(t types.Type, pkgPath, name string) bool {
	if p, ok := t.(*types.Pointer); ok {
		t = p.Elem()
	}
	n, ok := t.(*types.Named)
	if !ok {
		return false
	}
	o := n.Origin().Obj()
	return o.Name() == name && (pkgPath == "" || o.Pkg() != nil && strings.HasSuffix(o.Pkg().Path(), pkgPath))
}

func isFuncT(t types.Type) bool  { _, ok := t.Underlying().(*types.Signature); return ok }
func isChanT(t types.Type) bool  { _, ok := t.Underlying().(*types.Chan); return ok }
func isSliceT(t types.Type) bool { _, ok := t.Underlying().(*types.Slice); return ok }
func isMapT(t types.Type) bool   { _, ok := t.Underlying().(*types.Map); return ok }
func isBoolT(t types.Type) bool {
	b, ok := t.Underlying().(*types.Basic)
	return ok && b.Kind() == types.Bool
}
func isIntT(t types.Type) bool {
	b, ok := t.Underlying().(*types.Basic)
	return ok && b.Kind() == types.Int
}
func isMutexT(t types.Type) bool { return isNamed(t, "sync", "Mutex") || isNamed(t, "sync", "RWMutex") }

// ResolveRoles fills the alias tables. Called once after loading.
func ResolveRoles(p *Prog) {
	fieldAlias = map[string]string{}
	funcAlias = map[*ssa.Function]string{}
	fullAlias = map[*ssa.Function]string{}
	// grouping structs: fields of an unexported method-less (or anonymous) struct used by value inside one struct of the
	// repository count as fields of that struct
	nestedOwner = map[string]string{}
	sharedGroup = map[string]bool{}
	{
		owners := map[string]map[string]bool{}
		var visit func(owner string, st *types.Struct, depth int)
		visit = func(owner string, st *types.Struct, depth int) {
			for i := 0; i < st.NumFields(); i++ {
				ft := st.Field(i).Type()
				if depth < 2 && transparentStruct(ft) {
					k := rawTypeName(ft)
					if owners[k] == nil {
						owners[k] = map[string]bool{}
					}
					owners[k][owner] = true
					visit(owner, ft.Underlying().(*types.Struct), depth+1)
				}
			}
		}
		for _, pkg := range []*ssa.Package{p.Fpgo, p.Network, p.Worker} {
			if pkg == nil {
				continue
			}
			for _, m := range pkg.Members {
				tn, ok := m.(*ssa.Type)
				if !ok {
					continue
				}
				named, ok := tn.Type().(*types.Named)
				if !ok {
					continue
				}
				st, ok := named.Underlying().(*types.Struct)
				if !ok || transparentStruct(named) && !named.Obj().Exported() && false {
					continue
				}
				visit(named.Obj().Name(), st, 0)
			}
		}
		for k, os := range owners {
			// a grouping struct is itself visited as an owner of its nested groups; the outermost non-group owner wins
			var real []string
			for o := range os {
				if _, isGroup := owners[o]; !isGroup {
					real = append(real, o)
				}
			}
			if len(real) == 1 {
				nestedOwner[k] = real[0]
			} else if len(real) > 1 {
				sharedGroup[k] = true
			}
		}
	}
	// unexported anchor types, re-identified by role when renamed: the concrete type behind JustGenerics' result and the
	// type of the None value
	typeAlias = map[string]string{}
	if p.Fpgo != nil {
		if _, ok := p.Fpgo.Members["someDef"].(*ssa.Type); !ok {
			if f, okF := p.Fpgo.Members["JustGenerics"].(*ssa.Function); okF {
				Instrs(f, func(ins ssa.Instruction) {
					if mi, isMI := ins.(*ssa.MakeInterface); isMI {
						if n, isN := mi.X.Type().(*types.Named); isN && !n.Obj().Exported() {
							typeAlias[n.Origin().Obj().Name()] = "someDef"
						}
					}
				})
			}
		}
		if _, ok := p.Fpgo.Members["noneDef"].(*ssa.Type); !ok {
			if g, okG := p.Fpgo.Members["None"].(*ssa.Global); okG {
				if pt, okP := g.Type().(*types.Pointer); okP {
					if n, isN := pt.Elem().(*types.Named); isN && !n.Obj().Exported() {
						typeAlias[n.Origin().Obj().Name()] = "noneDef"
					}
				}
			}
		}
	}
	r := &roleCtx{p}
	type spec struct {
		canon string
		find  func(st *types.Struct, taken map[string]bool) string
	}
	byType := func(pred func(types.Type) bool) func(*types.Struct, map[string]bool) string {
		return func(st *types.Struct, taken map[string]bool) string { return uniqueByType(st, taken, pred) }
	}
	resolve := func(pkg *ssa.Package, tn string, specs []spec) {
		_, st := r.structOf(pkg, tn)
		if st == nil {
			return
		}
		taken := map[string]bool{}
		for _, s := range specs {
			if hasField(st, s.canon) {
				taken[s.canon] = true
			}
		}
		for _, s := range specs {
			if hasField(st, s.canon) {
				continue
			}
			if actual := s.find(st, taken); actual != "" && hasField(st, actual) && !taken[actual] {
				fieldAlias[tn+"."+actual] = s.canon
				taken[actual] = true
			}
		}
	}
	F, N, W := p.Fpgo, p.Network, p.Worker
	ret := func(pkg *ssa.Package, tn, m string) func(*types.Struct, map[string]bool) string {
		return func(*types.Struct, map[string]bool) string { return r.returnedBy(pkg, tn, m) }
	}
	resolve(F, "someDef", []spec{
		{"isNil", ret(F, "someDef", "IsNil")},
		{"isPresent", ret(F, "someDef", "IsPresent")},
		{"ref", ret(F, "someDef", "Unwrap")},
	})
	resolve(F, "BufferedChannelQueue", []spec{
		{"lock", byType(isMutexT)},
		{"isClosed", ret(F, "BufferedChannelQueue", "IsClosed")},
		{"pool", byType(func(t types.Type) bool { return isNamed(t, "", "LinkedListQueue") })},
		{"blockingQueue", ret(F, "BufferedChannelQueue", "GetChannel")},
		{"bufferSizeMaximum", ret(F, "BufferedChannelQueue", "GetBufferSizeMaximum")},
		{"loadWorkerCh", func(st *types.Struct, taken map[string]bool) string {
			// the ChannelQueue[int] field that Close() closes
			f := p.Method(F, "BufferedChannelQueue", "Close")
			found := ""
			if f != nil {
				Instrs(f, func(ins ssa.Instruction) {
					if c, ok := ins.(*ssa.Call); ok && IsBuiltin(&c.Call, "close") {
						if t, n := rawFieldName(c.Call.Args[0]); t == "BufferedChannelQueue" && !taken[n] {
							if fld := fieldByName(st, n); fld != nil && isNamed(fld.Type(), "", "ChannelQueue") {
								if ch, ok := fld.Type().Underlying().(*types.Chan); ok && isIntT(ch.Elem()) {
									found = n
								}
							}
						}
					}
				})
			}
			return found
		}},
	})
	resolve(W, "DefaultWorkerPool", []spec{
		{"lock", byType(isMutexT)},
		{"isClosed", ret(W, "DefaultWorkerPool", "IsClosed")},
		{"jobQueue", byType(func(t types.Type) bool { return isNamed(t, "", "BufferedChannelQueue") })},
		{"spawnWorkerCh", byType(func(t types.Type) bool { return isNamed(t, "", "ChannelQueue") })},
		{"workerCount", func(st *types.Struct, taken map[string]bool) string {
			// the int counter incremented by the function that spawns the job-running goroutine (outside that goroutine)
			found := ""
			for _, f := range p.Funcs {
				if f.Parent() != nil || f.Pkg != W {
					continue
				}
				spawns := false
				Instrs(f, func(ins ssa.Instruction) {
					if _, ok := ins.(*ssa.Go); ok {
						spawns = true
					}
				})
				if !spawns {
					continue
				}
				Instrs(f, func(ins ssa.Instruction) {
					if s, ok := ins.(*ssa.Store); ok {
						if b, ok := s.Val.(*ssa.BinOp); ok && b.Op == token.ADD {
							if t, n := rawFieldName(s.Addr); t == "DefaultWorkerPool" && !taken[n] {
								found = n
							}
						}
					}
				})
			}
			return found
		}},
	})
	resolve(W, "DefaultWorkerPoolSettings", []spec{
		{"workerSizeMaximum", func(*types.Struct, map[string]bool) string {
			return r.setBy(W, "DefaultWorkerPool", "DefaultWorkerPoolSettings", "SetWorkerSizeMaximum")
		}},
		{"panicHandler", func(*types.Struct, map[string]bool) string {
			return r.setBy(W, "DefaultWorkerPool", "DefaultWorkerPoolSettings", "SetPanicHandler")
		}},
	})
	resolve(N, "SimpleHTTPDef", []spec{
		{"interceptors", byType(func(t types.Type) bool { return isNamed(t, "", "StreamDef") })},
		{"client", ret(N, "SimpleHTTPDef", "GetHTTPClient")},
		{"clientTransport", func(st *types.Struct, taken map[string]bool) string {
			// the RoundTripper field whose value is invoked
			found := ""
			for _, f := range p.Funcs {
				if f.Pkg != N {
					continue
				}
				Instrs(f, func(ins ssa.Instruction) {
					if c, ok := ins.(*ssa.Call); ok && c.Call.IsInvoke() && c.Call.Method.Name() == "RoundTrip" {
						if t, n := rawFieldName(c.Call.Value); t == "SimpleHTTPDef" && !taken[n] {
							found = n
						}
					}
				})
			}
			return found
		}},
		{"lastTransport", byType(func(t types.Type) bool { return isNamed(t, "net/http", "RoundTripper") })},
	})
	resolve(N, "SimpleAPIDef", []spec{{"simpleHTTP", ret(N, "SimpleAPIDef", "GetSimpleHTTP")}})
	resolve(F, "CurryDef", []spec{
		{"callM", byType(isMutexT)},
		{"args", byType(isSliceT)},
		{"fn", byType(isFuncT)},
		{"result", ret(F, "CurryDef", "Result")},
		{"isDone", ret(F, "CurryDef", "IsDone")},
	})
	resolve(F, "CorDef", []spec{
		{"closedM", byType(isMutexT)},
		{"isClosed", ret(F, "CorDef", "IsDone")},
		{"isStarted", ret(F, "CorDef", "IsStarted")},
		{"effect", byType(isFuncT)},
		{"opCh", byType(func(t types.Type) bool {
			ch, ok := t.Underlying().(*types.Chan)
			return ok && isNamed(ch.Elem(), "", "CorOp")
		})},
		{"resultCh", byType(isChanT)},
	})
	resolve(F, "CorOp", []spec{
		{"cor", byType(func(t types.Type) bool { return isNamed(t, "", "CorDef") })},
		{"val", byType(func(t types.Type) bool { return true })},
	})
	resolve(F, "PublisherDef", []spec{
		{"subscribers", byType(isSliceT)},
		{"subscribeM", byType(isMutexT)},
		{"subOn", byType(func(t types.Type) bool { return isNamed(t, "", "HandlerDef") })},
	})
	resolve(F, "MonadIODef", []spec{
		{"effect", byType(isFuncT)},
		{"obOn", func(*types.Struct, map[string]bool) string { return r.setBy(F, "MonadIODef", "MonadIODef", "ObserveOn") }},
		{"subOn", func(*types.Struct, map[string]bool) string { return r.setBy(F, "MonadIODef", "MonadIODef", "SubscribeOn") }},
	})
	isFlagT := func(t types.Type) bool {
		if isBoolT(t) || isNamed(t, "", "AtomBool") || isNamed(t, "sync/atomic", "Bool") {
			return true
		}
		// a private two-state type standing for the flag (it has a recognised reader helper)
		if n, ok := t.(*types.Named); ok && !n.Obj().Exported() {
			for _, recv := range []types.Type{n, types.NewPointer(n)} {
				ms := p.SSA.MethodSets.MethodSet(recv)
				for i := 0; i < ms.Len(); i++ {
					if fo, isF := ms.At(i).Obj().(*types.Func); isF {
						if g := p.SSA.FuncValue(fo); g != nil && stateAccessor(g) == "get" {
							return true
						}
					}
				}
			}
		}
		return false
	}
	resolve(F, "HandlerDef", []spec{{"ch", byType(isChanT)}, {"isClosed", byType(isFlagT)}})
	resolve(F, "ActorDef", []spec{
		{"ch", byType(isChanT)},
		{"isClosed", ret(F, "ActorDef", "IsClosed")},
		{"effect", byType(isFuncT)},
		{"parent", ret(F, "ActorDef", "GetParent")},
		{"id", ret(F, "ActorDef", "GetID")},
		{"children", byType(func(t types.Type) bool {
			m, ok := t.Underlying().(*types.Map)
			return ok && isNamed(m.Elem(), "", "ActorDef")
		})},
	})
	resolve(F, "AskDef", []spec{{"ch", byType(isChanT)}})
	resolve(F, "PatternMatching", []spec{{"patterns", byType(isSliceT)}})
	firstLoaded := func(tn, m string) func(*types.Struct, map[string]bool) string {
		return func(*types.Struct, map[string]bool) string {
			f := p.Method(F, tn, m)
			found := ""
			if f != nil && len(f.Blocks) > 0 {
				for _, ins := range f.Blocks[0].Instrs {
					if fa, ok := ins.(*ssa.FieldAddr); ok && found == "" && typeName(fa.X.Type()) == tn {
						found = rawName(fa.X.Type(), fa.Field)
					}
				}
			}
			return found
		}
	}
	resolve(F, "LinkedListQueue", []spec{
		{"count", ret(F, "LinkedListQueue", "Count")},
		{"first", firstLoaded("LinkedListQueue", "Peek")},
		{"last", firstLoaded("LinkedListQueue", "Pop")},
		{"nodeGCPool", byType(func(t types.Type) bool { return isNamed(t, "sync", "Pool") })},
		{"nodePoolFirst", byType(func(t types.Type) bool { return isNamed(t, "", "DoublyListItem") })},
		{"nodeCount", byType(isIntT)},
	})
	// ---- unexported helper methods
	methodRole := func(pkg *ssa.Package, tn, canon string, pred func(*ssa.Function) bool) {
		if p.methodExact(pkg, tn, canon) != nil {
			return
		}
		var found []*ssa.Function
		for _, f := range p.Methods(pkg, tn) {
			if f.Signature.Recv() != nil && f.Object() != nil && !f.Object().Exported() && pred(f) {
				found = append(found, f)
			}
		}
		if len(found) == 1 {
			funcAlias[found[0]] = canon
			return
		}
		if len(found) == 0 {
			// the helper as a plain function whose first parameter is the former receiver, or as a method of a grouping
			// struct embedded in the type (typeName maps the group to its owner)
			for _, f := range p.Funcs {
				if f.Parent() == nil && f.Pkg == pkg && f.Object() != nil && !f.Object().Exported() && len(f.Params) > 0 && typeName(f.Params[0].Type()) == tn && pred(f) {
					if f.Signature.Recv() != nil && rawTypeName(f.Signature.Recv().Type()) == tn {
						continue
					}
					found = append(found, f)
				}
			}
			if len(found) == 1 {
				fullAlias[found[0]] = tn + "." + canon
			}
		}
	}
	methodRole(F, "CorDef", "doCloseSafe", func(f *ssa.Function) bool {
		return len(f.Params) == 2 && isFuncT(f.Params[1].Type())
	})
	methodRole(F, "CorDef", "receive", func(f *ssa.Function) bool {
		return len(f.Params) == 3 && isNamed(f.Params[1].Type(), "", "CorDef")
	})
	methodRole(F, "CorDef", "close", func(f *ssa.Function) bool {
		if len(f.Params) != 1 {
			return false
		}
		closes := false
		InstrsDeep(f, func(_ *ssa.Function, ins ssa.Instruction) {
			if c, ok := ins.(ssa.CallInstruction); ok && IsBuiltin(c.Common(), "close") {
				closes = true
			}
		})
		return closes
	})
	methodRole(F, "PublisherDef", "doSubscribeSafe", func(f *ssa.Function) bool {
		return len(f.Params) == 2 && isFuncT(f.Params[1].Type())
	})
	methodRole(F, "MonadIODef", "doSubscribe", func(f *ssa.Function) bool { return len(f.Params) == 4 })
	methodRole(F, "LinkedListQueue", "generateNode", func(f *ssa.Function) bool {
		return len(f.Params) == 1 && f.Signature.Results().Len() == 1 && isNamed(f.Signature.Results().At(0).Type(), "", "DoublyListItem")
	})
	methodRole(F, "LinkedListQueue", "recycleNode", func(f *ssa.Function) bool {
		if len(f.Params) != 2 || !isNamed(f.Params[1].Type(), "", "DoublyListItem") {
			return false
		}
		loops := false
		for _, b := range f.Blocks {
			if InLoop(b) {
				loops = true
			}
		}
		return !loops
	})
	methodRole(N, "SimpleAPIDef", "replacePathParams", func(f *ssa.Function) bool {
		n := 0
		Instrs(f, func(ins ssa.Instruction) {
			if c, ok := ins.(*ssa.Call); ok && StdCallee(&c.Call) == "strings.ReplaceAll" {
				n++
			}
		})
		return n > 0
	})
	// package-level unexported functions
	funcRole := func(pkg *ssa.Package, canon string, pred func(*ssa.Function) bool) {
		if _, ok := pkg.Members[canon].(*ssa.Function); ok {
			return
		}
		var found []*ssa.Function
		for _, f := range p.Funcs {
			if f.Parent() == nil && f.Pkg == pkg && f.Signature.Recv() == nil && f.Object() != nil && !f.Object().Exported() && pred(f) {
				found = append(found, f)
			}
		}
		if len(found) == 1 {
			funcAlias[found[0]] = canon
			return
		}
		if len(found) == 0 {
			// the helper as an unexported method of an unexported carrier type (receiver = former first argument)
			for _, f := range p.Funcs {
				if f.Parent() != nil || f.Pkg != pkg || f.Signature.Recv() == nil || f.Object() == nil || f.Object().Exported() {
					continue
				}
				rt := f.Signature.Recv().Type()
				if pt, ok := rt.(*types.Pointer); ok {
					rt = pt.Elem()
				}
				if n, ok := rt.(*types.Named); ok && !n.Obj().Exported() && pred(f) {
					found = append(found, f)
				}
			}
			if len(found) == 1 {
				fullAlias[found[0]] = canon
			}
		}
	}
	funcRole(N, "decodeResponseBody", func(f *ssa.Function) bool {
		uses := false
		Instrs(f, func(ins ssa.Instruction) {
			if fa, ok := ins.(*ssa.FieldAddr); ok && rawName(fa.X.Type(), fa.Field) == "ResponseDeserializer" {
				uses = true
			}
		})
		return uses
	})
	funcRole(F, "_compareBySortDescriptors", func(f *ssa.Function) bool {
		// the function the descriptor sort's comparator closure compares with 0
		sbd := p.Func(F, "SortBySortDescriptors")
		ok := false
		if sbd != nil {
			for _, cl := range sbd.AnonFuncs {
				Instrs(cl, func(ins ssa.Instruction) {
					if c, isC := ins.(*ssa.Call); isC && Callee(&c.Call) == f {
						ok = true
					}
				})
			}
		}
		return ok
	})
}

func fieldByName(st *types.Struct, n string) *types.Var {
	for _, f := range flatFields(st, 0) {
		if f.Name() == n {
			return f
		}
	}
	return nil
}
