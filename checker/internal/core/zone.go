package core

import (
	"go/constant"
	"go/token"
	"go/types"

	"golang.org/x/tools/go/ssa"
)

// ---------------------------------------------------------------- A7 zone (difference-bound) domain
//
// Zone holds facts x - y <= c over integer SSA values, keyed by canonical Path
// (so two loads of the same never-written location, or two len() calls on the
// same slice value, are one node). "0" is the zero node.
type Zone struct {
	idx map[string]int
	d   [][]int64
}

const zInf = int64(1) << 60

var constantZero = constant.MakeInt64(0)

func NewZone() *Zone {
	z := &Zone{idx: map[string]int{}}
	z.node("0")
	return z
}

func (z *Zone) node(k string) int {
	if i, ok := z.idx[k]; ok {
		return i
	}
	i := len(z.d)
	z.idx[k] = i
	for r := range z.d {
		z.d[r] = append(z.d[r], zInf)
	}
	row := make([]int64, i+1)
	for c := range row {
		row[c] = zInf
	}
	row[i] = 0
	z.d = append(z.d, row)
	return i
}

// zkey returns the node key and constant offset of an integer expression v = node + off.
func zkey(v ssa.Value) (string, int64, bool) {
	v = Resolve(v)
	switch x := v.(type) {
	case *ssa.Const:
		if i, ok := constInt64(x); ok {
			return "0", i, true
		}
		return "", 0, false
	case *ssa.Call:
		if IsBuiltin(&x.Call, "len") {
			return "len(" + Path(x.Call.Args[0]) + ")", 0, true
		}
	case *ssa.BinOp:
		if x.Op == token.ADD || x.Op == token.SUB {
			if k, ok := x.Y.(*ssa.Const); ok {
				if i, ok := constInt64(k); ok {
					if n, o, ok := zkey(x.X); ok {
						if x.Op == token.ADD {
							return n, o + i, true
						}
						return n, o - i, true
					}
				}
			}
		}
	case *ssa.Convert:
		if IsInteger(x.X.Type()) && IsInteger(x.Type()) {
			return zkey(x.X)
		}
	}
	if b, ok := v.Type().Underlying().(*types.Basic); ok && b.Info()&types.IsInteger != 0 {
		return Path(v), 0, true
	}
	if _, ok := v.Type().(*types.TypeParam); ok {
		return Path(v), 0, true
	}
	return "", 0, false
}

// AddLE records x - y <= c.
func (z *Zone) addLE(x, y string, c int64) {
	i, j := z.node(x), z.node(y)
	if c < z.d[i][j] {
		z.d[i][j] = c
	}
}

// AddCmp records a comparison X op Y (integers).
func (z *Zone) AddCmp(m Cmp) {
	xn, xo, ok1 := zkey(m.X)
	yn, yo, ok2 := zkey(m.Y)
	if !ok1 || !ok2 {
		return
	}
	// (xn+xo) op (yn+yo)
	switch m.Op {
	case token.LSS: // x - y <= yo - xo - 1
		z.addLE(xn, yn, yo-xo-1)
	case token.LEQ:
		z.addLE(xn, yn, yo-xo)
	case token.GTR:
		z.addLE(yn, xn, xo-yo-1)
	case token.GEQ:
		z.addLE(yn, xn, xo-yo)
	case token.EQL:
		z.addLE(xn, yn, yo-xo)
		z.addLE(yn, xn, xo-yo)
	case token.NEQ:
		// len(x) != 0  ⟹  len(x) >= 1
		if len(xn) > 4 && xn[:4] == "len(" && yn == "0" && xo == 0 && yo == 0 {
			z.addLE("0", xn, -1)
		}
		if len(yn) > 4 && yn[:4] == "len(" && xn == "0" && xo == 0 && yo == 0 {
			z.addLE("0", yn, -1)
		}
	}
}

// NonNeg records that every len(...) node is >= 0.
func (z *Zone) close() {
	for k, i := range z.idx {
		if len(k) > 4 && k[:4] == "len(" {
			if 0 < z.d[0][i] {
				z.d[0][i] = 0 // 0 - len <= 0
			}
		}
	}
	n := len(z.d)
	for k := 0; k < n; k++ {
		for i := 0; i < n; i++ {
			for j := 0; j < n; j++ {
				if z.d[i][k] < zInf && z.d[k][j] < zInf && z.d[i][k]+z.d[k][j] < z.d[i][j] {
					z.d[i][j] = z.d[i][k] + z.d[k][j]
				}
			}
		}
	}
}

// ProveLE proves (a) - (b) <= c for integer expressions a, b of the forms node+const or node-node.
func (z *Zone) ProveLE(a, b ssa.Value, c int64) bool {
	// expand a - b into sum of ±nodes
	type term struct {
		k    string
		sign int
	}
	var terms []term
	off := int64(0)
	var expand func(v ssa.Value, sign int) bool
	expand = func(v ssa.Value, sign int) bool {
		v = Resolve(v)
		if bo, ok := v.(*ssa.BinOp); ok && (bo.Op == token.SUB || bo.Op == token.ADD) {
			if _, _, simple := zkey(v); !simple || true {
				if _, isK := bo.Y.(*ssa.Const); !isK {
					s2 := sign
					if bo.Op == token.SUB {
						s2 = -sign
					}
					return expand(bo.X, sign) && expand(bo.Y, s2)
				}
			}
		}
		k, o, ok := zkey(v)
		if !ok {
			return false
		}
		off += int64(sign) * o
		if k != "0" {
			terms = append(terms, term{k, sign})
		}
		return true
	}
	if a != nil && !expand(a, 1) {
		return false
	}
	if b != nil && !expand(b, -1) {
		return false
	}
	// cancel equal nodes with opposite signs
	cnt := map[string]int{}
	for _, t := range terms {
		cnt[t.k] += t.sign
	}
	var pos, neg []string
	for k, n := range cnt {
		switch n {
		case 0:
		case 1:
			pos = append(pos, k)
		case -1:
			neg = append(neg, k)
		default:
			return false
		}
	}
	for k := range cnt {
		z.node(k)
	}
	z.close()
	c -= off
	switch {
	case len(pos) == 0 && len(neg) == 0:
		return 0 <= c
	case len(pos) == 1 && len(neg) == 0:
		return z.d[z.idx[pos[0]]][0] <= c
	case len(pos) == 0 && len(neg) == 1:
		return z.d[0][z.idx[neg[0]]] <= c
	case len(pos) == 1 && len(neg) == 1:
		return z.d[z.idx[pos[0]]][z.idx[neg[0]]] <= c
	}
	return false
}

// ZoneAt builds the zone of comparisons known to hold on entry to b.
func ZoneAt(b *ssa.BasicBlock) *Zone {
	z := NewZone()
	for _, m := range EdgeCmps(b) {
		z.AddCmpLin(m)
	}
	return z
}

// ProveLEKey proves v - node(key) <= c where key is a zone node name (e.g. "len(list)").
func (z *Zone) ProveLEKey(v ssa.Value, key string, c int64) bool {
	k, off, ok := zkey(v)
	if !ok {
		// try a - b form
		if bo, isB := Resolve(v).(*ssa.BinOp); isB && bo.Op == token.SUB {
			ak, ao, ok1 := zkey(bo.X)
			bk, bof, ok2 := zkey(bo.Y)
			if ok1 && ok2 && ak == key {
				// (key + ao) - (bk + bof) - key <= c  ⟺  -bk <= c - ao + bof
				z.node(bk)
				z.close()
				return z.d[0][z.idx[bk]] <= c-ao+bof
			}
		}
		return false
	}
	if bo, isB := Resolve(v).(*ssa.BinOp); isB && bo.Op == token.SUB {
		if _, isK := bo.Y.(*ssa.Const); !isK {
			ak, ao, ok1 := zkey(bo.X)
			bk, bof, ok2 := zkey(bo.Y)
			if ok1 && ok2 && ak == key {
				z.node(bk)
				z.close()
				return z.d[0][z.idx[bk]] <= c-ao+bof
			}
			return false
		}
	}
	z.node(k)
	z.node(key)
	z.close()
	return z.d[z.idx[k]][z.idx[key]] <= c-off
}

// ---------------------------------------------------------------- helper post-conditions

// retBound is a fact about the integer result of a helper that holds at every return:
// kind "le": result <= param[idx]; "ge": result >= param[idx]; "ge0": result >= 0.
type retBound struct {
	kind string
	idx  int
}

type retBoundKey struct {
	h      *ssa.Function
	nonneg uint64
}

var retBoundMemo = map[retBoundKey][]retBound{}

// retBounds computes order relations between the single integer result of h and its integer
// parameters / zero that the zone domain proves on every return case (e.g. a clamp helper:
// 0 <= result <= limit), assuming the parameters whose bit is set in nonneg are >= 0 (the caller
// establishes that for its actual arguments, typically a len()).
func retBounds(h *ssa.Function, nonneg uint64) []retBound {
	key := retBoundKey{h, nonneg}
	if rb, ok := retBoundMemo[key]; ok {
		return rb
	}
	retBoundMemo[key] = nil
	if h == nil || len(h.Blocks) == 0 || h.Signature.Results().Len() != 1 || !IsInteger(h.Signature.Results().At(0).Type()) || len(h.Params) > 60 {
		return nil
	}
	cases := ReturnCases(h)
	if len(cases) == 0 || len(cases) > 32 {
		return nil
	}
	var cands []retBound
	cands = append(cands, retBound{"ge0", -1})
	for i, prm := range h.Params {
		if IsInteger(prm.Type()) {
			cands = append(cands, retBound{"le", i}, retBound{"ge", i})
		}
	}
	zero := ssa.NewConst(constantZero, types.Typ[types.Int])
	var keep []retBound
	for _, cd := range cands {
		all := true
		for _, rc := range cases {
			z := NewZone()
			for _, m := range rc.Cmps() {
				z.AddCmp(m)
			}
			for i, prm := range h.Params {
				if nonneg&(1<<uint(i)) != 0 {
					z.AddCmp(Cmp{Op: token.GEQ, X: prm, Y: zero})
				}
			}
			v := rc.Vals[0]
			ok := false
			switch cd.kind {
			case "ge0":
				ok = z.ProveLE(nil, v, 0)
			case "le":
				ok = z.ProveLE(v, h.Params[cd.idx], 0)
			case "ge":
				ok = z.ProveLE(h.Params[cd.idx], v, 0)
			}
			if !ok {
				all = false
				break
			}
		}
		if all {
			keep = append(keep, cd)
		}
	}
	retBoundMemo[key] = keep
	return keep
}

// ZoneAtIP is ZoneAt extended with the post-conditions of the integer-valued repo helpers called in
// b's function (the facts relate a call's result to its actual arguments).
func ZoneAtIP(p *Prog, b *ssa.BasicBlock) *Zone {
	z := ZoneAt(b)
	Instrs(b.Parent(), func(ins ssa.Instruction) {
		call, ok := ins.(*ssa.Call)
		if !ok {
			return
		}
		h := Callee(&call.Call)
		if h == nil || !p.InRepo(h) {
			return
		}
		// which actual arguments are known to be non-negative here
		var nonneg uint64
		for i, a := range call.Call.Args {
			if i < 60 && IsInteger(a.Type()) && z.ProveLE(nil, a, 0) {
				nonneg |= 1 << uint(i)
			}
		}
		for _, rb := range retBounds(h, nonneg) {
			switch rb.kind {
			case "ge0":
				z.AddCmp(Cmp{Op: token.GEQ, X: call, Y: ssa.NewConst(constantZero, types.Typ[types.Int])})
			case "le":
				if rb.idx < len(call.Call.Args) {
					z.AddCmp(Cmp{Op: token.LEQ, X: call, Y: call.Call.Args[rb.idx]})
				}
			case "ge":
				if rb.idx < len(call.Call.Args) {
					z.AddCmp(Cmp{Op: token.GEQ, X: call, Y: call.Call.Args[rb.idx]})
				}
			}
		}
	})
	return z
}

// ---------------------------------------------------------------- linear forms over zone nodes

// Lin is a linear form sum(T[node]·node) + K over zone nodes.
type Lin struct {
	T map[string]int
	K int64
}

func LinConst(k int64) Lin { return Lin{T: map[string]int{}, K: k} }

func LinNode(key string) Lin { return Lin{T: map[string]int{key: 1}} }

// LenKey is the zone node of len(v).
func LenKey(v ssa.Value) string { return "len(" + Path(v) + ")" }

func (a Lin) Add(b Lin, sign int) Lin {
	out := Lin{T: map[string]int{}, K: a.K + int64(sign)*b.K}
	for k, n := range a.T {
		out.T[k] += n
	}
	for k, n := range b.T {
		out.T[k] += sign * n
	}
	for k, n := range out.T {
		if n == 0 {
			delete(out.T, k)
		}
	}
	return out
}

// LinOf expresses an integer SSA value as a linear form (sums and differences of nodes and constants).
func LinOf(v ssa.Value) (Lin, bool) {
	v = Resolve(v)
	if bo, ok := v.(*ssa.BinOp); ok && (bo.Op == token.SUB || bo.Op == token.ADD) {
		x, okx := LinOf(bo.X)
		y, oky := LinOf(bo.Y)
		if okx && oky {
			if bo.Op == token.SUB {
				return x.Add(y, -1), true
			}
			return x.Add(y, 1), true
		}
		return Lin{}, false
	}
	k, o, ok := zkey(v)
	if !ok {
		return Lin{}, false
	}
	if k == "0" {
		return LinConst(o), true
	}
	l := LinNode(k)
	l.K = o
	return l, true
}

// ProveLin proves e <= c for a form with at most one positive and one negative unit node.
func (z *Zone) ProveLin(e Lin, c int64) bool {
	var pos, neg []string
	for k, n := range e.T {
		switch n {
		case 1:
			pos = append(pos, k)
		case -1:
			neg = append(neg, k)
		default:
			return false
		}
		z.node(k)
	}
	z.close()
	c -= e.K
	switch {
	case len(pos) == 0 && len(neg) == 0:
		return 0 <= c
	case len(pos) == 1 && len(neg) == 0:
		return z.d[z.idx[pos[0]]][0] <= c
	case len(pos) == 0 && len(neg) == 1:
		return z.d[0][z.idx[neg[0]]] <= c
	case len(pos) == 1 && len(neg) == 1:
		return z.d[z.idx[pos[0]]][z.idx[neg[0]]] <= c
	}
	return false
}

// ProveEq proves a == b.
func (z *Zone) ProveEq(a, b Lin) bool {
	return z.ProveLin(a.Add(b, -1), 0) && z.ProveLin(b.Add(a, -1), 0)
}

// AddLin records e <= c for a form with one positive and/or one negative unit node.
func (z *Zone) AddLin(e Lin, c int64) bool {
	x, y := "0", "0"
	for k, n := range e.T {
		switch {
		case n == 1 && x == "0":
			x = k
		case n == -1 && y == "0":
			y = k
		default:
			return false
		}
	}
	z.addLE(x, y, c-e.K)
	return true
}

// Consistent reports whether the recorded facts have a solution.
func (z *Zone) Consistent() bool {
	z.close()
	for i := range z.d {
		if z.d[i][i] < 0 {
			return false
		}
	}
	return true
}


// AddCmpLin records a comparison whose sides are linear forms (`len - count <= 0`), falling back to AddCmp.
func (z *Zone) AddCmpLin(m Cmp) {
	x, okx := LinOf(m.X)
	y, oky := LinOf(m.Y)
	if !okx || !oky {
		z.AddCmp(m)
		return
	}
	d := x.Add(y, -1) // X - Y
	n := y.Add(x, -1) // Y - X
	ok := true
	switch m.Op {
	case token.LSS:
		ok = z.AddLin(d, -1)
	case token.LEQ:
		ok = z.AddLin(d, 0)
	case token.GTR:
		ok = z.AddLin(n, -1)
	case token.GEQ:
		ok = z.AddLin(n, 0)
	case token.EQL:
		ok = z.AddLin(d, 0) && z.AddLin(n, 0)
	default:
		ok = false
	}
	if !ok {
		z.AddCmp(m)
	}
}
