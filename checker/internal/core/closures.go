package core

import (
	"go/ast"
	"go/parser"
	"go/token"
	"go/types"
	"strings"

	"golang.org/x/tools/go/ssa"
	"golang.org/x/tools/go/ssa/ssautil"
)

// ---------------------------------------------------------------- reaching stores of local cells

// privateCell: the alloc is only stored to, loaded from, or captured by closures that only load it,
// so its content at a load is decided by the stores of its own function.
func privateCell(a *ssa.Alloc) bool {
	if a.Referrers() == nil {
		return false
	}
	for _, r := range *a.Referrers() {
		switch x := r.(type) {
		case *ssa.Store:
			if x.Addr != ssa.Value(a) {
				return false
			}
		case *ssa.UnOp:
			if x.Op != token.MUL {
				return false
			}
		case *ssa.DebugRef:
		case *ssa.MakeClosure:
			fn, _ := x.Fn.(*ssa.Function)
			if fn == nil {
				return false
			}
			for k, b := range x.Bindings {
				if b != ssa.Value(a) || k >= len(fn.FreeVars) {
					continue
				}
				if fn.FreeVars[k].Referrers() == nil {
					continue
				}
				for _, rr := range *fn.FreeVars[k].Referrers() {
					switch y := rr.(type) {
					case *ssa.UnOp:
						if y.Op != token.MUL {
							return false
						}
					case *ssa.DebugRef:
					default:
						return false
					}
				}
			}
		default:
			return false
		}
	}
	return true
}

// ReachingStore returns the value of the unique store to the private local cell a that reaches
// the load instruction (every path from the entry to the load passes a store, and the last one
// is the same store on all of them), or nil.
func ReachingStore(a *ssa.Alloc, load ssa.Instruction) ssa.Value {
	if !privateCell(a) {
		return nil
	}
	var found *ssa.Store
	bad := false
	seen := map[*ssa.BasicBlock]bool{}
	var walk func(b *ssa.BasicBlock, from int)
	walk = func(b *ssa.BasicBlock, from int) {
		if bad {
			return
		}
		for i := from - 1; i >= 0; i-- {
			if st, ok := b.Instrs[i].(*ssa.Store); ok && st.Addr == ssa.Value(a) {
				if found != nil && found != st {
					bad = true
				}
				found = st
				return
			}
		}
		if len(b.Preds) == 0 {
			bad = true // reaches the entry (or the recover block) with the zero value
			return
		}
		for _, p := range b.Preds {
			if !seen[p] {
				seen[p] = true
				walk(p, len(p.Instrs))
			}
		}
	}
	b := load.Block()
	idx := -1
	for i, ins := range b.Instrs {
		if ins == load {
			idx = i
		}
	}
	if idx < 0 {
		return nil
	}
	walk(b, idx)
	if bad || found == nil {
		return nil
	}
	return found.Val
}

// ---------------------------------------------------------------- closures reaching a use

// BoundClosure is a closure value together with the values its free variables are bound to,
// expressed in the frame of the function that uses the closure where that is possible.
type BoundClosure struct {
	Fn   *ssa.Function
	Bind map[string]ssa.Value
}

func resolveBinding(b ssa.Value) ssa.Value {
	if a, ok := b.(*ssa.Alloc); ok {
		if st := Stores(a); len(st) == 1 {
			return Resolve(st[0].Val)
		}
		return a
	}
	return Resolve(b)
}

// ResolveClosure finds the closure a value denotes: a MakeClosure reaching it through local cells,
// or the result of a repo helper all of whose returns yield the same MakeClosure (a closure factory);
// in the latter case bindings that are the helper's parameters are replaced by the actual arguments.
func ResolveClosure(p *Prog, v ssa.Value) *BoundClosure {
	v = Resolve(v)
	switch x := v.(type) {
	case *ssa.MakeClosure:
		fn := x.Fn.(*ssa.Function)
		bc := &BoundClosure{Fn: fn, Bind: map[string]ssa.Value{}}
		for k, fv := range fn.FreeVars {
			if k < len(x.Bindings) {
				bc.Bind[fv.Name()] = resolveBinding(x.Bindings[k])
			}
		}
		return bc
	case *ssa.Function:
		return &BoundClosure{Fn: x, Bind: map[string]ssa.Value{}}
	case *ssa.Call:
		g := Callee(&x.Call)
		if g == nil || !p.InRepo(g) || len(g.Blocks) == 0 {
			return nil
		}
		var mc ssa.Value
		ok := true
		Instrs(g, func(ins ssa.Instruction) {
			r, isR := ins.(*ssa.Return)
			if !isR || r.Block() == g.Recover || len(r.Results) != 1 {
				return
			}
			rv := Resolve(RetVals(r)[0])
			if mc == nil {
				mc = rv
			} else if mc != rv {
				ok = false
			}
		})
		if !ok || mc == nil {
			return nil
		}
		if _, isMC := mc.(*ssa.MakeClosure); !isMC {
			return nil
		}
		inner := ResolveClosure(p, mc)
		if inner == nil {
			return nil
		}
		for name, b := range inner.Bind {
			if prm, isP := b.(*ssa.Parameter); isP {
				for i, gp := range g.Params {
					if gp == prm && i < len(x.Call.Args) {
						inner.Bind[name] = Resolve(x.Call.Args[i])
					}
				}
			}
		}
		return inner
	}
	return nil
}

// ---------------------------------------------------------------- code certainly run by a call

// RunsOnce returns the closures that the call instruction certainly executes exactly once,
// synchronously, before it returns: the closure being called directly, or a closure passed to a
// repo helper whose corresponding parameter is only ever called and is called exactly once on
// every path of the helper (lock wrappers such as `withLock(func(){...})`).
func RunsOnce(p *Prog, call *ssa.Call) []*ssa.Function {
	var out []*ssa.Function
	g := Callee(&call.Call)
	if g == nil || call.Call.IsInvoke() {
		if !call.Call.IsInvoke() {
			if mc, ok := Resolve(call.Call.Value).(*ssa.MakeClosure); ok {
				out = append(out, mc.Fn.(*ssa.Function))
			}
		}
		return out
	}
	if !p.InRepo(g) || len(g.Blocks) == 0 {
		return out
	}
	for i, a := range call.Call.Args {
		mc, ok := Resolve(a).(*ssa.MakeClosure)
		if !ok || i >= len(g.Params) || !onlyCalled(g.Params[i]) {
			continue
		}
		prm := g.Params[i]
		min, max := PathCount(g, func(ins ssa.Instruction) int {
			if c, isC := ins.(*ssa.Call); isC && c.Call.Value == ssa.Value(prm) {
				return 1
			}
			return 0
		}, nil)
		if min == 1 && max == 1 {
			out = append(out, mc.Fn.(*ssa.Function))
		}
	}
	return out
}

// RunsAtMostOnce is RunsOnce without the "on every path" part: the functions the call may execute, synchronously and
// at most once before it returns - a closure called in place, or a function value (closure, bound method, named function)
// passed to a repo helper whose corresponding parameter is only ever called, at most once per path (`doCloseSafe(fn)`,
// which skips fn when the object is closed).
func RunsAtMostOnce(p *Prog, call *ssa.Call) []*ssa.Function {
	var out []*ssa.Function
	g := Callee(&call.Call)
	if g == nil || call.Call.IsInvoke() {
		if !call.Call.IsInvoke() {
			if fv := ResolveFuncValue(p, call.Call.Value); fv != nil {
				out = append(out, fv.Fn)
			}
		}
		return out
	}
	if !p.InRepo(g) || len(g.Blocks) == 0 {
		return out
	}
	for i, a := range call.Call.Args {
		if i >= len(g.Params) || !onlyCalled(g.Params[i]) {
			continue
		}
		fv := ResolveFuncValue(p, a)
		if fv == nil {
			continue
		}
		prm := g.Params[i]
		_, max := PathCount(g, func(ins ssa.Instruction) int {
			if c, isC := ins.(*ssa.Call); isC && c.Call.Value == ssa.Value(prm) {
				return 1
			}
			return 0
		}, nil)
		if max == 1 {
			out = append(out, fv.Fn)
		}
	}
	return out
}

// DeepWeight lifts an instruction weight to calls that certainly run closures once: the weight of
// such a call is its own weight plus the per-execution weight of the closure body, which must be the
// same on every path of that body (otherwise a large sentinel is returned so that exact-count checks fail).
func DeepWeight(p *Prog, w func(ssa.Instruction) int) func(ssa.Instruction) int {
	var dw func(ins ssa.Instruction, depth int) int
	dw = func(ins ssa.Instruction, depth int) int {
		n := w(ins)
		call, ok := ins.(*ssa.Call)
		if !ok || depth > 3 {
			return n
		}
		for _, cl := range RunsOnce(p, call) {
			min, max := PathCount(cl, func(i2 ssa.Instruction) int { return dw(i2, depth+1) }, nil)
			if min != max {
				if max > 0 {
					return Many
				}
				continue
			}
			if min > 0 {
				n += min
			}
		}
		return n
	}
	return func(ins ssa.Instruction) int { return dw(ins, 0) }
}

// ContainsDeep reports whether executing ins certainly executes target: ins is target, or a call
// that runs once a closure in which target is executed on every path.
func ContainsDeep(p *Prog, ins, target ssa.Instruction) bool {
	if ins == target {
		return true
	}
	call, ok := ins.(*ssa.Call)
	if !ok {
		return false
	}
	for _, cl := range RunsOnce(p, call) {
		min, _ := PathCount(cl, func(i2 ssa.Instruction) int {
			if ContainsDeep(p, i2, target) {
				return 1
			}
			return 0
		}, nil)
		if min >= 1 {
			return true
		}
	}
	return false
}

// ---------------------------------------------------------------- calling context of extracted helpers

// helperSites returns the call sites of f when f is an unexported top-level function or method all of
// whose invocations are plain synchronous calls inside the repo (an "extracted helper"); ok is false otherwise.
func helperSites(p *Prog, f *ssa.Function) ([]Site, bool) {
	if f == nil || f.Parent() != nil {
		return nil, false
	}
	if o := f.Object(); o == nil || o.Exported() {
		return nil, false
	}
	sites, complete := CallSites(p, f)
	if !complete || len(sites) == 0 {
		return nil, false
	}
	for _, s := range sites {
		if s.Kind != "call" || s.Caller == f {
			return nil, false
		}
	}
	return sites, true
}

// HoldsInCtx reports whether pred holds at block b or, when b's function is an extracted helper,
// at every one of its call sites (transitively): a guard that dominated the code before it was
// moved into a helper still dominates every execution of it.
func HoldsInCtx(p *Prog, b *ssa.BasicBlock, pred func(*ssa.BasicBlock) bool) bool {
	return holdsInCtx(p, b, pred, 0)
}

func holdsInCtx(p *Prog, b *ssa.BasicBlock, pred func(*ssa.BasicBlock) bool, depth int) bool {
	if pred(b) {
		return true
	}
	if depth > 4 {
		return false
	}
	sites, ok := helperSites(p, b.Parent())
	if !ok {
		return false
	}
	for _, s := range sites {
		if !holdsInCtx(p, s.Instr.Block(), pred, depth+1) {
			return false
		}
	}
	return true
}

// HelperRoot returns the function on whose behalf f runs: f itself, or - when f is an extracted
// helper all of whose call sites lie (transitively) in one function - that function.
func HelperRoot(p *Prog, f *ssa.Function) *ssa.Function {
	for depth := 0; depth < 5; depth++ {
		sites, ok := helperSites(p, f)
		if !ok {
			return f
		}
		root := sites[0].Caller
		for root.Parent() != nil {
			root = root.Parent()
		}
		for _, s := range sites[1:] {
			c := s.Caller
			for c.Parent() != nil {
				c = c.Parent()
			}
			if c != root {
				return f
			}
		}
		f = root
	}
	return f
}

// HelpersOf returns the extracted helpers (transitively) called from the given functions.
func HelpersOf(p *Prog, roots []*ssa.Function) []*ssa.Function {
	seen := map[*ssa.Function]bool{}
	for _, r := range roots {
		seen[r] = true
	}
	var out []*ssa.Function
	work := append([]*ssa.Function{}, roots...)
	for len(work) > 0 {
		f := work[len(work)-1]
		work = work[:len(work)-1]
		InstrsDeep(f, func(_ *ssa.Function, ins ssa.Instruction) {
			call, ok := ins.(*ssa.Call)
			if !ok {
				return
			}
			g := Callee(&call.Call)
			if g == nil || seen[g] || !p.InRepo(g) {
				return
			}
			if _, isHelper := helperSites(p, g); !isHelper {
				return
			}
			seen[g] = true
			out = append(out, g)
			work = append(work, g)
		})
	}
	return out
}

// ParamActuals returns, for a parameter of an extracted helper, the actual argument and the
// instantiated callee at each call site (nil when the parameter's function is not such a helper).
type Actual struct {
	Arg    ssa.Value
	Callee *ssa.Function // the (possibly instantiated) static callee at the site
}

func ParamActuals(p *Prog, prm *ssa.Parameter) []Actual {
	f := prm.Parent()
	sites, ok := helperSites(p, f)
	if !ok {
		return nil
	}
	idx := -1
	for i, q := range f.Params {
		if q == prm {
			idx = i
		}
	}
	if idx < 0 {
		return nil
	}
	var out []Actual
	for _, s := range sites {
		call, isC := s.Instr.(*ssa.Call)
		if !isC || idx >= len(call.Call.Args) {
			return nil
		}
		out = append(out, Actual{call.Call.Args[idx], call.Call.StaticCallee()})
	}
	return out
}

// AssertOf returns the type assertion a value is the result of: an unchecked `x.(T)`, or the value
// component of a comma-ok assertion (the variable bound by a type-switch clause).
func AssertOf(v ssa.Value) *ssa.TypeAssert {
	switch x := v.(type) {
	case *ssa.TypeAssert:
		if !x.CommaOk {
			return x
		}
	case *ssa.Extract:
		if ta, ok := x.Tuple.(*ssa.TypeAssert); ok && ta.CommaOk && x.Index == 0 {
			return ta
		}
	}
	return nil
}

// BuildSnippet type-checks and builds SSA for a self-contained source file without imports; used by
// rules whose expected instance count on the library is zero to prove on every run that the matcher
// still recognises a positive and a negative example.
func BuildSnippet(src string) (*ssa.Package, error) {
	fset := token.NewFileSet()
	file, err := parser.ParseFile(fset, "snippet.go", src, 0)
	if err != nil {
		return nil, err
	}
	pkg := types.NewPackage("snippet", "snippet")
	sp, _, err := ssautil.BuildPackage(&types.Config{}, fset, pkg, []*ast.File{file}, 0)
	return sp, err
}

// MustPassBefore reports whether every path that starts just after instruction `from` meets an
// instruction satisfying goal before it meets one satisfying stop or leaves the function by a Return
// (panics are not exits). Edges for which skipEdge returns true are not followed. Cycles that avoid
// both goal and stop are accepted (they never reach a stop).
func MustPassBefore(from ssa.Instruction, goal, stop func(ssa.Instruction) bool, skipEdge func(b, s *ssa.BasicBlock) bool) (bool, ssa.Instruction) {
	seen := map[*ssa.BasicBlock]bool{}
	var bad ssa.Instruction
	var walk func(b *ssa.BasicBlock, start int) bool
	walk = func(b *ssa.BasicBlock, start int) bool {
		for _, ins := range b.Instrs[start:] {
			if goal(ins) {
				return true
			}
			if stop(ins) {
				bad = ins
				return false
			}
			if _, isRet := ins.(*ssa.Return); isRet {
				bad = ins
				return false
			}
		}
		for _, s := range b.Succs {
			if skipEdge != nil && skipEdge(b, s) {
				continue
			}
			if seen[s] {
				continue
			}
			seen[s] = true
			if !walk(s, 0) {
				return false
			}
		}
		return true
	}
	b := from.Block()
	idx := 0
	for i, ins := range b.Instrs {
		if ins == from {
			idx = i + 1
		}
	}
	ok := walk(b, idx)
	return ok, bad
}

// ---------------------------------------------------------------- function groups (a function and the helpers extracted from it)

// SingleSite returns the only call of an extracted helper, or nil.
func SingleSite(p *Prog, f *ssa.Function) *ssa.Call {
	sites, ok := helperSites(p, f)
	if !ok || len(sites) != 1 {
		return nil
	}
	call, _ := sites[0].Instr.(*ssa.Call)
	return call
}

// ResolveIP is Resolve extended through the parameters of single-site helpers: such a parameter
// denotes the actual argument of the one call.
func ResolveIP(p *Prog, v ssa.Value) ssa.Value {
	for i := 0; i < 8; i++ {
		v = Resolve(v)
		prm, ok := v.(*ssa.Parameter)
		if !ok {
			return v
		}
		site := SingleSite(p, prm.Parent())
		if site == nil {
			return v
		}
		idx := -1
		for k, q := range prm.Parent().Params {
			if q == prm {
				idx = k
			}
		}
		if idx < 0 || idx >= len(site.Call.Args) {
			return v
		}
		v = site.Call.Args[idx]
	}
	return v
}

// CtxCmps returns the comparisons known on entry to b, including - when b's function is a single-site
// helper - those known at its call (transitively). Operands are left in their own frames; compare them
// with ResolveIP.
func CtxCmps(p *Prog, b *ssa.BasicBlock) []Cmp {
	out := EdgeCmps(b)
	for depth := 0; depth < 5; depth++ {
		site := SingleSite(p, b.Parent())
		if site == nil {
			break
		}
		b = site.Block()
		out = append(out, EdgeCmps(b)...)
	}
	return out
}

// CtxFacts is the same for raw branch conditions.
func CtxFacts(p *Prog, b *ssa.BasicBlock) []Cond {
	out := EdgeFacts(b)
	for depth := 0; depth < 5; depth++ {
		site := SingleSite(p, b.Parent())
		if site == nil {
			break
		}
		b = site.Block()
		out = append(out, EdgeFacts(b)...)
	}
	return out
}

// Group returns f followed by the extracted helpers that run only on f's behalf (HelperRoot == f).
func Group(p *Prog, f *ssa.Function) []*ssa.Function {
	out := []*ssa.Function{f}
	for _, h := range HelpersOf(p, []*ssa.Function{f}) {
		if HelperRoot(p, h) == f {
			out = append(out, h)
		}
	}
	return out
}

// InstrsGroup visits the instructions of f and of the helpers extracted from it.
func InstrsGroup(p *Prog, f *ssa.Function, fn func(*ssa.Function, ssa.Instruction)) {
	for _, g := range Group(p, f) {
		Instrs(g, func(ins ssa.Instruction) { fn(g, ins) })
	}
}

// SiteChain returns, for an instruction inside a helper of the group rooted at root, the instruction
// itself followed by the call instructions through which control came from root (innermost first).
// For an instruction of root itself the chain has one element. nil if the chain is not unique.
func SiteChain(p *Prog, root *ssa.Function, ins ssa.Instruction) []ssa.Instruction {
	chain := []ssa.Instruction{ins}
	f := ins.Parent()
	for depth := 0; f != root && depth < 6; depth++ {
		site := SingleSite(p, f)
		if site == nil {
			return nil
		}
		chain = append(chain, site)
		f = site.Parent()
	}
	if f != root {
		return nil
	}
	return chain
}

// MinAfterIP is the minimum, over all paths from just after ins to the end of the root function of its
// group, of the number of matching instructions: the remainder of ins's own function and then, when that
// function is a single-site helper, what follows its call in the caller (transitively up to root).
func MinAfterIP(p *Prog, root *ssa.Function, ins ssa.Instruction, weight func(ssa.Instruction) int) int {
	chain := SiteChain(p, root, ins)
	if chain == nil {
		return 0
	}
	total := 0
	for _, at := range chain {
		min, _ := PathCountFrom(at.Block(), at, weight, nil)
		if min > 0 {
			total += min
		}
	}
	return total
}

// ---------------------------------------------------------------- return cases (single-exit functions)

// EdgeFactsOn returns the branch conditions that hold when control passes along the edge pred→succ.
func EdgeFactsOn(pred, succ *ssa.BasicBlock) []Cond {
	out := EdgeFacts(pred)
	if len(pred.Instrs) > 0 && len(pred.Succs) == 2 && pred.Succs[0] != pred.Succs[1] {
		if iff, ok := pred.Instrs[len(pred.Instrs)-1].(*ssa.If); ok {
			out = append(out, expandCond(Cond{iff.Cond, pred.Succs[0] == succ, iff}, 0)...)
		}
	}
	return out
}

// RetCase is one way a function returns: a Return instruction together with, when its results are
// merged by phis (single-exit style: `var err error; …; return err`), one incoming combination - the
// values arriving over one predecessor edge and the facts that hold on that edge.
type RetCase struct {
	Ret   *ssa.Return
	Vals  []ssa.Value
	Facts []Cond
	// Via is the chain of blocks from the block where the values were decided to the return block
	// (just the return block when nothing is merged).
	Via []*ssa.BasicBlock
}

// Cmps returns the comparisons among the facts of the case.
func (rc RetCase) Cmps() []Cmp {
	var out []Cmp
	for _, c := range rc.Facts {
		if m, ok := AsCmp(c); ok {
			out = withMirror(out, m)
			out = append(out, deriveCmps(m, 0)...)
		}
	}
	return out
}

// ReturnCases enumerates the return cases of f (the recover block excluded).
func ReturnCases(f *ssa.Function) []RetCase {
	var out []RetCase
	Instrs(f, func(ins ssa.Instruction) {
		r, ok := ins.(*ssa.Return)
		if !ok || r.Block() == f.Recover {
			return
		}
		vals := RetVals(r)
		expandRet(r, vals, r.Block(), EdgeFacts(r.Block()), []*ssa.BasicBlock{r.Block()}, 0, &out)
	})
	return out
}

func expandRet(r *ssa.Return, vals []ssa.Value, at *ssa.BasicBlock, facts []Cond, via []*ssa.BasicBlock, depth int, out *[]RetCase) {
	// is some value a phi of block `at`?
	hasPhi := false
	for _, v := range vals {
		if phi, ok := v.(*ssa.Phi); ok && phi.Block() == at {
			hasPhi = true
		}
	}
	if !hasPhi && depth <= 3 {
		// a result held in a local cell that several stores can reach (named results, `var err error`)
		for k, v := range vals {
			// resolve as far as a unique definition goes; what is left may be a load that several stores reach
			u, isU := Resolve(v).(*ssa.UnOp)
			if !isU || u.Op != token.MUL {
				continue
			}
			cases := cellCases(u)
			if len(cases) < 2 {
				continue
			}
			for _, cc := range cases {
				nv := append([]ssa.Value{}, vals...)
				nv[k] = cc.Val
				nf := append(append([]Cond{}, facts...), cc.Facts...)
				nvia := append([]*ssa.BasicBlock{cc.At}, via...)
				expandRet(r, nv, cc.At, nf, nvia, depth+1, out)
			}
			return
		}
	}
	if !hasPhi || depth > 3 || len(at.Preds) > 16 {
		*out = append(*out, RetCase{Ret: r, Vals: vals, Facts: facts, Via: via})
		return
	}
	for i, pred := range at.Preds {
		nv := make([]ssa.Value, len(vals))
		for k, v := range vals {
			nv[k] = v
			if phi, ok := v.(*ssa.Phi); ok && phi.Block() == at {
				nv[k] = phi.Edges[i]
			}
		}
		nvia := append([]*ssa.BasicBlock{pred}, via...)
		nf := append(append([]Cond{}, facts...), EdgeFactsOn(pred, at)...)
		expandRet(r, nv, pred, nf, nvia, depth+1, out)
	}
}

// cellCases enumerates, for a load of a private local cell that several stores can reach, each reaching
// store together with the facts that hold when it is the one observed: the facts at the store plus the
// branch decisions that every store-to-load path avoiding the other stores has to take.
type cellCase struct {
	Val   ssa.Value
	Facts []Cond
	At    *ssa.BasicBlock
}

func cellCases(load *ssa.UnOp) []cellCase {
	a, ok := load.X.(*ssa.Alloc)
	if !ok || load.Op != token.MUL || !privateCell(a) {
		return nil
	}
	stores := Stores(a)
	if len(stores) < 2 {
		return nil
	}
	pos := func(ins ssa.Instruction) int {
		for i, x := range ins.Block().Instrs {
			if x == ins {
				return i
			}
		}
		return -1
	}
	lb, lpos := load.Block(), pos(load)
	var out []cellCase
	for _, s := range stores {
		// self re-store of the value just loaded (`return err` with named results) is not a definition
		if u, isU := s.Val.(*ssa.UnOp); isU && u.Op == token.MUL && u.X == ssa.Value(a) {
			continue
		}
		sb, spos := s.Block(), pos(s)
		// killed inside its own block?
		killed := false
		for _, t := range stores {
			if t != s && t.Block() == sb && pos(t) > spos && !(sb == lb && pos(t) > lpos) {
				if u, isU := t.Val.(*ssa.UnOp); isU && u.Op == token.MUL && u.X == ssa.Value(a) {
					continue
				}
				killed = true
			}
		}
		if killed {
			continue
		}
		if sb == lb && spos < lpos {
			out = append(out, cellCase{s.Val, EdgeFacts(sb), sb})
			continue
		}
		// kill blocks: blocks holding another (real) store
		kill := map[*ssa.BasicBlock]bool{}
		for _, t := range stores {
			if t == s {
				continue
			}
			if u, isU := t.Val.(*ssa.UnOp); isU && u.Op == token.MUL && u.X == ssa.Value(a) {
				continue
			}
			if t.Block() == lb && pos(t) > lpos {
				continue
			}
			kill[t.Block()] = true
		}
		if kill[lb] {
			// another store precedes the load in the load's block: s cannot be observed
			continue
		}
		// forward from sb (excluding kill blocks), backward from lb
		fwd := map[*ssa.BasicBlock]bool{}
		var f func(b *ssa.BasicBlock)
		f = func(b *ssa.BasicBlock) {
			for _, n := range b.Succs {
				if !fwd[n] && !kill[n] {
					fwd[n] = true
					if n != lb {
						f(n)
					}
				}
			}
		}
		f(sb)
		if !fwd[lb] {
			continue
		}
		bwd := map[*ssa.BasicBlock]bool{lb: true}
		var g func(b *ssa.BasicBlock)
		g = func(b *ssa.BasicBlock) {
			for _, n := range b.Preds {
				if !bwd[n] && (fwd[n] || n == sb) && !kill[n] {
					bwd[n] = true
					if n != sb {
						g(n)
					}
				}
			}
		}
		g(lb)
		facts := append([]Cond{}, EdgeFacts(sb)...)
		for b := range bwd {
			if b == lb && b != sb {
				continue
			}
			if !(b == sb || fwd[b]) || len(b.Succs) != 2 || b.Succs[0] == b.Succs[1] {
				continue
			}
			iff, isIf := b.Instrs[len(b.Instrs)-1].(*ssa.If)
			if !isIf {
				continue
			}
			t, e := bwd[b.Succs[0]] && fwd[b.Succs[0]], bwd[b.Succs[1]] && fwd[b.Succs[1]]
			if t != e {
				facts = append(facts, expandCond(Cond{iff.Cond, t, iff}, 0)...)
			}
		}
		out = append(out, cellCase{s.Val, facts, sb})
	}
	return out
}

// ---------------------------------------------------------------- function values with their environment

// FuncVal is a function value reaching a use together with a way to express the values it reads from its
// environment in the frame of the function that created it: a closure (free variables → bindings), a
// named function (no environment), a bound method value `T{...}.m` (fields of the receiver → the values
// the receiver was built from), or the result of a closure factory.
type FuncVal struct {
	Fn   *ssa.Function
	recv ssa.Value            // bound receiver (method values)
	bind map[string]ssa.Value // free variable name → binding
}

// ResolveFuncValue finds the function a value denotes (nil if unknown).
func ResolveFuncValue(p *Prog, v ssa.Value) *FuncVal {
	v = Resolve(v)
	switch x := v.(type) {
	case *ssa.Function:
		return &FuncVal{Fn: Origin(x)}
	case *ssa.MakeClosure:
		fn := x.Fn.(*ssa.Function)
		if strings.HasSuffix(fn.Name(), "$bound") || strings.Contains(fn.Synthetic, "bound method") {
			// bound method wrapper: calls the method with its single free variable as receiver
			var target *ssa.Function
			Instrs(fn, func(ins ssa.Instruction) {
				if call, ok := ins.(*ssa.Call); ok {
					if g := Callee(&call.Call); g != nil {
						target = g
					}
				}
			})
			if target == nil || len(x.Bindings) != 1 {
				return nil
			}
			return &FuncVal{Fn: target, recv: x.Bindings[0]}
		}
		if bc := ResolveClosure(p, x); bc != nil {
			return &FuncVal{Fn: bc.Fn, bind: bc.Bind}
		}
	case *ssa.Call:
		if bc := ResolveClosure(p, x); bc != nil {
			return &FuncVal{Fn: bc.Fn, bind: bc.Bind}
		}
	}
	return nil
}

// Outer maps a value used inside fv.Fn to the value it denotes in the creating function: a load of a free
// variable to its binding, a field of the bound receiver to the value stored into that field when the
// receiver was built (composite literal); other values are returned resolved but unchanged.
func (fv *FuncVal) Outer(v ssa.Value) ssa.Value {
	v = Resolve(v)
	switch x := v.(type) {
	case *ssa.UnOp:
		if x.Op == token.MUL {
			if f, ok := x.X.(*ssa.FreeVar); ok && fv.bind != nil {
				if b := fv.bind[f.Name()]; b != nil {
					return b
				}
			}
			if fa, ok := x.X.(*ssa.FieldAddr); ok && fv.recv != nil && len(fv.Fn.Params) > 0 {
				if Resolve(fa.X) == ssa.Value(fv.Fn.Params[0]) || isSpillOf(fa.X, fv.Fn.Params[0]) {
					if b := literalField(fv.recv, fa.Field); b != nil {
						return b
					}
				}
			}
		}
	case *ssa.FreeVar:
		if fv.bind != nil {
			if b := fv.bind[x.Name()]; b != nil {
				return b
			}
		}
	case *ssa.Parameter:
		if fv.recv != nil && len(fv.Fn.Params) > 0 && x == fv.Fn.Params[0] {
			return Resolve(fv.recv)
		}
	case *ssa.ChangeType:
		if o := fv.Outer(x.X); o != Resolve(x.X) {
			return o
		}
	case *ssa.Field:
		if fv.recv != nil && len(fv.Fn.Params) > 0 && Resolve(x.X) == ssa.Value(fv.Fn.Params[0]) {
			if b := literalField(fv.recv, x.Field); b != nil {
				return b
			}
		}
	}
	return v
}

// isSpillOf: a is the local cell a value receiver was spilled into.
func isSpillOf(a ssa.Value, prm *ssa.Parameter) bool {
	al, ok := a.(*ssa.Alloc)
	if !ok {
		return false
	}
	st := Stores(al)
	return len(st) == 1 && st[0].Val == ssa.Value(prm)
}

// literalField returns the value stored into field i of the composite literal that recv was loaded from.
func literalField(recv ssa.Value, i int) ssa.Value {
	for d := 0; d < 4; d++ {
		switch x := recv.(type) {
		case *ssa.UnOp:
			if x.Op != token.MUL {
				return nil
			}
			recv = x.X
			continue
		case *ssa.MakeInterface:
			recv = x.X
			continue
		case *ssa.Alloc:
			var val ssa.Value
			n := 0
			for _, r := range *x.Referrers() {
				if fa, ok := r.(*ssa.FieldAddr); ok && fa.Field == i {
					for _, st := range Stores(fa) {
						val = st.Val
						n++
					}
				}
			}
			if n == 1 {
				return Resolve(val)
			}
			return nil
		}
		return nil
	}
	return nil
}

// ---------------------------------------------------------------- deep search / value origins across helper calls

// Found is an instruction located by DeepFind together with the chain of helper calls leading to it
// (outermost first; empty when the instruction is in the root function itself).
type Found struct {
	Ins   ssa.Instruction
	Stack []*ssa.Call
}

// followable: a static callee whose body the deep analyses descend into - an unexported repo function
// or method that is not recursive along the current stack.
func followable(p *Prog, g *ssa.Function, stack []*ssa.Call) bool {
	if g == nil || !p.InRepo(g) || len(g.Blocks) == 0 || g.Parent() != nil {
		return false
	}
	if o := g.Object(); o == nil || o.Exported() {
		return false
	}
	if len(stack) >= 4 {
		return false
	}
	for _, s := range stack {
		if Callee(&s.Call) == g {
			return false
		}
	}
	return true
}

// DeepFind returns the instructions satisfying pred in root and in the unexported helpers it calls
// (transitively, each reached call chain separately).
func DeepFind(p *Prog, root *ssa.Function, pred func(ssa.Instruction) bool) []Found {
	var out []Found
	var walk func(f *ssa.Function, stack []*ssa.Call)
	walk = func(f *ssa.Function, stack []*ssa.Call) {
		dead := map[*ssa.BasicBlock]bool{}
		if len(stack) > 0 {
			for _, b := range f.Blocks {
				dead[b] = InfeasibleUnder(b, stack)
			}
		}
		Instrs(f, func(ins ssa.Instruction) {
			if dead[ins.Block()] {
				return // not reached from this call: it decides a nil test of a parameter the other way
			}
			if pred(ins) {
				out = append(out, Found{ins, append([]*ssa.Call{}, stack...)})
			}
			if call, ok := ins.(*ssa.Call); ok {
				if g := Callee(&call.Call); followable(p, g, stack) {
					walk(g, append(append([]*ssa.Call{}, stack...), call))
				}
			}
		})
	}
	walk(root, nil)
	return out
}

// Up expresses a value of the innermost frame of stack in the outermost frame possible: a parameter of
// the innermost helper becomes the argument of the call that entered it, and so on. It returns the
// value and the remaining stack (the frame the value lives in).
func Up(v ssa.Value, stack []*ssa.Call) (ssa.Value, []*ssa.Call) {
	for i := 0; i < 12; i++ {
		v = Resolve(v)
		prm, ok := v.(*ssa.Parameter)
		if !ok || len(stack) == 0 {
			return v, stack
		}
		top := stack[len(stack)-1]
		g := Callee(&top.Call)
		if g == nil || prm.Parent() != g {
			return v, stack
		}
		idx := -1
		for k, q := range g.Params {
			if q == prm {
				idx = k
			}
		}
		if idx < 0 || idx >= len(top.Call.Args) {
			return v, stack
		}
		v, stack = top.Call.Args[idx], stack[:len(stack)-1]
	}
	return v, stack
}

// Leaf is a leaf a value can come from.
type Leaf struct {
	Val   ssa.Value
	Stack []*ssa.Call
}

// Origins enumerates the leaves a value (living in the innermost frame of stack) can come from, looking
// through phis (every edge), parameters of helpers (the argument of the entering call), results of
// followable helper calls (every return case of the helper) and nil-merged variables.
func Origins(p *Prog, v ssa.Value, stack []*ssa.Call) []Leaf {
	var out []Leaf
	seen := map[ssa.Value]bool{}
	var walk func(v ssa.Value, stack []*ssa.Call, depth int)
	walk = func(v ssa.Value, stack []*ssa.Call, depth int) {
		v, stack = Up(v, stack)
		if depth > 10 || (seen[v] && len(stack) == 0) {
			if depth > 10 {
				out = append(out, Leaf{v, stack})
			}
			return
		}
		seen[v] = true
		switch x := v.(type) {
		case *ssa.Phi:
			for _, e := range x.Edges {
				if e != ssa.Value(x) {
					walk(e, stack, depth+1)
				}
			}
			return
		case *ssa.Extract:
			if call, ok := x.Tuple.(*ssa.Call); ok {
				if g := Callee(&call.Call); followable(p, g, stack) {
					ns := append(append([]*ssa.Call{}, stack...), call)
					for _, rc := range ReturnCases(g) {
						if x.Index < len(rc.Vals) {
							walk(rc.Vals[x.Index], ns, depth+1)
						}
					}
					return
				}
			}
		case *ssa.Call:
			if g := Callee(&x.Call); followable(p, g, stack) && g.Signature.Results().Len() == 1 {
				ns := append(append([]*ssa.Call{}, stack...), x)
				for _, rc := range ReturnCases(g) {
					walk(rc.Vals[0], ns, depth+1)
				}
				return
			}
			// the result of calling a function value that is a closure built in one of the frames (a callback handed to
			// a lock wrapper that passes its result on): what the closure returns
			if Callee(&x.Call) == nil && !x.Call.IsInvoke() && x.Call.Signature().Results().Len() == 1 {
				fv, st := Up(x.Call.Value, stack)
				if mc, isMC := Resolve(fv).(*ssa.MakeClosure); isMC {
					if cf, isF := mc.Fn.(*ssa.Function); isF && len(cf.Blocks) > 0 {
						for _, rc := range ReturnCases(cf) {
							walk(rc.Vals[0], st, depth+1)
						}
						return
					}
				}
			}
		}
		out = append(out, Leaf{v, stack})
	}
	walk(v, stack, 0)
	return out
}

// InfeasibleUnder: block b of a helper cannot be reached when the helper is entered through stack: on the way to b a
// parameter is tested against nil one way while the call passes the nil constant / a value that is never nil (a
// closure, a function, a fresh allocation) for it - `if serialize != nil { … } else { … }` in a helper that one caller
// hands a callback and another nil.
func InfeasibleUnder(b *ssa.BasicBlock, stack []*ssa.Call) bool {
	if len(stack) == 0 {
		return false
	}
	for _, m := range EdgeCmps(b) {
		if !IsNilConst(m.Y) || (m.Op != token.EQL && m.Op != token.NEQ) {
			continue
		}
		prm, ok := Resolve(m.X).(*ssa.Parameter)
		if !ok || prm.Parent() != b.Parent() {
			continue
		}
		v, _ := Up(prm, stack)
		if v == ssa.Value(prm) {
			continue
		}
		isNil, known := false, false
		switch x := Resolve(Unwrap(v)).(type) {
		case *ssa.Const:
			if x.Value == nil {
				isNil, known = true, true
			}
		case *ssa.MakeClosure, *ssa.Function, *ssa.Alloc, *ssa.MakeMap, *ssa.MakeChan, *ssa.MakeSlice:
			known = true
		}
		if known && (isNil && m.Op == token.NEQ || !isNil && m.Op == token.EQL) {
			return true
		}
	}
	return false
}

func skipUnder(skip func(*ssa.BasicBlock) bool, stack []*ssa.Call) func(*ssa.BasicBlock) bool {
	memo := map[*ssa.BasicBlock]bool{}
	return func(b *ssa.BasicBlock) bool {
		if skip != nil && skip(b) {
			return true
		}
		r, ok := memo[b]
		if !ok {
			r = InfeasibleUnder(b, stack)
			memo[b] = r
		}
		return r
	}
}

// DeepCount is PathCount over f where a call of a followable helper weighs what the helper's own paths
// weigh (which must be the same on all of them, otherwise Many). skip is applied in every frame.
func DeepCount(p *Prog, f *ssa.Function, pred func(ssa.Instruction) bool, skip func(*ssa.BasicBlock) bool) (min, max int) {
	var weight func(stack []*ssa.Call) func(ssa.Instruction) int
	weight = func(stack []*ssa.Call) func(ssa.Instruction) int {
		return func(ins ssa.Instruction) int {
			n := 0
			if pred(ins) {
				n++
			}
			if call, ok := ins.(*ssa.Call); ok {
				if g := Callee(&call.Call); followable(p, g, stack) {
					ns := append(append([]*ssa.Call{}, stack...), call)
					mn, mx := PathCount(g, weight(ns), skipUnder(skip, ns))
					if mn != mx {
						if mx > 0 {
							return Many
						}
					} else if mn > 0 {
						n += mn
					}
				}
			}
			return n
		}
	}
	return PathCount(f, weight(nil), skip)
}

// DeepMin is the least number of pred instructions on any path of f, a call of a followable helper weighing the
// least its own paths weigh.
func DeepMin(p *Prog, f *ssa.Function, pred func(ssa.Instruction) bool, skip func(*ssa.BasicBlock) bool) int {
	var weight func(stack []*ssa.Call) func(ssa.Instruction) int
	weight = func(stack []*ssa.Call) func(ssa.Instruction) int {
		return func(ins ssa.Instruction) int {
			n := 0
			if pred(ins) {
				n++
			}
			if call, ok := ins.(*ssa.Call); ok {
				if g := Callee(&call.Call); followable(p, g, stack) {
					ns := append(append([]*ssa.Call{}, stack...), call)
					mn, _ := PathCount(g, weight(ns), skipUnder(skip, ns))
					n += mn
				}
			}
			return n
		}
	}
	mn, _ := PathCount(f, weight(nil), skip)
	return mn
}

// LiteralField returns the value stored into the named field of the composite literal v was loaded from.
func LiteralField(v ssa.Value, name string) ssa.Value {
	t := v.Type()
	if pt, ok := t.Underlying().(*types.Pointer); ok {
		t = pt.Elem()
	}
	st, ok := t.Underlying().(*types.Struct)
	if !ok {
		return nil
	}
	for i := 0; i < st.NumFields(); i++ {
		if st.Field(i).Name() == name {
			return literalField(v, i)
		}
	}
	return nil
}

// ReceiverFieldPath: for a bound method value, the access path (in the frame that built the receiver) of the
// value stored into the receiver field that the method-frame path `recv.field…` starts with; "" if unknown.
func ReceiverFieldPath(bound *ssa.MakeClosure, method *ssa.Function, path string) string {
	if bound == nil || len(bound.Bindings) != 1 || len(method.Params) == 0 {
		return ""
	}
	rn := method.Params[0].Name()
	if !strings.HasPrefix(path, rn+".") {
		return ""
	}
	rest := path[len(rn)+1:]
	field, tail, _ := strings.Cut(rest, ".")
	v := LiteralField(bound.Bindings[0], field)
	if v == nil {
		return ""
	}
	if tail != "" {
		return Path(v) + "." + tail
	}
	return Path(v)
}

// ThinTarget: when the body of fn does nothing but call one repo function with values it already has and
// return that call's results (a closure kept only to defer the call: `func() T { return x.helper(a, b) }`),
// ThinTarget returns that function and the call; otherwise nil.
func ThinTarget(p *Prog, fn *ssa.Function) (*ssa.Function, *ssa.Call) {
	if fn == nil || len(fn.Blocks) != 1 {
		return nil, nil
	}
	var call *ssa.Call
	n := 0
	ok := true
	for _, ins := range fn.Blocks[0].Instrs {
		switch x := ins.(type) {
		case *ssa.Call:
			if _, isB := x.Call.Value.(*ssa.Builtin); isB {
				ok = false
			}
			call = x
			n++
		case *ssa.Return:
			for _, r := range RetVals(x) {
				rv := Resolve(r)
				if rv == ssa.Value(call) {
					continue
				}
				if ex, isE := rv.(*ssa.Extract); isE && ex.Tuple == ssa.Value(call) {
					continue
				}
				ok = false
			}
		case *ssa.UnOp, *ssa.FieldAddr, *ssa.Field, *ssa.Extract, *ssa.DebugRef, *ssa.MakeInterface, *ssa.ChangeType, *ssa.Alloc, *ssa.Store, *ssa.IndexAddr, *ssa.Slice, *ssa.MakeChan, *ssa.MakeMap, *ssa.MakeSlice, *ssa.MakeClosure:
		default:
			ok = false
		}
	}
	if !ok || n != 1 || call == nil {
		return nil, nil
	}
	g := Callee(&call.Call)
	if g == nil || !p.InRepo(g) || len(g.Blocks) == 0 {
		return nil, nil
	}
	return g, call
}


// ExpandReturnCases: ReturnCases(f), where a case that returns exactly the results of one call of an unexported helper
// of the repository (`return receivedOrClosed(val, ok)`) is replaced by the helper's own return cases, read in f's
// frame: the helper's parameters become the arguments, its path conditions on a parameter become conditions on the
// argument (conditions on anything else are dropped).
func ExpandReturnCases(p *Prog, f *ssa.Function) []RetCase {
	var out []RetCase
	for _, rc := range ReturnCases(f) {
		var hc *ssa.Call
		ok := len(rc.Vals) > 0
		for i, v := range rc.Vals {
			rv := Resolve(v)
			var c2 *ssa.Call
			if ex, isE := rv.(*ssa.Extract); isE && ex.Index == i {
				c2, _ = ex.Tuple.(*ssa.Call)
			} else if cc, isC := rv.(*ssa.Call); isC && len(rc.Vals) == 1 {
				c2 = cc
			}
			if c2 == nil || (hc != nil && hc != c2) {
				ok = false
				break
			}
			hc = c2
		}
		var h *ssa.Function
		if ok && hc != nil {
			h = Callee(&hc.Call)
		}
		if h == nil || !p.InRepo(h) || len(h.Blocks) == 0 || h == f || h.Object() == nil || h.Object().Exported() || h.Signature.Results().Len() != len(rc.Vals) {
			out = append(out, rc)
			continue
		}
		up := func(v ssa.Value) (ssa.Value, bool) {
			r := Resolve(v)
			for i, prm := range h.Params {
				if r == ssa.Value(prm) && i < len(hc.Call.Args) {
					return hc.Call.Args[i], true
				}
			}
			return v, false
		}
		for _, rc2 := range ReturnCases(h) {
			nc := RetCase{Ret: rc.Ret, Via: rc.Via}
			nc.Facts = append(nc.Facts, rc.Facts...)
			for _, cnd := range rc2.Facts {
				n := Normalize(cnd)
				if a, isP := up(n.V); isP {
					nc.Facts = append(nc.Facts, Cond{V: a, True: n.True, If: cnd.If})
				} else {
					nc.Facts = append(nc.Facts, cnd) // a fact about values of the helper's own frame
				}
			}
			for _, v := range rc2.Vals {
				a, _ := up(v)
				nc.Vals = append(nc.Vals, a)
			}
			out = append(out, nc)
		}
	}
	return out
}

// SameParamsImpl: while f only forwards all of its parameters, in order (possibly followed by constants for the extra
// parameters of a more general form), to one function of the repository and returns that function's results
// (`func (q) Shift() (T, error) { return q.removeFirst() }`, `Schedule…(fn, d) = Schedule…AndRetry(fn, d, 0)`), the
// function that does the work; f itself otherwise. Parameter positions are the same in both, so a rule written for f
// reads the implementation as is (the constant-valued extra parameters are the rule's business).
func SameParamsImpl(p *Prog, f *ssa.Function) *ssa.Function {
	for depth := 0; depth < 3 && f != nil; depth++ {
		tgt, call := ThinTarget(p, f)
		if tgt == nil || tgt == f || len(call.Call.Args) < len(f.Params) || len(tgt.Params) != len(call.Call.Args) {
			return f
		}
		for i, a := range call.Call.Args {
			if i < len(f.Params) {
				if Resolve(a) != ssa.Value(f.Params[i]) {
					return f
				}
			} else {
				switch Unwrap(a).(type) {
				case *ssa.Const, *ssa.MakeChan, *ssa.MakeMap, *ssa.MakeSlice:
					// extra arguments of the general form: constants or freshly made values (`…ByOptions(a, make(chan T), 0)`)
				default:
					return f
				}
			}
		}
		f = tgt
	}
	return f
}

// ReturnedClosure: the closure of f that f returns (directly, through conversions, or as the result of a call it is
// handed to - `return Wrap(func…)`) on its non-error returns; nil when there is none or it is not unique. Other closures
// of f (deferred functions, trace helpers) do not matter.
func ReturnedClosure(p *Prog, f *ssa.Function) *ssa.Function {
	var out *ssa.Function
	n := 0
	Instrs(f, func(ins ssa.Instruction) {
		r, ok := ins.(*ssa.Return)
		if !ok || r.Block() == f.Recover || len(r.Results) == 0 {
			return
		}
		v := Unwrap(Resolve(RetVals(r)[0]))
		if fv := ResolveFuncValue(p, v); fv != nil && fv.Fn.Parent() == f {
			if out != fv.Fn {
				n++
			}
			out = fv.Fn
		}
	})
	if n != 1 {
		return nil
	}
	return out
}

// ClosureArgOf: the closure of f that is passed as an argument of a call satisfying pred (unique), nil otherwise.
func ClosureArgOf(p *Prog, f *ssa.Function, pred func(*ssa.CallCommon) bool) *ssa.Function {
	var out *ssa.Function
	n := 0
	Instrs(f, func(ins ssa.Instruction) {
		ci, ok := ins.(ssa.CallInstruction)
		if !ok || !pred(ci.Common()) {
			return
		}
		for _, a := range ci.Common().Args {
			if fv := ResolveFuncValue(p, Unwrap(a)); fv != nil && fv.Fn.Parent() == f {
				if out != fv.Fn {
					n++
				}
				out = fv.Fn
			}
		}
	})
	if n != 1 {
		return nil
	}
	return out
}

// ClosureContaining: the closure in f's nest (unique) that contains an instruction satisfying pred.
func ClosureContaining(f *ssa.Function, pred func(ssa.Instruction) bool) *ssa.Function {
	var out *ssa.Function
	n := 0
	var visit func(g *ssa.Function)
	visit = func(g *ssa.Function) {
		for _, a := range g.AnonFuncs {
			has := false
			Instrs(a, func(ins ssa.Instruction) {
				if pred(ins) {
					has = true
				}
			})
			if has {
				out = a
				n++
			}
			visit(a)
		}
	}
	visit(f)
	if n != 1 {
		return nil
	}
	return out
}
